/-
  C03 — classic tab-separated export / import.

  Model of: `Table.delimited_self` / `to_tsv` (biom/table.py), `Table._extract_data_from_tsv`,
  `Table.from_tsv` and the part of the constructor that `from_tsv` reaches (list of
  `[row, col, value]` entries with an announced shape, `errcheck`).

  Text is `List Char`.  A line is a text; fields are obtained with `split '\t'`, exactly as the
  code does, so the header detection (`strip`, `startswith('#')`), the "last column is metadata
  unless it parses as a number in every data row" heuristic (`rsplit(delim, 1)[-1].strip()`) and the
  stripping of the last field are transcribed statement by statement.

  External functions are parameters: `NumIO.fmt` stands for `str(numpy.float64)`, `NumIO.parse`
  for Python's `float(text)` (`none` = ValueError); the metadata formatter and the processing
  function are user functions.
-/
import BiomModel.Codec
open Lean

namespace Biom.C03

abbrev Text := List Char

/-- Python `str.isspace` for one character. -/
def ws (c : Char) : Bool :=
  let n := c.toNat
  (9 ≤ n && n ≤ 13) || (28 ≤ n && n ≤ 32) || n == 0x85 || n == 0xa0 || n == 0x1680 ||
  (0x2000 ≤ n && n ≤ 0x200a) || n == 0x2028 || n == 0x2029 || n == 0x202f || n == 0x205f ||
  n == 0x3000

def lstrip (s : Text) : Text := s.dropWhile ws
/-- `s.rstrip()`: the shortest prefix after which only blanks follow -/
def rstrip : Text → Text
  | [] => []
  | c :: t =>
    match rstrip t with
    | [] => if ws c then [] else [c]
    | r => c :: r
/-- `s.strip()` -/
def strip (s : Text) : Text := lstrip (rstrip s)

def consHead (c : Char) : List Text → List Text
  | [] => [[c]]
  | f :: fs => (c :: f) :: fs

/-- `s.split(d)` for a one-character delimiter -/
def split (d : Char) : Text → List Text
  | [] => [[]]
  | c :: cs => if c = d then [] :: split d cs else consHead c (split d cs)

/-- `d.join(fields)` -/
def join (d : Char) : List Text → Text
  | [] => []
  | [f] => f
  | f :: g :: fs => f ++ d :: join d (g :: fs)

/-- `s.rsplit(d, 1)[-1]` -/
def afterLast (d : Char) : Text → Text
  | [] => []
  | c :: t => if t.contains d then afterLast d t else if c = d then t else c :: t

/-- `s.startswith('#')` -/
def startsHash : Text → Bool
  | c :: _ => c == '#'
  | [] => false

/-- the two external number/text functions -/
structure NumIO (α : Type) where
  fmt : α → Text
  parse : Text → Option α

/-! ### Export: `delimited_self` -/

/-- What `delimited_self` reads from the table and its arguments.  `md` = `md.get(header_key)` of
every observation (`none`: the table has no observation metadata). -/
structure Export (α μ : Type) where
  obs : List Text
  samp : List Text
  rows : List (List α)
  md : Option (List μ) := none
  headerKey : Option Text := none
  headerValue : Option Text := none
  colName : Text := "#OTU ID".toList

/-- Python truthiness of `None | str` -/
def truthy : Option Text → Bool
  | some (_ :: _) => true
  | _ => false

def line0 : Text := "# Constructed from biom file".toList

def headerLine (e : Export α μ) : Text :=
  let base := e.colName ++ '\t' :: join '\t' e.samp
  if truthy e.headerValue then base ++ '\t' :: e.headerValue.getD [] else base

def baseLine (io : NumIO α) (o : Text) (r : List α) : Text :=
  o ++ '\t' :: join '\t' (r.map io.fmt)

/-- formatted metadata column, present iff `header_key and obs_metadata is not None` -/
def mdTexts (fmtMd : μ → Text) (e : Export α μ) : Option (List Text) :=
  if truthy e.headerKey then e.md.map (·.map fmtMd) else none

def dataLines (io : NumIO α) (obs : List Text) (rows : List (List α)) : Option (List Text) → List Text
  | none => List.zipWith (baseLine io) obs rows
  | some ms => List.zipWith (fun (or : Text × List α) m => baseLine io or.1 or.2 ++ '\t' :: m) (obs.zip rows) ms

/-- `to_tsv` as the list of lines that are joined with '\n' -/
def toTsv (io : NumIO α) (fmtMd : μ → Text) (e : Export α μ) : Except Err (List Text) :=
  if e.obs.isEmpty || e.samp.isEmpty then .error .tableException
  else if e.headerKey.isSome != e.headerValue.isSome then .error .tableException
  else .ok (line0 :: headerLine e :: dataLines io e.obs e.rows (mdTexts fmtMd e))

/-- the returned text -/
def toText (lines : List Text) : Text := join '\n' lines

/-! ### Import: `_extract_data_from_tsv` -/

structure Extracted (α : Type) where
  samp : List Text
  obs : List Text
  triples : List (Nat × Nat × α)
  md : Option (List Text)
  mdName : Option Text
  deriving Repr, DecidableEq

/-- `not header` for `header = False | list` -/
def falsy : Option (List Text) → Bool
  | none => true
  | some [] => true
  | _ => false

/-- the header loop; returns `(header, data_start)`.  A blank line does not advance `list_index`. -/
def findHeader : List Text → Option (List Text) → Nat → Option (List Text) × Nat
  | [], h, _ => (h, 0)
  | l :: ls, h, i =>
    if strip l = [] then findHeader ls h i
    else if !startsHash l then
      if falsy h then (some ((split '\t' (rstrip l)).tail), i + 1) else (h, i)
    else findHeader ls (some ((split '\t' (strip l)).tail)) (i + 1)

/-- `fields[-1] = fields[-1].strip()` -/
def stripLast : List Text → List Text
  | [] => []
  | [f] => [strip f]
  | f :: g :: fs => f :: stripLast (g :: fs)

def parseAll (io : NumIO α) : List Text → Option (List α)
  | [] => some []
  | f :: fs =>
    match io.parse f with
    | none => none
    | some v =>
      match parseAll io fs with
      | none => none
      | some vs => some (v :: vs)

/-- the inner loop over one parsed row: non-zero values become `[row, column, value]` -/
def rowTriples [Zero α] [DecidableEq α] (i : Nat) : Nat → List α → List (Nat × Nat × α)
  | _, [] => []
  | j, v :: vs => if v = 0 then rowTriples i (j + 1) vs else (i, j, v) :: rowTriples i (j + 1) vs

/-- the data loop over the lines from `data_start` on, `i` = `row_number`: (obs_ids, data, metadata) -/
def dataLoop [Zero α] [DecidableEq α] (io : NumIO α) (numeric : Bool) :
    List Text → Nat → Except Err (List Text × List (Nat × Nat × α) × List Text)
  | [], _ => .ok ([], [], [])
  | l :: ls, i =>
    if strip l = [] then dataLoop io numeric ls i
    else if startsHash l then dataLoop io numeric ls i
    else
      let fields := stripLast (split '\t' l)
      let valFields := if numeric then fields.drop 1 else (fields.drop 1).dropLast
      match parseAll io valFields with
      | none => .error .type
      | some vals =>
        match dataLoop io numeric ls (i + 1) with
        | .error e => .error e
        | .ok (os, ts, ms) =>
          .ok (fields.headD [] :: os, rowTriples i 0 vals ++ ts,
               if numeric then ms else (fields.getLast?.getD []) :: ms)

def extractData [Zero α] [DecidableEq α] (io : NumIO α) (lines : List Text) : Except Err (Extracted α) :=
  let hd := findHeader lines none 0
  let dataStart := hd.2
  let body := lines.drop dataStart
  let numeric := body.all (fun l => (io.parse (strip (afterLast '\t' l))).isSome)
  match hd.1 with
  | none => .error .type
  | some h =>
    if numeric || dataStart == 0 then
      match dataLoop io numeric body 0 with
      | .error e => .error e
      | .ok (os, ts, _) => .ok { samp := h, obs := os, triples := ts, md := none, mdName := none }
    else
      match h.getLast? with
      | none => .error .index
      | some nm =>
        match dataLoop io false body 0 with
        | .error e => .error e
        | .ok (os, ts, ms) => .ok { samp := h.dropLast, obs := os, triples := ts, md := some ms, mdName := some nm }

/-! ### `from_tsv` and the constructor -/

structure Imported (α ν : Type) where
  obs : List Text
  samp : List Text
  rows : List (List α)
  /-- category name and processed value per observation -/
  omd : Option (List (Text × ν))
  deriving Repr, DecidableEq

/-- the value the sparse matrix holds at (i, j) (entries produced by `dataLoop` never share a cell) -/
def cellOf [Zero α] (ts : List (Nat × Nat × α)) (i j : Nat) : α :=
  match ts.find? (fun t => t.1 == i && t.2.1 == j) with
  | some t => t.2.2
  | none => 0

def gridOf [Zero α] (n m : Nat) (ts : List (Nat × Nat × α)) : List (List α) :=
  (List.range n).map (fun i => (List.range m).map (fun j => cellOf ts i j))

def fromTsv [Zero α] [DecidableEq α] (io : NumIO α) (proc : Text → ν) (lines : List Text) :
    Except Err (Imported α ν) :=
  match extractData io lines with
  | .error e => .error e
  | .ok x =>
    let n := x.obs.length
    let m := x.samp.length
    -- scipy refuses an entry outside the announced shape
    if x.triples.any (fun t => decide (n ≤ t.1) || decide (m ≤ t.2.1)) then .error .value
    -- errcheck: `empty` (ignored) is visited first and masks the rest; else duplicated IDs are refused
    else if n != 0 && m != 0 && !(decide x.obs.Nodup && decide x.samp.Nodup) then .error .tableException
    else .ok { obs := x.obs, samp := x.samp, rows := gridOf n m x.triples,
               omd := match x.md, x.mdName with
                 | some ms, some nm => some (ms.map (fun s => (nm, proc s)))
                 | _, _ => none }

/-- `biom convert` from a classic table: `load_table` (no processing function), then
`--process-obs-metadata` applied to the single category afterwards; it is refused when the table
came without a metadata column. -/
def cliImport [Zero α] [DecidableEq α] (io : NumIO α) (ident proc : Text → ν) (requested : Bool)
    (lines : List Text) : Except Err (Imported α ν) :=
  match fromTsv io (fun s => s) lines with
  | .error e => .error e
  | .ok t =>
    let retag (f : Text → ν) : Imported α ν :=
      { obs := t.obs, samp := t.samp, rows := t.rows, omd := t.omd.map (·.map (fun p => (p.1, f p.2))) }
    if requested then
      (if t.omd.isNone then .error .value else .ok (retag proc))
    else .ok (retag ident)

/-- export then import, the composition the property is about -/
def roundTrip [Zero α] [DecidableEq α] (io : NumIO α) (fmtMd : μ → Text) (proc : Text → ν)
    (eol : Text) (e : Export α μ) : Except Err (Imported α ν) :=
  match toTsv io fmtMd e with
  | .error err => .error err
  | .ok lines => fromTsv io proc (lines.map (· ++ eol))

/-! ### The property, on observations -/

/-- value of (observation ID, sample ID) in a grid with the given ID lists -/
def cellBy (obs samp : List Text) (rows : List (List α)) (o s : Text) : Option α :=
  (rows[obs.idxOf o]?).bind (·[samp.idxOf s]?)

/-- is a category exported (header column and metadata column both written)? -/
def exported (e : Export α μ) : Bool := truthy e.headerKey && truthy e.headerValue && e.md.isSome

/-- `holds e r`: `r` is what re-importing the exported text of `e` gave.  IDs of both axes equal
in order; every (observation, sample) value equal, looked up by ID; the matrix has the shape of
the ID lists; an exported category is found under the header value with the original values. -/
def holdsV [DecidableEq α] [DecidableEq μ] (e : Export α μ) (r : Except Err (Imported α μ)) : Codec.Verdict :=
  match r with
  | .error _ => some "import_ok"
  | .ok t =>
    Codec.allV [
      Codec.chk "ids_obs" (decide (t.obs = e.obs)),
      Codec.chk "ids_samp" (decide (t.samp = e.samp)),
      Codec.chk "shape" (t.rows.length == t.obs.length && t.rows.all (·.length == t.samp.length)),
      Codec.chk "grid" (e.obs.all (fun o => e.samp.all (fun s =>
        decide (cellBy t.obs t.samp t.rows o s = cellBy e.obs e.samp e.rows o s)))),
      Codec.chk "metadata" (if exported e then
        decide (t.omd = e.md.map (·.map (fun x => (e.headerValue.getD [], x)))) else true)]

def holds [DecidableEq α] [DecidableEq μ] (e : Export α μ) (r : Except Err (Imported α μ)) : Bool :=
  (holdsV e r).isNone

/-! ### The guard of the property, as decidable checks -/

def noLeadB : Text → Bool
  | [] => true
  | c :: _ => !ws c

def noTrailB (s : Text) : Bool :=
  match s.getLast? with
  | none => true
  | some c => !ws c

/-- non-empty, no tab, no blank at either end -/
def fieldOkB (s : Text) : Bool := !s.isEmpty && !s.contains '\t' && noLeadB s && noTrailB s

/-- an observation ID: a field that does not start with '#' -/
def idOkB (s : Text) : Bool := fieldOkB s && !startsHash s

/-- the float-text contract on one value -/
def numOkB [DecidableEq α] (io : NumIO α) (v : α) : Bool :=
  decide (io.parse (io.fmt v) = some v) && !(io.fmt v).contains '\t' && noLeadB (io.fmt v) &&
  noTrailB (io.fmt v)

def tableOkB [DecidableEq α] (io : NumIO α) (e : Export α μ) : Bool :=
  !e.obs.isEmpty && !e.samp.isEmpty && e.obs.all idOkB && e.samp.all fieldOkB &&
  decide e.obs.Nodup && decide e.samp.Nodup && e.rows.length == e.obs.length &&
  e.rows.all (fun r => r.length == e.samp.length) && e.rows.all (fun r => r.all (numOkB io)) &&
  !e.colName.isEmpty && !e.colName.contains '\t' && noLeadB e.colName

/-- no category requested, or: key and header value given, the table has the category for every
observation, no formatted text contains a tab, NOT every formatted text parses as a number, and the
processing function inverts the formatter on the (stripped) texts -/
def mdOkB [DecidableEq μ] (io : NumIO α) (fmtMd : μ → Text) (proc : Text → μ) (e : Export α μ) : Bool :=
  match e.headerKey, e.headerValue with
  | none, none => true
  | some hk, some hv =>
    !hk.isEmpty && fieldOkB hv &&
    (match e.md with
     | none => false
     | some ms =>
       ms.length == e.obs.length && ms.all (fun x => !(fmtMd x).contains '\t') &&
       ms.any (fun x => (io.parse (strip (fmtMd x))).isNone) &&
       ms.all (fun x => decide (proc (strip (fmtMd x)) = x)))
  | _, _ => false

def guardB [DecidableEq α] [DecidableEq μ] (io : NumIO α) (fmtMd : μ → Text) (proc : Text → μ)
    (e : Export α μ) : Bool := tableOkB io e && mdOkB io fmtMd proc e

/-- a line end: blanks without a tab -/
def eolOkB (e : Text) : Bool := e.all ws && !e.contains '\t'

/-! ### The named family of formatters / processing functions of `biom convert` -/

inductive MdVal where
  | text (s : Text)
  | list (xs : List Text)
  deriving Repr, DecidableEq

/-- `sep.join(xs)` -/
def joinS (sep : Text) : List Text → Text
  | [] => []
  | [f] => f
  | f :: g :: fs => f ++ sep ++ joinS sep (g :: fs)

/-- `'; '.join(x)` (a text is iterated character by character, as Python does) -/
def fmtSc : MdVal → Text
  | .list xs => joinS "; ".toList xs
  | .text s => joinS "; ".toList (s.map (fun c => [c]))

/-- `[e.strip() for e in x.split(';')]` -/
def procSc (s : Text) : MdVal := .list ((split ';' s).map strip)

def fmtNaive : MdVal → Text
  | .text s => s
  | .list xs => joinS [] xs

def procNaive (s : Text) : MdVal := .text s

def formatterOf (name : String) : MdVal → Text :=
  if name == "sc_separated" then fmtSc else fmtNaive

def processorOf (name : String) : Text → MdVal :=
  if name == "sc_separated" || name == "taxonomy" then procSc else procNaive

/-! ### Driver side: numbers with the two non-finite texts `float()` accepts, oracles, JSON -/

inductive Num where
  | fin (q : Rat)
  | special (s : String)
  deriving Repr, DecidableEq

instance : Zero Num := ⟨.fin 0⟩

open Codec

def asNum (j : Json) : R Num :=
  match j with
  | .obj _ => do pure (.special (← strF j "special"))
  | v => do pure (.fin (← asRat v))

def numToJson : Num → Json
  | .fin q => ratToJson q
  | .special s => Json.mkObj [("special", .str s)]

def asText (j : Json) : R Text := do pure (← asStr j).toList
def textToJson (t : Text) : Json := .str (String.ofList t)
def textsToJson (ts : List Text) : Json := .arr (ts.map textToJson).toArray

def asMdVal (j : Json) : R MdVal :=
  match j with
  | .str s => pure (.text s.toList)
  | v => do pure (.list (← asList asText v))

def mdValToJson : MdVal → Json
  | .text s => textToJson s
  | .list xs => textsToJson xs

/-- oracle for `str(float64)`: pairs (value, text); a missing value prints as "?" (reported by the harness) -/
def fmtOracle (tbl : List (Num × Text)) (v : Num) : Text :=
  match tbl.find? (fun p => p.1 == v) with
  | some p => p.2
  | none => "?missing-fmt".toList

/-- oracle for `float(text)`: pairs (text, value | null) -/
def parseOracle (tbl : List (Text × Option Num)) (s : Text) : Option Num :=
  match tbl.find? (fun p => p.1 == s) with
  | some p => p.2
  | none => some (.special "?missing-parse")

def asIO (req : Json) : R (NumIO Num) := do
  let f ← listF (fun p => do
      match (← asArr p) with
      | [a, b] => pure ((← asNum a), (← asText b))
      | _ => .error "fmt pair") req "fmtOracle"
  let p ← listF (fun p => do
      match (← asArr p) with
      | [a, b] => pure ((← asText a), (← asOpt asNum b))
      | _ => .error "parse pair") req "parseOracle"
  pure { fmt := fmtOracle f, parse := parseOracle p }

def asExport (j : Json) : R (Export Num MdVal) := do
  let obs ← listF asText j "obs"
  let samp ← listF asText j "samp"
  let rows ← listF (asList asNum) j "rows"
  let md ← optF (asList asMdVal) j "md"
  let hk ← optF asText j "headerKey"
  let hv ← optF asText j "headerValue"
  let cn ← optF asText j "colName"
  pure { obs, samp, rows, md, headerKey := hk, headerValue := hv, colName := cn.getD "#OTU ID".toList }

def asImported (j : Json) : R (Except Err (Imported Num MdVal)) := do
  match optFld j "error" with
  | some e => pure (.error (asErr (← asStr e)))
  | none =>
    let obs ← listF asText j "obs"
    let samp ← listF asText j "samp"
    let rows ← listF (asList asNum) j "rows"
    let omd ← optF (asList (fun p => do
      match (← asArr p) with
      | [a, b] => pure ((← asText a), (← asMdVal b))
      | _ => .error "omd pair")) j "omd"
    pure (.ok { obs, samp, rows, omd })

def importedToJson : Except Err (Imported Num MdVal) → Json
  | .error e => errToJson e
  | .ok t => Json.mkObj [("obs", textsToJson t.obs), ("samp", textsToJson t.samp),
      ("rows", .arr (t.rows.map (fun r => Json.arr (r.map numToJson).toArray)).toArray),
      ("omd", optToJson (fun l => Json.arr (l.map (fun p => Json.arr #[textToJson p.1, mdValToJson p.2])).toArray) t.omd)]

def extractedToJson : Except Err (Extracted Num) → Json
  | .error e => errToJson e
  | .ok x => Json.mkObj [("samp", textsToJson x.samp), ("obs", textsToJson x.obs),
      ("triples", .arr (x.triples.map (fun t => Json.arr #[toJson t.1, toJson t.2.1, numToJson t.2.2])).toArray),
      ("md", optToJson textsToJson x.md), ("mdName", optToJson textToJson x.mdName)]

def linesToJson : Except Err (List Text) → Json
  | .error e => errToJson e
  | .ok ls => textsToJson ls

/-- requests:
  {"op":"roundtrip", "export":…, "formatter":…, "fmtOracle":…, "parseOracle":…,
   "implLines": [...] | {"error":…},
   "results":[{"route":…, "lines":[what the reader yields], "processor":…, "checkMd":bool,
               "table": imported | {"error":…}}…]}
  {"op":"extract", "lines":[…], "parseOracle":…, "impl": extracted | {"error":…}}
  {"op":"ws"}  → code points Lean's `ws` accepts -/
def handle (req : Json) : R Json := do
  match (← strF req "op") with
  | "ws" =>
    let cps := (List.range 0x3100).filter (fun n => ws (Char.ofNat n))
    pure (Json.mkObj [("ws", natsToJson cps)])
  | "extract" =>
    let lines ← listF asText req "lines"
    let p ← listF (fun p => do
      match (← asArr p) with
      | [a, b] => pure ((← asText a), (← asOpt asNum b))
      | _ => .error "parse pair") req "parseOracle"
    let io : NumIO Num := { fmt := fun _ => [], parse := parseOracle p }
    let mj := extractedToJson (extractData io lines)
    let ij ← fld req "impl"
    pure (Json.mkObj [("holds", true), ("clause", .null), ("agree", .bool (mj.compress == ij.compress)), ("model", mj)])
  | "roundtrip" =>
    let e ← asExport (← fld req "export")
    let io ← asIO req
    let fmtMd := formatterOf (← strF req "formatter")
    let mlines := toTsv io fmtMd e
    let mlj := linesToJson mlines
    let ilj ← fld req "implLines"
    let results ← listF (fun r => do
      pure ((← strF r "route"), (← listF asText r "lines"), (← strF r "processor"), (← boolF r "checkMd"),
            (← boolFD r "cli" false), (← boolFD r "requested" false), (← boolFD r "agreeMd" true),
            (← fld r "table"))) req "results"
    let mut verdict : Verdict := none
    let mut agree := mlj.compress == ilj.compress
    let mut what : List String := if agree then [] else ["to_tsv lines"]
    let mut models : List (String × Json) := []
    let mut mh := true
    -- the theorem's hypotheses, with the formatter's own inverse as processing function
    let guard := guardB io fmtMd (processorOf (← strF req "formatter")) e
    for (route, lines, pname, checkMd, cli, requested, agreeMd, tj) in results do
      let imp ← asImported tj
      let e' : Export Num MdVal := if checkMd then e else { e with md := none }
      match holdsV e' imp with
      | some c => if verdict.isNone then verdict := some (c ++ "@" ++ route)
      | none => pure ()
      let proc := processorOf pname
      -- the model's importer on the lines the reader handed to the real importer
      let m := if cli then cliImport io procNaive proc requested lines else fromTsv io proc lines
      let mj := importedToJson m
      let dropMd (x : Except Err (Imported Num MdVal)) : Except Err (Imported Num MdVal) :=
        if agreeMd then x else x.map (fun t => { t with omd := none })
      if (importedToJson (dropMd m)).compress != (importedToJson (dropMd imp)).compress then
        agree := false
        what := what ++ ["from_tsv@" ++ route]
      -- the theorem's composition: model export, uniform line end, model import
      let eol : Text := if lines.all (fun l => l.getLast? == some '\n') then ['\n'] else []
      mh := mh && holds e' (roundTrip io fmtMd proc eol e)
      models := models ++ [(route, mj)]
    pure (Json.mkObj (verdictToJson verdict ++ [("agree", .bool agree), ("what", strsToJson what),
      ("model_holds", .bool mh), ("guard", .bool guard),
      ("model", Json.mkObj [("lines", mlj), ("imported", Json.mkObj models)])]))
  | s => .error s!"bad op {s}"

end Biom.C03
