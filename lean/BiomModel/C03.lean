import BiomModel.Codec
open Lean
namespace Biom.C03
/-- stub: not built yet -/
def handle (_req : Json) : Codec.R Json := .error "C03: model not built yet"
end Biom.C03
