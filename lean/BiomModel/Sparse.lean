/-
  BiomModel.Sparse — flat compressed-sparse representation (CSR when major = row, CSC when
  major = column), as scipy keeps it and as the Cython kernels walk it.
  Kernel models read it with bounds-checked accessors; theorems quantify over every `WF` layout:
  any index order inside a vector, stored zeros allowed unless `NoStoredZeros` is assumed.
-/
import BiomModel.Basic

namespace Biom

variable {α : Type}

structure CS (α : Type) where
  nMajor : Nat
  nMinor : Nat
  indptr : List Nat
  indices : List Nat
  data : List α
  deriving Repr, DecidableEq, BEq

/-- bounds-checked read, as Cython's boundscheck: out of range is an explicit error -/
def getE (a : List β) (i : Nat) : Except Err β :=
  match a[i]? with
  | some x => .ok x
  | none => .error .index

/-- bounds-checked in-place write -/
def putE (a : List β) (i : Nat) (x : β) : Except Err (List β) :=
  if i < a.length then .ok (a.set i x) else .error .index

namespace CS

/-- entries (minor index, value) of major vector `i`, in storage order -/
def slice (cs : CS α) (i : Nat) : List (Nat × α) :=
  let s := cs.indptr.getD i 0
  let e := cs.indptr.getD (i + 1) 0
  ((cs.indices.drop s).take (e - s)).zip ((cs.data.drop s).take (e - s))

/-- value of minor position `j` in a list of entries: first stored entry with that index, else 0 -/
def entryAt [Zero α] (ents : List (Nat × α)) (j : Nat) : α :=
  match ents.find? (fun e => e.1 == j) with
  | some e => e.2
  | none => 0

def denseVec [Zero α] (n : Nat) (ents : List (Nat × α)) : List α :=
  (List.range n).map (entryAt ents)

/-- dense content, one list per major vector -/
def toDense [Zero α] (cs : CS α) : List (List α) :=
  (List.range cs.nMajor).map (fun i => denseVec cs.nMinor (cs.slice i))

/-- scipy's structural invariant for a compressed matrix (index order free, stored zeros allowed) -/
structure WF (cs : CS α) : Prop where
  ptrLen : cs.indptr.length = cs.nMajor + 1
  ptrZero : cs.indptr[0]? = some 0
  ptrMono : ∀ i, i < cs.nMajor → cs.indptr.getD i 0 ≤ cs.indptr.getD (i + 1) 0
  ptrLast : cs.indptr.getD cs.nMajor 0 = cs.data.length
  sameLen : cs.indices.length = cs.data.length
  inRange : ∀ j ∈ cs.indices, j < cs.nMinor
  distinct : ∀ i, i < cs.nMajor → ((cs.slice i).map (·.1)).Nodup

def wfb (cs : CS α) : Bool :=
  cs.indptr.length == cs.nMajor + 1 && cs.indptr[0]? == some 0 &&
  (List.range cs.nMajor).all (fun i => cs.indptr.getD i 0 ≤ cs.indptr.getD (i + 1) 0) &&
  cs.indptr.getD cs.nMajor 0 == cs.data.length && cs.indices.length == cs.data.length &&
  cs.indices.all (· < cs.nMinor) &&
  (List.range cs.nMajor).all (fun i => decide (((cs.slice i).map (·.1)).Nodup))

def NoStoredZeros [Zero α] [DecidableEq α] (cs : CS α) : Prop := ∀ v ∈ cs.data, v ≠ 0

def SortedIndices (cs : CS α) : Prop :=
  ∀ i, i < cs.nMajor → ((cs.slice i).map (·.1)).Pairwise (· < ·)

/-- the canonical CSR of a dense grid: entries in column order, zeros not stored -/
def ofDense [Zero α] [DecidableEq α] (nMinor : Nat) (rows : List (List α)) : CS α :=
  let ents := rows.map (fun r => (r.zipIdx.filter (fun p => p.1 ≠ 0)).map (fun p => (p.2, p.1)))
  { nMajor := rows.length, nMinor := nMinor,
    indptr := ents.foldl (fun acc e => acc ++ [acc.getLast! + e.length]) [0],
    indices := ents.flatMap (·.map (·.1)),
    data := ents.flatMap (·.map (·.2)) }

end CS
end Biom
