import BiomModel.Codec
open Lean
namespace Biom.C13
/-- stub: not built yet -/
def handle (_req : Json) : Codec.R Json := .error "C13: model not built yet"
end Biom.C13
