/-
  C13 — value transforms touch only non-zero entries and mean what they say.

  Model of: `biom/_transform.pyx::_transform` (walk `indptr`, hand `data[start:end]`, the ID and
  the metadata entry to the user function, assign the returned array back to the same slice with
  numpy's slice-assignment rule), scipy's `eliminate_zeros`, `Table.transform` (layout chosen by
  axis: CSC for samples, CSR for observations — the layout is an *input* `cs` with the contract
  "well-formed, same dense content"; in place or on a copy), and the fixed functions of `norm`,
  `pa`, `rankdata` (ranks are an input function: scipy.stats.rankdata is external).

  `holds` is a declarative predicate on observations: the input table, the call log of the user
  function recorded by the harness, the resulting table (vectors looked up by ID), the table
  object after the call, and the number of explicitly stored zeros of the result.
-/
import BiomModel.Codec
open Lean

namespace Biom.C13
open Codec

variable {α : Type}

/-- the user function: stored values of one vector (storage order), its ID, its metadata entry -/
abbrev VFun (α : Type) := List α → Id → Option Md → List α

/-- one call of the user function, as recorded: what it received and what it returned -/
structure Call (α : Type) where
  id : Id
  md : Option Md
  args : List α
  ret : List α
  deriving Repr, DecidableEq

/-! ### The kernel -/

/-- numpy `data[start:end] = r`: equal length is stored as is, a length-1 result is broadcast
over the slice (also over an empty one), anything else is "could not broadcast" (ValueError). -/
def assign (seg r : List α) : Except Err (List α) :=
  if r.length = seg.length then .ok r
  else match r with
    | [x] => .ok (List.replicate seg.length x)
    | _ => .error .value

/-- `xs[indptr[i]:indptr[i+1]]` with Python's clipping slice semantics -/
def segOf (indptr : List Nat) (xs : List β) (i : Nat) : List β :=
  (xs.drop (indptr.getD i 0)).take (indptr.getD (i + 1) 0 - indptr.getD i 0)

/-- `metadata[i]`, where `metadata is None` was replaced by `(None,) * len(ids)` -/
def mdAt (mds : Option (List Md)) (i : Nat) : Except Err (Option Md) :=
  match mds with
  | none => .ok none
  | some m => match m[i]? with
    | some e => .ok (some e)
    | none => .error .index

/-- the loop `for row_or_col in range(n)` from vector `i` on, `k` vectors to go -/
def kLoop (f : VFun α) (indptr : List Nat) (ids : List Id) (mds : Option (List Md)) :
    Nat → Nat → List α → Except Err (List α × List (Call α))
  | 0, _, data => .ok (data, [])
  | k + 1, i, data => do
    let s ← getE indptr i
    let e ← getE indptr (i + 1)
    let id ← getE ids i
    let md ← mdAt mds i
    let seg := (data.drop s).take (e - s)
    let ret := f seg id md
    let w ← assign seg ret
    let (d, l) ← kLoop f indptr ids mds k (i + 1) (data.take s ++ w ++ data.drop (s + seg.length))
    pure (d, ⟨id, md, seg, ret⟩ :: l)

/-- `_transform(arr, ids, metadata, function, axis)` with `arr.shape[axis]` = number of major
vectors (CSR with axis 0, CSC with axis 1): the matrix with its value array rewritten, and the
calls made, in order. -/
def transformKernel (f : VFun α) (ids : List Id) (mds : Option (List Md)) (cs : CS α) :
    Except Err (CS α × List (Call α)) := do
  let (d, l) ← kLoop f cs.indptr ids mds cs.nMajor 0 cs.data
  pure ({ cs with data := d }, l)

/-! ### eliminate_zeros -/

/-- row pointer of consecutive vectors with the given lengths, starting at offset `a` -/
def ptrFrom : Nat → List Nat → List Nat
  | a, [] => [a]
  | a, l :: ls => a :: ptrFrom (a + l) ls

/-- compressed matrix holding exactly the given entry lists, one per major vector -/
def ofEntries (nMajor nMinor : Nat) (ents : List (List (Nat × α))) : CS α :=
  { nMajor := nMajor, nMinor := nMinor,
    indptr := ptrFrom 0 (ents.map (·.length)),
    indices := (ents.map (·.map (·.1))).flatten,
    data := (ents.map (·.map (·.2))).flatten }

/-- scipy `eliminate_zeros`: entries whose value is zero are dropped, order otherwise kept -/
def eliminateZeros [Zero α] [DecidableEq α] (cs : CS α) : CS α :=
  ofEntries cs.nMajor cs.nMinor
    ((List.range cs.nMajor).map (fun i => (cs.slice i).filter (fun e => decide (e.2 ≠ 0))))

def storedZeros [Zero α] [DecidableEq α] (cs : CS α) : Nat :=
  (cs.data.filter (fun x => decide (x = 0))).length

/-! ### Table.transform -/

/-- the grid seen from an axis: one list per vector of that axis -/
def majorGrid (t : Table α) : Axis → List (List α)
  | .obs => t.rows
  | .samp => transposeGrid t.samp.length t.rows

def setMajorGrid (t : Table α) (ax : Axis) (g : List (List α)) : Table α :=
  match ax with
  | .obs => { t with rows := g }
  | .samp => { t with rows := transposeGrid t.obs.length g }

/-- what one call of `Table.transform` lets an observer see -/
structure Obs (α : Type) where
  log : List (Call α)
  result : Table α
  /-- the receiver after the call -/
  selfAfter : Table α
  /-- the returned object is the receiver -/
  sameObj : Bool
  /-- explicitly stored zeros in the result's matrix -/
  storedZeros : Nat
  deriving Repr, DecidableEq

/-- `Table.transform(f, axis, inplace)`; `cs` is what `_get_sparse_data(axis)` returns. -/
def transform [Zero α] [DecidableEq α] (f : VFun α) (ax : Axis) (inplace : Bool) (t : Table α)
    (cs : CS α) : Except Err (Obs α) := do
  let (cs', log) ← transformKernel f (t.ids ax) (t.md ax) cs
  let cs'' := eliminateZeros cs'
  let r := setMajorGrid t ax cs''.toDense
  pure { log := log, result := r, selfAfter := if inplace then r else t, sameObj := inplace,
         storedZeros := storedZeros cs'' }

/-! ### The fixed functions -/

def normF [Add α] [Zero α] [Div α] : VFun α := fun v _ _ => v.map (· / sumL v)
def paF [Zero α] [One α] [DecidableEq α] : VFun α := fun v _ _ => v.map (fun x => if x = 0 then 0 else 1)
/-- `rankdata`: the ranking function is external (an input) -/
def rankF (rank : List α → List α) : VFun α := fun v _ _ => rank v
def elemF (g : α → α) : VFun α := fun v _ _ => v.map g

/-! ### The property, stated on observations only -/

def nz [Zero α] [DecidableEq α] (v : List α) : List α := v.filter (fun x => decide (x ≠ 0))

/-- (input value, output value) of the cells of a vector that are non-zero in the input -/
def nzPairs [Zero α] [DecidableEq α] (v w : List α) : List (α × α) :=
  (v.zip w).filter (fun p => decide (p.1 ≠ 0))

section clauses
variable [Zero α] [DecidableEq α]

/-- IDs, metadata, type of both axes are untouched; the result is a well-shaped table -/
def cFrame (t r : Table α) : Bool :=
  decide (r.obs = t.obs) && decide (r.samp = t.samp) && decide (r.omd = t.omd) &&
  decide (r.smd = t.smd) && decide (r.ttype = t.ttype) && r.wfb

/-- the function was called once per ID of the axis, in order, with that ID's metadata -/
def cLogIds (t : Table α) (ax : Axis) (log : List (Call α)) : Bool :=
  decide (log.map (·.id) = t.ids ax) && log.all (fun c => decide (c.md = t.mdOf? ax c.id))

/-- the values passed are, as a multiset, the non-zero values of the ID's vector -/
def cLogArgs (t : Table α) (ax : Axis) (log : List (Call α)) : Bool :=
  log.all (fun c => match t.vec? ax c.id with
    | some v => decide (c.args.Perm (nz v))
    | none => false)

/-- every returned value sits in the cell its argument came from: the (argument, returned value)
pairs of a call are the (input, output) pairs of the vector's non-zero cells -/
def cWriteBack (t : Table α) (ax : Axis) (log : List (Call α)) (r : Table α) : Bool :=
  log.all (fun c => match t.vec? ax c.id, r.vec? ax c.id with
    | some v, some w =>
      c.ret.length == c.args.length && v.length == w.length &&
      decide ((c.args.zip c.ret).Perm (nzPairs v w))
    | _, _ => false)

/-- zero cells stay zero, so no vector gains a non-zero cell -/
def cZeros (t : Table α) (ax : Axis) (r : Table α) : Bool :=
  (t.ids ax).all (fun id => match t.vec? ax id, r.vec? ax id with
    | some v, some w =>
      v.length == w.length && (v.zip w).all (fun p => decide (p.1 ≠ 0) || decide (p.2 = 0)) &&
      decide ((nz w).length ≤ (nz v).length)
    | _, _ => false)

def cInplace (t : Table α) (inplace : Bool) (o : Obs α) : Bool :=
  o.sameObj == inplace && (if inplace then decide (o.selfAfter = o.result) else decide (o.selfAfter = t))

/-- the predicate for an arbitrary user function -/
def holds (t : Table α) (ax : Axis) (inplace : Bool) (o : Obs α) : Bool :=
  cFrame t o.result && cLogIds t ax o.log && cLogArgs t ax o.log && cWriteBack t ax o.log o.result &&
  cZeros t ax o.result && o.storedZeros == 0 && cInplace t inplace o

/-- element-wise function `g`: a cell holds `g` of its old value where that was non-zero -/
def cElem (g : α → α) (t r : Table α) : Bool :=
  decide (r.rows = t.rows.map (·.map (fun x => if x = 0 then 0 else g x)))

/-- presence/absence: 1 exactly on the non-zero cells -/
def cPa [One α] (t r : Table α) : Bool :=
  decide (r.rows = t.rows.map (·.map (fun x => if x = 0 then 0 else 1)))

/-- ranks: on each vector's non-zero cells the ranks `oracle` gives for the non-zero values
(as value/rank pairs), every rank non-zero; zero elsewhere is `cZeros` -/
def cRank (oracle : List α → List α) (t : Table α) (ax : Axis) (r : Table α) : Bool :=
  (t.ids ax).all (fun id => match t.vec? ax id, r.vec? ax id with
    | some v, some w =>
      v.length == w.length && decide ((nzPairs v w).Perm ((nz v).zip (oracle (nz v)))) &&
      (nzPairs v w).all (fun p => decide (p.2 ≠ 0))
    | _, _ => false)

end clauses

def absR (x : Rat) : Rat := if x < 0 then -x else x
def maxR (a b : Rat) : Rat := if a ≤ b then b else a
/-- equality up to a relative tolerance (tolerance 0 = equality) -/
def approx (tol a b : Rat) : Bool := decide (absR (a - b) ≤ tol * maxR (absR a) (absR b))

/-- normalisation: every vector with non-zero total sums to 1 and keeps its proportions -/
def cNorm (tol : Rat) (t : Table Rat) (ax : Axis) (r : Table Rat) : Bool :=
  (t.ids ax).all (fun id => match t.vec? ax id, r.vec? ax id with
    | some v, some w =>
      v.length == w.length &&
      (decide (sumL v = 0) ||
        (approx tol (sumL w) 1 &&
         (v.zip w).all (fun p => (v.zip w).all (fun q => approx tol (p.2 * q.1) (q.2 * p.1)))))
    | _, _ => false)

/-! ### Kernel-level predicate (flat arrays) -/

/-- observation of one kernel run followed by `eliminate_zeros` -/
structure KObs (α : Type) where
  log : List (Call α)
  data : List α
  elim : CS α
  deriving Repr, DecidableEq

def holdsK [Zero α] [DecidableEq α] (ids : List Id) (mds : Option (List Md)) (cs : CS α) (o : KObs α) : Bool :=
  -- one call per major vector, in order, with ID, metadata entry and exactly the stored slice
  decide (o.log.map (·.id) = ids.take cs.nMajor) &&
  decide (o.log.map (·.md) = (List.range cs.nMajor).map (fun i => (mds.bind (·[i]?)))) &&
  decide (o.log.map (·.args) = (List.range cs.nMajor).map (segOf cs.indptr cs.data)) &&
  -- the slice now holds what numpy's assignment makes of the returned values
  o.log.length == cs.nMajor && o.data.length == cs.data.length &&
  (o.log.zipIdx.all (fun ci => match assign ci.1.args ci.1.ret with
    | .ok w => decide (w = segOf cs.indptr o.data ci.2)
    | .error _ => false)) &&
  -- eliminate_zeros keeps the content, stores no zero, and the support did not grow
  decide (o.elim.toDense = ({ cs with data := o.data } : CS α).toDense) && storedZeros o.elim == 0 &&
  o.elim.wfb

/-! ### Named functions with Lean twins (correspondence only) -/

inductive Fn where
  | scale (k : Rat) | square | addOne | zeroBelow (k : Rat) | zeroOdd | fillSum | reverse
  | bcastSum | dropLast | norm | pa | byIdMd | byMdKey (key : String) | byIdChar
  | table (rows : List (Id × List Rat × List Rat))
  deriving Repr

def Fn.eval : Fn → VFun Rat
  | .scale k => elemF (· * k)
  | .square => elemF (fun x => x * x)
  | .addOne => elemF (· + 1)
  | .zeroBelow k => elemF (fun x => if x < k then 0 else x)
  | .zeroOdd => fun v _ _ => v.zipIdx.map (fun p => if p.2 % 2 = 1 then 0 else p.1)
  | .fillSum => fun v _ _ => List.replicate v.length (sumL v)
  | .reverse => fun v _ _ => v.reverse
  | .bcastSum => fun v _ _ => [sumL v]
  | .dropLast => fun v _ _ => v.dropLast
  | .norm => normF
  | .pa => paF
  | .byIdMd => fun v id md =>
      let k : Nat := id.length + (match md with | none => 0 | some m => 1 + m.length)
      v.map (· * (k : Rat))
  | .byMdKey key => fun v _ md =>
      -- `md[key]`: an entry answers None for a key it does not hold; None and "no metadata" scale by 1,
      -- an integer by itself, any other value by 2
      let k : Rat := match md with
        | none => 1
        | some m => match m.lookup key with
          | none => 1
          | some txt => match txt.toInt? with
            | some n => (n : Rat)
            | none => if txt == "null" then 1 else 2
      v.map (· * k)
  | .byIdChar => fun v id _ =>
      let k : Nat := id.front.toNat % 3 + 1
      v.map (· * (k : Rat))
  | .table rows => fun v id _ =>
      match rows.find? (fun r => r.1 == id && r.2.1 == v) with
      | some r => r.2.2
      | none => v

def Fn.elem? : Fn → Option (Rat → Rat)
  | .scale k => some (· * k)
  | .square => some (fun x => x * x)
  | .addOne => some (· + 1)
  | .zeroBelow k => some (fun x => if x < k then 0 else x)
  | _ => none

/-! ### JSON glue -/

def asFn (j : Json) : R Fn := do
  match (← strF j "name") with
  | "scale" => pure (.scale (← asRat (← fld j "k")))
  | "square" => pure .square
  | "addOne" => pure .addOne
  | "zeroBelow" => pure (.zeroBelow (← asRat (← fld j "k")))
  | "zeroOdd" => pure .zeroOdd
  | "fillSum" => pure .fillSum
  | "reverse" => pure .reverse
  | "bcastSum" => pure .bcastSum
  | "dropLast" => pure .dropLast
  | "norm" => pure .norm
  | "pa" => pure .pa
  | "byIdMd" => pure .byIdMd
  | "byMdKey" => pure (.byMdKey (← strF j "key"))
  | "byIdChar" => pure .byIdChar
  | "table" =>
    let rows ← listF (fun r => do
      pure ((← strF r "id"), (← listF asRat r "args"), (← listF asRat r "ret"))) j "rows"
    pure (.table rows)
  | s => .error s!"bad fn {s}"

def asCall (j : Json) : R (Call Rat) := do
  pure { id := (← strF j "id"), md := (← optF asMd j "md"), args := (← listF asRat j "args"),
         ret := (← listF asRat j "ret") }

def callToJson (c : Call Rat) : Json :=
  Json.mkObj [("id", .str c.id), ("md", optToJson mdToJson c.md), ("args", ratsToJson c.args),
    ("ret", ratsToJson c.ret)]

def logToJson (l : List (Call Rat)) : Json := .arr (l.map callToJson).toArray

def asObs (j : Json) : R (Obs Rat) := do
  pure { log := (← listF asCall j "log"), result := (← asTable (← fld j "result")),
         selfAfter := (← asTable (← fld j "selfAfter")), sameObj := (← boolF j "sameObj"),
         storedZeros := (← natF j "storedZeros") }

def obsToJson (o : Obs Rat) : Json :=
  Json.mkObj [("log", logToJson o.log), ("result", tableToJson o.result),
    ("selfAfter", tableToJson o.selfAfter), ("sameObj", .bool o.sameObj), ("storedZeros", toJson o.storedZeros)]

def firstFail (cs : List (String × Bool)) : Verdict :=
  allV (cs.map (fun c => chk c.1 c.2))

def gridApprox (tol : Rat) (a b : List (List Rat)) : Bool :=
  a.length == b.length && (a.zip b).all (fun p => p.1.length == p.2.length &&
    (p.1.zip p.2).all (fun q => approx tol q.1 q.2))

def callsApprox (tol : Rat) (a b : List (Call Rat)) : Bool :=
  a.length == b.length && (a.zip b).all (fun p => decide (p.1.id = p.2.id) && decide (p.1.md = p.2.md) &&
    decide (p.1.args = p.2.args) && gridApprox tol [p.1.ret] [p.2.ret])

def tableApprox (tol : Rat) (a b : Table Rat) : Bool :=
  decide (({ a with rows := [] } : Table Rat) = { b with rows := [] }) && gridApprox tol a.rows b.rows

/-- table-level request:
`{"op":"transform","t":…,"axis":…,"inplace":…,"fn":…,"cs":…,"check":"generic|elem|norm|pa|rank",
  "oracle":[{"id","args","ret"}…]?, "tol":"p/q", "obs":{log,result,selfAfter,sameObj,storedZeros}}` -/
def handleTransform (req : Json) : R Json := do
  let t ← asTable (← fld req "t")
  let ax ← axisF req "axis"
  let inplace ← boolF req "inplace"
  let fn ← asFn (← fld req "fn")
  let cs ← asCS (← fld req "cs")
  let check ← strFD req "check" "generic"
  let tol ← match optFld req "tol" with | none => pure (0 : Rat) | some v => asRat v
  let obs ← asObs (← fld req "obs")
  let r := obs.result
  -- the contract under which the theorems speak, checked on the matrix the real kernel was handed
  let layout ← strFD req "layout" ""
  let wantLayout ← strFD req "wantLayout" ""
  let axisnum ← natFD req "axisnum" (match ax with | .obs => 0 | .samp => 1)
  let contract := layout == wantLayout && axisnum == (match ax with | .obs => 0 | .samp => 1) && cs.wfb &&
    cs.nMajor == (t.ids ax).length && cs.nMinor == (t.ids ax.other).length &&
    decide (cs.toDense = majorGrid t ax)
  let generic : List (String × Bool) :=
    [("frame", cFrame t r), ("log-ids", cLogIds t ax obs.log), ("log-args", cLogArgs t ax obs.log),
     ("writes-back", cWriteBack t ax obs.log r), ("zero-stays-zero", cZeros t ax r),
     ("no-stored-zeros", obs.storedZeros == 0), ("inplace", cInplace t inplace obs)]
  let oracleFn : R (List Rat → List Rat) := do
    let rows ← match optFld req "oracle" with
      | none => pure []
      | some o => asList (fun r => do pure ((← listF asRat r "args"), (← listF asRat r "ret"))) o
    pure (fun v => match rows.find? (fun r => r.1 == v) with | some r => r.2 | none => [])
  let specific : List (String × Bool) ← match check with
    | "elem" => match fn.elem? with
      | some g => pure [("elementwise-cell", cElem g t r)]
      | none => .error "check elem needs an element-wise fn"
    | "norm" => pure [("norm", cNorm tol t ax r)]
    | "pa" => pure [("pa", cPa t r)]
    | "rank" => do pure [("rank", cRank (← oracleFn) t ax r)]
    | _ => pure []
  -- the same objects seen through other accessors (per-ID vectors of either axis, cells, iteration) after
  -- the call: every view must show the content the matrix has NOW (no answer remembered from before)
  let viewsResult ← match optFld req "viewsResult" with | none => pure [] | some j => asList asTable j
  let viewsSelf ← match optFld req "viewsSelf" with | none => pure [] | some j => asList asTable j
  let nnzOk ← match optFld req "nnzResult" with
    | none => pure true
    | some j => do pure ((← asList asNat j).all (· == (r.rows.map (fun row => (nz row).length)).sum))
  let views : List (String × Bool) :=
    [("accessor-views-result", viewsResult.all (fun w => decide (w = r))),
     ("accessor-views-receiver", viewsSelf.all (fun w => decide (w = obs.selfAfter))),
     ("accessor-nnz", nnzOk)]
  let v := firstFail (generic ++ specific ++ views)
  let m := transform fn.eval ax inplace t cs
  let (agree, mj) := match m with
    | .ok mo =>
      (callsApprox tol mo.log obs.log && tableApprox tol mo.result r && tableApprox tol mo.selfAfter obs.selfAfter
        && mo.sameObj == obs.sameObj && mo.storedZeros == obs.storedZeros
        && holds t ax inplace mo,
       Json.mkObj [("ok", obsToJson mo)])
    | .error e => (false, errToJson e)
  pure (Json.mkObj (verdictToJson v ++ [("agree", .bool agree), ("contract", .bool contract), ("model", mj)]))

/-- kernel-level request:
`{"op":"kernel","cs":…,"ids":[…],"mds":[…]|null,"fn":…,"obs":{"error":name}|{"log","data","elim"}}` -/
def handleKernel (req : Json) : R Json := do
  let cs ← asCS (← fld req "cs")
  let ids ← listF asStr req "ids"
  let mds ← optF (asList asMd) req "mds"
  let fn ← asFn (← fld req "fn")
  let oj ← fld req "obs"
  let m := transformKernel fn.eval ids mds cs
  let mj := match m with
    | .ok (cs', log) => Json.mkObj [("log", logToJson log), ("data", ratsToJson cs'.data),
        ("elim", csToJson (eliminateZeros cs'))]
    | .error e => errToJson e
  match optFld oj "error" with
  | some e =>
    let en ← asStr e
    -- an error is legitimate exactly when some returned array cannot be assigned to its slice
    let agree := match m with | .error me => me.name == en | .ok _ => false
    pure (Json.mkObj (verdictToJson (chk "kernel-error-unexpected" agree) ++ [("agree", .bool agree), ("model", mj)]))
  | none =>
    let o : KObs Rat := { log := (← listF asCall oj "log"), data := (← listF asRat oj "data"),
                          elim := (← asCS (← fld oj "elim")) }
    let v := chk "kernel" (holdsK ids mds cs o)
    let agree := match m with
      | .ok (cs', log) => decide (log = o.log) && decide (cs'.data = o.data) && decide (eliminateZeros cs' = o.elim)
      | .error _ => false
    pure (Json.mkObj (verdictToJson v ++ [("agree", .bool agree), ("model", mj)]))

/-- axis independence of an element-wise function:
`{"op":"axisfree","t":…,"fn":…,"results":[table…]}` — all results equal and cell-wise `g`. -/
def handleAxisFree (req : Json) : R Json := do
  let t ← asTable (← fld req "t")
  let fn ← asFn (← fld req "fn")
  let rs ← listF asTable req "results"
  let g ← match fn.elem? with
    | some g => pure g
    | none => match fn with
      | .pa => pure (fun _ => (1 : Rat))
      | _ => .error "axisfree needs an element-wise fn"
  let v := firstFail
    [("axis-free-same", rs.all (fun r => decide (r = rs.headD t))),
     ("axis-free-cell", rs.all (fun r => cFrame t r && cElem g t r))]
  let model : Table Rat := { t with rows := t.rows.map (·.map (fun x => if x = 0 then 0 else g x)) }
  let agree := rs.all (fun r => decide (r = model))
  pure (Json.mkObj (verdictToJson v ++ [("agree", .bool agree), ("model", tableToJson model)]))

def handle (req : Json) : R Json := do
  match (← strFD req "op" "transform") with
  | "transform" => handleTransform req
  | "kernel" => handleKernel req
  | "axisfree" => handleAxisFree req
  | s => .error s!"C13: bad op {s}"

end Biom.C13
