/-
  BiomModel.Codec — JSON glue between the Python harness and the Lean model.
  Values travel as exact rationals: "p" or "p/q" (strings), never as floats.
  Untrusted for the theorems (no theorem mentions this file); trusted for the correspondence.
-/
import Lean.Data.Json
import BiomModel.Basic
import BiomModel.Sparse
open Lean

namespace Biom.Codec

abbrev R := Except String

def fld (j : Json) (k : String) : R Json :=
  match j.getObjVal? k with
  | .ok v => .ok v
  | .error _ => .error s!"missing field {k}"

def optFld (j : Json) (k : String) : Option Json :=
  match j.getObjVal? k with
  | .ok .null => none
  | .ok v => some v
  | .error _ => none

def asStr (j : Json) : R String := j.getStr?
def asNat (j : Json) : R Nat := j.getNat?
def asInt (j : Json) : R Int := j.getInt?
def asBool (j : Json) : R Bool := j.getBool?
def asArr (j : Json) : R (List Json) := do let a ← j.getArr?; pure a.toList
def asList (f : Json → R β) (j : Json) : R (List β) := do (← asArr j).mapM f
def asOpt (f : Json → R β) (j : Json) : R (Option β) :=
  match j with | .null => pure none | v => do pure (some (← f v))

def strF (j : Json) (k : String) : R String := do asStr (← fld j k)
def natF (j : Json) (k : String) : R Nat := do asNat (← fld j k)
def intF (j : Json) (k : String) : R Int := do asInt (← fld j k)
def boolF (j : Json) (k : String) : R Bool := do asBool (← fld j k)
def listF (f : Json → R β) (j : Json) (k : String) : R (List β) := do asList f (← fld j k)
def optF (f : Json → R β) (j : Json) (k : String) : R (Option β) :=
  match optFld j k with | none => pure none | some v => do pure (some (← f v))
def boolFD (j : Json) (k : String) (d : Bool) : R Bool :=
  match optFld j k with | none => pure d | some v => asBool v
def natFD (j : Json) (k : String) (d : Nat) : R Nat :=
  match optFld j k with | none => pure d | some v => asNat v
def strFD (j : Json) (k : String) (d : String) : R String :=
  match optFld j k with | none => pure d | some v => asStr v

/-- "p" or "p/q" (q > 0) → Rat. Also accepts JSON integers. -/
def parseRat (s : String) : R Rat :=
  match s.splitOn "/" with
  | [p] => match p.toInt? with
    | some n => pure (n : Rat)
    | none => .error s!"bad rational {s}"
  | [p, q] => match p.toInt?, q.toNat? with
    | some n, some d => if d = 0 then .error "zero denominator" else pure (mkRat n d)
    | _, _ => .error s!"bad rational {s}"
  | _ => .error s!"bad rational {s}"

def asRat (j : Json) : R Rat :=
  match j with
  | .str s => parseRat s
  | v => do let n ← v.getInt?; pure (n : Rat)

def ratToJson (r : Rat) : Json :=
  if r.den = 1 then .str (toString r.num) else .str s!"{r.num}/{r.den}"

def ratsToJson (rs : List Rat) : Json := .arr (rs.map ratToJson).toArray
def gridToJson (g : List (List Rat)) : Json := .arr (g.map ratsToJson).toArray
def strsToJson (ss : List String) : Json := .arr (ss.map Json.str).toArray
def natsToJson (ns : List Nat) : Json := .arr (ns.map (fun (n : Nat) => (toJson n))).toArray
def boolsToJson (bs : List Bool) : Json := .arr (bs.map Json.bool).toArray
def optToJson (f : β → Json) : Option β → Json
  | none => .null
  | some x => f x

def asAxis (j : Json) : R Axis := do
  match (← asStr j) with
  | "observation" => pure .obs
  | "sample" => pure .samp
  | s => .error s!"bad axis {s}"

def axisF (j : Json) (k : String) : R Axis := do asAxis (← fld j k)
def axisToJson : Axis → Json
  | .obs => "observation"
  | .samp => "sample"

/-- A metadata entry arrives as an object key ↦ canonical text; it is kept sorted by key. -/
def asMd (j : Json) : R Md :=
  match j with
  | .null => pure []
  | .obj kvs => do
      let l ← kvs.toList.mapM (fun (k, v) => do pure (k, (← asStr v)))
      pure l
  | _ => .error "metadata entry must be an object or null"

def mdToJson (m : Md) : Json := Json.mkObj (m.map (fun (k, v) => (k, Json.str v)))

def asTable (j : Json) : R (Table Rat) := do
  let obs ← listF asStr j "obs"
  let samp ← listF asStr j "samp"
  let rows ← listF (asList asRat) j "rows"
  let omd ← optF (asList asMd) j "omd"
  let smd ← optF (asList asMd) j "smd"
  let ttype ← optF asStr j "type"
  pure { obs, samp, rows, omd, smd, ttype }

def tableToJson (t : Table Rat) : Json :=
  Json.mkObj [("obs", strsToJson t.obs), ("samp", strsToJson t.samp), ("rows", gridToJson t.rows),
    ("omd", optToJson (fun m => .arr (m.map mdToJson).toArray) t.omd),
    ("smd", optToJson (fun m => .arr (m.map mdToJson).toArray) t.smd),
    ("type", optToJson Json.str t.ttype)]

/-- flat compressed matrix: {"nMajor":…, "nMinor":…, "indptr":[…], "indices":[…], "data":["p/q",…]} -/
def asCS (j : Json) : R (CS Rat) := do
  pure { nMajor := (← natF j "nMajor"), nMinor := (← natF j "nMinor"),
         indptr := (← listF asNat j "indptr"), indices := (← listF asNat j "indices"),
         data := (← listF asRat j "data") }

def csToJson (cs : CS Rat) : Json :=
  Json.mkObj [("nMajor", toJson cs.nMajor), ("nMinor", toJson cs.nMinor), ("indptr", natsToJson cs.indptr),
    ("indices", natsToJson cs.indices), ("data", ratsToJson cs.data)]

def exceptToJson (f : β → Json) : Except Err β → Json
  | .ok x => Json.mkObj [("ok", f x)]
  | .error e => Json.mkObj [("error", e.name)]

def errToJson (e : Err) : Json := Json.mkObj [("error", e.name)]

def asErr (s : String) : Err :=
  match s with
  | "TableException" => .tableException | "UnknownID" => .unknownId | "UnknownAxis" => .unknownAxis
  | "DisjointID" => .disjointId | "Value" => .value | "Index" => .index | "Key" => .key
  | "Type" => .type | _ => .other

/-- Result of a predicate evaluation: `none` = holds, `some clause` = first failing clause. -/
abbrev Verdict := Option String

def Verdict.and (a b : Verdict) : Verdict := match a with | none => b | some c => some c
def chk (clause : String) (b : Bool) : Verdict := if b then none else some clause
def allV (vs : List Verdict) : Verdict := vs.foldl Verdict.and none

def verdictToJson (v : Verdict) : List (String × Json) :=
  match v with
  | none => [("holds", true), ("clause", .null)]
  | some c => [("holds", false), ("clause", .str c)]

/-- The generic line loop: one JSON request per line in, one JSON answer per line out. -/
partial def loop (h : IO.FS.Stream) (out : IO.FS.Stream) (handle : Json → R Json) : IO Unit := do
  let line ← h.getLine
  if line.isEmpty then return ()
  let resp : Json :=
    match Json.parse line with
    | .error e => Json.mkObj [("driver_error", .str s!"parse: {e}")]
    | .ok req =>
      match handle req with
      | .ok r => r
      | .error e => Json.mkObj [("driver_error", .str e)]
  out.putStrLn resp.compress
  out.flush
  loop h out handle

def driverMain (handle : Json → R Json) : IO Unit := do
  loop (← IO.getStdin) (← IO.getStdout) handle

end Biom.Codec
