import BiomModel.Codec
open Lean
namespace Biom.C05
/-- stub: not built yet -/
def handle (_req : Json) : Codec.R Json := .error "C05: model not built yet"
end Biom.C05
