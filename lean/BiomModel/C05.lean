/-
  C05 — a table stays internally coherent after every sequence of operations.

  Glue-state model of what `biom.table.Table` keeps besides the matrix: per axis the ID array,
  the `id → position` dict and the metadata tuple, plus the matrix shape and content.  Every
  mutating entry point is transcribed from table.py:

    * the constructor (metadata normalisation, `errcheck` under the default profile — kinds visited
      in sorted order, `empty` first with reaction `ignore`, so an empty table is never checked any
      further —, `_index_ids` with optionally supplied lookups, `validate=False`),
    * in-place `filter` (filtered axis re-indexed, the other axis gets a copy of the receiver's
      lookup), `update_ids`, `add_metadata`, `del_metadata`, `transform` (content only).

  Operations that return a new table (`sort_order`, `transpose`, `collapse`, `merge`, `concat`, …)
  all end in a validated constructor call; for coherence what matters is that call, whatever the
  arguments were, so histories quantify over arbitrary constructor arguments.
-/
import BiomModel.Codec
open Lean

namespace Biom.C05

/-- a Python dict `id → position` as an insertion-ordered association list; a later entry for
the same key wins (`index_list` is a dict comprehension over `enumerate(ids)`). -/
abbrev Dict := List (Id × Nat)

def dictGet (d : Dict) (k : Id) : Option Nat := d.reverse.lookup k

/-- `index_list(ids)` -/
def indexList (ids : List Id) : Dict := ids.zipIdx

structure AxisSt where
  ids : List Id
  index : Dict
  md : Option (List Md)
  deriving Repr, DecidableEq

structure TState where
  obs : AxisSt
  samp : AxisSt
  nrows : Nat
  ncols : Nat
  rows : List (List Rat)      -- nrows rows of ncols values (the matrix' dense content)
  deriving Repr, DecidableEq

def TState.axis (s : TState) : Axis → AxisSt
  | .obs => s.obs
  | .samp => s.samp

/-! ### constructor -/

/-- `no_metadata`: one None-or-empty entry per ID carries no information -/
def normMd (md : Option (List Md)) (nIds : Nat) : Option (List Md) :=
  match md with
  | none => none
  | some m => if m.length == nIds && m.all (·.isEmpty) then none else some m

/-- `_cast_metadata`: entries that are all None or empty are no metadata (whatever their number) -/
def castMd (md : Option (List Md)) : Option (List Md) :=
  match md with
  | none => none
  | some m => if m.all (·.isEmpty) then none else some m

/-- `set(ids)` as a list (one representative per distinct id) -/
def dedup : List Id → List Id
  | [] => []
  | a :: t => if a ∈ t then dedup t else a :: dedup t

def hasDup (ids : List Id) : Bool := (dedup ids).length != ids.length

/-- `errcheck(self)` under the default profile: `empty` (ignore) is visited first and ends the
test when it fires; then obsdup, obsmdsize, obssize, sampdup, sampmdsize, sampsize (raise). -/
def errcheckDefault (nrows ncols : Nat) (obsIds sampIds : List Id) (omd smd : Option (List Md)) : Bool :=
  if sampIds.isEmpty || obsIds.isEmpty then true       -- `empty` fires: reaction ignore, nothing else tested
  else
    !(nrows != (dedup obsIds).length) &&
    !(match omd with | some m => nrows != m.length | none => false) &&
    !(nrows != obsIds.length) &&
    !(ncols != (dedup sampIds).length) &&
    !(match smd with | some m => ncols != m.length | none => false) &&
    !(ncols != sampIds.length)

structure CtorArgs where
  nrows : Nat
  ncols : Nat
  rows : List (List Rat)
  obsIds : List Id
  sampIds : List Id
  omd : Option (List Md)
  smd : Option (List Md)
  validate : Bool := true
  obsIndex : Option Dict := none
  sampIndex : Option Dict := none
  deriving Repr

def construct (a : CtorArgs) : Except Err TState :=
  let omd := normMd a.omd a.obsIds.length
  let smd := normMd a.smd a.sampIds.length
  if a.validate && !(errcheckDefault a.nrows a.ncols a.obsIds a.sampIds omd smd) then .error .tableException
  else .ok {
    obs := { ids := a.obsIds, index := a.obsIndex.getD (indexList a.obsIds), md := castMd omd },
    samp := { ids := a.sampIds, index := a.sampIndex.getD (indexList a.sampIds), md := castMd smd },
    nrows := a.nrows, ncols := a.ncols, rows := a.rows }

/-! ### in-place operations -/

def filterCols (rows : List (List Rat)) (mask : List Bool) : List (List Rat) := rows.map (filterMask · mask)

/-- `Table.filter(..., inplace=True)` given the Boolean keep-mask the kernel computed -/
def filterInplace (s : TState) (ax : Axis) (mask : List Bool) : Except Err TState :=
  match ax with
  | .obs =>
    if mask.length != s.obs.ids.length then .error .index else
    let ids := filterMask s.obs.ids mask
    .ok { s with obs := { ids, index := indexList ids, md := castMd (s.obs.md.map (filterMask · mask)) },
                 samp := { s.samp with index := s.samp.index },
                 rows := filterMask s.rows mask, nrows := (filterMask s.rows mask).length }
  | .samp =>
    if mask.length != s.samp.ids.length then .error .index else
    let ids := filterMask s.samp.ids mask
    .ok { s with samp := { ids, index := indexList ids, md := castMd (s.samp.md.map (filterMask · mask)) },
                 obs := { s.obs with index := s.obs.index },
                 rows := filterCols s.rows mask, ncols := (filterMask (List.replicate s.ncols ()) mask).length }

/-- `update_ids(id_map, axis, strict, inplace=True)`: missing key under `strict` and duplicate
results are refused before anything is changed -/
def updateIdsInplace (s : TState) (ax : Axis) (idMap : List (Id × Id)) (strict : Bool) : Except Err TState :=
  let a := s.axis ax
  if strict && !(a.ids.all (fun i => (idMap.lookup i).isSome)) then .error .tableException else
  let ids := a.ids.map (fun i => (idMap.lookup i).getD i)
  if hasDup ids then .error .tableException else
  let a' : AxisSt := { a with ids, index := indexList ids }
  -- `_index_ids(None, None)` re-indexes BOTH axes
  match ax with
  | .obs => .ok { s with obs := a', samp := { s.samp with index := indexList s.samp.ids } }
  | .samp => .ok { s with samp := a', obs := { s.obs with index := indexList s.obs.ids } }

def mdUpdate (old : Md) (new : Md) : Md :=
  new.foldl (fun m kv => (m.filter (·.1 != kv.1)) ++ [kv]) old

/-- `add_metadata(md, axis)` -/
def addMetadata (s : TState) (ax : Axis) (mapping : List (Id × Md)) : TState :=
  let a := s.axis ax
  let md' : Option (List Md) :=
    match a.md with
    | some m =>
      -- per mapping entry: `if self.exists(id): metadata[self.index(id)].update(entry)`
      some (mapping.foldl (fun m (idv : Id × Md) =>
        match dictGet a.index idv.1 with
        | some i => (match m[i]? with | some e => m.set i (mdUpdate e idv.2) | none => m)
        | none => m) m)
    | none =>
      let t := a.ids.map (fun i => (mapping.lookup i).getD [])
      -- `_cast_metadata`: a tuple of only None collapses to None
      if a.ids.all (fun i => (mapping.lookup i).isNone) then none else some t
  -- `_cast_metadata` at the end of add_metadata
  match ax with
  | .obs => { s with obs := { a with md := castMd md' } }
  | .samp => { s with samp := { a with md := castMd md' } }

def delKeys (keys : Option (List String)) (a : AxisSt) : AxisSt :=
  match keys with
  | none => { a with md := none }
  | some ks =>
    match a.md with
    | none => a
    | some m =>
      let m' := m.map (fun e => e.filter (fun kv => !ks.contains kv.1))
      if m'.all (·.isEmpty) then { a with md := none } else { a with md := some m' }

/-- `del_metadata(keys, axis)`; `axes` = the axes it is applied to -/
def delMetadata (s : TState) (axes : List Axis) (keys : Option (List String)) : TState :=
  { s with obs := if axes.contains .obs then delKeys keys s.obs else s.obs,
           samp := if axes.contains .samp then delKeys keys s.samp else s.samp }

/-- `transform(..., inplace=True)` and its instances: only the content changes -/
def setContent (s : TState) (rows : List (List Rat)) : Except Err TState :=
  if rows.length == s.nrows && rows.all (·.length == s.ncols) then .ok { s with rows } else .error .value

/-! ### histories -/

inductive Op where
  | construct (a : CtorArgs)               -- any new-table operation ends here; the result replaces the state
  | filter (ax : Axis) (mask : List Bool)
  | updateIds (ax : Axis) (idMap : List (Id × Id)) (strict : Bool)
  | addMd (ax : Axis) (mapping : List (Id × Md))
  | delMd (axes : List Axis) (keys : Option (List String))
  | setContent (rows : List (List Rat))
  deriving Repr

/-- one step; a refused operation leaves the state as it was -/
def step (s : TState) : Op → TState
  | .construct a => match construct a with | .ok s' => s' | .error _ => s
  | .filter ax mask => match filterInplace s ax mask with | .ok s' => s' | .error _ => s
  | .updateIds ax m strict => match updateIdsInplace s ax m strict with | .ok s' => s' | .error _ => s
  | .addMd ax m => addMetadata s ax m
  | .delMd axes ks => delMetadata s axes ks
  | .setContent rows => match setContent s rows with | .ok s' => s' | .error _ => s

def run (s : TState) (ops : List Op) : TState := ops.foldl step s

/-! ### coherence -/

def AxisCoherent (a : AxisSt) (n : Nat) : Prop :=
  a.ids.length = n ∧ a.ids.Nodup ∧ (∀ id, dictGet a.index id = indexOf? a.ids id) ∧
  (∀ m, a.md = some m → m.length = n)

structure Coherent (s : TState) : Prop where
  nrows : s.rows.length = s.nrows
  ncols : ∀ r ∈ s.rows, r.length = s.ncols
  obs : AxisCoherent s.obs s.nrows
  samp : AxisCoherent s.samp s.ncols

/-- an operation whose constructor call builds a table with an empty axis escapes `errcheck`
(the `empty` kind masks every other test); histories are over non-empty constructions -/
def Op.NonEmptyCtor : Op → Prop
  | .construct a => a.obsIds ≠ [] ∧ a.sampIds ≠ [] ∧ a.validate = true ∧ a.obsIndex = none ∧ a.sampIndex = none ∧
      a.rows.length = a.nrows ∧ (∀ r ∈ a.rows, r.length = a.ncols)
  | _ => True

/-! ### accessors, computed the way the code computes them -/

/-- `index(id, axis)` -/
def indexAcc (s : TState) (ax : Axis) (id : Id) : Except Err Nat :=
  match dictGet (s.axis ax).index id with
  | some i => .ok i
  | none => .error .unknownId

def existsAcc (s : TState) (ax : Axis) (id : Id) : Bool := (dictGet (s.axis ax).index id).isSome

/-- `data(id, axis)` — `self[idx, :]` / `self[:, idx]` -/
def dataAcc (s : TState) (ax : Axis) (id : Id) : Except Err (List Rat) := do
  let i ← indexAcc s ax id
  match ax with
  | .obs => match s.rows[i]? with | some r => pure r | none => .error .index
  | .samp => if i < s.ncols then pure (colAt s.rows i) else .error .index

/-- `get_value_by_ids(obs_id, samp_id)` -/
def valueAcc (s : TState) (o sa : Id) : Except Err Rat := do
  let i ← indexAcc s .obs o
  let j ← indexAcc s .samp sa
  match s.rows[i]? with
  | some r => match r[j]? with | some v => pure v | none => .error .index
  | none => .error .index

/-- `nonzero()`: walk of the rows listing (obs id, sample id) of every non-zero cell -/
def nonzeroAcc (s : TState) : List (Id × Id) :=
  (s.obs.ids.zip s.rows).flatMap (fun (o, r) => (s.samp.ids.zip r).filterMap (fun (sa, v) => if v != 0 then some (o, sa) else none))

/-- `Except`-valued map, left to right, stopping at the first error -/
def mapE {α β : Type} (f : α → Except Err β) : List α → Except Err (List β)
  | [] => .ok []
  | a :: as =>
    match f a with
    | .error e => .error e
    | .ok b =>
      match mapE f as with
      | .error e => .error e
      | .ok bs => .ok (b :: bs)

def nzLabel (sampIds : List Id) (o : Id) (e : Nat × Rat) : Except Err (Id × Id) :=
  match getE sampIds e.1 with
  | .error er => .error er
  | .ok sa => .ok (o, sa)

def nzRow (cs : CS Rat) (obsIds sampIds : List Id) (i : Nat) : Except Err (List (Id × Id)) :=
  match getE obsIds i with
  | .error e => .error e
  | .ok o => mapE (nzLabel sampIds o) (cs.slice i)

/-- `Table.nonzero()` as written: on the CSR matrix, for every row walk `indices[indptr[r]:indptr[r+1]]`
and yield `(obs_ids[r], samp_ids[col])` for every STORED entry (bounds-checked reads). -/
def nonzeroKernel (cs : CS Rat) (obsIds sampIds : List Id) : Except Err (List (Id × Id)) :=
  match mapE (nzRow cs obsIds sampIds) (List.range cs.nMajor) with
  | .error e => .error e
  | .ok rows => .ok rows.flatten

def sumRow (r : List Rat) : Rat := r.foldl (· + ·) 0
def sumWhole (s : TState) : Rat := sumRow (s.rows.map sumRow)
/-- `sum('observation')` = scipy axis 1 = one total per row -/
def sumObs (s : TState) : List Rat := s.rows.map sumRow
/-- `sum('sample')` = scipy axis 0 = one total per column -/
def sumSamp (s : TState) : List Rat := (List.range s.ncols).map (fun j => sumRow (colAt s.rows j))
def nnzAcc (s : TState) : Nat := (s.rows.map (fun r => (r.filter (· != 0)).length)).foldl (· + ·) 0

/-! ### the property, on one observed state -/

structure Observed where
  obsIds : List Id
  sampIds : List Id
  shape : Nat × Nat
  indexObs : List (Option Nat)        -- index(id) for every id in ids order (none = UnknownID)
  indexSamp : List (Option Nat)
  existsObs : List Bool
  existsSamp : List Bool
  probesUnknown : List Bool           -- for ids known not to be present: "reported unknown" (index raised and exists false)
  omdLen : Option Nat
  smdLen : Option Nat
  dense : List (List Rat)             -- matrix_data of a deep copy
  dataObs : List (List Rat)           -- data(id,'observation') per id
  dataSamp : List (List Rat)
  cells : List (List Rat)             -- get_value_by_ids for every pair
  iterObs : List (Id × List Rat)
  iterSamp : List (Id × List Rat)
  pairwiseObs : List ((Id × List Rat) × (Id × List Rat))
  nonzero : List (Id × Id)
  sumWhole : Rat
  sumObs : List Rat
  sumSamp : List Rat
  nnz : Nat
  density : Rat
  nzcObs : List Nat := []             -- nonzero_counts('observation')
  nzcSamp : List Nat := []
  accessorErrors : List String := []   -- accessors that raised on a table with both axes non-empty
  deriving Repr

def absR (x : Rat) : Rat := if x < 0 then -x else x

/-- equality up to binary64 rounding of a sum/quotient: relative 2⁻⁴⁰ of the magnitude `scale` -/
def approxEq (a b scale : Rat) : Bool := a == b || absR (a - b) * 1099511627776 ≤ scale

def sumAbs (r : List Rat) : Rat := (r.map absR).foldl (· + ·) 0

/-! the clauses, one definition each (so that each can be proved of the model on its own) -/
namespace Cl
def nO (o : Observed) : Nat := o.obsIds.length
def nS (o : Observed) : Nat := o.sampIds.length
def nonEmpty (o : Observed) : Bool := decide (nO o > 0) && decide (nS o > 0)
def col (o : Observed) (j : Nat) : List Rat := colAt o.dense j
def expNonzero (o : Observed) : List (Id × Id) :=
  (o.obsIds.zip o.dense).flatMap (fun (oi, r) =>
    (o.sampIds.zip r).filterMap (fun (si, v) => if v != 0 then some (oi, si) else none))
def expPairs (ids : List Id) : List (Id × Id) :=
  (List.range ids.length).flatMap (fun i => ((List.range ids.length).filter (· > i)).filterMap (fun j =>
    match ids[i]?, ids[j]? with | some a, some b => some (a, b) | _, _ => none))

def answers (o : Observed) : Bool := o.accessorErrors.isEmpty
def shape (o : Observed) : Bool := o.shape == (nO o, nS o)
def denseShape (o : Observed) : Bool := o.dense.length == nO o && o.dense.all (·.length == nS o)
def uniqObs (o : Observed) : Bool := !hasDup o.obsIds
def uniqSamp (o : Observed) : Bool := !hasDup o.sampIds
def idxObs (o : Observed) : Bool := o.indexObs == (List.range (nO o)).map some
def idxSamp (o : Observed) : Bool := o.indexSamp == (List.range (nS o)).map some
def existsAll (o : Observed) : Bool :=
  o.existsObs.all id && o.existsSamp.all id && o.existsObs.length == nO o && o.existsSamp.length == nS o
def probes (o : Observed) : Bool := o.probesUnknown.all id
def omd (o : Observed) : Bool := match o.omdLen with | none => true | some l => l == nO o
def smd (o : Observed) : Bool := match o.smdLen with | none => true | some l => l == nS o
def dataObs (o : Observed) : Bool := !nonEmpty o || o.dataObs == o.dense
def dataSamp (o : Observed) : Bool := !nonEmpty o || o.dataSamp == (List.range (nS o)).map (col o)
def cells (o : Observed) : Bool := !nonEmpty o || o.cells == o.dense
def iterObs (o : Observed) : Bool := !nonEmpty o || o.iterObs == o.obsIds.zip o.dense
def iterSamp (o : Observed) : Bool := !nonEmpty o || o.iterSamp == o.sampIds.zip ((List.range (nS o)).map (col o))
def pairRows (o : Observed) : Bool := !nonEmpty o ||
  o.pairwiseObs.all (fun (a, b) => lookupBy o.obsIds o.dense a.1 == some a.2 && lookupBy o.obsIds o.dense b.1 == some b.2)
def pairList (o : Observed) : Bool := !nonEmpty o || o.pairwiseObs.map (fun (a, b) => (a.1, b.1)) == expPairs o.obsIds
def nonzero (o : Observed) : Bool := !nonEmpty o ||
  (o.nonzero.all ((expNonzero o).contains ·) && (expNonzero o).all (o.nonzero.contains ·) &&
    o.nonzero.length == (expNonzero o).length)
def sumWhole (o : Observed) : Bool := approxEq o.sumWhole (sumRow (o.dense.map sumRow)) (sumAbs (o.dense.map sumAbs))
def sumObs (o : Observed) : Bool := o.sumObs.length == nO o &&
  (o.sumObs.zip o.dense).all (fun (x, r) => approxEq x (sumRow r) (sumAbs r))
def sumSamp (o : Observed) : Bool := o.sumSamp.length == nS o &&
  (o.sumSamp.zip ((List.range (nS o)).map (col o))).all (fun (x, c) => approxEq x (sumRow c) (sumAbs c))
def nnz (o : Observed) : Bool := o.nnz == (expNonzero o).length
def nzcObs (o : Observed) : Bool := o.nzcObs == o.dense.map (fun r => (r.filter (· != 0)).length)
def nzcSamp (o : Observed) : Bool := o.nzcSamp == (List.range (nS o)).map (fun j => ((col o j).filter (· != 0)).length)
def density (o : Observed) : Bool :=
  if nonEmpty o then approxEq (o.density * ((nO o * nS o : Nat) : Rat)) ((expNonzero o).length : Rat) ((expNonzero o).length : Rat)
  else o.density == 0
end Cl

/-- the named clauses of the property, in the order they are reported -/
def clauses (o : Observed) : List (String × Bool) := [
  ("every accessor answers", Cl.answers o),
  ("shape = (|obs ids|, |sample ids|)", Cl.shape o),
  ("dense matrix has the declared shape", Cl.denseShape o),
  ("observation ids unique", Cl.uniqObs o),
  ("sample ids unique", Cl.uniqSamp o),
  ("index(obs id) = its position", Cl.idxObs o),
  ("index(sample id) = its position", Cl.idxSamp o),
  ("exists true on every id", Cl.existsAll o),
  ("unknown ids reported unknown", Cl.probes o),
  ("observation metadata one entry per id", Cl.omd o),
  ("sample metadata one entry per id", Cl.smd o),
  ("data(obs id) = its row", Cl.dataObs o),
  ("data(sample id) = its column", Cl.dataSamp o),
  ("get_value_by_ids = the cell", Cl.cells o),
  ("iter(observation) yields every id with its row, in order", Cl.iterObs o),
  ("iter(sample) yields every id with its column, in order", Cl.iterSamp o),
  ("iter_pairwise(observation) pairs carry their own rows", Cl.pairRows o),
  ("iter_pairwise(observation) lists every unordered pair once", Cl.pairList o),
  ("nonzero() lists exactly the non-zero cells", Cl.nonzero o),
  ("sum(whole)", Cl.sumWhole o),
  ("sum(observation)", Cl.sumObs o),
  ("sum(sample)", Cl.sumSamp o),
  ("nnz", Cl.nnz o),
  ("nonzero_counts(observation)", Cl.nzcObs o),
  ("nonzero_counts(sample)", Cl.nzcSamp o),
  ("density = nnz / (N*M)", Cl.density o)]

open Codec in
def holds (o : Observed) : Verdict := allV ((clauses o).map (fun cb => chk cb.1 cb.2))

/-- what the model's accessors report for a state -/
def observe (s : TState) (unknownProbes : List (Axis × Id)) : Observed :=
  let okOr (d : List Rat) (e : Except Err (List Rat)) := match e with | .ok v => v | .error _ => d
  let idx (ax : Axis) (id : Id) : Option Nat := match indexAcc s ax id with | .ok i => some i | .error _ => none
  let n := s.obs.ids.length
  -- `__getitem__` refuses every read on a table with an empty axis: no per-ID accessor answers
  let ne {γ : Type} (l : List γ) : List γ := if s.obs.ids.isEmpty || s.samp.ids.isEmpty then [] else l
  { obsIds := s.obs.ids, sampIds := s.samp.ids, shape := (s.nrows, s.ncols),
    indexObs := s.obs.ids.map (idx .obs), indexSamp := s.samp.ids.map (idx .samp),
    existsObs := s.obs.ids.map (existsAcc s .obs), existsSamp := s.samp.ids.map (existsAcc s .samp),
    -- a probe that currently is an ID of the axis says nothing; any other probe must be reported unknown
    probesUnknown := unknownProbes.map (fun (ax, id) =>
      (s.axis ax).ids.contains id || ((idx ax id).isNone && !(existsAcc s ax id))),
    omdLen := s.obs.md.map (·.length), smdLen := s.samp.md.map (·.length),
    dense := s.rows,
    dataObs := ne <| s.obs.ids.map (fun i => okOr [] (dataAcc s .obs i)),
    dataSamp := ne <| s.samp.ids.map (fun i => okOr [] (dataAcc s .samp i)),
    cells := ne <| s.obs.ids.map (fun o => s.samp.ids.map (fun sa => match valueAcc s o sa with | .ok v => v | .error _ => 0)),
    iterObs := ne <| s.obs.ids.zip s.rows,
    iterSamp := ne <| s.samp.ids.zip ((List.range s.ncols).map (colAt s.rows)),
    pairwiseObs := ne <| (List.range n).flatMap (fun i => ((List.range n).filter (· > i)).filterMap (fun j =>
      match s.obs.ids[i]?, s.obs.ids[j]? with
      | some a, some b => some ((a, okOr [] (dataAcc s .obs a)), (b, okOr [] (dataAcc s .obs b)))
      | _, _ => none)),
    nonzero := ne <| nonzeroAcc s,
    sumWhole := sumWhole s, sumObs := sumObs s, sumSamp := sumSamp s, nnz := nnzAcc s,
    nzcObs := s.rows.map (fun r => (r.filter (· != 0)).length),
    nzcSamp := (List.range s.ncols).map (fun j => ((colAt s.rows j).filter (· != 0)).length),
    density := if s.obs.ids.isEmpty || s.samp.ids.isEmpty then 0 else (nnzAcc s : Rat) / ((s.obs.ids.length * s.samp.ids.length : Nat) : Rat) }

end Biom.C05

/-! ### JSON glue -/
namespace Biom.C05
open Codec

def asDict (j : Json) : R Dict := asList (fun p => do
  match (← asArr p) with
  | [a, b] => pure ((← asStr a), (← asNat b))
  | _ => .error "dict pair") j

def asMdList (j : Json) : R (List Md) := asList asMd j

def asCtor (j : Json) : R CtorArgs := do
  pure { nrows := (← natF j "nrows"), ncols := (← natF j "ncols"), rows := (← listF (asList asRat) j "rows"),
         obsIds := (← listF asStr j "obs_ids"), sampIds := (← listF asStr j "samp_ids"),
         omd := (← optF asMdList j "omd"), smd := (← optF asMdList j "smd"),
         validate := (← boolFD j "validate" true),
         obsIndex := (← optF asDict j "obs_index"), sampIndex := (← optF asDict j "samp_index") }

def asPairs (f : Json → R β) (j : Json) : R (List (Id × β)) := asList (fun p => do
  match (← asArr p) with
  | [a, b] => pure ((← asStr a), (← f b))
  | _ => .error "pair") j

def asOp (j : Json) : R Op := do
  match (← strF j "op") with
  | "construct" => pure (.construct (← asCtor (← fld j "args")))
  | "filter" => pure (.filter (← axisF j "axis") (← listF asBool j "mask"))
  | "update_ids" => pure (.updateIds (← axisF j "axis") (← asPairs asStr (← fld j "id_map")) (← boolF j "strict"))
  | "add_md" => pure (.addMd (← axisF j "axis") (← asPairs asMd (← fld j "mapping")))
  | "del_md" => pure (.delMd (← listF asAxis j "axes") (← optF (asList asStr) j "keys"))
  | "set_content" => pure (.setContent (← listF (asList asRat) j "rows"))
  | s => .error s!"bad op {s}"

def asIdVec (j : Json) : R (Id × List Rat) := do
  match (← asArr j) with
  | [a, b] => pure ((← asStr a), (← asList asRat b))
  | _ => .error "id/vector pair"

def asObserved (j : Json) : R Observed := do
  let shape ← listF asNat j "shape"
  let optNat (x : Json) : R (Option Nat) := asOpt asNat x
  pure {
    obsIds := (← listF asStr j "obs_ids"), sampIds := (← listF asStr j "samp_ids"),
    shape := (shape.getD 0 0, shape.getD 1 0),
    indexObs := (← listF optNat j "index_obs"), indexSamp := (← listF optNat j "index_samp"),
    existsObs := (← listF asBool j "exists_obs"), existsSamp := (← listF asBool j "exists_samp"),
    probesUnknown := (← listF asBool j "probes_unknown"),
    omdLen := (← optF asNat j "omd_len"), smdLen := (← optF asNat j "smd_len"),
    dense := (← listF (asList asRat) j "dense"),
    dataObs := (← listF (asList asRat) j "data_obs"), dataSamp := (← listF (asList asRat) j "data_samp"),
    cells := (← listF (asList asRat) j "cells"),
    iterObs := (← listF asIdVec j "iter_obs"), iterSamp := (← listF asIdVec j "iter_samp"),
    pairwiseObs := (← listF (fun p => do
        match (← asArr p) with
        | [a, b] => pure ((← asIdVec a), (← asIdVec b))
        | _ => .error "pairwise entry") j "pairwise_obs"),
    nonzero := (← listF (fun p => do
        match (← asArr p) with
        | [a, b] => pure ((← asStr a), (← asStr b))
        | _ => .error "nonzero entry") j "nonzero"),
    sumWhole := (← asRat (← fld j "sum_whole")), sumObs := (← listF asRat j "sum_obs"),
    sumSamp := (← listF asRat j "sum_samp"), nnz := (← natF j "nnz"), density := (← asRat (← fld j "density")),
    nzcObs := (← listF asNat j "nzc_obs"), nzcSamp := (← listF asNat j "nzc_samp"),
    accessorErrors := (match optFld j "accessor_errors" with | none => [] | some v => (asList asStr v).toOption.getD ["?"]) }

def idVecToJson (p : Id × List Rat) : Json := .arr #[.str p.1, ratsToJson p.2]

def observedToJson (o : Observed) : Json :=
  let optNat (x : Option Nat) : Json := match x with | none => .null | some n => toJson n
  Json.mkObj [
    ("obs_ids", strsToJson o.obsIds), ("samp_ids", strsToJson o.sampIds),
    ("shape", natsToJson [o.shape.1, o.shape.2]),
    ("index_obs", .arr (o.indexObs.map optNat).toArray), ("index_samp", .arr (o.indexSamp.map optNat).toArray),
    ("exists_obs", boolsToJson o.existsObs), ("exists_samp", boolsToJson o.existsSamp),
    ("probes_unknown", boolsToJson o.probesUnknown),
    ("omd_len", optNat o.omdLen), ("smd_len", optNat o.smdLen),
    ("dense", gridToJson o.dense), ("data_obs", gridToJson o.dataObs), ("data_samp", gridToJson o.dataSamp),
    ("cells", gridToJson o.cells),
    ("iter_obs", .arr (o.iterObs.map idVecToJson).toArray), ("iter_samp", .arr (o.iterSamp.map idVecToJson).toArray),
    ("pairwise_obs", .arr (o.pairwiseObs.map (fun (a, b) => Json.arr #[idVecToJson a, idVecToJson b])).toArray),
    ("nonzero", .arr (o.nonzero.map (fun (a, b) => Json.arr #[.str a, .str b])).toArray),
    ("sum_whole", ratToJson o.sumWhole), ("sum_obs", ratsToJson o.sumObs), ("sum_samp", ratsToJson o.sumSamp),
    ("nnz", toJson o.nnz), ("density", ratToJson o.density), ("nzc_obs", natsToJson o.nzcObs), ("nzc_samp", natsToJson o.nzcSamp)]

/-- order-free comparison of the two observations (nonzero() order is layout dependent) -/
def sameObserved (a b : Observed) : Bool :=
  let key (o : Observed) := (observedToJson { o with nonzero := [], sumWhole := 0, sumObs := [], sumSamp := [], density := 0 }).compress
  let ap (x y : Rat) := approxEq x y (absR x + absR y + sumAbs (a.dense.map sumAbs))
  key a == key b && a.nonzero.all (b.nonzero.contains ·) && b.nonzero.all (a.nonzero.contains ·) &&
    a.nonzero.length == b.nonzero.length &&
    ap a.sumWhole b.sumWhole && ap a.density b.density &&
    a.sumObs.length == b.sumObs.length && (a.sumObs.zip b.sumObs).all (fun (x, y) => ap x y) &&
    a.sumSamp.length == b.sumSamp.length && (a.sumSamp.zip b.sumSamp).all (fun (x, y) => ap x y)

/-- request: {"steps":[{"ops":[model ops for this step], "obs": Observed, "md": {"omd":…,"smd":…}}…], "probes":[[axis,id]…]}
    the first step's ops must start with a construct (the start table). -/
def handle (req : Json) : R Json := do
  if let some kj := optFld req "nonzero_kernel" then
    -- kernel-level request: flat CSR arrays + ids → what the walk of `nonzero()` yields (or the error)
    let cs ← asCS (← fld kj "cs")
    let r := nonzeroKernel cs (← listF asStr kj "obs_ids") (← listF asStr kj "samp_ids")
    return match r with
      | .ok l => Json.mkObj [("ok", .arr (l.map (fun (a, b) => Json.arr #[.str a, .str b])).toArray),
                             ("wf", .bool cs.wfb)]
      | .error e => Json.mkObj [("error", e.name), ("wf", .bool cs.wfb)]
  let steps ← asArr (← fld req "steps")
  let probes ← listF (fun p => do
      match (← asArr p) with
      | [a, b] => pure ((← asAxis a), (← asStr b))
      | _ => .error "probe") req "probes"
  let dummy : TState := { obs := ⟨[], [], none⟩, samp := ⟨[], [], none⟩, nrows := 0, ncols := 0, rows := [] }
  let mut st := dummy
  let mut out : Array Json := #[]
  for sj in steps do
    let ops ← listF asOp sj "ops"
    let obs ← asObserved (← fld sj "obs")
    st := run st ops
    let mobs := observe st probes
    let v := holds obs
    let mdAgree : Bool :=
      match optFld sj "md" with
      | none => true
      | some mj =>
        let om := (optF asMdList mj "omd").toOption.getD none
        let sm := (optF asMdList mj "smd").toOption.getD none
        let sortE (e : Md) : Md := e.mergeSort (fun a b => a.1 ≤ b.1)
        let norm (x : Option (List Md)) := x.map (·.map sortE)
        norm om == norm st.obs.md && norm sm == norm st.samp.md
    let agree := sameObserved mobs obs && mdAgree
    out := out.push (Json.mkObj (verdictToJson v ++ [("model_holds", .bool (holds mobs).isNone), ("agree", .bool agree),
      ("model", if agree then .null else Json.mkObj [("obs", observedToJson mobs),
         ("omd", optToJson (fun m => .arr (m.map mdToJson).toArray) st.obs.md),
         ("smd", optToJson (fun m => .arr (m.map mdToJson).toArray) st.samp.md)])]))
  pure (Json.mkObj [("steps", .arr out)])

end Biom.C05
