import BiomModel.Codec
open Lean
namespace Biom.C08
/-- stub: not built yet -/
def handle (_req : Json) : Codec.R Json := .error "C08: model not built yet"
end Biom.C08
