/-
  C08 — filtering keeps exactly the selected IDs, intact and in order.

  Three layers.
  (1) Specification on `Biom.Table`: `filterAxis t mask ax` (mask semantics via `filterMask`,
      relative order kept, the other axis untouched).
  (2) The kernel `biom/_filter.pyx` on flat compressed arrays (`Biom.CS`):
      `mergeRow`   = the scratch-buffer loop of `_make_filter_array_general` WITH its reused buffer,
      `genMask`    = that function (one predicate call per ID, in order, XOR invert),
      `idMask`     = the iterable branch of `_filter` (`index[id]` per element, boolean `put`, XOR invert),
      `removeRows` = `_remove_rows_csr`: in-place compaction, bounds-checked reads and writes,
      `filterKernel` = `_filter`.
  (3) `Table.filter` glue (`tableFilter`: conversion to CSR/CSC = the `layout` parameter,
      `sortIndices`, kernel, re-installation of ids/metadata), `removeEmpty`, `head`.

  `holds*` are the declarative predicates evaluated on what the REAL code was observed to do.
-/
import BiomModel.Codec
open Lean

namespace Biom.C08

variable {α : Type}

/-! ## (1) Specification layer -/

/-- the vectors of an axis, in ID order: rows, or columns -/
def vecs (t : Table α) : Axis → List (List α)
  | .obs => t.rows
  | .samp => transposeGrid t.samp.length t.rows

/-- "for consistency with init on absence of metadata": a metadata tuple whose entries are all empty
(in particular the empty tuple) is stored as no metadata -/
def normMd (m : Option (List Md)) : Option (List Md) :=
  match m with
  | some l => if l.all (fun e => e.isEmpty) then none else some l
  | none => none

/-- keep the positions of axis `ax` whose mask bit is set; everything else is untouched -/
def filterAxis (t : Table α) (mask : List Bool) : Axis → Table α
  | .obs => { t with obs := filterMask t.obs mask, rows := filterMask t.rows mask,
                     omd := normMd (t.omd.map (filterMask · mask)) }
  | .samp => { t with samp := filterMask t.samp mask, rows := t.rows.map (filterMask · mask),
                      smd := normMd (t.smd.map (filterMask · mask)) }

/-- what a user predicate is given: the dense vector, the ID, the metadata entry (`None` when the
axis has no metadata) -/
abbrev Pred (α : Type) := List α → Id → Option Md → Bool

structure Call (α : Type) where
  vec : List α
  id : Id
  md : Option Md
  deriving Repr, DecidableEq, BEq

/-- the `ids_to_keep` argument: an iterable of IDs, a function, or anything else (`TypeError`) -/
inductive Keep (α : Type) where
  | ids (l : List Id)
  | pred (p : Pred α)
  | other

/-- metadata as the kernel indexes it: `(None,) * len(ids)` when absent -/
def mdArgs (md : Option (List Md)) (n : Nat) : List (Option Md) :=
  match md with
  | none => List.replicate n none
  | some l => l.map some

/-! ## (2) Kernel layer -/

/-- scratch-buffer merge loop of `_make_filter_array_general` (pyx:41-52).
`prev` is the buffer as the previous vector left it; position `j` is rewritten only in the first two
branches — in the third (`j > indices[start]`) the stale value survives. -/
def mergeRow [Zero α] : (prev : List α) → (ents : List (Nat × α)) → (j : Nat) → List α
  | [], _, _ => []
  | _ :: ps, [], j => 0 :: mergeRow ps [] (j + 1)
  | p :: ps, (c, v) :: es, j =>
      if j < c then 0 :: mergeRow ps ((c, v) :: es) (j + 1)
      else if j = c then v :: mergeRow ps es (j + 1)
      else p :: mergeRow ps ((c, v) :: es) (j + 1)

/-- `_make_filter_array_general`: for every ID in order — read `indptr[i], indptr[i+1]`
(bounds-checked), rebuild the vector into the reused buffer, call the predicate, XOR with invert. -/
def genMask [Zero α] (p : Pred α) (invert : Bool) (cs : CS α) :
    Nat → List Id → List (Option Md) → List α → Except Err (List Bool × List (Call α))
  | _, [], _, _ => .ok ([], [])
  | _, _ :: _, [], _ => .error .index
  | i, id :: ids, md :: mds, buf =>
    if i + 1 < cs.indptr.length then
      let v := mergeRow buf (cs.slice i) 0
      match genMask p invert cs (i + 1) ids mds v with
      | .ok (bs, calls) => .ok ((p v id md ^^ invert) :: bs, ⟨v, id, md⟩ :: calls)
      | .error e => .error e
    else .error .index

/-- `idx = [index[id_] for id_ in ids_to_keep]` — `KeyError` at the first unknown ID -/
def lookupAll (ids : List Id) : List Id → Except Err (List Nat)
  | [] => .ok []
  | k :: ks =>
    match indexOf? ids k with
    | none => .error .key
    | some i =>
      match lookupAll ids ks with
      | .ok is => .ok (i :: is)
      | .error e => .error e

/-- `zeros(len(ids), bool).put(idx, True)` then `bitwise_xor(·, invert)` -/
def idMask (ids keep : List Id) (invert : Bool) : Except Err (List Bool) :=
  match lookupAll ids keep with
  | .error e => .error e
  | .ok idx => .ok ((idx.foldl (fun m i => m.set i true) (List.replicate ids.length false)).map (· ^^ invert))

/-- state of `_remove_rows_csr` (pyx:60-87) -/
structure RR (α : Type) where
  indptr : List Nat
  indices : List Nat
  data : List α
  nnz : Nat := 0
  offset : Nat := 0
  offsetRows : Nat := 0
  deriving Repr

/-- `for j in range(start, end): data[j-offset] = data[j]; indices[j-offset] = indices[j]` -/
def rrInner (s : RR α) : (j len : Nat) → Except Err (RR α)
  | _, 0 => .ok s
  | j, len + 1 =>
    match getE s.data j, getE s.indices j with
    | .ok d, .ok i =>
      match putE s.data (j - s.offset) d, putE s.indices (j - s.offset) i with
      | .ok data, .ok indices => rrInner { s with data := data, indices := indices } (j + 1) len
      | _, _ => .error .index
    | _, _ => .error .index

/-- one iteration of `for row in range(m)` -/
def rrRow (s : RR α) (row : Nat) (keep : Bool) : Except Err (RR α) :=
  match getE s.indptr row, getE s.indptr (row + 1) with
  | .ok start, .ok stop =>
    if keep then
      match putE s.indptr (row - s.offsetRows) s.nnz with
      | .ok indptr1 =>
        match putE indptr1 (row - s.offsetRows + 1) (s.nnz + (stop - start)) with
        | .ok indptr2 =>
          rrInner { s with indptr := indptr2, nnz := s.nnz + (stop - start) } start (stop - start)
        | .error e => .error e
      | .error e => .error e
    else .ok { s with offset := s.offset + (stop - start), offsetRows := s.offsetRows + 1 }
  | _, _ => .error .index

def rrLoop (s : RR α) : (row : Nat) → List Bool → Except Err (RR α)
  | _, [] => .ok s
  | row, b :: bs =>
    match rrRow s row b with
    | .ok s' => rrLoop s' (row + 1) bs
    | .error e => .error e

/-- `_remove_rows_csr`: `booleans[row]` is read for `row < m` (bounds-checked), the arrays are
compacted in place and finally sliced `[:nnz]`, `[:nnz]`, `[:m-offset_rows+1]`. -/
def removeRows (cs : CS α) (mask : List Bool) : Except Err (CS α) :=
  if mask.length < cs.nMajor then .error .index
  else
    match rrLoop { indptr := cs.indptr, indices := cs.indices, data := cs.data } 0 (mask.take cs.nMajor) with
    | .ok s => .ok { nMajor := cs.nMajor - s.offsetRows, nMinor := cs.nMinor,
                     indptr := s.indptr.take (cs.nMajor - s.offsetRows + 1),
                     indices := s.indices.take s.nnz, data := s.data.take s.nnz }
    | .error e => .error e

structure KOut (α : Type) where
  cs : CS α
  ids : List Id
  md : Option (List Md)
  calls : List (Call α)

/-- the branch of `_filter` that computes the boolean array (and, for a function, the calls made) -/
def computeMask [Zero α] (cs : CS α) (ids : List Id) (md : Option (List Md)) (keep : Keep α)
    (invert : Bool) : Except Err (List Bool × List (Call α)) :=
  match keep with
  | .ids l => (match idMask ids l invert with | .ok m => .ok (m, []) | .error e => .error e)
  | .pred p => genMask p invert cs 0 ids (mdArgs md ids.length) (List.replicate cs.nMinor 0)
  | .other => .error .type

/-- `_filter(arr, ids, metadata, index, ids_to_keep, axis, invert)`; `arr` already compressed along
the filtered axis (major = the filtered axis), `index` = position of each (distinct) ID. -/
def filterKernel [Zero α] (cs : CS α) (ids : List Id) (md : Option (List Md)) (keep : Keep α)
    (invert : Bool) : Except Err (KOut α) :=
  match computeMask cs ids md keep invert with
  | .error e => .error e
  | .ok (mask, calls) =>
    match removeRows cs mask with
    | .error e => .error e
    | .ok cs' => .ok { cs := cs', ids := filterMask ids mask, md := md.map (filterMask · mask), calls := calls }

/-! ### Functional twins used by the theorems (and by scipy's `sort_indices` model) -/

/-- prefix sums: `psums a [l₀,l₁,…] = [a, a+l₀, a+l₀+l₁, …]` -/
def psums : Nat → List Nat → List Nat
  | a, [] => [a]
  | a, l :: ls => a :: psums (a + l) ls

/-- the compressed matrix whose major vectors are the given entry lists, in that storage order -/
def ofSlices (nMinor : Nat) (sl : List (List (Nat × α))) : CS α :=
  { nMajor := sl.length, nMinor := nMinor, indptr := psums 0 (sl.map List.length),
    indices := (sl.map (·.map (·.1))).flatten, data := (sl.map (·.map (·.2))).flatten }

def slices (cs : CS α) : List (List (Nat × α)) := (List.range cs.nMajor).map cs.slice

/-- functional twin of `removeRows`: append the kept slices, prefix sums as the new `indptr` -/
def keptSlices (cs : CS α) (mask : List Bool) : CS α :=
  ofSlices cs.nMinor (filterMask (slices cs) mask)

def insertEnt (e : Nat × α) : List (Nat × α) → List (Nat × α)
  | [] => [e]
  | x :: xs => if e.1 ≤ x.1 then e :: x :: xs else x :: insertEnt e xs

def sortEnts : List (Nat × α) → List (Nat × α)
  | [] => []
  | e :: es => insertEnt e (sortEnts es)

/-- scipy `sort_indices()`: inside every major vector the entries are ordered by minor index -/
def sortIndices (cs : CS α) : CS α := ofSlices cs.nMinor ((slices cs).map sortEnts)

/-! ## (3) `Table.filter`, `remove_empty`, `head` -/

/-- `Table.filter` up to the result table.  `layout` is what `tocsr()` / `tocsc()` returned for the
receiver's matrix (any well-formed layout of the same content; after a reordering its indices are
unsorted); it is sorted, handed to the kernel, and ids / metadata / matrix are installed (metadata
whose kept entries are all empty is installed as `None`). -/
def tableFilter [Zero α] (t : Table α) (layout : CS α) (ax : Axis) (keep : Keep α) (invert : Bool) :
    Except Err (Table α × List (Call α)) :=
  match filterKernel (sortIndices layout) (t.ids ax) (t.md ax) keep invert with
  | .error e => .error e
  | .ok out =>
    match ax with
    | .obs => .ok ({ t with obs := out.ids, omd := normMd out.md, rows := out.cs.toDense }, out.calls)
    | .samp => .ok ({ t with samp := out.ids, smd := normMd out.md,
                             rows := transposeGrid t.obs.length out.cs.toDense }, out.calls)

structure FilterOut (α : Type) where
  /-- what the call returned, or the error class it raised -/
  result : Except Err (Table α)
  /-- the receiver afterwards -/
  after : Table α
  calls : List (Call α)

/-- the whole call including the `inplace` flag: the receiver becomes the result only when the
kernel succeeded and `inplace` is set; an error is raised before anything is assigned -/
def filterCall [Zero α] (t : Table α) (layout : CS α) (ax : Axis) (keep : Keep α) (invert inplace : Bool) :
    FilterOut α :=
  match tableFilter t layout ax keep invert with
  | .error e => { result := .error e, after := t, calls := [] }
  | .ok (r, calls) => { result := .ok r, after := if inplace then r else t, calls := calls }

def nonEmptyVec [Zero α] [DecidableEq α] (v : List α) : Bool := v.any (fun x => decide (x ≠ 0))

/-- one axis of `remove_empty`: count the non-zero cells per vector, keep the IDs with a positive count -/
def removeEmptyAxis [Zero α] [DecidableEq α] (t : Table α) (layout : CS α) (ax : Axis) :
    Except Err (Table α) :=
  let keep := filterMask (t.ids ax) ((vecs t ax).map nonEmptyVec)
  match tableFilter t layout ax (.ids keep) false with
  | .ok (r, _) => .ok r
  | .error e => .error e

/-- `head(n, m)`: refuse non-positive sizes, then filter observations by the leading `n` IDs and
samples by the leading `m` IDs -/
def head [Zero α] (t : Table α) (layoutObs : CS α) (layoutSamp : Table α → CS α) (n m : Int) :
    Except Err (Table α) :=
  if n ≤ 0 ∨ m ≤ 0 then .error .index
  else
    match tableFilter t layoutObs .obs (.ids (t.obs.take n.toNat)) false with
    | .error e => .error e
    | .ok (t1, _) =>
      match tableFilter t1 (layoutSamp t1) .samp (.ids (t.samp.take m.toNat)) false with
      | .error e => .error e
      | .ok (t2, _) => .ok t2

/-! ## The property, stated on observations only -/

/-- canonical metadata entry (Appendix B): absent metadata ≡ an empty entry -/
def mdCanon (m : Option Md) : Md := m.getD []

/-- Boolean equality through `DecidableEq` (so that it is equality, whatever `BEq` instance is derived) -/
def eqb {β : Type} [DecidableEq β] (a b : β) : Bool := decide (a = b)

def errOf {β : Type} : Except Err β → Option Err
  | .ok _ => none
  | .error e => some e

/-- the true dense vector and metadata of an ID, looked up by ID in the table before the call -/
def trueCall (t : Table α) (ax : Axis) (id : Id) : Option (Call α) :=
  (t.vec? ax id).map (fun v => ⟨v, id, t.mdOf? ax id⟩)

/-- the IDs that must remain, in original order -/
def keptIds [DecidableEq α] (t : Table α) (ax : Axis) (keep : Keep α) (invert : Bool) : List Id :=
  match keep with
  | .ids l => (t.ids ax).filter (fun id => l.contains id ^^ invert)
  | .pred p => (t.ids ax).filter (fun id =>
      match t.vec? ax id with
      | some v => p v id (t.mdOf? ax id) ^^ invert
      | none => false)
  | .other => []

open Codec in
/-- clauses about a result table `r` that must be `t` restricted to `kept` on axis `ax` -/
def resultClauses [DecidableEq α] (t r : Table α) (ax : Axis) (kept : List Id) : Verdict :=
  allV [
    chk "result-shape" r.wfb,
    chk "kept-ids-in-order" (eqb (r.ids ax) kept),
    chk "other-axis-ids" (eqb (r.ids ax.other) (t.ids ax.other)),
    chk "vectors-by-id" (kept.all (fun id => eqb (r.vec? ax id) (t.vec? ax id))),
    chk "metadata-by-id" (kept.all (fun id => eqb (mdCanon (r.mdOf? ax id)) (mdCanon (t.mdOf? ax id)))),
    chk "other-axis-metadata" (eqb (r.md ax.other) (t.md ax.other)),
    chk "type" (eqb r.ttype t.ttype)]

structure FilterObs (α : Type) where
  result : Except Err (Table α)
  after : Table α
  calls : List (Call α)
  /-- predicate requests only: what filtering by the list of accepted IDs returned -/
  viaIds : Option (Except Err (Table α))

open Codec in
def verdictFilter [DecidableEq α] (t : Table α) (ax : Axis) (keep : Keep α) (invert inplace : Bool)
    (o : FilterObs α) : Verdict :=
  match keep with
  | .other => chk "non-iterable-non-function-is-an-error" ((errOf o.result).isSome && eqb o.after t)
  | .ids l =>
    if l.all (fun id => (t.ids ax).contains id) then
      match o.result with
      | .error _ => some "known-ids-must-not-raise"
      | .ok r => allV [resultClauses t r ax (keptIds t ax keep invert),
                       chk "no-predicate-calls" (eqb o.calls []),
                       chk "receiver" (eqb o.after (if inplace then r else t))]
    else
      allV [chk "unknown-id-is-an-error" (errOf o.result).isSome,
            chk "unknown-id-leaves-table-unchanged" (eqb o.after t)]
  | .pred _ =>
    match o.result with
    | .error _ => some "predicate-filter-must-not-raise"
    | .ok r => allV [
        chk "calls-every-id-once-in-order" (eqb (o.calls.map (·.id)) (t.ids ax)),
        chk "calls-true-vector" (o.calls.all (fun c => eqb (t.vec? ax c.id) (some c.vec))),
        chk "calls-metadata" (o.calls.all (fun c => eqb (t.mdOf? ax c.id) c.md)),
        resultClauses t r ax (keptIds t ax keep invert),
        chk "receiver" (eqb o.after (if inplace then r else t)),
        chk "predicate-equals-idlist"
          (match o.viaIds with
           | some (.ok r2) => eqb r2 r
           | _ => false)]

def holdsFilter [DecidableEq α] (t : Table α) (ax : Axis) (keep : Keep α) (invert inplace : Bool)
    (o : FilterObs α) : Bool :=
  (verdictFilter t ax keep invert inplace o).isNone

def isEmptyTable (t : Table α) : Bool := t.obs.isEmpty || t.samp.isEmpty

/-- is the request one the library accepts (all named IDs known / a function)? -/
def validKeep (t : Table α) (ax : Axis) : Keep α → Bool
  | .ids l => l.all (fun id => (t.ids ax).contains id)
  | .pred _ => true
  | .other => false

open Codec in
/-- `verdictFilter` under an error profile.  With `empty='raise'` a request whose specified result has an
empty axis must raise `TableException`; the receiver is then judged as without the profile: unchanged
for a copying call, the (empty) specified result for an in-place call. -/
def verdictFilterP [DecidableEq α] (emptyRaise : Bool) (t : Table α) (ax : Axis) (keep : Keep α)
    (invert inplace : Bool) (o : FilterObs α) : Verdict :=
  if emptyRaise && validKeep t ax keep &&
      ((keptIds t ax keep invert).isEmpty || (t.ids ax.other).isEmpty) then
    allV [chk "empty-result-raises-under-empty=raise" (eqb (errOf o.result) (some .tableException)),
          if inplace then verdictFilter t ax keep invert true { o with result := .ok o.after }
          else chk "receiver" (eqb o.after t)]
  else verdictFilter t ax keep invert inplace o

/-- the call under the profile `empty='raise'`: `errcheck(table)` runs after the result is installed -/
def filterCallP [Zero α] (emptyRaise : Bool) (t : Table α) (layout : CS α) (ax : Axis) (keep : Keep α)
    (invert inplace : Bool) : FilterOut α :=
  let o := filterCall t layout ax keep invert inplace
  match o.result with
  | .ok r => if emptyRaise && isEmptyTable r then { o with result := .error .tableException } else o
  | .error _ => o

/-- which axes `remove_empty(axis=…)` works on -/
inductive REAxis where
  | one (ax : Axis)
  | whole
  deriving Repr, DecidableEq

def REAxis.touches : REAxis → Axis → Bool
  | .one .obs, .obs => true
  | .one .samp, .samp => true
  | .one _, _ => false
  | .whole, _ => true

structure CallObs (α : Type) where
  result : Except Err (Table α)
  after : Table α

/-- the IDs of an axis whose vector holds a non-zero cell -/
def nonEmptyIds [Zero α] [DecidableEq α] (t : Table α) (ax : Axis) : List Id :=
  (t.ids ax).filter (fun id => match t.vec? ax id with | some v => nonEmptyVec v | none => false)

open Codec in
def verdictRemoveEmpty [Zero α] [DecidableEq α] (t : Table α) (which : REAxis) (inplace : Bool)
    (o : CallObs α) : Verdict :=
  match o.result with
  | .error _ => some "remove-empty-must-not-raise"
  | .ok r =>
    let eo := if which.touches .obs then nonEmptyIds t .obs else t.obs
    let es := if which.touches .samp then nonEmptyIds t .samp else t.samp
    allV [
      chk "result-shape" r.wfb,
      chk "exactly-the-nonzero-observations" (eqb r.obs eo),
      chk "exactly-the-nonzero-samples" (eqb r.samp es),
      chk "cells-by-id" (eo.all (fun o => es.all (fun s => eqb (r.cell? o s) (t.cell? o s)))),
      chk "metadata-by-id" (eo.all (fun o => eqb (mdCanon (r.mdOf? .obs o)) (mdCanon (t.mdOf? .obs o))) &&
                            es.all (fun s => eqb (mdCanon (r.mdOf? .samp s)) (mdCanon (t.mdOf? .samp s)))),
      chk "type" (eqb r.ttype t.ttype),
      chk "receiver" (eqb o.after (if inplace then r else t))]

def holdsRemoveEmpty [Zero α] [DecidableEq α] (t : Table α) (which : REAxis) (inplace : Bool)
    (o : CallObs α) : Bool :=
  (verdictRemoveEmpty t which inplace o).isNone

open Codec in
def verdictHead [DecidableEq α] (t : Table α) (n m : Int) (o : CallObs α) : Verdict :=
  if n ≤ 0 ∨ m ≤ 0 then
    allV [chk "non-positive-size-is-an-error" (errOf o.result).isSome, chk "receiver-unchanged" (eqb o.after t)]
  else
    match o.result with
    | .error _ => some "head-must-not-raise"
    | .ok r =>
      let eo := t.obs.take n.toNat
      let es := t.samp.take m.toNat
      allV [
        chk "result-shape" r.wfb,
        chk "leading-n-observations" (eqb r.obs eo),
        chk "leading-m-samples" (eqb r.samp es),
        chk "cells-by-id" (eo.all (fun o => es.all (fun s => eqb (r.cell? o s) (t.cell? o s)))),
        chk "metadata-by-id" (eo.all (fun o => eqb (mdCanon (r.mdOf? .obs o)) (mdCanon (t.mdOf? .obs o))) &&
                              es.all (fun s => eqb (mdCanon (r.mdOf? .samp s)) (mdCanon (t.mdOf? .samp s)))),
        chk "type" (eqb r.ttype t.ttype),
        chk "receiver-unchanged" (eqb o.after t)]

def holdsHead [DecidableEq α] (t : Table α) (n m : Int) (o : CallObs α) : Bool :=
  (verdictHead t n m o).isNone

/-- what a table answers through its OWN by-ID lookups: `index(id)` for every ID it lists (`none` = the
lookup raised), optionally `data(id)` for every ID, and the IDs removed by the operation that `exists`
still reports -/
structure Lookups (α : Type) where
  obsIndex : List (Option Nat)
  sampIndex : List (Option Nat)
  obsData : Option (List (Option (List α)))
  sampData : Option (List (Option (List α)))
  stale : List Id

/-- the table's own lookups agree with its positional content: `index(ids[i]) = i`, `data(ids[i])` is
vector `i`, and no removed ID is still known -/
def holdsLookups [DecidableEq α] (r : Table α) (lk : Lookups α) : Bool :=
  eqb lk.obsIndex ((List.range r.obs.length).map some) &&
  eqb lk.sampIndex ((List.range r.samp.length).map some) &&
  (match lk.obsData with | none => true | some d => eqb d (r.rows.map some)) &&
  (match lk.sampData with | none => true | some d => eqb d ((vecs r .samp).map some)) &&
  eqb lk.stale []

/-- the model's lookups: positions and vectors found BY ID in the table -/
def lookupsOf (r : Table α) (removedObs removedSamp : List Id) : Lookups α :=
  { obsIndex := r.obs.map (indexOf? r.obs), sampIndex := r.samp.map (indexOf? r.samp),
    obsData := some (r.obs.map (r.vec? .obs)), sampData := some (r.samp.map (r.vec? .samp)),
    stale := removedObs.filter (fun id => r.obs.contains id) ++ removedSamp.filter (fun id => r.samp.contains id) }

/-- a live table that is not the receiver of the call: must be what it was and answer its own lookups -/
structure Bystander (α : Type) where
  before : Table α
  after : Table α
  lk : Lookups α

def holdsBystanders [DecidableEq α] (bs : List (Bystander α)) : Bool :=
  bs.all (fun b => eqb b.after b.before && holdsLookups b.after b.lk)

/-- kernel level, ID collections: the output is a well-formed matrix whose dense content is the
input's content restricted to the requested vectors; ids and metadata are compressed alike -/
def holdsKernelIds [Zero α] [DecidableEq α] (cs : CS α) (ids : List Id) (md : Option (List Md))
    (keep : List Id) (invert : Bool) (out : Except Err (KOut α)) : Bool :=
  if keep.all (fun id => ids.contains id) then
    match out with
    | .error _ => false
    | .ok o =>
      let mask := ids.map (fun id => keep.contains id ^^ invert)
      o.cs.wfb && eqb o.cs.toDense (filterMask cs.toDense mask) && eqb o.cs.nMinor cs.nMinor &&
      eqb o.ids (filterMask ids mask) && eqb o.md (md.map (filterMask · mask)) && eqb o.calls []
  else (errOf out).isSome

/-! ## The model's observations -/

def acceptedIds [Zero α] (t : Table α) (ax : Axis) (p : Pred α) : List Id :=
  (t.ids ax).filter (fun id =>
    match t.vec? ax id with
    | some v => p v id (t.mdOf? ax id)
    | none => false)

/-- what the model says the harness will observe for one `filter` request -/
def modelFilterObs [Zero α] (t : Table α) (layout : CS α) (ax : Axis) (keep : Keep α) (invert inplace : Bool) :
    FilterObs α :=
  let o := filterCall t layout ax keep invert inplace
  { result := o.result, after := o.after, calls := o.calls,
    viaIds := match keep with
      | .pred p => some (filterCall t layout ax (.ids (acceptedIds t ax p)) invert false).result
      | _ => none }

/-- `remove_empty`: samples first, then observations, for `whole`; the intermediate layouts are
whatever scipy holds at that point (`layoutOf`) -/
def removeEmpty [Zero α] [DecidableEq α] (t : Table α) (layoutOf : Table α → Axis → CS α) (which : REAxis) :
    Except Err (Table α) :=
  match which with
  | .one ax => removeEmptyAxis t (layoutOf t ax) ax
  | .whole =>
    match removeEmptyAxis t (layoutOf t .samp) .samp with
    | .error e => .error e
    | .ok t1 => removeEmptyAxis t1 (layoutOf t1 .obs) .obs

def modelCallObs (t : Table α) (r : Except Err (Table α)) (inplace : Bool) : CallObs α :=
  { result := r, after := match r with | .ok x => if inplace then x else t | .error _ => t }

/-- canonical layout used by the driver when the harness does not supply the real one -/
def canonLayout [Zero α] [DecidableEq α] (t : Table α) (ax : Axis) : CS α :=
  CS.ofDense (t.ids ax.other).length (vecs t ax)

/-! ## JSON glue -/
open Codec

def sumR (v : List Rat) : Rat := v.foldr (· + ·) 0
def wsumR (v : List Rat) : Rat := (v.zipIdx.map (fun p => ((p.2 + 1 : Nat) : Rat) * p.1)).foldr (· + ·) 0

/-- the named predicate family; each has a Python twin in `harness/c08.py` -/
def namedPred (name : String) (k : Rat) (idset : List Id) (key val : String) : Pred Rat :=
  fun v id md =>
    match name with
    | "true" => true
    | "false" => false
    | "sum_gt" => decide (sumR v > k)
    | "wsum_gt" => decide (wsumR v > k)
    | "first_nz" => (match v.head? with | some x => x != 0 | none => false)
    | "last_pos" => (match v.getLast? with | some x => decide (x > 0) | none => false)
    | "nnz_ge" => decide ((((v.filter (· != 0)).length : Nat) : Rat) ≥ k)
    | "id_in" => idset.contains id
    | "md_eq" => (match md with | some m => m.lookup key == some val | none => false)
    | "md_idx" => (match md with | some m => m.lookup key == some val | none => false)
    | "mix" => (idset.contains id) ^^ (decide (wsumR v > k))
    | _ => false

def asKeep (j : Json) : R (Keep Rat) := do
  match (← strF j "kind") with
  | "ids" => pure (.ids (← listF asStr j "ids"))
  | "other" => pure .other
  | "pred" =>
    let name ← strF j "name"
    let k ← match optFld j "k" with | some v => asRat v | none => pure 0
    let idset ← match optFld j "ids" with | some v => asList asStr v | none => pure []
    let key ← strFD j "key" ""
    let val ← strFD j "val" ""
    pure (.pred (namedPred name k idset key val))
  | s => .error s!"bad keep kind {s}"

/-- a user predicate that reads `md[key]` WRITES `key ↦ None` into every entry that lacks the key (the entries
are `defaultdict(lambda: None)`): the effect of the user's function on the metadata it is handed -/
def touchEntry (key : String) (m : Md) : Md :=
  if m.any (fun kv => kv.1 == key) then m
  else (m.filter (fun kv => kv.1 < key)) ++ [(key, "null")] ++ (m.filter (fun kv => !(kv.1 < key)))

def touchAxis (key : String) (t : Table Rat) : Axis → Table Rat
  | .obs => { t with omd := t.omd.map (·.map (touchEntry key)) }
  | .samp => { t with smd := t.smd.map (·.map (touchEntry key)) }

def asResult (j : Json) : R (Except Err (Table Rat)) :=
  match optFld j "ok", optFld j "error" with
  | some t, _ => do pure (.ok (← asTable t))
  | none, some e => do pure (.error (asErr (← asStr e)))
  | none, none => .error "result needs ok or error"

def asCall (j : Json) : R (Call Rat) := do
  pure { vec := (← listF asRat j "vec"), id := (← strF j "id"), md := (← optF asMd j "md") }

def callToJson (c : Call Rat) : Json :=
  Json.mkObj [("vec", ratsToJson c.vec), ("id", .str c.id), ("md", optToJson mdToJson c.md)]

def resultToJson (r : Except Err (Table Rat)) : Json := exceptToJson tableToJson r

def mdListToJson (m : Option (List Md)) : Json := optToJson (fun m => .arr (m.map mdToJson).toArray) m

def asREAxis (j : Json) : R REAxis := do
  match (← asStr j) with
  | "whole" => pure .whole
  | "observation" => pure (.one .obs)
  | "sample" => pure (.one .samp)
  | s => .error s!"bad remove_empty axis {s}"

def answer (v : Verdict) (agree : Bool) (model : Json) (extra : List (String × Json) := []) : Json :=
  Json.mkObj (verdictToJson v ++ [("agree", .bool agree), ("model", model)] ++ extra)

def resEq (a b : Except Err (Table Rat)) : Bool :=
  match a, b with
  | .ok x, .ok y => x == y
  | .error e, .error f => e == f
  | _, _ => false

def asLookups (j : Json) : R (Lookups Rat) := do
  pure { obsIndex := (← listF (asOpt asNat) j "obs_index"), sampIndex := (← listF (asOpt asNat) j "samp_index"),
         obsData := (← optF (asList (asOpt (asList asRat))) j "obs_data"),
         sampData := (← optF (asList (asOpt (asList asRat))) j "samp_data"),
         stale := (← listF asStr j "stale") }

/-- `result_lk` / `after_lk` of an observation: the own-lookup views of the returned table and of the
receiver afterwards -/
def lookupVerdict (oj : Json) (result : Except Err (Table Rat)) (after : Table Rat) : R Verdict := do
  let v1 ← match optFld oj "result_lk", result with
    | some l, .ok r => do pure (chk "own-lookups-of-the-result" (holdsLookups r (← asLookups l)))
    | _, _ => pure none
  let v2 ← match optFld oj "after_lk" with
    | some l => do pure (chk "own-lookups-of-the-receiver" (holdsLookups after (← asLookups l)))
    | none => pure none
  pure (Verdict.and v1 v2)

def handleFilter (req : Json) : R Json := do
  let t0 ← asTable (← fld req "t")
  let ax ← axisF req "axis"
  let keepJ ← fld req "keep"
  let keep ← asKeep keepJ
  let invert ← boolF req "invert"
  let inplace ← boolF req "inplace"
  let layout ← match optFld req "layout" with | some l => asCS l | none => pure (canonLayout t0 ax)
  let oj ← fld req "obs"
  let calls ← listF asCall oj "calls"
  let rets ← listF (fun c => boolFD c "ret" false) oj "calls"
  let obs0 : FilterObs Rat := {
    result := (← asResult (← fld oj "result")), after := (← asTable (← fld oj "after")), calls := calls,
    viaIds := (← optF asResult oj "via_ids") }
  -- a predicate that writes into the metadata it is handed (`effect_key`): everything is judged on the table as
  -- the user's function leaves it, except that a COPYING call must leave the receiver itself untouched
  let effect := optFld keepJ "effect_key"
  let (t, obs, effV) ← match effect with
    | some kj => do
      let key ← asStr kj
      let te := touchAxis key t0 ax
      if inplace then pure (te, obs0, (none : Verdict))
      else pure (te, { obs0 with after := te }, chk "receiver-untouched-by-copying-call" (eqb obs0.after t0))
    | none => pure (t0, obs0, (none : Verdict))
  let emptyRaise := (← strFD req "empty_profile" "") == "raise"
  let bystanders ← match optFld oj "bystanders" with
    | some b => asList (fun j => do
        pure ({ before := (← asTable (← fld j "before")), after := (← asTable (← fld j "after")),
                lk := (← asLookups (← fld j "lk")) } : Bystander Rat)) b
    | none => pure []
  -- the collection object handed in must come back as it was (`arg_before` / `arg_after`: its elements in order)
  let argV : Verdict ← match optFld oj "arg_before", optFld oj "arg_after" with
    | some b, some a => do
      pure (chk "argument-collection-untouched" (eqb (← asList asStr b) (← asList asStr a)))
    | _, _ => pure none
  let v := Verdict.and (Verdict.and (Verdict.and (verdictFilterP emptyRaise t ax keep invert inplace obs)
    (← lookupVerdict oj obs.result obs0.after)) (chk "bystander-tables-unchanged" (holdsBystanders bystanders)))
    (Verdict.and argV effV)
  let m0 := modelFilterObs t layout ax keep invert inplace
  let m := { m0 with result := (filterCallP emptyRaise t layout ax keep invert inplace).result }
  let agree := resEq m.result obs.result && m.after == obs.after && m.calls == obs.calls &&
    (match m.viaIds, obs.viaIds with
     | some a, some b => resEq a b
     | none, none => true
     | _, _ => false)
  -- the Lean twin of the named predicate must give the verdict the Python twin gave on the same arguments
  let twinOk := match keep with
    | .pred p => (calls.zip rets).all (fun cr => p cr.1.vec cr.1.id cr.1.md == cr.2)
    | _ => true
  let mj := Json.mkObj [("result", resultToJson m.result), ("after", tableToJson m.after),
    ("calls", .arr (m.calls.map callToJson).toArray),
    ("via_ids", optToJson resultToJson m.viaIds)]
  pure (answer v agree mj [("twin_ok", .bool twinOk),
    ("model_holds", .bool (verdictFilterP emptyRaise t ax keep invert inplace m).isNone)])

/-- a request the library must refuse (e.g. an unknown axis name): an error, the table unchanged and coherent -/
def handleRefused (req : Json) : R Json := do
  let t ← asTable (← fld req "t")
  let expect ← strF req "expect"
  let oj ← fld req "obs"
  let result ← asResult (← fld oj "result")
  let after ← asTable (← fld oj "after")
  let v := Verdict.and (allV [chk "refused-request-is-an-error" (errOf result).isSome,
                              chk "refused-request-leaves-table-unchanged" (eqb after t)])
                       (← lookupVerdict oj result after)
  let agree := match result with | .error e => e == asErr expect | .ok _ => false
  pure (answer v agree (Json.mkObj [("error", .str expect)]))

def handleRemoveEmpty (req : Json) : R Json := do
  let t ← asTable (← fld req "t")
  let which ← asREAxis (← fld req "axis")
  let inplace ← boolF req "inplace"
  let oj ← fld req "obs"
  let obs : CallObs Rat := { result := (← asResult (← fld oj "result")), after := (← asTable (← fld oj "after")) }
  let v := Verdict.and (verdictRemoveEmpty t which inplace obs) (← lookupVerdict oj obs.result obs.after)
  let m := modelCallObs t (removeEmpty t canonLayout which) inplace
  let agree := resEq m.result obs.result && m.after == obs.after
  pure (answer v agree (Json.mkObj [("result", resultToJson m.result), ("after", tableToJson m.after)])
    [("model_holds", .bool (holdsRemoveEmpty t which inplace m))])

def handleHead (req : Json) : R Json := do
  let t ← asTable (← fld req "t")
  let n ← intF req "n"
  let m ← intF req "m"
  let oj ← fld req "obs"
  let obs : CallObs Rat := { result := (← asResult (← fld oj "result")), after := (← asTable (← fld oj "after")) }
  let v := Verdict.and (verdictHead t n m obs) (← lookupVerdict oj obs.result obs.after)
  let mo := modelCallObs t (head t (canonLayout t .obs) (fun t1 => canonLayout t1 .samp) n m) false
  let agree := resEq mo.result obs.result && mo.after == obs.after
  pure (answer v agree (Json.mkObj [("result", resultToJson mo.result), ("after", tableToJson mo.after)])
    [("model_holds", .bool (holdsHead t n m mo))])

def koutToJson (o : KOut Rat) : Json :=
  Json.mkObj [("cs", csToJson o.cs), ("ids", strsToJson o.ids), ("md", mdListToJson o.md),
    ("calls", .arr (o.calls.map callToJson).toArray)]

def asKOut (j : Json) : R (Except Err (KOut Rat)) :=
  match optFld j "ok", optFld j "error" with
  | some o, _ => do
    pure (.ok { cs := (← asCS (← fld o "cs")), ids := (← listF asStr o "ids"),
                md := (← optF (asList asMd) o "md"), calls := (← listF asCall o "calls") })
  | none, some e => do pure (.error (asErr (← asStr e)))
  | none, none => .error "kernel obs needs ok or error"

def koutEq (a b : Except Err (KOut Rat)) : Bool :=
  match a, b with
  | .ok x, .ok y => x.cs == y.cs && x.ids == y.ids && x.md == y.md && x.calls == y.calls
  | .error e, .error f => e == f
  | _, _ => false

/-- kernel request: flat arrays in, flat arrays out, compared EXACTLY with the model -/
def handleKernel (req : Json) : R Json := do
  let cs ← asCS (← fld req "cs")
  let ids ← listF asStr req "ids"
  let md ← optF (asList asMd) req "md"
  let keep ← asKeep (← fld req "keep")
  let invert ← boolF req "invert"
  let obs ← asKOut (← fld req "obs")
  let m := filterKernel cs ids md keep invert
  let v : Verdict := match keep with
    | .ids l => if cs.wfb && ids.length == cs.nMajor then
        chk "kernel-output-is-the-restriction" (holdsKernelIds cs ids md l invert obs) else none
    | _ => none
  let sorted := (List.range cs.nMajor).all (fun i => decide (((cs.slice i).map (·.1)).Pairwise (· < ·)))
  pure (answer v (koutEq m obs) (exceptToJson koutToJson m)
    [("wf", .bool cs.wfb), ("sorted", .bool sorted)])

def handleOne (req : Json) : R Json := do
  match (← strF req "op") with
  | "filter" => handleFilter req
  | "remove_empty" => handleRemoveEmpty req
  | "head" => handleHead req
  | "kernel" => handleKernel req
  | "refused" => handleRefused req
  | s => .error s!"bad op {s}"

/-- one request, or `{"op":"batch","cases":[…]}` → `{"results":[…]}` -/
def handle (req : Json) : R Json := do
  match (← strF req "op") with
  | "batch" => do
    let cases ← listF pure req "cases"
    let rs ← cases.mapM handleOne
    pure (Json.mkObj [("results", .arr rs.toArray)])
  | _ => handleOne req

end Biom.C08
