import BiomModel.Codec
open Lean
namespace Biom.C18
/-- stub: not built yet -/
def handle (_req : Json) : Codec.R Json := .error "C18: model not built yet"
end Biom.C18
