/-
  C18 — metadata updates touch exactly the named IDs and keys; a mapping file parses to the
  relation its rows describe.

  Model of: Table.add_metadata / del_metadata / _cast_metadata (biom/table.py),
  MetadataMap.from_file (biom/parse.py) at line/field level over `List Char`,
  _add_metadata and the option handling of the `add-metadata` command (biom/cli/metadata_adder.py).

  Texts are `List Char` inside the file model (all string work is list work); they become
  `String` only at the JSON boundary.  Metadata values in a table are opaque canonical texts
  (`Biom.Md`); values produced by the mapping-file conversions are structured (`Val`) and rendered
  to the same canonical texts by `Val.text`.
-/
import BiomModel.Codec
open Lean

namespace Biom.C18

abbrev Str := List Char

/-! ## Python `dict` as an association list (first position, last value) -/
section Dict
variable {κ β : Type} [DecidableEq κ]

/-- `d.get(k)` -/
def dget : List (κ × β) → κ → Option β
  | [], _ => none
  | (k', v) :: r, k => if k' = k then some v else dget r k

/-- the value the *last* pair with key `k` carries (what a sequence of assignments leaves) -/
def dgetLast : List (κ × β) → κ → Option β
  | [], _ => none
  | (k', v) :: r, k =>
    match dgetLast r k with
    | some w => some w
    | none => if k' = k then some v else none

/-- `d[k] = v` -/
def dictSet : List (κ × β) → κ → β → List (κ × β)
  | [], k, v => [(k, v)]
  | (k', v') :: r, k, v => if k' = k then (k', v) :: r else (k', v') :: dictSet r k v

/-- `d.update(e)` -/
def dictUpdate (d e : List (κ × β)) : List (κ × β) := e.foldl (fun d kv => dictSet d kv.1 kv.2) d

/-- `del d[k]` (guarded by `k in d`) -/
def dictDel (d : List (κ × β)) (k : κ) : List (κ × β) := d.filter (fun kv => decide (kv.1 ≠ k))

/-- a dict built by successive assignments -/
def mkDict (e : List (κ × β)) : List (κ × β) := dictUpdate [] e

def dkeys (d : List (κ × β)) : List κ := d.map (·.1)
end Dict

/-! ## add_metadata / del_metadata / _cast_metadata -/
section TableOps
variable {α : Type}

def setMd (t : Table α) (ax : Axis) (m : Option (List Md)) : Table α :=
  match ax with
  | .obs => { t with omd := m }
  | .samp => { t with smd := m }

def modifyAt {β : Type} (f : β → β) : Nat → List β → List β
  | _, [] => []
  | 0, x :: xs => f x :: xs
  | n + 1, x :: xs => x :: modifyAt f n xs

/-- `cast_metadata`: `None` stays `None`; a tuple whose items are all `None` or empty (in particular
    the empty tuple) becomes `None`; otherwise every item becomes a default-None mapping (`None` → empty). -/
def castMd : Option (List (Option Md)) → Option (List Md)
  | none => none
  | some tup => if tup.all (fun x => (x.getD []).isEmpty) then none else some (tup.map (·.getD []))

/-- metadata that carries information: what a real table holds on an axis (never a tuple of empty entries) -/
def mdInformative (md : Option (List Md)) : Bool :=
  match md with
  | none => true
  | some mds => !(mds.all (·.isEmpty))

/-- one iteration of `for id_, md_entry in md.items()` when the axis already has metadata -/
def updStep (ids : List Id) (mds : List Md) (ie : Id × Md) : List Md :=
  match indexOf? ids ie.1 with
  | some i => modifyAt (fun old => dictUpdate old ie.2) i mds
  | none => mds

/-- the metadata tuple of the axis before `_cast_metadata` runs -/
def addPre (t : Table α) (m : List (Id × Md)) (ax : Axis) : List (Option Md) :=
  match t.md ax with
  | some mds => (m.foldl (updStep (t.ids ax)) mds).map some
  | none => (t.ids ax).map (fun id => dget m id)

/-- `Table.add_metadata(md, axis)` for a recognised axis; `_cast_metadata` re-casts both axes -/
def addMetadata (t : Table α) (m : List (Id × Md)) (ax : Axis) : Table α :=
  let t1 := setMd t ax (castMd (some (addPre t m ax)))
  setMd t1 ax.other (castMd ((t.md ax.other).map (·.map some)))

inductive AxisArg where
  | sample | observation | whole | bad
  deriving Repr, DecidableEq

def AxisArg.toAxis? : AxisArg → Option Axis
  | .sample => some .samp
  | .observation => some .obs
  | _ => none

/-- `add_metadata` with the axis as the caller wrote it ('whole' is not an axis of this method) -/
def addMetadataArg (t : Table α) (m : List (Id × Md)) (ax : AxisArg) : Except Err (Table α) :=
  match ax.toAxis? with
  | some a => .ok (addMetadata t m a)
  | none => .error .unknownAxis

def AxisArg.chosen : AxisArg → Axis → Bool
  | .sample, .samp => true
  | .observation, .obs => true
  | .whole, _ => true
  | _, _ => false

/-- the deletion loop of one axis plus the collapse to `None` -/
def delAxis (keys : List String) : Option (List Md) → Option (List Md)
  | none => none
  | some mds =>
    let mds' := mds.map (fun e => keys.foldl dictDel e)
    if !mds'.isEmpty && mds'.all (·.isEmpty) then none else some mds'

def delOn (keys : Option (List String)) (md : Option (List Md)) : Option (List Md) :=
  match keys with
  | none => none
  | some ks => delAxis ks md

/-- `Table.del_metadata(keys, axis)` -/
def delMetadata (t : Table α) (keys : Option (List String)) (ax : AxisArg) : Except Err (Table α) :=
  if ax = .bad then .error .unknownAxis
  else .ok { t with omd := if ax.chosen .obs then delOn keys t.omd else t.omd,
                    smd := if ax.chosen .samp then delOn keys t.smd else t.smd }

/-! ### the property on observations -/

/-- value of key `k` on ID `id` of axis `ax` (`none`: no metadata, unknown ID or absent key) -/
def keyOf (t : Table α) (ax : Axis) (id : Id) (k : String) : Option String :=
  (t.mdOf? ax id).bind (fun e => dget e k)

def allKeys (md : Option (List Md)) : List String :=
  match md with
  | none => []
  | some mds => mds.flatMap dkeys

/-- IDs, their order, the grid and the type are as before -/
def frameSame [DecidableEq α] (before after : Table α) : Bool :=
  after.obs == before.obs && after.samp == before.samp && decide (after.rows = before.rows) &&
  after.ttype == before.ttype

/-- one metadata entry per ID whenever the axis has metadata -/
def mdShape (t : Table α) (ax : Axis) : Bool :=
  match t.md ax with
  | none => true
  | some mds => mds.length == (t.ids ax).length

/-- what the mapping says about (id, k), else what was there before -/
def addExpected (before : Table α) (m : List (Id × Md)) (ax : Axis) (id : Id) (k : String) : Option String :=
  match dget m id with
  | some e => (match dget e k with
               | some v => some v
               | none => keyOf before ax id k)
  | none => keyOf before ax id k

/-- the update clause for one axis: every (ID, key) pair is what `addExpected` says; checked over
    the keys that occur before, after or in the mapping -/
def addAxisClause (before : Table α) (m : List (Id × Md)) (ax : Axis) (after : Table α) : Bool :=
  let ks := allKeys (before.md ax) ++ allKeys (after.md ax) ++ m.flatMap (fun ie => dkeys ie.2)
  mdShape after ax &&
  (before.ids ax).all (fun id => ks.all (fun k => keyOf after ax id k == addExpected before m ax id k))

def addHolds [DecidableEq α] (before : Table α) (m : List (Id × Md)) (ax : Axis) (after : Table α) : Bool :=
  frameSame before after && addAxisClause before m ax after &&
  decide (after.md ax.other = before.md ax.other)

def delExpected (before : Table α) (keys : Option (List String)) (arg : AxisArg) (ax : Axis) (id : Id)
    (k : String) : Option String :=
  if arg.chosen ax && (match keys with | none => true | some ks => ks.contains k) then none
  else keyOf before ax id k

/-- after a deletion with explicit keys a chosen axis never keeps a tuple of empty entries -/
def collapsed (md : Option (List Md)) : Bool :=
  match md with
  | none => true
  | some mds => mds.isEmpty || mds.any (fun e => !e.isEmpty)

def delAxisClause (before : Table α) (keys : Option (List String)) (arg : AxisArg) (ax : Axis)
    (after : Table α) : Bool :=
  let ks := allKeys (before.md ax) ++ allKeys (after.md ax) ++ keys.getD []
  mdShape after ax &&
  (before.ids ax).all (fun id => ks.all (fun k => keyOf after ax id k == delExpected before keys arg ax id k)) &&
  (if arg.chosen ax then (match keys with | none => (after.md ax).isNone | some _ => collapsed (after.md ax))
   else decide (after.md ax = before.md ax))

def delHolds [DecidableEq α] (before : Table α) (keys : Option (List String)) (arg : AxisArg) (after : Table α) : Bool :=
  frameSame before after && delAxisClause before keys arg .obs after && delAxisClause before keys arg .samp after

/-- "…and nothing else": every OTHER live table (one the receiver was derived from, or derived from
    the receiver) shows the same IDs, order, grid, type and metadata on both axes after the call -/
def othersUnchanged [DecidableEq α] (others : List (Table α × Table α)) : Bool :=
  others.all (fun p => frameSame p.1 p.2 && decide (p.2.omd = p.1.omd) && decide (p.2.smd = p.1.smd))

/-- the live tables of a program as a store of values: an update replaces the receiver's slot -/
def storeUpdate (f : Table α → Table α) (i : Nat) (ts : List (Table α)) : List (Table α) := modifyAt f i ts

end TableOps

/-! ## MetadataMap.from_file over characters -/

/-- `str.isspace` -/
def isWs (c : Char) : Bool :=
  let n := c.toNat
  (9 ≤ n && n ≤ 13) || (28 ≤ n && n ≤ 32) || n == 0x85 || n == 0xa0 || n == 0x1680 ||
  (0x2000 ≤ n && n ≤ 0x200a) || n == 0x2028 || n == 0x2029 || n == 0x202f || n == 0x205f || n == 0x3000

def lstrip (s : Str) : Str := s.dropWhile isWs
/-- `str.rstrip()`: a character is dropped when it is blank and nothing survives to its right -/
def rstrip : Str → Str
  | [] => []
  | c :: r =>
    let r' := rstrip r
    if r'.isEmpty && isWs c then [] else c :: r'
/-- `str.strip()` -/
def strip (s : Str) : Str := rstrip (lstrip s)
/-- `x.replace('"', '')` -/
def unquote (s : Str) : Str := s.filter (fun c => c != '"')

structure Opts where
  stripQuotes : Bool := true
  suppress : Bool := false
  deriving Repr, DecidableEq

/-- the four `strip_f` closures -/
def stripF (o : Opts) (x : Str) : Str :=
  let y := if o.stripQuotes then unquote x else x
  if o.suppress then y else strip y

/-- `x.split(c)` for a one-character separator -/
def splitOnC (c : Char) : Str → List Str
  | [] => [[]]
  | x :: xs =>
    if x = c then [] :: splitOnC c xs
    else
      let r := splitOnC c xs
      (x :: r.headD []) :: r.tail

/-- `tmp_line.extend([''] * (len(header) - len(tmp_line)))` -/
def pad (n : Nat) (fs : List Str) : List Str := fs ++ List.replicate (n - fs.length) []

structure PState where
  header : List Str
  rows : List (List Str)
  deriving Repr, DecidableEq

/-- the body of `for line in lines` -/
def stepLine (o : Opts) (st : PState) (raw : Str) : PState :=
  let line := stripF o raw
  if line.isEmpty || (o.suppress && (strip line).isEmpty) then st
  else
    match line with
    | '#' :: rest =>
      if st.header.isEmpty then { st with header := splitOnC '\t' (strip rest) } else st
    | _ => { st with rows := st.rows ++ [pad st.header.length ((splitOnC '\t' line).map (stripF o))] }

/-- `process_fns` with the `except KeyError` default -/
def convOf {β : Type} (proc : List (Str × (Str → β))) (dflt : Str → β) (k v : Str) : β :=
  match dget proc k with
  | some f => f v
  | none => dflt v

/-- `current_d` of one data row; `conv k v` is what column `k` makes of the text `v` -/
def entryOf {β : Type} (conv : Str → Str → β) (header vals : List Str) : List (Str × β) :=
  mkDict ((header.tail.zip vals.tail).map (fun kv => (kv.1, conv kv.1 kv.2)))

abbrev Mapping (β : Type) := List (Str × List (Str × β))

/-- `MetadataMap.from_file` with the per-column conversions as one function of (column, text) -/
def fromFileC {β : Type} (o : Opts) (hdr0 : List Str) (conv : Str → Str → β)
    (lines : List Str) : Except Err (Mapping β) :=
  let st := lines.foldl (stepLine o) { header := hdr0, rows := [] }
  if st.header.isEmpty then .error .other
  else if st.rows.isEmpty then .error .other
  else if ¬ (st.rows.map (fun r => r.headD [])).Nodup then .error .other
  else .ok (st.rows.map (fun vals => (vals.headD [], entryOf conv st.header vals)))

/-- `MetadataMap.from_file(lines, strip_quotes, suppress_stripping, header, process_fns)` -/
def fromFile {β : Type} (o : Opts) (hdr0 : List Str) (proc : List (Str × (Str → β))) (dflt : Str → β)
    (lines : List Str) : Except Err (Mapping β) :=
  fromFileC o hdr0 (convOf proc dflt) lines

/-! ### the row grammar -/

/-- a written field: blanks, optional quotes, the content, blanks (the line terminator belongs to
    the blanks after the last field of a line) -/
structure Field where
  pre : Str
  quoted : Bool
  clean : Str
  post : Str
  deriving Repr, DecidableEq

def Field.written (f : Field) : Str :=
  f.pre ++ (if f.quoted then '"' :: (f.clean ++ ['"']) else f.clean) ++ f.post

/-- what the field stands for under each stripping mode -/
def Field.expect (o : Opts) (f : Field) : Str :=
  (if o.suppress then f.pre else []) ++
  (if o.stripQuotes || !f.quoted then f.clean else '"' :: (f.clean ++ ['"'])) ++
  (if o.suppress then f.post else [])

inductive GLine where
  | header (names : List Str) (trail : Str)
  | comment (raw : Str)
  | blank (raw : Str)
  | row (fs : List Field)
  deriving Repr, DecidableEq

def joinTab : List Str → Str
  | [] => []
  | [w] => w
  | w :: ws => w ++ '\t' :: joinTab ws

def GLine.render : GLine → Str
  | .header names trail => '#' :: (joinTab names ++ trail)
  | .comment raw => raw
  | .blank raw => raw
  | .row fs => joinTab (fs.map Field.written)

def GLine.rowFields : GLine → Option (List Field)
  | .row fs => some fs
  | _ => none

def GLine.isHeader : GLine → Bool
  | .header _ _ => true
  | _ => false

def isBlankLine : GLine → Bool
  | .blank _ => true
  | _ => false

def noneOf (p : Char → Bool) (s : Str) : Bool := s.all (fun c => !p c)
def blankOnly (s : Str) : Bool := s.all (fun c => isWs c && c != '\t')

/-- content without tab or quote whose first and last characters are not blank -/
def cleanOk (s : Str) : Bool :=
  noneOf (fun c => c == '\t' || c == '"') s &&
  (match s.head? with | some c => !isWs c | none => true) &&
  (match s.getLast? with | some c => !isWs c | none => true)

def Field.ok (f : Field) : Bool := blankOnly f.pre && blankOnly f.post && cleanOk f.clean

/-- a data row: at least one field; the ID (first field) is non-empty and the line does not start
    with `#`; unless blanks are kept, the last written field is non-empty -/
def rowOk (o : Opts) (fs : List Field) : Bool :=
  fs.all Field.ok &&
  (match fs.head? with
   | some f => !f.clean.isEmpty && (f.expect o).head? != some '#'
   | none => false) &&
  (o.suppress || (match fs.getLast? with | some f => !f.clean.isEmpty | none => false))

/-- header names: no tab, no quote; the first does not start and the last does not end with a blank -/
def hdrOk (names : List Str) (trail : Str) : Bool :=
  names.all (fun n => noneOf (fun c => c == '\t' || c == '"') n) &&
  (match names.head? with | some n => (match n.head? with | some c => !isWs c | none => false) | none => false) &&
  (match names.getLast? with | some n => (match n.getLast? with | some c => !isWs c | none => false) | none => false) &&
  trail.all isWs

def GLine.ok (o : Opts) : GLine → Bool
  | .header names trail => hdrOk names trail
  | .comment raw => (stripF o raw).head? == some '#'
  | .blank raw => (strip (stripF o raw)).isEmpty
  | .row fs => rowOk o fs

/-- shape of a file: with a header override every `#` line is a comment and there is no header
    line of the grammar; otherwise blanks, then the header line, then comments/blanks/rows -/
def fileOk (o : Opts) (hdr0 : List Str) (f : List GLine) : Bool :=
  f.all (GLine.ok o) &&
  (if hdr0.isEmpty then
    (match f.dropWhile isBlankLine with
     | .header _ _ :: rest => rest.all (fun l => !l.isHeader)
     | _ => false)
   else f.all (fun l => !l.isHeader))

/-- the same shape without the demand on the last written field of a row (rows ending in empty
    fields); `fromFile_relation_wide` covers it -/
def rowOkWide (o : Opts) (fs : List Field) : Bool :=
  fs.all Field.ok &&
  (match fs.head? with
   | some f => !f.clean.isEmpty && (f.expect o).head? != some '#'
   | none => false)

def GLine.okWide (o : Opts) : GLine → Bool
  | .row fs => rowOkWide o fs
  | l => l.ok o

def fileOkWide (o : Opts) (hdr0 : List Str) (f : List GLine) : Bool :=
  f.all (GLine.okWide o) &&
  (if hdr0.isEmpty then
    (match f.dropWhile isBlankLine with
     | .header _ _ :: rest => rest.all (fun l => !l.isHeader)
     | _ => false)
   else f.all (fun l => !l.isHeader))

def fileHeader (hdr0 : List Str) (f : List GLine) : List Str :=
  if hdr0.isEmpty then
    (match f.find? GLine.isHeader with
     | some (.header names _) => names
     | _ => [])
  else hdr0

def fileRows (f : List GLine) : List (List Field) := f.filterMap GLine.rowFields

/-- the values of a data row, short rows padded with empty fields -/
def rowVals (o : Opts) (n : Nat) (fs : List Field) : List Str := pad n (fs.map (Field.expect o))

/-- the relation the rows describe: ID ↦ {header[c] ↦ conv_c(row[c])} -/
def relOf {β : Type} (o : Opts) (hdr0 : List Str) (conv : Str → Str → β)
    (f : List GLine) : Except Err (Mapping β) :=
  let H := fileHeader hdr0 f
  let rows := (fileRows f).map (rowVals o H.length)
  if rows.isEmpty then .error .other
  else if ¬ (rows.map (fun r => r.headD [])).Nodup then .error .other
  else .ok (rows.map (fun v => (v.headD [], entryOf conv H v)))

/-! ## conversions of the `add-metadata` command -/

inductive Val where
  | str (s : Str)
  | int (n : Int)
  | flt (r : Rat)
  | fspecial (s : String)
  | list (xs : List Str)
  | list2 (xs : List (List Str))
  deriving Repr, DecidableEq

def isDigit (c : Char) : Bool := '0' ≤ c && c ≤ '9'
def natOfDigits (ds : Str) : Nat := ds.foldl (fun a c => a * 10 + (c.toNat - 48)) 0

/-- underscores are allowed only between two digits -/
def underscoresOk : Option Char → Str → Bool
  | _, [] => true
  | prev, c :: r =>
    if c = '_' then
      (match prev, r.head? with
       | some p, some n => isDigit p && isDigit n
       | _, _ => false) && underscoresOk (some c) r
    else underscoresOk (some c) r

def dropUnderscores (s : Str) : Str := s.filter (fun c => c != '_')

def splitSign (s : Str) : Bool × Str :=
  match s with
  | '-' :: r => (true, r)
  | '+' :: r => (false, r)
  | _ => (false, s)

/-- `int(x)` for base 10 (ASCII digits) -/
def pyInt? (x : Str) : Option Int :=
  let s := strip x
  if !underscoresOk none s then none
  else
    let (neg, ds) := splitSign (dropUnderscores s)
    if ds.isEmpty || !ds.all isDigit then none
    else
      let n : Int := natOfDigits ds
      some (if neg then -n else n)

inductive FVal where
  | fin (r : Rat)
  | inf (neg : Bool)
  | nan
  deriving Repr, DecidableEq

def lower (s : Str) : Str := s.map Char.toLower

/-- `float(x)`: the exact decimal value (binary64 rounding is not modelled) -/
def pyFloat? (x : Str) : Option FVal :=
  let s := strip x
  if !underscoresOk none s then none
  else
    let (neg, body) := splitSign (dropUnderscores s)
    let lb := lower body
    if lb = "inf".toList || lb = "infinity".toList then some (.inf neg)
    else if lb = "nan".toList then some .nan
    else
      let ip := body.takeWhile isDigit
      let r1 := body.dropWhile isDigit
      let (fp, r2) : Str × Str :=
        match r1 with
        | '.' :: r => (r.takeWhile isDigit, r.dropWhile isDigit)
        | _ => ([], r1)
      if ip.isEmpty && fp.isEmpty then none
      else
        let ex : Option Int :=
          match r2 with
          | [] => some 0
          | e :: r =>
            if e = 'e' || e = 'E' then
              let (eneg, eds) := splitSign r
              if eds.isEmpty || !eds.all isDigit then none
              else some (if eneg then -(natOfDigits eds : Int) else (natOfDigits eds : Int))
            else none
        match ex with
        | none => none
        | some e =>
          let mant : Nat := natOfDigits (ip ++ fp)
          let e10 : Int := e - fp.length
          let mag : Rat := if e10 ≥ 0 then ((mant * 10 ^ e10.toNat : Nat) : Rat)
                           else mkRat mant (10 ^ (-e10).toNat)
          some (.fin (if neg then -mag else mag))

def convIdent (x : Str) : Val := .str x
/-- `_split_on_semicolons` -/
def convSc (x : Str) : Val := .list ((splitOnC ';' x).map strip)
/-- `_split_on_semicolons_and_pipes` -/
def convPipe (x : Str) : Val := .list2 ((splitOnC '|' x).map (fun y => (splitOnC ';' y).map strip))
/-- `_int`: falls back to the text -/
def convInt (x : Str) : Val := match pyInt? x with | some n => .int n | none => .str x
/-- `_float`: falls back to the text -/
def convFloat (x : Str) : Val :=
  match pyFloat? x with
  | some (.fin r) => .flt r
  | some (.inf neg) => .fspecial (if neg then "-inf" else "inf")
  | some .nan => .fspecial "nan"
  | none => .str x
/-- a user function of the named family (API level only) -/
def convRev (x : Str) : Val := .str x.reverse

def convNamed : String → Option (Str → Val)
  | "ident" => some convIdent
  | "sc" => some convSc
  | "pipe" => some convPipe
  | "int" => some convInt
  | "float" => some convFloat
  | "rev" => some convRev
  | _ => none

abbrev Proc := List (Str × (Str → Val))

/-- `process_fns.update(dict.fromkeys(fields, f))` -/
def procUpdate (p : Proc) (fields : Option (List Str)) (f : Str → Val) : Proc :=
  match fields with
  | none => p
  | some ks => dictUpdate p (ks.map (fun k => (k, f)))

structure CliOpts where
  sc : Option (List Str) := none
  pipe : Option (List Str) := none
  ints : Option (List Str) := none
  floats : Option (List Str) := none
  sampleHeader : Option (List Str) := none
  obsHeader : Option (List Str) := none

/-- the `process_fns` dict `_add_metadata` builds -/
def procOf (c : CliOpts) : Proc :=
  procUpdate (procUpdate (procUpdate (procUpdate [] c.sc convSc) c.pipe convPipe) c.ints convInt) c.floats convFloat

/-- the same, declaratively: float fields win over int fields over pipe over semicolon -/
def convOfOpts (c : CliOpts) (k : Str) (v : Str) : Val :=
  if (c.floats.getD []).contains k then convFloat v
  else if (c.ints.getD []).contains k then convInt v
  else if (c.pipe.getD []).contains k then convPipe v
  else if (c.sc.getD []).contains k then convSc v
  else convIdent v

/-! ### canonical text of a value (must equal `vtext` of harness/c18.py) -/

def hexDigit (n : Nat) : Char := if n < 10 then Char.ofNat (48 + n) else Char.ofNat (87 + n)

def escChar (c : Char) : Str :=
  if c = '"' then ['\\', '"']
  else if c = '\\' then ['\\', '\\']
  else if c = '\n' then ['\\', 'n']
  else if c = '\r' then ['\\', 'r']
  else if c = '\t' then ['\\', 't']
  else if c.toNat = 8 then ['\\', 'b']
  else if c.toNat = 12 then ['\\', 'f']
  else if c.toNat < 32 then ['\\', 'u', '0', '0', hexDigit (c.toNat / 16), hexDigit (c.toNat % 16)]
  else [c]

/-- `json.dumps(s, ensure_ascii=False)` -/
def jsonStr (s : Str) : String := String.ofList ('"' :: (s.flatMap escChar ++ ['"']))

def ratText (r : Rat) : String := if r.den = 1 then toString r.num else s!"{r.num}/{r.den}"

def listText (xs : List String) : String := "[" ++ ", ".intercalate xs ++ "]"

def Val.text : Val → String
  | .str s => jsonStr s
  | .int n => toString n
  | .flt r => "float:" ++ ratText r
  | .fspecial s => "float:" ++ s
  | .list xs => listText (xs.map jsonStr)
  | .list2 xss => listText (xss.map (fun xs => listText (xs.map jsonStr)))

/-- a parsed mapping as `add_metadata` receives it -/
def toMdMapping (m : Mapping Val) : List (Id × Md) :=
  m.map (fun ie => (String.ofList ie.1, ie.2.map (fun kv => (String.ofList kv.1, kv.2.text))))

/-- `_add_metadata(table, sample_metadata, observation_metadata, …)`: both files are parsed before
    the table is touched; sample metadata is added first -/
def addMetadataCli {α : Type} (t : Table α) (sampleLines obsLines : Option (List Str)) (c : CliOpts) :
    Except Err (Table α) :=
  if sampleLines.isNone && obsLines.isNone then .error .value
  else do
    let proc := procOf c
    let sm ← match sampleLines with
      | some ls => (fromFile {} (c.sampleHeader.getD []) proc convIdent ls).map some
      | none => pure none
    let om ← match obsLines with
      | some ls => (fromFile {} (c.obsHeader.getD []) proc convIdent ls).map some
      | none => pure none
    let t1 := match sm with
      | some m => addMetadata t (toMdMapping m) .samp
      | none => t
    pure (match om with
      | some m => addMetadata t1 (toMdMapping m) .obs
      | none => t1)

/-- the property of the command on observations: IDs/grid as before, and on each axis either the
    update the file's relation describes or nothing -/
def cliHolds {α : Type} [DecidableEq α] (before : Table α) (sm om : Option (List (Id × Md))) (after : Table α) : Bool :=
  frameSame before after &&
  (match sm with
   | some m => addAxisClause before m .samp after
   | none => decide (after.smd = before.smd)) &&
  (match om with
   | some m => addAxisClause before m .obs after
   | none => decide (after.omd = before.omd))

/-! ### comparing a parsed mapping with the relation, by lookups -/

def entryMatches (exp act : List (Str × String)) : Bool :=
  (dkeys exp ++ dkeys act).all (fun k => dget act k == dget exp k)

def mappingMatches (exp act : List (Str × List (Str × String))) : Bool :=
  exp.length == act.length &&
  exp.all (fun ie => match dget act ie.1 with
                     | some a => entryMatches ie.2 a
                     | none => false) &&
  act.all (fun ie => (dget exp ie.1).isSome)

def textMapping (m : Mapping Val) : List (Str × List (Str × String)) :=
  m.map (fun ie => (ie.1, ie.2.map (fun kv => (kv.1, kv.2.text))))

/-- the parse clause: the implementation's dict (or its refusal) is the relation of the rows -/
def parseHolds (exp : Except Err (Mapping Val)) (act : Except Err (List (Str × List (Str × String)))) : Bool :=
  match exp, act with
  | .ok e, .ok a => mappingMatches (textMapping e) a
  | .error _, .error _ => true
  | _, _ => false

/-! ## one input type for `model_holds` -/

inductive Input (α : Type) where
  | add (t : Table α) (m : List (Id × Md)) (ax : Axis)
  | del (t : Table α) (keys : Option (List String)) (ax : AxisArg)
  | parse (o : Opts) (hdr0 : List Str) (proc : Proc) (f : List GLine)

inductive Output (α : Type) where
  | table (r : Except Err (Table α))
  | mapping (r : Except Err (Mapping Val))

def model {α : Type} : Input α → Output α
  | .add t m ax => .table (.ok (addMetadata t m ax))
  | .del t keys ax => .table (delMetadata t keys ax)
  | .parse o hdr0 proc f => .mapping (fromFile o hdr0 proc convIdent (f.map GLine.render))

def holds {α : Type} [DecidableEq α] : Input α → Output α → Bool
  | .add t m ax, .table (.ok after) => addHolds t m ax after
  | .del t keys ax, .table r =>
    (match r with
     | .ok after => ax != .bad && delHolds t keys ax after
     | .error e => ax == .bad && e == .unknownAxis)
  | .parse o hdr0 proc f, .mapping r =>
    parseHolds (relOf o hdr0 (convOf proc convIdent) f) (r.map textMapping)
  | _, _ => false

/-! ## JSON glue -/
open Codec

def asS (j : Json) : R Str := do pure (← asStr j).toList
def sToJson (s : Str) : Json := .str (String.ofList s)

def asAxisArg (j : Json) : R AxisArg := do
  match (← asStr j) with
  | "sample" => pure .sample
  | "observation" => pure .observation
  | "whole" => pure .whole
  | _ => pure .bad

def asMdMapping (j : Json) : R (List (Id × Md)) := asList (fun p => do
  match (← asArr p) with
  | [a, b] => pure ((← asStr a), (← asMd b))
  | _ => .error "mapping pair") j

def asField (j : Json) : R Field := do
  pure { pre := (← asS (← fld j "pre")), quoted := (← boolF j "q"), clean := (← asS (← fld j "c")),
         post := (← asS (← fld j "post")) }

def asGLine (j : Json) : R GLine := do
  match (← strF j "k") with
  | "header" => pure (.header (← listF asS j "names") (← asS (← fld j "trail")))
  | "comment" => pure (.comment (← asS (← fld j "raw")))
  | "blank" => pure (.blank (← asS (← fld j "raw")))
  | "row" => pure (.row (← listF asField j "fields"))
  | s => .error s!"bad line kind {s}"

def asOpts (j : Json) : R Opts := do
  pure { stripQuotes := (← boolFD j "strip_quotes" true), suppress := (← boolFD j "suppress" false) }

def asProc (j : Json) : R Proc := asList (fun p => do
  match (← asArr p) with
  | [a, b] =>
    match convNamed (← asStr b) with
    | some f => pure ((← asS a), f)
    | none => .error "unknown conversion"
  | _ => .error "proc pair") j

def splitComma (j : Json) (k : String) : R (Option (List Str)) := do
  match (← optF asStr j k) with
  | none => pure none
  | some s => pure (some (splitOnC ',' s.toList))

def asCliOpts (j : Json) : R CliOpts := do
  pure { sc := (← splitComma j "sc"), pipe := (← splitComma j "pipe"), ints := (← splitComma j "ints"),
         floats := (← splitComma j "floats"), sampleHeader := (← splitComma j "sample_header"),
         obsHeader := (← splitComma j "obs_header") }

def textMappingToJson (m : List (Str × List (Str × String))) : Json :=
  .arr (m.map (fun ie => Json.arr #[sToJson ie.1,
    Json.mkObj (ie.2.map (fun kv => (String.ofList kv.1, Json.str kv.2)))])).toArray

def asTextMapping (j : Json) : R (List (Str × List (Str × String))) := asList (fun p => do
  match (← asArr p) with
  | [a, b] => do
    let e ← asMd b
    pure ((← asS a), e.map (fun kv => (kv.1.toList, kv.2)))
  | _ => .error "mapping pair") j

def asResult {β : Type} (f : Json → R β) (j : Json) : R (Except Err β) :=
  match optFld j "error" with
  | some e => do pure (.error (asErr (← asStr e)))
  | none => do pure (.ok (← f (← fld j "ok")))

def resultToJson {β : Type} (f : β → Json) : Except Err β → Json
  | .ok x => Json.mkObj [("ok", f x)]
  | .error e => Json.mkObj [("error", .str e.name)]

/-- tables compare through their canonical JSON (entries sorted by key) -/
def sameTable (a b : Table Rat) : Bool := (tableToJson a).compress == (tableToJson b).compress

def sameResult (a b : Except Err (Table Rat)) : Bool :=
  match a, b with
  | .ok x, .ok y => sameTable x y
  | .error e, .error f => e == f
  | _, _ => false

def firstClause (cs : List (String × Bool)) : Verdict := allV (cs.map (fun c => chk c.1 c.2))

def answer (v : Verdict) (agree : Bool) (model : Json) (extra : List (String × Json) := []) : Json :=
  Json.mkObj (verdictToJson v ++ [("agree", .bool agree), ("model", model)] ++ extra)

def addVerdict (before : Table Rat) (m : List (Id × Md)) (ax : Axis) (after : Table Rat) : Verdict :=
  firstClause [("frame: IDs, order, grid, type unchanged", frameSame before after),
    ("add: (ID, key) lookups on the updated axis", addAxisClause before m ax after),
    ("add: other axis untouched", decide (after.md ax.other = before.md ax.other)),
    ("C18.holds", addHolds before m ax after)]

def delVerdict (before : Table Rat) (keys : Option (List String)) (arg : AxisArg) (after : Table Rat) : Verdict :=
  firstClause [("frame: IDs, order, grid, type unchanged", frameSame before after),
    ("del: observation axis lookups", delAxisClause before keys arg .obs after),
    ("del: sample axis lookups", delAxisClause before keys arg .samp after),
    ("C18.holds", delHolds before keys arg after)]

/-- the file part of a request: grammar (optional), the lines as the harness rendered them -/
structure FileReq where
  gram : Option (List GLine)
  lines : List Str

def asFileReq (j : Json) : R FileReq := do
  pure { gram := (← optF (asList asGLine) j "gram"), lines := (← listF asS j "lines") }

def renderAgrees (f : FileReq) : Bool :=
  match f.gram with
  | some g => decide (g.map GLine.render = f.lines)
  | none => true

/-- the relation of the file when the grammar is given and within the guards -/
def specOf (o : Opts) (hdr0 : List Str) (conv : Str → Str → Val) (f : FileReq) :
    Option (Except Err (Mapping Val)) :=
  match f.gram with
  | some g => if fileOkWide o hdr0 g then some (relOf o hdr0 conv g) else none
  | none => none

def asOthers (req : Json) : R (List (Table Rat × Table Rat)) := do
  match optFld req "others" with
  | none => pure []
  | some j => asList (fun p => do pure ((← asTable (← fld p "before")), (← asTable (← fld p "after")))) j

/-- what a table carries besides IDs, grid, type and per-ID metadata (group metadata of both axes,
    table id, dtype): opaque to the model, must read the same before and after -/
def extraOf (t : Json) : String :=
  match optFld t "extra" with
  | some e => e.compress
  | none => ""

def extraSame (req : Json) : R Bool := do
  let b ← fld req "table"
  let a ← fld req "after"
  let os : List Json := match optFld req "others" with
    | some (.arr xs) => xs.toList
    | _ => []
  let okOthers ← os.mapM (fun p => do pure (extraOf (← fld p "before") == extraOf (← fld p "after")))
  pure (extraOf b == extraOf a && okOthers.all id)

def argSame (req : Json) : Bool :=
  match optFld req "mapping_after", optFld req "mapping" with
  | some a, some b => a.compress == b.compress
  | _, _ => true

def othersClause (others : List (Table Rat × Table Rat)) : Verdict :=
  chk "others-unchanged: every other live table keeps its IDs, grid and metadata" (othersUnchanged others)

def extraClause (req : Json) : R Verdict := do
  pure ((chk "frame: group metadata, table id and dtype of every live table unchanged" (← extraSame req)).and
        (chk "add: the mapping handed in is not modified" (argSame req)))

def handleAdd (req : Json) : R Json := do
  let others ← asOthers req
  let before ← asTable (← fld req "table")
  let m ← asMdMapping (← fld req "mapping")
  let arg ← asAxisArg (← fld req "axis")
  let after ← asTable (← fld req "after")
  let err ← optF asStr req "error"
  let mres := addMetadataArg before m arg
  let obs : Except Err (Table Rat) := match err with | some e => .error (asErr e) | none => .ok after
  let v : Verdict :=
    match arg.toAxis?, err with
    | some ax, none => addVerdict before m ax after
    | some _, some _ => some "add: recognised axis must not raise"
    | none, some e => firstClause [("add: unknown axis raises UnknownAxisError", asErr e == .unknownAxis),
        ("add: refused call leaves the table unchanged", sameTable before after)]
    | none, none => some "add: unknown axis must be refused"
  let mh : Bool := match arg.toAxis? with
    | some ax => holds (.add before m ax) (model (.add before m ax))
    | none => true
  let v := (v.and (othersClause others)).and (← extraClause req)
  pure (answer v (sameResult mres obs) (resultToJson tableToJson mres) [("model_holds", .bool mh)])

def handleDel (req : Json) : R Json := do
  let others ← asOthers req
  let before ← asTable (← fld req "table")
  let keys ← optF (asList asStr) req "keys"
  let arg ← asAxisArg (← fld req "axis")
  let after ← asTable (← fld req "after")
  let err ← optF asStr req "error"
  let mres := delMetadata before keys arg
  let obs : Except Err (Table Rat) := match err with | some e => .error (asErr e) | none => .ok after
  let v : Verdict :=
    match err with
    | none => if arg == .bad then some "del: unknown axis must be refused" else delVerdict before keys arg after
    | some e => firstClause [("del: only an unknown axis raises, with UnknownAxisError", arg == .bad && asErr e == .unknownAxis),
        ("del: refused call leaves the table unchanged", sameTable before after)]
  let mh := holds (.del before keys arg) (model (.del before keys arg))
  let v := (v.and (othersClause others)).and (← extraClause req)
  pure (answer v (sameResult mres obs) (resultToJson tableToJson mres) [("model_holds", .bool mh)])

def sameMapping (a : Except Err (Mapping Val)) (b : Except Err (List (Str × List (Str × String)))) : Bool :=
  match a, b with
  | .ok x, .ok y => (textMappingToJson (textMapping x)).compress == (textMappingToJson y).compress
  | .error _, .error _ => true
  | _, _ => false

def handleParse (req : Json) : R Json := do
  let o ← asOpts (← fld req "opts")
  let hdr0 := (← optF (asList asS) req "header").getD []
  let proc ← asProc (← fld req "proc")
  let f ← asFileReq (← fld req "file")
  let act ← asResult asTextMapping (← fld req "result")
  let mres := fromFile o hdr0 proc convIdent f.lines
  let spec := specOf o hdr0 (convOf proc convIdent) f
  let v : Verdict :=
    match spec with
    | some e => firstClause [("parse: rendered lines are the grammar's lines", renderAgrees f),
        ("parse: dict is the relation of the rows", parseHolds e act)]
    | none => none
  let mh : Bool := match f.gram with
    | some g => !fileOkWide o hdr0 g || holds (α := Rat) (.parse o hdr0 proc g) (model (.parse o hdr0 proc g))
    | none => true
  pure (answer v (sameMapping mres act) (resultToJson (fun m => textMappingToJson (textMapping m)) mres)
    [("guarded", .bool spec.isSome), ("model_holds", .bool mh),
     ("strict_guard", .bool (match f.gram with | some g => fileOk o hdr0 g | none => false))])

/-- what a written-and-reloaded file can show: metadata whose entries are all empty reads back absent -/
def normFile (t : Table Rat) : Table Rat :=
  let n (md : Option (List Md)) : Option (List Md) :=
    match md with
    | some mds => if mds.all (·.isEmpty) then none else some mds
    | none => none
  { t with omd := n t.omd, smd := n t.smd }

def handleCli (req : Json) : R Json := do
  let others ← asOthers req
  let viaFile ← boolFD req "via_file" false
  let before ← asTable (← fld req "table")
  let c ← asCliOpts (← fld req "opts")
  let sf ← optF asFileReq req "sample"
  let of' ← optF asFileReq req "obs"
  let after ← asTable (← fld req "after")
  let err ← optF asStr req "error"
  let mres0 := addMetadataCli before (sf.map (·.lines)) (of'.map (·.lines)) c
  let mres := if viaFile then mres0.map normFile else mres0
  let obs : Except Err (Table Rat) := match err with
    | some e => .error (asErr e)
    | none => .ok (if viaFile then normFile after else after)
  let specS := sf.map (fun f => specOf {} (c.sampleHeader.getD []) (convOfOpts c) f)
  let specO := of'.map (fun f => specOf {} (c.obsHeader.getD []) (convOfOpts c) f)
  let guarded : Bool := (match specS with | some none => false | _ => true) &&
                        (match specO with | some none => false | _ => true)
  let render := (match sf with | some f => renderAgrees f | none => true) &&
                (match of' with | some f => renderAgrees f | none => true)
  let flat (s : Option (Option (Except Err (Mapping Val)))) : Option (Except Err (Mapping Val)) := s.bind id
  let anyErr : Bool := (match flat specS with | some (.error _) => true | _ => false) ||
                       (match flat specO with | some (.error _) => true | _ => false)
  let mdOf (s : Option (Except Err (Mapping Val))) : Option (List (Id × Md)) :=
    match s with | some (.ok m) => some (toMdMapping m) | _ => none
  let v : Verdict :=
    if !guarded then none
    else if sf.isNone && of'.isNone then
      firstClause [("cli: no mapping file is refused", err.isSome), ("cli: refused call leaves the table unchanged", sameTable before after)]
    else if anyErr then
      firstClause [("cli: unusable mapping file is refused", err.isSome), ("cli: refused call leaves the table unchanged", sameTable before after)]
    else
      firstClause [("cli: rendered lines are the grammar's lines", render),
        ("cli: usable mapping files are accepted", err.isNone),
        ("frame: IDs, order, grid, type unchanged", frameSame before after),
        ("cli: table carries exactly the update the files describe", cliHolds before (mdOf (flat specS)) (mdOf (flat specO)) after)]
  let v := (v.and (othersClause others)).and (← extraClause req)
  pure (answer v (sameResult mres obs) (resultToJson tableToJson mres) [("guarded", .bool guarded)])

def handle (req : Json) : R Json := do
  match (← strF req "op") with
  | "add" => handleAdd req
  | "del" => handleDel req
  | "parse" => handleParse req
  | "cli" => handleCli req
  | s => .error s!"C18: unknown op {s}"

end Biom.C18
