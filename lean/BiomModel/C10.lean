/-
  C10 — `Table.concat` / `biom.concat`: concatenation places every operand's block unchanged and
  pads with zeros.

  Model of biom/table.py `concat` as written:
    * `others` may be one table or a list; `all_tables = [self] + others`;
    * one loop in operand order: DisjointIDError as soon as an operand has an ID of the
      concatenation axis that an EARLIER operand had (duplicates inside one operand are not looked
      at); in the same loop the other-axis IDs are collected together with the metadata entry of
      the first operand that shows each of them;
    * common order of the other axis = `sorted(set of all other-axis IDs)`;
    * per operand: if it lacks other-axis IDs, a zero block is stacked behind its matrix, the
      missing IDs (with their first-seen metadata) are appended and a new table is constructed;
      then, unless its other-axis IDs already equal the common order, `sort_order` re-indexes it
      (`fancy = [index(i) for i in order]`, matrix and metadata taken at `fancy`);
    * stacking of the matrices, concatenation of the axis IDs and of the axis metadata
      (`[None] * n` for an operand without), other-axis metadata from the first padded operand;
    * every constructed table passes through the constructor's metadata normalisation
      (all entries falsy → `None`).

  The matrix is seen through an *oriented view*: one vector per ID of the concatenation axis, each
  indexed like the other axis.  For `axis='observation'` the vectors are the rows, for
  `axis='sample'` the columns; `vstack`/`hstack`/fancy indexing of scipy are parameters whose
  contract is exactly that reading (append vectors / extend every vector / re-index every vector).
  The order in which Python iterates the set of missing IDs is not fixed by the language; the
  model uses the common order restricted to the missing IDs, and `padSort_missing_order`
  (Lemmas) shows that any other order gives the same operand after the re-indexing.
-/
import BiomModel.Codec
open Lean

namespace Biom.C10

variable {α β γ : Type}

/-! ### small total helpers -/

/-- all-or-nothing map (a raise inside a comprehension aborts the whole statement) -/
def mapO (f : β → Option γ) : List β → Option (List γ)
  | [] => some []
  | x :: xs =>
    match f x, mapO f xs with
    | some y, some ys => some (y :: ys)
    | _, _ => none

def mapE (f : β → Except Err γ) : List β → Except Err (List γ)
  | [] => .ok []
  | x :: xs =>
    match f x with
    | .error e => .error e
    | .ok y =>
      match mapE f xs with
      | .error e => .error e
      | .ok ys => .ok (y :: ys)

/-- numpy fancy indexing `xs[fancy]`, bounds-checked -/
def gather (xs : List β) (fancy : List Nat) : Option (List β) := mapO (fun j => xs[j]?) fancy

/-- what the constructor makes of a metadata argument: a list whose entries are all falsy
(`None`, `{}`; both are the empty entry here) becomes `None` -/
def normMd : Option (List Md) → Option (List Md)
  | none => none
  | some l => if l.all (fun m => m.isEmpty) then none else some l

/-- Python `sorted` on strings (code-point order); the keys are distinct, so any correct sorting
algorithm returns this list (insertion sort here: structural, evaluates inside the kernel) -/
def insertId (a : Id) : List Id → List Id
  | [] => [a]
  | b :: bs => if a ≤ b then a :: b :: bs else b :: insertId a bs

def sortIds (l : List Id) : List Id := l.foldr insertId []

/-! ### oriented view -/

structure View (α : Type) where
  /-- IDs of the concatenation axis -/
  aids : List Id
  /-- IDs of the other axis -/
  oids : List Id
  /-- one vector per `aids` entry, indexed like `oids` -/
  vecs : List (List α)
  amd : Option (List Md)
  omd : Option (List Md)
  deriving Repr, DecidableEq

def viewOf (ax : Axis) (t : Table α) : View α :=
  match ax with
  | .obs => { aids := t.obs, oids := t.samp, vecs := t.rows, amd := t.omd, omd := t.smd }
  | .samp => { aids := t.samp, oids := t.obs, vecs := transposeGrid t.samp.length t.rows,
               amd := t.smd, omd := t.omd }

def tableOf (ax : Axis) (ty : Option String) (v : View α) : Table α :=
  match ax with
  | .obs => { obs := v.aids, samp := v.oids, rows := v.vecs, omd := v.amd, smd := v.omd, ttype := ty }
  | .samp => { obs := v.oids, samp := v.aids, rows := transposeGrid v.oids.length v.vecs,
               omd := v.omd, smd := v.amd, ttype := ty }

/-- `table.metadata(i, axis=invaxis)`: the entry of `i`, the empty entry when the axis has none -/
def entryOf (v : View α) (i : Id) : Md :=
  match v.omd with
  | none => []
  | some m => (lookupBy v.oids m i).getD []

/-! ### the first loop: disjointness and collection -/

/-- `seen` = concatenation-axis IDs of the operands visited so far; `inv` = other-axis IDs seen so
far, each with the metadata entry of the operand that showed it first -/
def scan : List (View α) → List Id → List (Id × Md) → Except Err (List (Id × Md))
  | [], _, inv => .ok inv
  | v :: rest, seen, inv =>
    if v.aids.any (fun a => seen.contains a) then .error .disjointId
    else
      let fresh := v.oids.filter (fun i => !(inv.map (·.1)).contains i)
      scan rest (seen ++ v.aids) (inv ++ fresh.map (fun i => (i, entryOf v i)))

/-! ### the second loop: pad, then bring to the common order -/

def missingOf (order : List Id) (v : View α) : List Id :=
  order.filter (fun i => !v.oids.contains i)

/-- the padded operand for a given enumeration `missing` of the missing IDs -/
def padWith [Zero α] (first : List (Id × Md)) (missing : List Id) (v : View α) : View α :=
  if missing.isEmpty then v
  else
    { aids := v.aids
      oids := v.oids ++ missing
      vecs := v.vecs.map (fun vec => vec ++ List.replicate missing.length 0)
      amd := normMd v.amd
      omd := normMd (some (v.omd.getD (List.replicate v.oids.length []) ++
                           missing.map (fun i => (first.lookup i).getD []))) }

def pad [Zero α] (order : List Id) (first : List (Id × Md)) (v : View α) : View α :=
  padWith first (missingOf order v) v

/-- `sort_order(order, axis=invaxis)` -/
def reorder (order : List Id) (v : View α) : Except Err (View α) :=
  match mapO (indexOf? v.oids) order with
  | none => .error .unknownId
  | some fancy =>
    match mapO (fun vec => gather vec fancy) v.vecs,
          (match v.omd with
           | none => some none
           | some m => (gather m fancy).map some) with
    | some vecs, some omd =>
      .ok { aids := v.aids, oids := order, vecs := vecs, amd := normMd v.amd, omd := normMd omd }
    | _, _ => .error .index

def sortIfNeeded (order : List Id) (p : View α) : Except Err (View α) :=
  if p.oids = order then .ok p else reorder order p

def padSort [Zero α] (order : List Id) (first : List (Id × Md)) (v : View α) : Except Err (View α) :=
  sortIfNeeded order (pad order first v)

/-- axis metadata entries of one padded operand as they enter `concat_md` -/
def amdEntries (p : View α) : List Md := p.amd.getD (List.replicate p.vecs.length [])

def concatViews [Zero α] (vs : List (View α)) : Except Err (View α) :=
  match scan vs [] [] with
  | .error e => .error e
  | .ok first =>
    let order := sortIds (first.map (·.1))
    match mapE (padSort order first) vs with
    | .error e => .error e
    | .ok padded =>
      .ok { aids := padded.flatMap (·.aids)
            oids := order
            vecs := padded.flatMap (·.vecs)
            amd := normMd (some (padded.flatMap amdEntries))
            omd := normMd (padded.head?.bind (·.omd)) }

/-- `[self] + others` concatenated along `ax`; the type is inherited from `self` -/
def concatAll [Zero α] (ax : Axis) (self : Table α) (others : List (Table α)) : Except Err (Table α) :=
  match concatViews ((self :: others).map (viewOf ax)) with
  | .error e => .error e
  | .ok v => .ok (tableOf ax self.ttype v)

/-! ### the two entry points -/

inductive Others (α : Type) where
  | single (t : Table α)
  | list (ts : List (Table α))

/-- `if isinstance(others, self.__class__): others = [others, ]` -/
def Others.toList : Others α → List (Table α)
  | .single t => [t]
  | .list ts => ts

def axisOf? (s : String) : Option Axis :=
  if s = "sample" then some .samp else if s = "observation" then some .obs else none

/-- `Table.concat(self, others, axis)` -/
def concat [Zero α] (self : Table α) (others : Others α) (axis : String) : Except Err (Table α) :=
  match axisOf? axis with
  | none => .error .unknownAxis
  | some ax => concatAll ax self others.toList

/-- `biom.concat(tables, axis)` = `tables[0].concat(tables[1:], axis)` -/
def biomConcat [Zero α] (tables : List (Table α)) (axis : String) : Except Err (Table α) :=
  match tables with
  | [] => .error .index
  | t :: rest => concat t (.list rest) axis

/-! ### The property, stated on observations only -/

/-- value of (concatenation-axis ID `a`, other-axis ID `b`) -/
def cellAx? (t : Table α) (ax : Axis) (a b : Id) : Option α :=
  match ax with
  | .obs => t.cell? a b
  | .samp => t.cell? b a

def total [Add α] [Zero α] (t : Table α) : α := sumL (t.rows.map sumL)

/-- no ID of the axis occurs in two different operands -/
def pairwiseDisjoint : List (List Id) → Bool
  | [] => true
  | x :: rest => rest.all (fun y => x.all (fun a => !y.contains a)) && pairwiseDisjoint rest

/-- metadata entry of an ID; absent metadata reads as the empty entry -/
def mdEntry (t : Table α) (ax : Axis) (a : Id) : Md := (t.mdOf? ax a).getD []

def nodupB (l : List Id) : Bool :=
  match l with
  | [] => true
  | x :: xs => !xs.contains x && nodupB xs

structure Clauses where
  refusal : Bool := true
  shape : Bool := true
  axisIds : Bool := true
  otherIds : Bool := true
  cells : Bool := true
  axisMd : Bool := true
  total : Bool := true

def clauses [Add α] [Zero α] [DecidableEq α] (ax : Axis) (ts : List (Table α)) :
    Except Err (Table α) → Clauses
  | .error e =>
    -- refused: only when two operands share an ID of the axis, and as DisjointID
    { refusal := !pairwiseDisjoint (ts.map (·.ids ax)) && decide (e = .disjointId) }
  | .ok r =>
    let oth := ax.other
    { refusal := pairwiseDisjoint (ts.map (·.ids ax))
      shape := r.wfb
      -- all operands' IDs in operand order
      axisIds := decide (r.ids ax = ts.flatMap (·.ids ax))
      -- the other axis carries the union of the operands' IDs, each once (order not fixed)
      otherIds := nodupB (r.ids oth) &&
        (r.ids oth).all (fun b => ts.any (fun t => (t.ids oth).contains b)) &&
        ts.all (fun t => (t.ids oth).all (fun b => (r.ids oth).contains b))
      -- every pair of IDs: the owning operand's value, zero where it lacks the other-axis ID
      cells := ts.all (fun t => (t.ids ax).all (fun a => (r.ids oth).all (fun b =>
        decide (cellAx? r ax a b =
          some (if (t.ids oth).contains b then (cellAx? t ax a b).getD 0 else 0)) &&
        (!(t.ids oth).contains b || (cellAx? t ax a b).isSome))))
      -- metadata of the concatenated axis travels with its ID
      axisMd := ts.all (fun t => (t.ids ax).all (fun a => decide (mdEntry r ax a = mdEntry t ax a)))
      total := decide (total r = sumL (ts.map total)) }

def Clauses.all (c : Clauses) : Bool :=
  c.refusal && c.shape && c.axisIds && c.otherIds && c.cells && c.axisMd && c.total

def holds [Add α] [Zero α] [DecidableEq α] (ax : Axis) (ts : List (Table α))
    (out : Except Err (Table α)) : Bool := (clauses ax ts out).all

/-! ### JSON glue -/
open Codec

def firstFailing (c : Clauses) : Verdict :=
  allV [chk "refusal-iff-overlap" c.refusal, chk "result-shape" c.shape,
        chk "axis-ids-operand-order" c.axisIds, chk "other-ids-union" c.otherIds,
        chk "cell-block-or-zero" c.cells, chk "axis-metadata-travels" c.axisMd,
        chk "grand-total" c.total]

def asOutcome (j : Json) : R (Except Err (Table Rat)) :=
  match optFld j "error" with
  | some e => do pure (.error (asErr (← asStr e)))
  | none => do pure (.ok (← asTable (← fld j "ok")))

def outcomeToJson : Except Err (Table Rat) → Json
  | .error e => errToJson e
  | .ok t => Json.mkObj [("ok", tableToJson t)]

/-- request: {"axis": str, "tables": [table…], "mode": "single"|"list", "entry": "method"|"module",
             "result": {"ok": table} | {"error": name}} -/
def handle (req : Json) : R Json := do
  let axis ← strF req "axis"
  let tables ← listF asTable req "tables"
  let mode ← strFD req "mode" "list"
  let entry ← strFD req "entry" "method"
  let out ← asOutcome (← fld req "result")
  let model ← (match entry, mode, tables with
    | "module", _, ts => pure (biomConcat ts axis)
    | _, "single", [t, o] => pure (concat t (.single o) axis)
    | _, "single", _ => .error "mode single needs exactly two tables"
    | _, _, t :: rest => pure (concat t (.list rest) axis)
    | _, _, [] => .error "method entry needs a receiver" : R (Except Err (Table Rat)))
  let mj := outcomeToJson model
  let oj := outcomeToJson out
  let agree := mj.compress == oj.compress
  match axisOf? axis, tables with
  | some ax, _ :: _ =>
    let v := firstFailing (clauses ax tables out)
    pure (Json.mkObj (verdictToJson v ++
      [("model_holds", .bool (holds ax tables model)), ("agree", .bool agree), ("model", mj)]))
  | _, _ =>
    -- outside the property's domain (unknown axis / empty list): only the error class is compared
    let v := chk "edge-error-class" agree
    pure (Json.mkObj (verdictToJson v ++ [("model_holds", .bool true), ("agree", .bool agree), ("model", mj)]))

end Biom.C10
