import BiomModel.Codec
open Lean
namespace Biom.C10
/-- stub: not built yet -/
def handle (_req : Json) : Codec.R Json := .error "C10: model not built yet"
end Biom.C10
