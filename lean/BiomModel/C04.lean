/-
  C04 — written HDF5 files conform to the BIOM 2.1 layout; both matrix views agree.
  (This file also holds the HDF5 model shared with C01: namespace `Biom.Hdf5`.)

  * `H5 α`  — the logical tree of a BIOM 2.1 file as raw h5py shows it: root attributes, the two
    axis groups with their `ids` dataset, `metadata` / `group-metadata` / `matrix` groups; every
    dataset carries an element-kind tag, its shape (1-D cells or 2-D rows) and its entries.
  * `toH5`  — transcription of `Table.to_hdf5` with `general_formatter` and
    `vlen_list_of_str_formatter` (biom/table.py).  The two matrix views are PARAMETERS (`csr`,
    `csc`): scipy's `asformat` is an external whose contract (well formed, dense content `D`
    resp. `Dᵀ`, no stored zeros because `nnz` has just eliminated them) is a hypothesis of the
    theorems and is monitored on every written file by `C04.holds`.
  * `specDecode` — a reader written ONLY from doc/documentation/format_versions/biom-2.1.rst.
  * `C04.holds` — the property, on the raw tree of a written file and the table that was written.

  Byte strings are an opaque token type (`Bytes`); utf-8 is a parameter `Utf8` (encode, decode,
  the empty byte string) with a round-trip hypothesis.  In the driver the harness hands over bytes
  already decoded as utf-8, so the codec there is the identity.  `datetime.isoformat` /
  `fromisoformat` are a parameter `DateC` in the same way.
-/
import BiomModel.Codec
open Lean

namespace Biom.Hdf5

abbrev Bytes := String

structure Utf8 where
  enc : String → Bytes
  dec : Bytes → Except Err String
  empty : Bytes

/-- the recorded codec contract: decoding undoes encoding; only the empty text encodes to `b''` -/
structure Utf8.RT (c : Utf8) : Prop where
  rt : ∀ s, c.dec (c.enc s) = .ok s
  encEmpty : c.enc "" = c.empty
  encNonEmpty : ∀ s, c.enc s = c.empty → s = ""

def Utf8.ident : Utf8 := ⟨fun s => s, fun b => .ok b, ""⟩

structure DateC (δ : Type) where
  iso : δ → String
  parse : String → Option δ

def DateC.ident : DateC String := ⟨fun s => s, fun s => some s⟩

/-- what `from_hdf5` leaves in `create_date`: a datetime, or the raw text when it does not parse -/
inductive DateVal (δ : Type) where
  | date (d : δ)
  | text (s : String)
  deriving Repr, DecidableEq

/-- one metadata value (per ID and category). `list` stands for a Python list or tuple. -/
inductive MdVal (α : Type) where
  | text (s : String)
  | int (i : Int)
  | float (a : α)
  | bool (b : Bool)
  | list (l : List String)
  | none
  deriving Repr, DecidableEq, Inhabited

abbrev MdE (α : Type) := List (String × MdVal α)

/-- the table being written: content plus the header fields `to_hdf5` reads -/
structure Src (α : Type) where
  obs : List Id
  samp : List Id
  rows : List (List α)
  omd : Option (List (MdE α)) := none
  smd : Option (List (MdE α)) := none
  ttype : Option String := none
  tableId : Option String := none
  /-- group metadata: key ↦ (data_type, payload); `[]` stands for `None` -/
  ogmd : List (String × String × String) := []
  sgmd : List (String × String × String) := []
  /-- group-metadata entries whose value is a bare text instead of a (data_type, payload) pair — what
  `from_hdf5` leaves in a table it has loaded -/
  ogmdBare : List (String × String) := []
  sgmdBare : List (String × String) := []
  /-- header values the table object itself carries (`Table(..., generated_by=…, create_date=…)`, or
  left behind by a previous load).  `to_hdf5` does not read them: the file gets the ARGUMENTS. -/
  ownGeneratedBy : Option String := none
  ownCreateDate : Option String := none
  deriving Repr, DecidableEq

def Src.ids (t : Src α) : Axis → List Id
  | .obs => t.obs
  | .samp => t.samp
def Src.md (t : Src α) : Axis → Option (List (MdE α))
  | .obs => t.omd
  | .samp => t.smd
def Src.gmd (t : Src α) : Axis → List (String × String × String)
  | .obs => t.ogmd
  | .samp => t.sgmd

/-! ### the logical tree -/

inductive Kind where
  | f64 | i32 | i64 | bool | vlenStr | fixStr | other
  deriving Repr, DecidableEq, Inhabited

inductive Cell (α : Type) where
  | f (a : α)
  | i (n : Int)
  | b (v : Bool)
  | s (x : Bytes)
  deriving Repr, DecidableEq

inductive Data (α : Type) where
  | d1 (cells : List (Cell α))
  | d2 (ncol : Nat) (rows : List (List (Cell α)))
  | opaque
  deriving Repr, DecidableEq

structure DSet (α : Type) where
  kind : Kind
  data : Data α
  dataType : Option String := none
  deriving Repr, DecidableEq

inductive Attr where
  | str (s : String)
  | ints (l : List Int)
  | int (n : Int)
  | other
  deriving Repr, DecidableEq

structure MatGrp (α : Type) where
  data : Option (DSet α)
  indices : Option (DSet α)
  indptr : Option (DSet α)
  deriving Repr, DecidableEq

structure AxGrp (α : Type) where
  ids : Option (DSet α)
  md : Option (List (String × DSet α))
  gmd : Option (List (String × DSet α))
  matrix : Option (MatGrp α)
  deriving Repr, DecidableEq

structure H5 (α : Type) where
  attrs : List (String × Attr)
  obs : Option (AxGrp α)
  samp : Option (AxGrp α)
  deriving Repr, DecidableEq

def H5.ax (h : H5 α) : Axis → Option (AxGrp α)
  | .obs => h.obs
  | .samp => h.samp

/-- one element of `dset[:]` as the reader's loop sees it: a scalar (1-D) or a row (2-D) -/
inductive Row (α : Type) where
  | scalar (c : Cell α)
  | vec (cs : List (Cell α))
  deriving Repr, DecidableEq

def Data.rowsOf : Data α → Option (List (Row α))
  | .d1 cells => some (cells.map .scalar)
  | .d2 _ rows => some (rows.map .vec)
  | .opaque => none

/-! ### `/` ↔ `@@SLASH@@` (Python `str.replace`: leftmost, non-overlapping) -/

def slashPat : List Char := ['@', '@', 'S', 'L', 'A', 'S', 'H', '@', '@']

def sanL : List Char → List Char
  | [] => []
  | c :: cs => if c = '/' then slashPat ++ sanL cs else c :: sanL cs

/-- `skip` characters of an already matched pattern are still to be dropped -/
def unsanGo : Nat → List Char → List Char
  | _, [] => []
  | skip + 1, _ :: cs => unsanGo skip cs
  | 0, c :: cs => if slashPat.isPrefixOf (c :: cs) then '/' :: unsanGo 8 cs else c :: unsanGo 0 cs

def sanitize (s : String) : String := String.ofList (sanL s.toList)
def unsanitize (s : String) : String := String.ofList (unsanGo 0 s.toList)

/-! ### `to_hdf5` -/

def isSpecial (k : String) : Bool :=
  k == "taxonomy" || k == "Taxonomy" || k == "KEGG_Pathways" || k == "collapsed_ids"

def MdVal.isText : MdVal α → Bool | .text _ => true | _ => false
def MdVal.isInt : MdVal α → Bool | .int _ => true | _ => false
def MdVal.isFloat : MdVal α → Bool | .float _ => true | _ => false
def MdVal.isBool : MdVal α → Bool | .bool _ => true | _ => false
def MdVal.isList : MdVal α → Bool | .list _ => true | _ => false
def MdVal.isNum : MdVal α → Bool | .int _ => true | .float _ => true | .bool _ => true | _ => false

/-- `m[header]` on a `defaultdict(lambda: None)` -/
def colOf (md : List (MdE α)) (k : String) : List (MdVal α) :=
  md.map (fun e => (e.lookup k).getD .none)

def strCell (c : Utf8) (s : String) : Cell α := .s (c.enc s)

def strDs (c : Utf8) (l : List String) : DSet α :=
  { kind := .vlenStr, data := .d1 (l.map (strCell c)) }

def maxL (l : List Nat) : Nat := l.foldr max 0

def padRow (c : Utf8) (w : Nat) (l : List String) : List (Cell α) :=
  l.map (strCell c) ++ List.replicate (w - l.length) (.s c.empty)

/-- rows of `vlen_list_of_str_formatter`: `None` is an all-padding row -/
def listRow (c : Utf8) (w : Nat) : MdVal α → List (Cell α)
  | .list l => padRow c w l
  | _ => List.replicate w (.s c.empty)

def listLens : List (MdVal α) → List Nat
  | [] => []
  | .list l :: vs => l.length :: listLens vs
  | _ :: vs => listLens vs

/-- Python `str.split(';')` then `strip()` of each part (ASCII blanks) — only reached for a flat
text under `taxonomy`, which is outside the domain of the property -/
def splitTax (s : String) : List String :=
  (s.splitOn ";").map (fun p => p.trimAscii.toString)

/-- flat texts split into their parts -/
def splitCol (col : List (MdVal α)) : List (MdVal α) :=
  col.map (fun v => match v with | .text s => .list (splitTax s) | v => v)

/-- `vlen_list_of_str_formatter(grp, header, md, compression)`; the dataset name is NOT escaped -/
def listFmt (c : Utf8) (k : String) (col : List (MdVal α)) : Except Err (String × DSet α) :=
  if col.any MdVal.isNum then .error .type          -- len() of a number
  else
    let col' : Except Err (List (MdVal α)) :=
      if col.any MdVal.isText then
        if k == "taxonomy" && col.all MdVal.isText then
          .ok (splitCol col)
        else .error .type
      else .ok col
    match col' with
    | .error e => .error e
    | .ok col' =>
      let lens := listLens col'
      if lens.isEmpty then .error .value             -- max([])
      else
        let w := maxL lens
        .ok (k, { kind := .vlenStr, data := .d2 w (col'.map (listRow c w)) })

def noneToText : MdVal α → MdVal α
  | .none => .text ""
  | v => v

/-- the stored form of an atomic value -/
def scalarCell (c : Utf8) : MdVal α → Option (Cell α)
  | .text s => some (strCell c s)
  | .int i => some (.i i)
  | .float a => some (.f a)
  | .bool b => some (.b b)
  | _ => none

/-- `general_formatter(grp, header, md, compression)` -/
def generalFmt (c : Utf8) (k : String) (col : List (MdVal α)) : Except Err (String × DSet α) :=
  let name := sanitize k
  if col.all MdVal.isText then
    .ok (name, { kind := .vlenStr, data := .d1 (col.filterMap (scalarCell c)) })
  else if col.all MdVal.isList then listFmt c k col
  else
    let col' := col.map noneToText
    if col'.all MdVal.isText then
      .ok (name, { kind := .vlenStr, data := .d1 (col'.filterMap (scalarCell c)) })
    else if col'.all MdVal.isInt then
      .ok (name, { kind := .i64, data := .d1 (col'.filterMap (scalarCell c)) })
    else if col'.all MdVal.isFloat then
      .ok (name, { kind := .f64, data := .d1 (col'.filterMap (scalarCell c)) })
    else if col'.all MdVal.isBool then
      .ok (name, { kind := .bool, data := .d1 (col'.filterMap (scalarCell c)) })
    else
      -- "try our best": numpy picks a common dtype for the mixture; not modelled
      .ok (name, { kind := .other, data := .opaque })

def fmtCategory (c : Utf8) (k : String) (col : List (MdVal α)) : Except Err (String × DSet α) :=
  if isSpecial k then listFmt c k col else generalFmt c k col

def keysOf (e : MdE α) : List String := e.map (·.1)

def sameKeys (a b : MdE α) : Bool :=
  (keysOf a).all (fun k => (keysOf b).contains k) && (keysOf b).all (fun k => (keysOf a).contains k)

/-- the `if md:` block: categories must agree on every ID, one dataset per category of `md[0]` -/
def mdDsets (c : Utf8) (md : Option (List (MdE α))) : Except Err (List (String × DSet α)) :=
  match md with
  | none => .ok []
  | some [] => .ok []
  | some (e0 :: es) =>
    if es.any (fun e => !sameKeys e e0) then .error .value
    else (keysOf e0).mapM (fun k => fmtCategory c k (colOf (e0 :: es) k))

def natCell (n : Nat) : Cell α := .i (Int.ofNat n)

/-- `create_dataset(..., shape=(len_data,), data=…)` refuses data of another length -/
def matGrp (nnz : Nat) (cs : CS α) : Except Err (MatGrp α) :=
  if cs.data.length = nnz ∧ cs.indices.length = nnz then
    .ok { data := some { kind := .f64, data := .d1 (cs.data.map .f) },
          indices := some { kind := .i32, data := .d1 (cs.indices.map natCell) },
          indptr := some { kind := .i32, data := .d1 (cs.indptr.map natCell) } }
  else .error .value

def gmdDsets (c : Utf8) (g : List (String × String × String)) : List (String × DSet α) :=
  g.map (fun kv => (kv.1, { kind := .vlenStr, data := .d1 [strCell c kv.2.2], dataType := some kv.2.1 }))

/-- `datatype, val = ('', value) if isinstance(value, str) else value`: a bare text (the form
`from_hdf5` hands back) is a payload with an empty data type -/
def gmdAll (g : List (String × String × String)) (bare : List (String × String)) : List (String × String × String) :=
  g ++ bare.map (fun kv => (kv.1, "", kv.2))

def axGrp (c : Utf8) (ids : List Id) (md : Option (List (MdE α))) (gmd : List (String × String × String))
    (bare : List (String × String)) (nnz : Nat) (cs : CS α) : Except Err (AxGrp α) := do
  let mds ← mdDsets c md
  let m ← matGrp nnz cs
  let idsDs : DSet α :=
    if ids.length > 0 then strDs c ids
    else { kind := .vlenStr, data := .d1 [] }      -- the empty-axis branch
  pure { ids := some idsDs, md := some mds, gmd := some (gmdDsets c (gmdAll gmd bare)), matrix := some m }

def idAttr (tid : Option String) : String :=
  match tid with
  | some s => if s = "" then "No Table ID" else s
  | none => "No Table ID"

def typeAttr (ty : Option String) : String :=
  match ty with
  | some s => s
  | none => ""

/-- `Table.to_hdf5(h5grp, generated_by, compress, creation_date=date)`; `now` is what the clock
returns when no date is given; `compress` is not an input of the logical tree. -/
def toH5 (c : Utf8) (dc : DateC δ) (t : Src α) (genBy : String) (date : Option δ) (now : δ)
    (csr csc : CS α) : Except Err (H5 α) := do
  let nnz := csr.data.length
  let attrs : List (String × Attr) :=
    [("id", .str (idAttr t.tableId)), ("type", .str (typeAttr t.ttype)),
     ("format-url", .str "http://biom-format.org"), ("format-version", .ints [2, 1]),
     ("generated-by", .str genBy), ("creation-date", .str (dc.iso (date.getD now))),
     ("shape", .ints [Int.ofNat csr.nMajor, Int.ofNat csr.nMinor]), ("nnz", .int (Int.ofNat nnz))]
  let o ← axGrp c t.obs t.omd t.ogmd t.ogmdBare nnz csr
  let s ← axGrp c t.samp t.smd t.sgmd t.sgmdBare nnz csc
  pure { attrs := attrs, obs := some o, samp := some s }

/-! ### the domain of the property's metadata (decidable; also evaluated by the driver) -/

def MdVal.isAtom : MdVal α → Bool
  | .text _ => true | .int _ => true | .float _ => true | .bool _ => true | _ => false

def goodList : MdVal α → Bool
  | .list l => !l.isEmpty && l.all (fun s => s != "")
  | _ => false

/-- the per-category-homogeneous domain of the property: lists of non-empty text under the
reserved hierarchical names, otherwise all text / all integer / all float / all boolean -/
def colDomain (k : String) (col : List (MdVal α)) : Bool :=
  if isSpecial k then col.all goodList || (k == "taxonomy" && col.all MdVal.isText)   -- or flat 'a; b' texts
  else col.all MdVal.isText || col.all MdVal.isInt || col.all MdVal.isFloat || col.all MdVal.isBool

/-- metadata of one axis is in the domain: present on no ID or on every ID with the same categories
(a dict: distinct keys; at least one), escaped names distinct, every category homogeneous -/
def mdDomain : Option (List (MdE α)) → Bool
  | none => true
  | some [] => false
  | some (e0 :: es) =>
    !(keysOf e0).isEmpty && decide (keysOf e0).Nodup &&
    es.all (fun e => decide (keysOf e).Nodup && sameKeys e e0 && (keysOf e).length == (keysOf e0).length) &&
    decide ((keysOf e0).map sanitize).Nodup &&
    (keysOf e0).all (fun k => colDomain k (colOf (e0 :: es) k))

/-! ### a reader written from biom-2.1.rst only -/

def okEq [BEq β] (e : Except Err β) (x : β) : Bool :=
  match e with
  | .ok y => y == x
  | .error _ => false

def reqE (o : Option β) : Except Err β :=
  match o with
  | some x => .ok x
  | none => .error .key

def cellNat : Cell α → Except Err Nat
  | .i n => if 0 ≤ n then .ok n.toNat else .error .value
  | _ => .error .type

def cellVal : Cell α → Except Err α
  | .f a => .ok a
  | _ => .error .type

def cellStr (c : Utf8) : Cell α → Except Err String
  | .s x => c.dec x
  | _ => .error .type

/-- "<string> or <variable length string> A (N,) dataset" -/
def specIds (c : Utf8) (d : Option (DSet α)) : Except Err (List String) := do
  let d ← reqE d
  if d.kind = .vlenStr ∨ d.kind = .fixStr then
    match d.data with
    | .d1 cells => cells.mapM (cellStr c)
    | _ => .error .value
  else .error .type

/-- "<int32> A (…,) dataset" -/
def specNats (d : Option (DSet α)) : Except Err (List Nat) := do
  let d ← reqE d
  if d.kind = .i32 then
    match d.data with
    | .d1 cells => cells.mapM cellNat
    | _ => .error .value
  else .error .type

/-- "<float64> A (nnz,) dataset" -/
def specVals (d : Option (DSet α)) : Except Err (List α) := do
  let d ← reqE d
  if d.kind = .f64 then
    match d.data with
    | .d1 cells => cells.mapM cellVal
    | _ => .error .value
  else .error .type

/-- the three datasets of a matrix group as a compressed matrix of the stated dimensions -/
def readView (major minor : Nat) (g : Option (MatGrp α)) : Except Err (CS α) := do
  let g ← reqE g
  let data ← specVals g.data
  let indices ← specNats g.indices
  let indptr ← specNats g.indptr
  pure { nMajor := major, nMinor := minor, indptr := indptr, indices := indices, data := data }

/-- decode one view: the offsets must describe `major` vectors over `nnz` entries -/
def specView [Zero α] (major minor nnz : Nat) (g : Option (MatGrp α)) : Except Err (List (List α)) := do
  let cs ← readView major minor g
  if cs.wfb && cs.data.length == nnz then .ok cs.toDense else .error .value

def attrStr (h : H5 α) (k : String) : Except Err String :=
  match h.attrs.lookup k with
  | some (.str s) => .ok s
  | some _ => .error .type
  | none => .error .key

def attrNat (h : H5 α) (k : String) : Except Err Nat :=
  match h.attrs.lookup k with
  | some (.int n) => if 0 ≤ n then .ok n.toNat else .error .value
  | some _ => .error .type
  | none => .error .key

def attrShape (h : H5 α) : Except Err (Nat × Nat) :=
  match h.attrs.lookup "shape" with
  | some (.ints [n, m]) => if 0 ≤ n ∧ 0 ≤ m then .ok (n.toNat, m.toNat) else .error .value
  | some _ => .error .type
  | none => .error .key

structure SpecTable (α : Type) where
  obs : List String
  samp : List String
  byObs : List (List α)
  bySamp : List (List α)
  deriving Repr, DecidableEq

/-- N x M from `shape`, `nnz`, IDs from `observation/ids` and `sample/ids`, the matrix once from
the compressed-row copy and once from the compressed-column copy (transposed back to N x M) -/
def specDecode [Zero α] (c : Utf8) (h : H5 α) : Except Err (SpecTable α) := do
  let (n, m) ← attrShape h
  let nnz ← attrNat h "nnz"
  let o ← reqE h.obs
  let s ← reqE h.samp
  let obs ← specIds c o.ids
  let samp ← specIds c s.ids
  if obs.length = n ∧ samp.length = m then
    let byObs ← specView n m nnz o.matrix
    let byCol ← specView m n nnz s.matrix
    pure { obs := obs, samp := samp, byObs := byObs, bySamp := transposeGrid n byCol }
  else .error .value

end Biom.Hdf5

/-! ### the property -/
namespace Biom.C04
open Biom.Hdf5

variable {α : Type}

/-- number of non-zero cells of a grid -/
def nnzGrid [Zero α] [DecidableEq α] (rows : List (List α)) : Nat :=
  (rows.map (fun r => r.countP (fun v => v ≠ 0))).foldr (· + ·) 0

def isStrAttr (h : H5 α) (k : String) : Bool :=
  match h.attrs.lookup k with
  | some (.str _) => true
  | _ => false

/-- required top-level attributes with their kinds; `shape`, `nnz` are the true ones -/
def attrsOK [Zero α] [DecidableEq α] (t : Src α) (h : H5 α) : Bool :=
  isStrAttr h "id" && isStrAttr h "type" && isStrAttr h "format-url" && isStrAttr h "generated-by" &&
  isStrAttr h "creation-date" &&
  h.attrs.lookup "format-version" == some (.ints [2, 1]) &&
  h.attrs.lookup "shape" == some (.ints [Int.ofNat t.obs.length, Int.ofNat t.samp.length]) &&
  h.attrs.lookup "nnz" == some (.int (Int.ofNat (nnzGrid t.rows)))

/-- header values: `generated-by` is the writer's ARGUMENT (not what the table object carries),
`creation-date` the supplied date in ISO format, `id` the table id or the placeholder, `type` the
table type or '', `format-url` the static URL -/
def headerOK (t : Src α) (genBy : String) (dateIso : Option String) (h : H5 α) : Bool :=
  h.attrs.lookup "generated-by" == some (.str genBy) &&
  (match dateIso with
   | some d => h.attrs.lookup "creation-date" == some (.str d)
   | none => true) &&
  h.attrs.lookup "id" == some (.str (idAttr t.tableId)) &&
  h.attrs.lookup "type" == some (.str (typeAttr t.ttype)) &&
  h.attrs.lookup "format-url" == some (.str "http://biom-format.org")

def axGroupsOK (g : Option (AxGrp α)) : Bool :=
  match g with
  | some g => g.md.isSome && g.gmd.isSome && g.matrix.isSome
  | none => false

/-- `ids`: a text dataset (also when empty) with one entry per ID, in axis order -/
def idsOK [DecidableEq α] (c : Utf8) (ids : List Id) (g : Option (AxGrp α)) : Bool :=
  match g with
  | some g => okEq (specIds c g.ids) ids
  | none => false

/-- a stored scalar / row stands for a metadata value -/
def represents [DecidableEq α] (c : Utf8) : MdVal α → Row α → Bool
  | .text s, .scalar (.s x) => okEq (c.dec x) s
  | .int i, .scalar (.i j) => i == j
  | .float a, .scalar (.f b) => a == b
  | .bool a, .scalar (.b b) => a == b
  | .list l, .vec cells =>
      cells.all (fun x => match x with | .s _ => true | _ => false) &&
      okEq ((cells.filter (fun x => x != .s c.empty)).mapM (cellStr c)) l
  | .text s, .vec cells =>
      -- a flat text under a hierarchical dataset (classic-TSV taxonomy 'k__A; p__x'): the row holds
      -- its ';'-separated, stripped, non-empty parts
      cells.all (fun x => match x with | .s _ => true | _ => false) &&
      okEq ((cells.filter (fun x => x != .s c.empty)).mapM (cellStr c)) ((splitTax s).filter (fun p => p != ""))
  | .none, .scalar (.s x) => x == c.empty
  | .none, .vec cells => cells.all (fun x => x == .s c.empty)
  | _, _ => false

def allRep [DecidableEq α] (c : Utf8) : List (MdVal α) → List (Row α) → Bool
  | [], [] => true
  | v :: vs, r :: rs => represents c v r && allRep c vs rs
  | _, _ => false

def dsRows (d : DSet α) : Nat :=
  match d.data with
  | .d1 cells => cells.length
  | .d2 _ rows => rows.length
  | .opaque => 0

def dsRect (d : DSet α) : Bool :=
  match d.data with
  | .d1 _ => true
  | .d2 w rows => rows.all (fun r => r.length == w)
  | .opaque => false

/-- every metadata dataset has one entry per ID; every category of the table has its dataset,
entry `i` standing for the value of ID `i` -/
def mdOK [DecidableEq α] (c : Utf8) (ids : List Id) (md : Option (List (MdE α))) (g : Option (AxGrp α)) : Bool :=
  match g with
  | none => false
  | some g =>
    match g.md with
    | none => false
    | some ds =>
      ds.all (fun nd => dsRect nd.2 && dsRows nd.2 == ids.length) &&
      (match md with
       | none => true
       | some [] => true
       | some (e0 :: es) =>
         (keysOf e0).all (fun k =>
           match ds.lookup (sanitize k) with
           | none => false
           | some d =>
             match d.data.rowsOf with
             | none => false
             | some rs => allRep c (colOf (e0 :: es) k) rs))

/-- group metadata: every entry of the table has its dataset, a single text holding the payload, whose
`data_type` attribute is the entry's data type ('' for an entry the table holds as bare text); nothing else -/
def gmdOK (c : Utf8) (g : List (String × String × String)) (grp : Option (AxGrp α)) : Bool :=
  match grp with
  | none => false
  | some ag =>
    match ag.gmd with
    | none => false
    | some ds =>
      ds.length == g.length &&
      g.all (fun kv =>
        match ds.lookup kv.1 with
        | none => false
        | some d =>
          (d.kind == .vlenStr || d.kind == .fixStr) && d.dataType == some kv.2.1 &&
          (match d.data with
           | .d1 [.s x] => okEq (c.dec x) kv.2.2
           | _ => false))

/-- one matrix group: kinds, lengths, offsets, index range, no duplicate index, no stored zero -/
def viewOK [Zero α] [DecidableEq α] (major minor nnz : Nat) (g : Option (AxGrp α)) : Bool :=
  match g with
  | none => false
  | some g =>
    match readView major minor g.matrix with
    | .error _ => false
    | .ok cs => cs.wfb && cs.data.length == nnz && cs.indices.length == nnz && cs.data.all (fun v => v ≠ 0)

/-- a reader following only the specification recovers IDs and grid, from BOTH views -/
def decodeOK [Zero α] [DecidableEq α] (c : Utf8) (t : Src α) (h : H5 α) : Bool :=
  match specDecode c h with
  | .error _ => false
  | .ok st => st.obs == t.obs && st.samp == t.samp && st.byObs == t.rows && st.bySamp == t.rows

def clauses [Zero α] [DecidableEq α] (c : Utf8) (t : Src α) (genBy : String) (dateIso : Option String)
    (h : H5 α) : List (String × Bool) :=
  let n := t.obs.length
  let m := t.samp.length
  let z := nnzGrid t.rows
  [("attributes", attrsOK t h),
   ("header-values", headerOK t genBy dateIso h),
   ("groups", axGroupsOK h.obs && axGroupsOK h.samp),
   ("observation/ids", idsOK c t.obs h.obs),
   ("sample/ids", idsOK c t.samp h.samp),
   ("observation/metadata", mdOK c t.obs t.omd h.obs),
   ("sample/metadata", mdOK c t.samp t.smd h.samp),
   ("observation/group-metadata", gmdOK c (gmdAll t.ogmd t.ogmdBare) h.obs),
   ("sample/group-metadata", gmdOK c (gmdAll t.sgmd t.sgmdBare) h.samp),
   ("observation/matrix", viewOK n m z h.obs),
   ("sample/matrix", viewOK m n z h.samp),
   ("decode", decodeOK c t h)]

def holds [Zero α] [DecidableEq α] (c : Utf8) (t : Src α) (genBy : String) (dateIso : Option String)
    (h : H5 α) : Bool :=
  (clauses c t genBy dateIso h).all (·.2)

/-! ### JSON glue -/
open Codec

def asMdVal (j : Json) : R (MdVal Rat) := do
  match (← strF j "t") with
  | "text" => pure (.text (← strF j "v"))
  | "int" => do
      match (← strF j "v").toInt? with
      | some i => pure (.int i)
      | none => .error "bad int"
  | "float" => pure (.float (← asRat (← fld j "v")))
  | "bool" => pure (.bool (← boolF j "v"))
  | "list" => pure (.list (← listF asStr j "v"))
  | "none" => pure .none
  | s => .error s!"bad md value kind {s}"

def asPair (f : Json → R β) (j : Json) : R (String × β) := do
  match (← asArr j) with
  | [k, v] => pure ((← asStr k), (← f v))
  | _ => .error "pair expected"

def asMdE (j : Json) : R (MdE Rat) := asList (asPair asMdVal) j

def asGmd (j : Json) : R (String × String × String) := do
  match (← asArr j) with
  | [k, d, v] => pure ((← asStr k), (← asStr d), (← asStr v))
  | _ => .error "group metadata triple expected"

def asSrc (j : Json) : R (Src Rat) := do
  pure { obs := (← listF asStr j "obs"), samp := (← listF asStr j "samp"),
         rows := (← listF (asList asRat) j "rows"),
         omd := (← optF (asList asMdE) j "omd"), smd := (← optF (asList asMdE) j "smd"),
         ttype := (← optF asStr j "type"), tableId := (← optF asStr j "table_id"),
         ogmd := (← listF asGmd j "ogmd"), sgmd := (← listF asGmd j "sgmd"),
         ogmdBare := (← match optFld j "ogmd_bare" with | some v => asList (asPair asStr) v | none => pure []),
         sgmdBare := (← match optFld j "sgmd_bare" with | some v => asList (asPair asStr) v | none => pure []),
         ownGeneratedBy := (← optF asStr j "own_generated_by"), ownCreateDate := (← optF asStr j "own_create_date") }

def asKind (s : String) : Kind :=
  match s with
  | "f64" => .f64 | "i32" => .i32 | "i64" => .i64 | "bool" => .bool
  | "vlenStr" => .vlenStr | "fixStr" => .fixStr | _ => .other

def asCell (k : Kind) (j : Json) : R (Cell Rat) :=
  match k with
  | .f64 => do pure (.f (← asRat j))
  | .i32 | .i64 => do
      match j with
      | .str s => match s.toInt? with
        | some i => pure (.i i)
        | none => .error "bad int cell"
      | v => do pure (.i (← asInt v))
  | .bool => do pure (.b (← asBool j))
  | _ => do pure (.s (← asStr j))

def asDSet (j : Json) : R (DSet Rat) := do
  let k := asKind (← strF j "kind")
  let dt ← optF asStr j "data_type"
  let dim ← natF j "d"
  if k == .other then pure { kind := k, data := .opaque, dataType := dt }
  else if dim == 1 then
    pure { kind := k, data := .d1 (← listF (asCell k) j "cells"), dataType := dt }
  else if dim == 2 then
    pure { kind := k, data := .d2 (← natF j "ncol") (← listF (asList (asCell k)) j "cells"), dataType := dt }
  else pure { kind := k, data := .opaque, dataType := dt }

def asAttr (j : Json) : R Attr := do
  match (← strF j "k") with
  | "str" => pure (.str (← strF j "v"))
  | "ints" => pure (.ints (← listF asInt j "v"))
  | "int" => pure (.int (← intF j "v"))
  | _ => pure .other

def asMat (j : Json) : R (MatGrp Rat) := do
  pure { data := (← optF asDSet j "data"), indices := (← optF asDSet j "indices"),
         indptr := (← optF asDSet j "indptr") }

def asAx (j : Json) : R (AxGrp Rat) := do
  pure { ids := (← optF asDSet j "ids"), md := (← optF (asList (asPair asDSet)) j "metadata"),
         gmd := (← optF (asList (asPair asDSet)) j "group-metadata"), matrix := (← optF asMat j "matrix") }

def asH5 (j : Json) : R (H5 Rat) := do
  pure { attrs := (← listF (asPair asAttr) j "attrs"), obs := (← optF asAx j "observation"),
         samp := (← optF asAx j "sample") }

def cellToJson : Cell Rat → Json
  | .f a => ratToJson a
  | .i n => .str (toString n)
  | .b v => .bool v
  | .s x => .str x

def kindName : Kind → String
  | .f64 => "f64" | .i32 => "i32" | .i64 => "i64" | .bool => "bool"
  | .vlenStr => "vlenStr" | .fixStr => "fixStr" | .other => "other"

def dsetToJson (d : DSet Rat) : Json :=
  let base := [("kind", Json.str (kindName d.kind)), ("data_type", optToJson Json.str d.dataType)]
  match d.data with
  | .d1 cells => Json.mkObj (base ++ [("d", toJson (1 : Nat)), ("cells", .arr (cells.map cellToJson).toArray)])
  | .d2 w rows => Json.mkObj (base ++ [("d", toJson (2 : Nat)), ("ncol", toJson w),
      ("cells", .arr (rows.map (fun r => Json.arr (r.map cellToJson).toArray)).toArray)])
  | .opaque => Json.mkObj (base ++ [("d", toJson (0 : Nat))])

def attrToJson : Attr → Json
  | .str s => Json.mkObj [("k", "str"), ("v", .str s)]
  | .ints l => Json.mkObj [("k", "ints"), ("v", .arr (l.map (fun (i : Int) => toJson i)).toArray)]
  | .int n => Json.mkObj [("k", "int"), ("v", toJson n)]
  | .other => Json.mkObj [("k", "other")]

/-- name ↦ dataset lists become JSON objects, so that creation order is not compared -/
def namedToJson (l : List (String × DSet Rat)) : Json := Json.mkObj (l.map (fun nd => (nd.1, dsetToJson nd.2)))

def matToJson (m : MatGrp Rat) : Json :=
  Json.mkObj [("data", optToJson dsetToJson m.data), ("indices", optToJson dsetToJson m.indices),
    ("indptr", optToJson dsetToJson m.indptr)]

def axToJson (g : AxGrp Rat) : Json :=
  Json.mkObj [("ids", optToJson dsetToJson g.ids), ("metadata", optToJson namedToJson g.md),
    ("group-metadata", optToJson namedToJson g.gmd), ("matrix", optToJson matToJson g.matrix)]

def h5ToJson (h : H5 Rat) : Json :=
  Json.mkObj [("attrs", Json.mkObj (h.attrs.map (fun kv => (kv.1, attrToJson kv.2)))),
    ("observation", optToJson axToJson h.obs), ("sample", optToJson axToJson h.samp)]

def firstFailing (cl : List (String × Bool)) : Verdict :=
  match cl.find? (fun p => !p.2) with
  | some p => some p.1
  | none => none

def specToJson (st : SpecTable Rat) : Json :=
  Json.mkObj [("obs", strsToJson st.obs), ("samp", strsToJson st.samp), ("byObs", gridToJson st.byObs),
    ("bySamp", gridToJson st.bySamp)]

/-- request {"src":…, "generated_by":…, "date": iso|null, "now": iso, "csr":…, "csc":…, "raw":…}
    → holds/clause on the raw tree, the model tree, agreement, Lean's spec decoding of the raw tree -/
def handle (req : Json) : R Json := do
  let src ← asSrc (← fld req "src")
  if (optFld req "op").isSome then
    -- {"op": "domain", "src": …[, "csr", "csc"]}: is the table inside the domain of the theorems?  and, when the
    -- layouts are given, does the model writer raise (and what)?
    let merr : Json ← match optFld req "csr", optFld req "csc" with
      | some a, some b => do
          let csr ← asCS a
          let csc ← asCS b
          match toH5 Utf8.ident DateC.ident src "" (none : Option String) "" csr csc with
          | .ok _ => pure Json.null
          | .error e => pure (Json.str e.name)
      | _, _ => pure Json.null
    return Json.mkObj [("in_domain", .bool (mdDomain src.omd && mdDomain src.smd)), ("model_error", merr)]
  let raw ← asH5 (← fld req "raw")
  let genBy ← strF req "generated_by"
  let date ← optF asStr req "date"
  let now ← strFD req "now" ""
  let csr ← asCS (← fld req "csr")
  let csc ← asCS (← fld req "csc")
  let v := firstFailing (clauses Utf8.ident src genBy date raw)
  let model := toH5 Utf8.ident DateC.ident src genBy date now csr csc
  let (mj, modelHolds) : Json × Bool :=
    match model with
    | .ok h => (h5ToJson h, holds Utf8.ident src genBy date h)
    | .error e => (errToJson e, false)
  let rj := h5ToJson raw
  let dec : Json := match specDecode Utf8.ident raw with
    | .ok st => specToJson st
    | .error e => errToJson e
  pure (Json.mkObj (verdictToJson v ++ [("agree", .bool (mj.compress == rj.compress)),
    ("model_holds", .bool modelHolds), ("model", mj), ("raw_canon", rj), ("decode", dec),
    ("in_domain", .bool (mdDomain src.omd && mdDomain src.smd))]))

end Biom.C04
