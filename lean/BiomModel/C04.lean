import BiomModel.Codec
open Lean
namespace Biom.C04
/-- stub: not built yet -/
def handle (_req : Json) : Codec.R Json := .error "C04: model not built yet"
end Biom.C04
