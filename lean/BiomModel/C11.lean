/-
  C11 — partition is an exact split; collapse conserves what it aggregates.

  Model of `Table.partition` (function / `id→group` dict / `group→[ids]` dict, `ignore_none`,
  tupling of unhashable labels, first-occurrence group order, `remove_empty`), one-to-one
  `Table.collapse` (per-part sum, division by the member count when `norm`, `min_group_size`,
  `collapsed_ids` metadata) and one-to-many `collapse` (`md_count`, sorted bins, `add`/`divide`,
  `strict`, pathway metadata).

  The code treats `axis='sample'` as: take the columns, work on them as rows, transpose back
  (`_conv_to_self_type(values, transpose=True)`).  The model does the same: every operation is
  defined on the orientation in which the partitioned axis is the row axis (`orient`), and the
  result is oriented back.  The labeller's RESULT per ID is an input of the model.

  `holds…` are declarative predicates on observations: IDs, cells looked up by ID, metadata by ID.
-/
import BiomModel.Codec
open Lean

namespace Biom.C11

variable {α : Type}

/-! ### labels -/

/-- what a labelling function may return (`list` = an unhashable list, `tup` = a tuple) -/
inductive Label where
  | none
  | str (s : String)
  | int (i : Int)
  | tup (l : List String)
  | list (l : List String)
  deriving DecidableEq, Repr, Inhabited

/-- `if not isinstance(part, Hashable): part = tuple(part)` -/
def Label.key : Label → Label
  | .list l => .tup l
  | x => x

/-- `if ignore_none and part is None: continue`, then the tupling -/
def eff (ignoreNone : Bool) (l : Label) : Option Label :=
  if ignoreNone && decide (l = Label.none) then Option.none else some l.key

/-- the three accepted forms of `f`; for a function the per-ID results are given -/
inductive Labeler where
  | results (ls : List Label)
  | idToGroup (m : List (Id × String))
  | groupToIds (m : List (String × List Id))
  deriving Repr

/-- `mapping[id_] = grp` in dict order: the last group listing an ID wins -/
def lastGroup (m : List (String × List Id)) (id : Id) : Option String :=
  ((m.reverse.find? (fun g => g.2.contains id))).map (·.1)

def optLabel : Option String → Label
  | some g => .str g
  | Option.none => .none

/-- the label of every ID of the axis, in axis order (`part_f(id_, md)`) -/
def Labeler.labels (ids : List Id) : Labeler → Except Err (List Label)
  | .results ls => .ok ls
  | .idToGroup [] => .error .index            -- `list(f.values())[0]` on an empty dict
  | .idToGroup m => .ok (ids.map (fun id => optLabel (m.lookup id)))
  | .groupToIds [] => .error .index
  | .groupToIds m => .ok (ids.map (fun id => optLabel (lastGroup m id)))

/-! ### orientation -/

def orient (ax : Axis) (t : Table α) : Table α :=
  match ax with
  | .obs => t
  | .samp => t.transpose

/-! ### partition -/

/-- distinct elements in order of first occurrence (insertion order of a Python dict) -/
def firsts {κ : Type} [DecidableEq κ] : List κ → List κ
  | [] => []
  | x :: xs => x :: (firsts xs).filter (fun y => decide (y ≠ x))

/-- keep the vectors (rows) whose mask bit is set, with their IDs and metadata -/
def sel (t : Table α) (mask : List Bool) : Table α :=
  { t with obs := filterMask t.obs mask, rows := filterMask t.rows mask,
           omd := t.omd.map (fun m => filterMask m mask) }

/-- `_cast_metadata`: metadata whose entries are all empty (or that has no entry) is no metadata -/
def normMd : Option (List Md) → Option (List Md)
  | some m => if m.all (fun e => e.isEmpty) then none else some m
  | none => none

/-- what the constructor (and the tail of an in-place `filter`) does to both axes' metadata -/
def castMd (t : Table α) : Table α := { t with omd := normMd t.omd, smd := normMd t.smd }

def maskOf {κ : Type} [DecidableEq κ] (ks : List (Option κ)) (k : κ) : List Bool :=
  ks.map (fun o => decide (o = some k))

def nzRow [Zero α] [DecidableEq α] (r : List α) : Bool := r.any (fun v => decide (v ≠ 0))

/-- per column: does any row hold a non-zero there -/
def colNZ [Zero α] [DecidableEq α] (n : Nat) : List (List α) → List Bool
  | [] => List.replicate n false
  | r :: rs => List.zipWith (fun a b => a || b) (r.map (fun v => decide (v ≠ 0))) (colNZ n rs)

/-- `remove_empty(axis='whole')`: drop the all-zero vectors of both axes -/
def removeEmpty [Zero α] [DecidableEq α] (t : Table α) : Table α :=
  let cm := colNZ t.samp.length t.rows
  let rm := t.rows.map nzRow
  { obs := filterMask t.obs rm, rows := (filterMask t.rows rm).map (fun r => filterMask r cm),
    omd := t.omd.map (fun m => filterMask m rm),
    samp := filterMask t.samp cm, smd := t.smd.map (fun m => filterMask m cm), ttype := t.ttype }

/-- partition of the row axis by effective labels (`none` = the ID is skipped) -/
def partO {κ : Type} [DecidableEq κ] (t : Table α) (ks : List (Option κ)) : List (κ × Table α) :=
  (firsts (ks.filterMap id)).map (fun k => (k, sel t (maskOf ks k)))

def partitionO [Zero α] [DecidableEq α] (t : Table α) (ls : List Label) (removeE ignoreNone : Bool) :
    List (Label × Table α) :=
  let ps := partO t (ls.map (eff ignoreNone))
  -- every part goes through the constructor (`castMd`); `remove_empty` filters both axes in place and
  -- each filter normalises the metadata of its axis again (normalising before and after the two
  -- filters is the same as normalising after them)
  if removeE then ps.map (fun p => (p.1, castMd (removeEmpty p.2))) else ps.map (fun p => (p.1, castMd p.2))

/-- `Table.partition(f, axis, remove_empty, ignore_none)` as a list of (label, table) -/
def partition [Zero α] [DecidableEq α] (t : Table α) (ax : Axis) (f : Labeler) (removeE ignoreNone : Bool) :
    Except Err (List (Label × Table α)) := do
  let ls ← f.labels (t.ids ax)
  pure ((partitionO (orient ax t) ls removeE ignoreNone).map (fun p => (p.1, orient ax p.2)))

/-! ### one-to-one collapse (values are rationals) -/

def addV (a b : List Rat) : List Rat := List.zipWith (· + ·) a b

/-- `table.sum(other axis)` of a part: element-wise sum of its vectors -/
def sumRows (n : Nat) (rows : List (List Rat)) : List Rat := rows.foldr addV (List.replicate n 0)

/-- the ID a label becomes in the collapsed table -/
def Label.toId : Label → Id
  | .none => "None"
  | .str s => s
  | .int i => toString i
  | .tup l => "(" ++ ", ".intercalate l ++ ")"
  | .list l => "[" ++ ", ".intercalate l ++ "]"

def idSep : String := "\u001f"
/-- canonical text of a `collapsed_ids` list (the harness canonicalises the real list the same way) -/
def joinIds (ids : List Id) : String := idSep.intercalate ids
def cidsMd (ids : List Id) : Md := [("collapsed_ids", joinIds ids)]

def reduceRow (norm : Bool) (n : Nat) (p : Table Rat) : List Rat :=
  let s := sumRows n p.rows
  if norm then s.map (fun v => v / (p.obs.length : Rat)) else s

def collapseO (t : Table Rat) (ls : List Label) (norm : Bool) (minSize : Nat) (icm : Bool) : Table Rat :=
  let kept := (partO t (ls.map (fun l => some l.key))).filter (fun p => decide (minSize ≤ p.2.obs.length))
  { obs := kept.map (fun p => p.1.toId),
    rows := kept.map (fun p => reduceRow norm t.samp.length p.2),
    omd := if icm && !kept.isEmpty then some (kept.map (fun p => cidsMd p.2.obs)) else none,
    samp := t.samp, smd := normMd t.smd, ttype := t.ttype }

def collapse (t : Table Rat) (ax : Axis) (f : Labeler) (norm : Bool) (minSize : Nat) (icm : Bool) :
    Except Err (Table Rat) := do
  let ls ← f.labels (t.ids ax)
  pure (orient ax (collapseO (orient ax t) ls norm minSize icm))

/-! ### one-to-many collapse -/

/-- what `next(md_iter)` did, call by call, until `StopIteration`: `none` = it raised `IndexError`,
`some (pathway, bin)` = it returned that pair (the pathway as canonical text) -/
abbrev Events := List (Option (String × String))

/-- the pairs that were delivered (non-strict mode ignores the `IndexError`s) -/
def items (evs : Events) : List (String × String) := evs.filterMap id

def insertS (x : String) : List String → List String
  | [] => [x]
  | y :: ys => if y < x then y :: insertS x ys else x :: y :: ys

/-- `sorted(new_md)` -/
def sortS (l : List String) : List String := l.foldr insertS []

/-- how many times a vector lists bin `b` -/
def mult (b : String) (it : List (String × String)) : Nat := (it.filter (fun p => decide (p.2 = b))).length

/-- `new_md[partition] = pathway`: the last pathway written for the bin -/
def lastPath (all : List (String × String)) (b : String) : String :=
  ((all.reverse.find? (fun p => decide (p.2 = b))).map (·.1)).getD ""

/-- the factor with which a vector enters bin `b`: once per listing, divided by `md_count` in
`divide` mode -/
def weight (divide : Bool) (b : String) (it : List (String × String)) : Rat :=
  if divide then (mult b it : Rat) / (it.length : Rat) else (mult b it : Rat)

def otmO (t : Table Rat) (evss : List Events) (divide strict icm : Bool) (mdKey : String) :
    Except Err (Table Rat) :=
  if t.omd.isNone then .error .type                 -- `zip(ids, None)`
  else if strict && evss.any (fun evs => evs.any Option.isNone) then .error .index
  else
    let its := evss.map items
    let all := its.flatten
    let bins := sortS (firsts (all.map (·.2)))
    .ok { obs := bins,
          rows := bins.map (fun b =>
            sumRows t.samp.length ((t.rows.zip its).map (fun ri => ri.1.map (fun v => weight divide b ri.2 * v)))),
          omd := if icm && !bins.isEmpty then some (bins.map (fun b => [(mdKey, lastPath all b)])) else none,
          samp := t.samp, smd := normMd t.smd, ttype := t.ttype }

def otm (t : Table Rat) (ax : Axis) (evss : List Events) (divide strict icm : Bool) (mdKey : String) :
    Except Err (Table Rat) := do
  let r ← otmO (orient ax t) evss divide strict icm mdKey
  pure (orient ax r)

/-! ### The property, stated on observations only

All predicates speak about the orientation in which the partitioned / collapsed axis is the row
axis (`orient` is applied to the input and to every observed table before they are evaluated);
the well-formedness and shape of the observed tables are checked before orienting them.  -/

abbrev Clauses := List (String × Bool)
def Clauses.ok (c : Clauses) : Bool := c.all (·.2)
def Clauses.firstFail (c : Clauses) : Option String := (c.find? (fun p => !p.2)).map (·.1)

/-- is `a` a sub-list of `b` (same relative order) -/
def subl : List Id → List Id → Bool
  | [], _ => true
  | _ :: _, [] => false
  | a :: as, b :: bs => if a = b then subl as bs else subl (a :: as) bs

/-- the IDs carrying label `k`, in the table's order, looked up by ID -/
def members {κ : Type} [DecidableEq κ] (ids : List Id) (ks : List (Option κ)) (k : κ) : List Id :=
  ids.filter (fun id => decide (lookupBy ids ks id = some (some k)))

def rowNZ [Zero α] [DecidableEq α] (t : Table α) (id : Id) : Bool :=
  match t.row? id with
  | some r => nzRow r
  | none => false

def cellNZ [Zero α] [DecidableEq α] (t : Table α) (o s : Id) : Bool :=
  match t.cell? o s with
  | some v => decide (v ≠ 0)
  | none => false

/-- the metadata entry of an ID; absent metadata and an empty entry are the same observation -/
def mdD (t : Table α) (ax : Axis) (id : Id) : Md := (t.mdOf? ax id).getD []

/-- one yielded part against the table it was cut from -/
def partClauses [Zero α] [DecidableEq α] (t : Table α) (ks : List (Option Label)) (removeE : Bool)
    (k : Label) (p : Table α) : Clauses :=
  let mem := members t.obs ks k
  let ids := if removeE then mem.filter (rowNZ t) else mem
  [ ("part.wf", p.wfb),
    ("part.ids", decide (p.obs = ids)),
    ("part.other",
      if removeE then subl p.samp t.samp &&
        t.samp.all (fun s => p.samp.contains s == mem.any (fun id => cellNZ t id s))
      else decide (p.samp = t.samp)),
    ("part.cells", p.obs.all (fun id => p.samp.all (fun s => decide (p.cell? id s = t.cell? id s)))),
    ("part.md", p.obs.all (fun id => decide (mdD p .obs id = mdD t .obs id)) &&
                p.samp.all (fun s => decide (mdD p .samp s = mdD t .samp s))),
    ("part.type", decide (p.ttype = t.ttype)) ]

def holdsPartitionO [Zero α] [DecidableEq α] (t : Table α) (ls : List Label) (removeE ignoreNone : Bool)
    (out : List (Label × Table α)) : Clauses :=
  let ks := ls.map (eff ignoreNone)
  [ ("part.labels.distinct", decide (out.map (·.1)).Nodup),
    ("part.labels.kept", out.all (fun p => ks.contains (some p.1))),
    ("part.labels.cover", ks.all (fun o => match o with
        | some k => (out.map (·.1)).contains k
        | Option.none => true)) ]
  ++ out.flatMap (fun p => partClauses t ks removeE p.1 p.2)

/-- Σ over IDs of a by-ID quantity -/
def sumOver (ids : List Id) (f : Id → Rat) : Rat := sumL (ids.map f)

def cellD (t : Table Rat) (o s : Id) : Rat := (t.cell? o s).getD 0

def holdsCollapseO (t : Table Rat) (ls : List Label) (norm : Bool) (minSize : Nat) (icm : Bool)
    (out : Table Rat) : Clauses :=
  let ks := ls.map (fun l => some l.key)
  let keys := (firsts (ls.map Label.key)).filter (fun k => decide (minSize ≤ (members t.obs ks k).length))
  [ ("collapse.wf", out.wfb),
    ("collapse.ids.distinct", decide out.obs.Nodup),
    ("collapse.ids", keys.all (fun k => out.obs.contains k.toId) &&
                     out.obs.all (fun id => (keys.map Label.toId).contains id)),
    ("collapse.vector", keys.all (fun k =>
        let mem := members t.obs ks k
        t.samp.all (fun s =>
          let total := sumOver mem (fun id => cellD t id s)
          decide (out.cell? k.toId s = some (if norm then total / (mem.length : Rat) else total))))),
    ("collapse.ids_md",
      if icm then keys.all (fun k => decide (out.mdOf? .obs k.toId = some (cidsMd (members t.obs ks k))))
      else decide (out.omd = none)),
    ("collapse.other", decide (out.samp = t.samp) &&
      t.samp.all (fun s => decide (mdD out .samp s = mdD t .samp s)) && decide (out.ttype = t.ttype)),
    ("collapse.conserve",
      if !norm && decide (minSize ≤ 1) then
        t.samp.all (fun s => decide (sumOver out.obs (fun id => cellD out id s) = sumOver t.obs (fun id => cellD t id s)))
      else true) ]

/-- the delivered pairs of an ID, looked up by ID -/
def itemsOf (t : Table Rat) (evss : List Events) (id : Id) : List (String × String) :=
  items ((lookupBy t.obs evss id).getD [])

def isErr (out : Except Err (Table Rat)) (e : Err) : Bool :=
  match out with
  | .error e' => decide (e' = e)
  | .ok _ => false

def holdsOtmO (t : Table Rat) (evss : List Events) (divide strict icm : Bool) (mdKey : String)
    (out : Except Err (Table Rat)) : Clauses :=
  if t.omd.isNone then [("otm.needs_metadata", isErr out .type)]
  else if strict && evss.any (fun evs => evs.any Option.isNone) then
    [("otm.strict", isErr out .index)]
  else match out with
  | .error _ => [("otm.no_error", false)]
  | .ok r =>
    let all := (t.obs.map (itemsOf t evss)).flatten
    let bins := all.map (·.2)
    [ ("otm.wf", r.wfb),
      ("otm.bins.distinct", decide r.obs.Nodup),
      ("otm.bins", bins.all (fun b => r.obs.contains b) && r.obs.all (fun b => bins.contains b)),
      ("otm.cell", r.obs.all (fun b => t.samp.all (fun s =>
          decide (r.cell? b s = some (sumOver t.obs (fun id => weight divide b (itemsOf t evss id) * cellD t id s)))))),
      ("otm.md",
        if icm then r.obs.all (fun b => decide (r.mdOf? .obs b = some [(mdKey, lastPath all b)]))
        else decide (r.omd = none)),
      ("otm.other", decide (r.samp = t.samp) &&
        t.samp.all (fun s => decide (mdD r .samp s = mdD t .samp s)) && decide (r.ttype = t.ttype)),
      ("otm.divide.conserve",
        if divide then
          t.samp.all (fun s => decide (sumOver r.obs (fun b => cellD r b s) =
            sumOver (t.obs.filter (fun id => !(itemsOf t evss id).isEmpty)) (fun id => cellD t id s)))
        else true) ]

/-! ### requests -/

inductive Op where
  | partition (f : Labeler) (removeE ignoreNone : Bool)
  | collapse (f : Labeler) (norm : Bool) (minSize : Nat) (icm : Bool)
  | otm (evss : List Events) (divide strict icm : Bool) (mdKey : String)
  deriving Repr

/-- what was observed on the real code (tables as they came out, not yet oriented) -/
inductive Out where
  | parts (ps : List (Label × Table Rat))
  | table (t : Table Rat) (shape : Nat × Nat)
  | error (e : Err)
  deriving Repr

def model (t : Table Rat) (ax : Axis) : Op → Out
  | .partition f re ign =>
    match partition t ax f re ign with
    | .ok ps => .parts ps
    | .error e => .error e
  | .collapse f norm ms icm =>
    match collapse t ax f norm ms icm with
    | .ok r => .table r (r.obs.length, r.samp.length)
    | .error e => .error e
  | .otm evss divide strict icm key =>
    match otm t ax evss divide strict icm key with
    | .ok r => .table r (r.obs.length, r.samp.length)
    | .error e => .error e

def shapeOk (r : Table Rat) (shape : Nat × Nat) : Bool :=
  r.wfb && decide (shape = (r.obs.length, r.samp.length))

/-- the whole predicate: request (table, axis, operation with the labeller's results) against
the observed outcome -/
def clauses (t : Table Rat) (ax : Axis) (op : Op) (out : Out) : Clauses :=
  match op, out with
  | .partition f re ign, .parts ps =>
    match f.labels (t.ids ax) with
    | .error _ => [("part.must_refuse", false)]
    | .ok ls =>
      [("part.raw_wf", ps.all (fun p => p.2.wfb))] ++
      holdsPartitionO (orient ax t) ls re ign (ps.map (fun p => (p.1, orient ax p.2)))
  | .partition f _ _, .error e =>
    match f.labels (t.ids ax) with
    | .error e' => [("part.error_kind", decide (e = e'))]
    | .ok _ => [("part.no_error", false)]
  | .collapse f norm ms icm, .table r shape =>
    match f.labels (t.ids ax) with
    | .error _ => [("collapse.must_refuse", false)]
    | .ok ls => [("collapse.shape", shapeOk r shape)] ++ holdsCollapseO (orient ax t) ls norm ms icm (orient ax r)
  | .collapse f _ _ _, .error e =>
    match f.labels (t.ids ax) with
    | .error e' => [("collapse.error_kind", decide (e = e'))]
    | .ok _ => [("collapse.no_error", false)]
  | .otm evss divide strict icm key, .table r shape =>
    [("otm.shape", shapeOk r shape)] ++ holdsOtmO (orient ax t) evss divide strict icm key (.ok (orient ax r))
  | .otm evss divide strict icm key, .error e => holdsOtmO (orient ax t) evss divide strict icm key (.error e)
  | _, _ => [("outcome.kind", false)]

def holds (t : Table Rat) (ax : Axis) (op : Op) (out : Out) : Bool := (clauses t ax op out).ok

/-! ### JSON glue -/
open Codec

def asLabel (j : Json) : R Label :=
  match j with
  | .null => pure .none
  | v => do
    match optFld v "s", optFld v "i", optFld v "t", optFld v "l" with
    | some s, _, _, _ => pure (.str (← asStr s))
    | _, some i, _, _ => pure (.int (← asInt i))
    | _, _, some t, _ => pure (.tup (← asList asStr t))
    | _, _, _, some l => pure (.list (← asList asStr l))
    | _, _, _, _ => .error "bad label"

def labelToJson : Label → Json
  | .none => .null
  | .str s => Json.mkObj [("s", .str s)]
  | .int i => Json.mkObj [("i", toJson i)]
  | .tup l => Json.mkObj [("t", strsToJson l)]
  | .list l => Json.mkObj [("l", strsToJson l)]

def asPair (f : Json → R β) (g : Json → R γ) (j : Json) : R (β × γ) := do
  match (← asArr j) with
  | [a, b] => pure ((← f a), (← g b))
  | _ => .error "pair expected"

def asLabeler (j : Json) : R Labeler := do
  match (← strF j "kind") with
  | "results" => pure (.results (← listF asLabel j "labels"))
  | "id2grp" => pure (.idToGroup (← listF (asPair asStr asStr) j "map"))
  | "grp2ids" => pure (.groupToIds (← listF (asPair asStr (asList asStr)) j "map"))
  | s => .error s!"bad labeler kind {s}"

def asEvents (j : Json) : R Events := asList (asOpt (asPair asStr asStr)) j

def asOp (j : Json) : R Op := do
  match (← strF j "op") with
  | "partition" =>
    pure (.partition (← asLabeler (← fld j "f")) (← boolF j "remove_empty") (← boolF j "ignore_none"))
  | "collapse" =>
    pure (.collapse (← asLabeler (← fld j "f")) (← boolF j "norm") (← natF j "min_group_size") (← boolF j "icm"))
  | "otm" =>
    pure (.otm (← listF asEvents j "events") ((← strF j "mode") == "divide") (← boolF j "strict")
      (← boolF j "icm") (← strF j "md_key"))
  | s => .error s!"bad op {s}"

def asShape (j : Json) : R (Nat × Nat) := asPair asNat asNat j

def asOut (j : Json) : R Out := do
  match optFld j "error", optFld j "parts", optFld j "table" with
  | some e, _, _ => pure (.error (asErr (← asStr e)))
  | _, some ps, _ =>
    pure (.parts (← asList (fun p => do pure ((← asLabel (← fld p "label")), (← asTable (← fld p "table")))) ps))
  | _, _, some t => pure (.table (← asTable t) (← asShape (← fld j "shape")))
  | _, _, _ => .error "bad outcome"

def outToJson : Out → Json
  | .error e => Json.mkObj [("error", .str e.name)]
  | .parts ps => Json.mkObj [("parts", .arr (ps.map (fun p =>
      Json.mkObj [("label", labelToJson p.1), ("table", tableToJson p.2)])).toArray)]
  | .table t sh => Json.mkObj [("table", tableToJson t), ("shape", .arr #[toJson sh.1, toJson sh.2])]

/-- coherence of the observation itself: every table that came out was read twice, by position
(`ids()`, dense matrix, `metadata()`) and only through its OWN by-ID lookups on both axes
(`index`/`exists`, `data(id, axis)`, `get_value_by_ids`, `metadata(id, axis)`); the readings must agree.
`holds` is evaluated on the by-ID reading. -/
def lookupClauses (pairs : List (String × Table Rat × Table Rat)) : Clauses :=
  pairs.map (fun p => ("own_lookups." ++ p.1, decide (p.2.1 = p.2.2)))

def asLookup (j : Json) : R (String × Table Rat × Table Rat) := do
  pure ((← strF j "what"), (← asTable (← fld j "positional")), (← asTable (← fld j "by_id")))

/-- request: {"op":…, "axis":…, "table":…, …parameters…, "out": observed outcome, "lookups": […]}
    answer: {"holds", "clause", "agree", "model", "model_holds"} -/
def handle (req : Json) : R Json := do
  let t ← asTable (← fld req "table")
  let ax ← axisF req "axis"
  let op ← asOp req
  let out ← asOut (← fld req "out")
  let lk ← match optFld req "lookups" with
    | some l => asList asLookup l
    | none => pure []
  let m := model t ax op
  let cs := lookupClauses lk ++ clauses t ax op out
  let mj := outToJson m
  pure (Json.mkObj [("holds", .bool cs.ok),
    ("clause", match cs.firstFail with | some c => .str c | none => .null),
    ("model_holds", .bool (holds t ax op m)),
    ("agree", .bool (mj.compress == (outToJson out).compress)), ("model", mj)])

end Biom.C11
