import BiomModel.Codec
open Lean
namespace Biom.C11
/-- stub: not built yet -/
def handle (_req : Json) : Codec.R Json := .error "C11: model not built yet"
end Biom.C11
