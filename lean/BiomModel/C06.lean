/-
  C06 — reordering, transposing, copying and renaming keep every value with its IDs.

  Model of (biom/table.py): `sort_order`, `sort`, `align_to`, `transpose`, `copy`, `update_ids`,
  with the pieces they are built from: the id → position index (`index` / `_index_ids` /
  `util.index_list`), numpy fancy indexing of the matrix and of the metadata tuple, the
  constructor's metadata normalisation and its `errcheck` under the default error profile
  (`empty` is visited first and ignored, so an empty table is never checked for duplicates),
  and the fixed-width numpy ID array that `update_ids` allocates (`'U%d' % max_str_len`).

  External functions are inputs: `sort`'s `sort_f` contributes only the list it returned.

  `holds` is the property, stated declaratively on observations (IDs, cells looked up by ID,
  metadata entries looked up by ID, error class, receiver before/after) — it never refers to the model.
-/
import BiomModel.Codec
open Lean

namespace Biom.C06

variable {α β : Type}

/-! ### building blocks -/

/-- `len(set(ids)) == len(ids)` -/
def distinct : List Id → Bool
  | [] => true
  | i :: is => !is.contains i && distinct is

/-- `np.array([self.index(i, axis) for i in order])`: every requested ID is looked up in the
id → position index; the first one that is not a key raises `UnknownIDError`. -/
def positions (ids : List Id) : List Id → Except Err (List Nat)
  | [] => .ok []
  | i :: rest =>
    match indexOf? ids i with
    | none => .error .unknownId
    | some p =>
      match positions ids rest with
      | .error e => .error e
      | .ok ps => .ok (p :: ps)

/-- numpy fancy indexing `xs[pos]` (a position out of range is skipped here; `positions` never
produces one for a list as long as the ID list). -/
def pick (xs : List β) (pos : List Nat) : List β := pos.filterMap (xs[·]?)

/-- the constructor turns metadata whose entries are all empty (or an empty tuple) into `None` -/
def normMd : Option (List Md) → Option (List Md)
  | none => none
  | some m => if m.all (·.isEmpty) then none else some m

def norm (t : Table α) : Table α := { t with omd := normMd t.omd, smd := normMd t.smd }

/-- `errcheck(table)` under the default profile.  Kinds are visited in sorted order and the first
one that fires decides: `empty` (reaction `ignore`) comes first, so an empty table passes whatever
else is wrong with it; otherwise duplicate IDs raise `TableException`.  (The size tests cannot fire
for the tables built here: IDs, matrix and metadata are cut with the same positions.) -/
def errcheck (t : Table α) : Except Err Unit :=
  if t.obs.isEmpty || t.samp.isEmpty then .ok ()
  else if distinct t.obs && distinct t.samp then .ok ()
  else .error .tableException

/-- `Table.__init__`: normalise metadata, `errcheck`. -/
def ctor (t : Table α) : Except Err (Table α) :=
  match errcheck t with
  | .error e => .error e
  | .ok _ => .ok (norm t)

/-! ### the operations -/

def sortOrder (t : Table α) (order : List Id) : Axis → Except Err (Table α)
  | .samp =>
    match positions t.samp order with
    | .error e => .error e
    | .ok fancy =>
      ctor { t with samp := order, rows := t.rows.map (pick · fancy), smd := t.smd.map (pick · fancy) }
  | .obs =>
    match positions t.obs order with
    | .error e => .error e
    | .ok fancy =>
      ctor { t with obs := order, rows := pick t.rows fancy, omd := t.omd.map (pick · fancy) }

/-- `sort(sort_f, axis)` = `sort_order(sort_f(ids(axis)), axis)`; `sorted` is what `sort_f` returned. -/
def sort (t : Table α) (sorted : List Id) (ax : Axis) : Except Err (Table α) := sortOrder t sorted ax

inductive AAxis where
  | sample | observation | both | detect | unknown
  deriving Repr, DecidableEq, Inhabited

/-- `set(a) == set(b)` -/
def sameSet (a b : List Id) : Bool := a.all (b.contains ·) && b.all (a.contains ·)

/-- the axis selection of `align_to`: which axes are sorted, in which sequence, or which error -/
def alignAxes (t : Table α) (oObs oSamp : List Id) (ax : AAxis) : Except Err (List Axis) :=
  let alO := sameSet t.obs oObs
  let alS := sameSet t.samp oSamp
  match ax with
  | .both => if alO && alS then .ok [.obs, .samp] else .error .disjointId
  | .sample => if alS then .ok [.samp] else .error .disjointId
  | .observation => if alO then .ok [.obs] else .error .disjointId
  | .detect =>
    if alO || alS then .ok ((if alS then [.samp] else []) ++ (if alO then [.obs] else []))
    else .error .disjointId
  | .unknown => .error .unknownAxis

def otherIds (oObs oSamp : List Id) : Axis → List Id
  | .obs => oObs
  | .samp => oSamp

/-- `for aln_axis in order: table = table.sort_order(other.ids(axis=aln_axis), axis=aln_axis)` -/
def sortAll (oObs oSamp : List Id) : List Axis → Table α → Except Err (Table α)
  | [], t => .ok t
  | a :: rest, t =>
    match sortOrder t (otherIds oObs oSamp a) a with
    | .error e => .error e
    | .ok t' => sortAll oObs oSamp rest t'

def alignTo (t : Table α) (oObs oSamp : List Id) (ax : AAxis) : Except Err (Table α) :=
  match alignAxes t oObs oSamp ax with
  | .error e => .error e
  | .ok axes => sortAll oObs oSamp axes t

/-- `transpose`: IDs and metadata of the two axes change places, the matrix is transposed; the
new table is built without `type`. -/
def transposeT (t : Table α) : Except Err (Table α) :=
  ctor { obs := t.samp, samp := t.obs, rows := transposeGrid t.samp.length t.rows,
         omd := t.smd, smd := t.omd, ttype := none }

def copy (t : Table α) : Except Err (Table α) := ctor t

/-- `max([len(x) for x in xs], default=0)` -/
def maxLen (l : List Id) : Nat := l.foldl (fun m x => max m x.length) 0

/-- `'U%d' % max(max_str_len, 1)`: the width of the freshly allocated ID array — the longest new ID
(0 for an empty `id_map`), also the longest old ID when old IDs may be retained, at least 1 -/
def idWidth (m : List (Id × Id)) (ids : List Id) (strict : Bool) : Nat :=
  let w := maxLen (m.map (·.2))
  max (if strict then w else max w (maxLen ids)) 1

/-- storing a string into a `U<w>` slot keeps its first `w` code points -/
def fit (w : Nat) (s : Id) : Id := if s.length ≤ w then s else String.ofList (s.toList.take w)

/-- the loop of `update_ids`: `updated_ids[idx] = id_map.get(old_id, old_id)`; a missing key is an
error when `strict` -/
def relabel (m : List (Id × Id)) (strict : Bool) (w : Nat) : List Id → Except Err (List Id)
  | [] => .ok []
  | old :: rest =>
    match m.lookup old with
    | none =>
      if strict then .error .tableException
      else match relabel m strict w rest with
        | .error e => .error e
        | .ok r => .ok (fit w old :: r)
    | some new =>
      match relabel m strict w rest with
      | .error e => .error e
      | .ok r => .ok (fit w new :: r)

def setIds (t : Table α) (ax : Axis) (ids : List Id) : Table α :=
  match ax with
  | .obs => { t with obs := ids }
  | .samp => { t with samp := ids }

/-- what a call leaves behind: the returned table or the error class, the receiver afterwards,
whether the returned object is the receiver, and (for `sort`) the argument `sort_f` was given -/
structure Out (α : Type) where
  result : Except Err (Table α)
  after : Table α
  same : Bool := false
  sortArg : Option (List Id) := none

def updateIds (t : Table α) (m : List (Id × Id)) (ax : Axis) (strict inplace : Bool) : Out α :=
  match relabel m strict (idWidth m (t.ids ax) strict) (t.ids ax) with
  | .error e => { result := .error e, after := t }
  | .ok ids' =>
    if inplace then
      if !distinct ids' then { result := .error .tableException, after := t }
      else
        let r := setIds t ax ids'
        match errcheck r with
        | .error e => { result := .error e, after := r, same := true }
        | .ok _ => { result := .ok r, after := r, same := true }
    else
      match copy t with
      | .error e => { result := .error e, after := t }
      | .ok c =>
        let r := setIds c ax ids'
        match errcheck r with
        | .error e => { result := .error e, after := t }
        | .ok _ => { result := .ok r, after := t }

inductive Op where
  | sortOrder (order : List Id) (ax : Axis)
  | sort (sorted : List Id) (ax : Axis)
  | alignTo (oObs oSamp : List Id) (ax : AAxis)
  | transpose
  | copy
  | updateIds (m : List (Id × Id)) (ax : Axis) (strict inplace : Bool)
  deriving Repr, DecidableEq

def run (t : Table α) : Op → Out α
  | .sortOrder order ax => { result := sortOrder t order ax, after := t }
  | .sort sorted ax => { result := sort t sorted ax, after := t, sortArg := some (t.ids ax) }
  | .alignTo oo os ax => { result := alignTo t oo os ax, after := t }
  | .transpose => { result := transposeT t, after := t }
  | .copy => { result := copy t, after := t }
  | .updateIds m ax strict inplace => updateIds t m ax strict inplace

/-! ### the property, on observations only -/

section Holds
variable [DecidableEq α]

/-- a table of the domain: rectangular, one metadata entry per ID, IDs distinct on both axes -/
def valid (t : Table α) : Bool := t.wfb && distinct t.obs && distinct t.samp

/-- the metadata entry of an ID; absent metadata counts as an empty entry -/
def mdE (t : Table α) (ax : Axis) (id : Id) : Md := (t.mdOf? ax id).getD []

/-- every (observation ID, sample ID) pair of `r` has a value, and it is the value `t` has for it -/
def cellsById (t r : Table α) : Bool :=
  r.obs.all fun o => r.samp.all fun s => (r.cell? o s).isSome && decide (r.cell? o s = t.cell? o s)

/-- every ID of `r` on the axis carries the entry it carries in `t` -/
def mdById (t r : Table α) (ax : Axis) : Bool :=
  (r.ids ax).all fun id => decide (mdE r ax id = mdE t ax id)

def keptById (t r : Table α) : Bool :=
  r.wfb && cellsById t r && mdById t r .obs && mdById t r .samp

def isErr (x : Except Err (Table α)) (e : Err) : Bool :=
  match x with
  | .error e' => decide (e' = e)
  | .ok _ => false

def isOk (x : Except Err (Table α)) : Bool :=
  match x with
  | .error _ => false
  | .ok _ => true

def onOk (x : Except Err (Table α)) (p : Table α → Bool) : Bool :=
  match x with
  | .error _ => true
  | .ok r => p r

abbrev Clauses := List (String × Bool)

/-- `sort_order(order, axis)` -/
def sortOrderClauses (t : Table α) (order : List Id) (ax : Axis) (o : Out α) : Clauses :=
  let unknown := order.any (fun i => !(t.ids ax).contains i)
  let dup := !distinct order
  -- an empty table is never checked for duplicate IDs; such tables are outside the domain
  let masked := dup && (t.ids ax.other).isEmpty
  [("receiver.valid", valid t),
   ("receiver.unchanged", decide (o.after = t) && !o.same),
   ("refuse.unknown_id", !unknown || isErr o.result .unknownId),
   ("refuse.duplicate_in_order", unknown || !dup || masked || isErr o.result .tableException),
   ("accept", unknown || dup || isOk o.result),
   ("result.order_is_requested", masked || onOk o.result fun r => decide (r.ids ax = order)),
   ("result.no_id_gained_lost_duplicated",
      masked || onOk o.result fun r => !(order.isPerm (t.ids ax)) || ((r.ids ax).isPerm (t.ids ax) && distinct (r.ids ax))),
   ("result.other_axis_unchanged", masked || onOk o.result fun r => decide (r.ids ax.other = t.ids ax.other)),
   ("result.cells_and_metadata_by_id", masked || onOk o.result fun r => keptById t r)]

def alignedAxes (t : Table α) (oObs oSamp : List Id) (ax : AAxis) : Option (List Axis) :=
  let alO := sameSet t.obs oObs
  let alS := sameSet t.samp oSamp
  match ax with
  | .both => if alO && alS then some [.obs, .samp] else none
  | .sample => if alS then some [.samp] else none
  | .observation => if alO then some [.obs] else none
  | .detect => if alO || alS then some ((if alO then [.obs] else []) ++ (if alS then [.samp] else [])) else none
  | .unknown => none

/-- `align_to(other, axis)`; `oObs`/`oSamp` are the other table's IDs -/
def alignToClauses (t : Table α) (oObs oSamp : List Id) (ax : AAxis) (o : Out α) : Clauses :=
  let want := alignedAxes t oObs oSamp ax
  let expectIds (a : Axis) : List Id :=
    match want with
    | some axes => if axes.contains a then otherIds oObs oSamp a else t.ids a
    | none => t.ids a
  [("receiver.valid", valid t),
   ("other.valid", distinct oObs && distinct oSamp),
   ("receiver.unchanged", decide (o.after = t) && !o.same),
   ("refuse.unknown_axis", !(decide (ax = .unknown)) || isErr o.result .unknownAxis),
   ("refuse.disjoint", decide (ax = .unknown) || want.isSome || isErr o.result .disjointId),
   ("accept", want.isNone || isOk o.result),
   ("result.aligned_axes_in_other_order",
      onOk o.result fun r => decide (r.obs = expectIds .obs) && decide (r.samp = expectIds .samp)),
   ("result.cells_and_metadata_by_id", onOk o.result fun r => keptById t r)]

/-- `transpose()` -/
def transposeClauses (t : Table α) (o : Out α) : Clauses :=
  [("receiver.valid", valid t),
   ("receiver.unchanged", decide (o.after = t) && !o.same),
   ("accept", isOk o.result),
   ("result.axes_swapped", onOk o.result fun r => decide (r.obs = t.samp) && decide (r.samp = t.obs) && r.wfb),
   ("result.cells_swapped", onOk o.result fun r =>
      t.obs.all fun ob => t.samp.all fun s => (r.cell? s ob).isSome && decide (r.cell? s ob = t.cell? ob s)),
   ("result.metadata_swapped", onOk o.result fun r =>
      (t.obs.all fun id => decide (mdE r .samp id = mdE t .obs id)) &&
      (t.samp.all fun id => decide (mdE r .obs id = mdE t .samp id)))]

/-- `copy()` -/
def copyClauses (t : Table α) (o : Out α) : Clauses :=
  [("receiver.valid", valid t),
   ("receiver.unchanged", decide (o.after = t) && !o.same),
   ("accept", isOk o.result),
   ("result.same_ids_same_order", onOk o.result fun r => decide (r.obs = t.obs) && decide (r.samp = t.samp)),
   ("result.cells_and_metadata_by_id", onOk o.result fun r => keptById t r),
   ("result.type_kept", onOk o.result fun r => decide (r.ttype = t.ttype))]

/-- the renaming a call to `update_ids` asks for: `id_map.get(old, old)` -/
def target (m : List (Id × Id)) (ids : List Id) : List Id := ids.map fun i => (m.lookup i).getD i

/-- cells and metadata follow the relabelling: what `old` had, `new` has -/
def relabelled (t r : Table α) (ax : Axis) (pairs : List (Id × Id)) : Bool :=
  (pairs.all fun p => decide (mdE r ax p.2 = mdE t ax p.1)) &&
  match ax with
  | .obs => pairs.all fun p => t.samp.all fun s =>
      (r.cell? p.2 s).isSome && decide (r.cell? p.2 s = t.cell? p.1 s)
  | .samp => pairs.all fun p => t.obs.all fun ob =>
      (r.cell? ob p.2).isSome && decide (r.cell? ob p.2 = t.cell? ob p.1)

/-- `update_ids(id_map, axis, strict, inplace)` -/
def updateIdsClauses (t : Table α) (m : List (Id × Id)) (ax : Axis) (strict inplace : Bool) (o : Out α) : Clauses :=
  let ids := t.ids ax
  let want := target m ids
  let missing := strict && ids.any fun i => (m.lookup i).isNone
  let collide := !distinct want
  -- an empty table is never checked for duplicates on the non-inplace path; outside the domain
  let masked := collide && !inplace && ((t.ids ax.other).isEmpty || ids.isEmpty)
  let refused := !isOk o.result
  [("receiver.valid", valid t),
   ("refuse.missing_key_when_strict", !missing || isErr o.result .tableException),
   ("refuse.non_injective", missing || !collide || masked || isErr o.result .tableException),
   ("accept", missing || collide || isOk o.result),
   ("receiver.unchanged_on_refusal", !refused || (decide (o.after = t))),
   ("receiver.inplace_flag", refused ||
      (if inplace then o.same && onOk o.result (fun r => decide (r = o.after)) else !o.same && decide (o.after = t))),
   ("result.ids_relabelled_in_place", masked || onOk o.result fun r =>
      decide (r.ids ax = want) && decide (r.ids ax.other = t.ids ax.other) && r.wfb),
   ("result.cells_and_metadata_follow_renaming", masked || onOk o.result fun r =>
      relabelled t r ax (ids.zip want) && mdById t r ax.other)]

def clauses (t : Table α) (op : Op) (o : Out α) : Clauses :=
  match op with
  | .sortOrder order ax => sortOrderClauses t order ax o
  | .sort sorted ax =>
    ("sort_f.given_the_axis_ids", decide (o.sortArg = some (t.ids ax))) :: sortOrderClauses t sorted ax o
  | .alignTo oo os ax => alignToClauses t oo os ax o
  | .transpose => transposeClauses t o
  | .copy => copyClauses t o
  | .updateIds m ax strict inplace => updateIdsClauses t m ax strict inplace o

def holds (t : Table α) (op : Op) (o : Out α) : Bool := (clauses t op o).all (·.2)

def firstFailing (cs : Clauses) : Option String := (cs.find? (fun c => !c.2)).map (·.1)

/-- "restores the original IDs, order, values and metadata": content equality of two tables -/
def restored (t r : Table α) : Bool :=
  decide (r.obs = t.obs) && decide (r.samp = t.samp) && keptById t r

end Holds

/-! ### JSON glue -/
open Codec

def asAAxis (j : Json) : R AAxis := do
  match (← asStr j) with
  | "sample" => pure .sample
  | "observation" => pure .observation
  | "both" => pure .both
  | "detect" => pure .detect
  | _ => pure .unknown

def asPairs (j : Json) : R (List (Id × Id)) := asList (fun p => do
  match (← asArr p) with
  | [a, b] => pure ((← asStr a), (← asStr b))
  | _ => .error "pair expected") j

def asOp (j : Json) : R Op := do
  match (← strF j "op") with
  | "sort_order" => pure (.sortOrder (← listF asStr j "order") (← axisF j "axis"))
  | "sort" => pure (.sort (← listF asStr j "sorted") (← axisF j "axis"))
  | "align_to" => pure (.alignTo (← listF asStr j "other_obs") (← listF asStr j "other_samp") (← asAAxis (← fld j "axis")))
  | "transpose" => pure .transpose
  | "copy" => pure .copy
  | "update_ids" => pure (.updateIds (← asPairs (← fld j "id_map")) (← axisF j "axis") (← boolF j "strict") (← boolF j "inplace"))
  | s => .error s!"bad op {s}"

def asResult (j : Json) : R (Except Err (Table Rat)) := do
  match optFld j "error" with
  | some e => pure (.error (asErr (← asStr e)))
  | none => pure (.ok (← asTable (← fld j "ok")))

def asOut (j : Json) : R (Out Rat) := do
  pure { result := (← asResult (← fld j "result")), after := (← asTable (← fld j "after")),
         same := (← boolFD j "same" false), sortArg := (← optF (asList asStr) j "sort_arg") }

def outToJson (o : Out Rat) : Json :=
  Json.mkObj [("result", exceptToJson tableToJson o.result), ("after", tableToJson o.after),
    ("same", .bool o.same), ("sort_arg", optToJson strsToJson o.sortArg)]

def resultAgrees (a b : Except Err (Table Rat)) : Bool :=
  match a, b with
  | .ok x, .ok y => decide (x = y)
  | .error e, .error f => decide (e = f)
  | _, _ => false

/-- request {"op":…, args…, "table": receiver before the call, "obs": {"result","after","same","sort_arg"}}
    or {"op":"restored","table":…,"result":…} -/
def handle (req : Json) : R Json := do
  let t ← asTable (← fld req "table")
  if (← strF req "op") == "restored" then
    let r ← asTable (← fld req "result")
    let h := restored t r
    return Json.mkObj [("holds", .bool h), ("clause", if h then .null else "restored.same_content"),
      ("agree", .bool (decide (r = t))), ("model", tableToJson t), ("model_holds", .bool (restored t t))]
  let op ← asOp req
  let obs ← asOut (← fld req "obs")
  let mo := run t op
  let cs := clauses t op obs
  let agree := resultAgrees mo.result obs.result && decide (mo.after = obs.after) &&
    mo.same == obs.same && mo.sortArg == obs.sortArg
  pure (Json.mkObj (verdictToJson (firstFailing cs) ++
    [("agree", .bool agree), ("model", outToJson mo), ("model_holds", .bool (holds t op mo)),
     ("model_clause", optToJson Json.str (firstFailing (clauses t op mo)))]))

end Biom.C06
