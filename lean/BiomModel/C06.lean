import BiomModel.Codec
open Lean
namespace Biom.C06
/-- stub: not built yet -/
def handle (_req : Json) : Codec.R Json := .error "C06: model not built yet"
end Biom.C06
