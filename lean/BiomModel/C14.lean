import BiomModel.Codec
open Lean
namespace Biom.C14
/-- stub: not built yet -/
def handle (_req : Json) : Codec.R Json := .error "C14: model not built yet"
end Biom.C14
