/-
  C14 — subsetting while reading equals reading everything and then filtering.

  Layers.
  (1) Specification on `Biom.Table`: `maskTable`, `filterAxis` (keep the requested IDs, file order),
      `dropEmpty` (drop the all-zero vectors of an axis), `subsetSpec`.
  (2) HDF5: a logical view `H5` of the file (per axis: ids, metadata as `axis_load` returns it, the
      three datasets of `<axis>/matrix`; `shape`, `type`).  `fromFile` = `Table.from_hdf5(h5grp)`;
      `h5Subset` = `Table.from_hdf5(h5grp, ids, axis)` (default path: `_get_ids`, `_subset_metadata`,
      `indptr` range extraction with its `sorted`, `cumsum`, `hstack`, construction, final filter on
      the other axis); `h5SubsetNoMd` = the `subset_with_metadata=False` path; `parseH5` =
      `parse_biom_table(handle, ids=…)` (swallows the reader's `ValueError`).
  (3) JSON: a document `Doc` (rows/columns records, shape, list of triples, type).
      `docToTable` = `Table.from_json`; `jsonSubset` = `parse_biom_table(text, ids=…)`;
      `getAxisIndices`, `directSliceData`/`sliceTriples`, `cmdJson` = `_subset_table` on JSON at
      the level of records and triples.
  (4) Raw text (`List Char`): `directParseKey`, `stripF`, `sliceDataText` (both axes),
      `directSliceDataText`, `cmdJsonText` (the stitching) — executable transcriptions that the
      harness runs against the real functions on the real texts; theorems about them are limited to
      the field level (`sliceFields`), see Props.
  `holds` is the declarative predicate evaluated on what the REAL code returned.
-/
import BiomModel.Codec
open Lean

namespace Biom.C14

variable {α : Type}

/-! ## (1) Specification layer -/

/-- keep the positions of axis `ax` whose mask bit is set (IDs, vectors, metadata); the other axis
is untouched -/
def maskTable (t : Table α) (ax : Axis) (mask : List Bool) : Table α :=
  match ax with
  | .obs => { t with obs := filterMask t.obs mask, rows := filterMask t.rows mask,
                     omd := t.omd.map (filterMask · mask) }
  | .samp => { t with samp := filterMask t.samp mask, rows := t.rows.map (filterMask · mask),
                      smd := t.smd.map (filterMask · mask) }

/-- `np.isin(source_ids, desired_ids)`: one bit per source ID, in source order -/
def idMask (src req : List Id) : List Bool := src.map (fun i => req.contains i)

/-- load-all-then-filter: the vectors of the requested IDs, in the table's own order -/
def filterAxis (t : Table α) (req : List Id) (ax : Axis) : Table α :=
  maskTable t ax (idMask (t.ids ax) req)

/-- the vectors of an axis, in ID order: rows, or columns -/
def vecs (t : Table α) : Axis → List (List α)
  | .obs => t.rows
  | .samp => transposeGrid t.samp.length t.rows

/-- `np.any(vals)` -/
def anyNZ [Zero α] [DecidableEq α] (v : List α) : Bool := v.any (fun x => decide (x ≠ 0))

/-- `t.filter(lambda vals, id_, md: np.any(vals), axis=ax)` -/
def dropEmpty [Zero α] [DecidableEq α] (t : Table α) (ax : Axis) : Table α :=
  maskTable t ax ((vecs t ax).map anyNZ)

def dropEmptyOther [Zero α] [DecidableEq α] (t : Table α) (ax : Axis) : Table α :=
  dropEmpty t ax.other

/-! ## (2) HDF5 -/

/-- one axis group of the file, as `axis_load` and the matrix datasets present it -/
structure AxisGrp (α : Type) where
  ids : List Id
  /-- `md if any(md) else None` -/
  md : Option (List Md)
  indptr : List Nat
  indices : List Nat
  data : List α
  deriving Repr, DecidableEq, BEq

structure H5 (α : Type) where
  obs : AxisGrp α
  samp : AxisGrp α
  /-- attribute `shape` -/
  shape : Nat × Nat
  ttype : Option String
  deriving Repr, DecidableEq, BEq

def H5.grp (f : H5 α) : Axis → AxisGrp α
  | .obs => f.obs
  | .samp => f.samp

def dimOf (shape : Nat × Nat) : Axis → Nat
  | .obs => shape.1
  | .samp => shape.2

/-- `x or None` for a metadata list -/
def orNone (md : Option (List Md)) : Option (List Md) :=
  match md with
  | some [] => none
  | m => m

/-- `Table(csr_matrix/csc_matrix((data, indices, indptr), shape), obs_ids, samp_ids, obs_md or None,
samp_md or None, type=…)`; scipy's contract: the dense content is `CS.toDense` -/
def mkTable [Zero α] (ax : Axis) (cs : CS α) (obsIds sampIds : List Id)
    (omd smd : Option (List Md)) (ttype : Option String) : Table α :=
  { obs := obsIds, samp := sampIds,
    rows := match ax with
      | .obs => cs.toDense
      | .samp => transposeGrid cs.nMinor cs.toDense,
    omd := orNone omd, smd := orNone smd, ttype := ttype }

/-- the compressed matrix of the `ax` group under the file's `shape` attribute -/
def csOf (f : H5 α) (ax : Axis) : CS α :=
  { nMajor := dimOf f.shape ax, nMinor := dimOf f.shape ax.other,
    indptr := (f.grp ax).indptr, indices := (f.grp ax).indices, data := (f.grp ax).data }

/-- `Table.from_hdf5(h5grp, axis=ax)`: everything, from the `ax` group -/
def fromFile [Zero α] (f : H5 α) (ax : Axis) : Table α :=
  mkTable ax (csOf f ax) f.obs.ids f.samp.ids f.obs.md f.samp.md f.ttype

/-- `_get_ids` -/
def getIds (src : List Id) : Option (List Id) → Except Err (List Id × List Bool)
  | none => .ok (src, src.map (fun _ => true))
  | some d =>
    let idx := idMask src d
    let ids := filterMask src idx
    -- `ids.shape != desired_ids.shape`: an unknown OR a repeated requested ID
    if ids.length != d.length then .error .value else .ok (ids, idx)

/-- `_subset_metadata`: `if md: md = list(np.asarray(md)[np.where(idx)])` -/
def subsetMd (md : Option (List Md)) (idx : List Bool) : Option (List Md) :=
  match md with
  | none => none
  | some [] => some []
  | some m => some (filterMask m idx)

/-- `np.where(idx)[0]`: the positions of the set bits, counted from `k` -/
def posFrom : Nat → List Bool → List Nat
  | _, [] => []
  | k, b :: bs => if b then k :: posFrom (k + 1) bs else posFrom (k + 1) bs

def mapE {β γ : Type} (f : β → Except Err γ) : List β → Except Err (List γ)
  | [] => .ok []
  | x :: xs =>
    match f x with
    | .error e => .error e
    | .ok y =>
      match mapE f xs with
      | .error e => .error e
      | .ok ys => .ok (y :: ys)

/-- `(h5_indptr[i], h5_indptr[i+1])`, bounds-checked -/
def readRange (indptr : List Nat) (i : Nat) : Except Err (Nat × Nat) :=
  match getE indptr i with
  | .error e => .error e
  | .ok s =>
    match getE indptr (i + 1) with
    | .error e => .error e
    | .ok e => .ok (s, e)

def pairLe (a b : Nat × Nat) : Bool := a.1 < b.1 || (a.1 == b.1 && a.2 ≤ b.2)

/-- Python `sorted` on `(start, end)` tuples (stable, lexicographic) -/
def sortRanges (l : List (Nat × Nat)) : List (Nat × Nat) := l.mergeSort pairLe

/-- `cumsum` with a running total -/
def cumsum : Nat → List Nat → List Nat
  | _, [] => []
  | acc, x :: xs => (acc + x) :: cumsum (acc + x) xs

/-- `xs[start:end]` -/
def sliceL {β : Type} (xs : List β) (se : Nat × Nat) : List β := (xs.drop se.1).take (se.2 - se.1)

/-- the new `(data, indices, indptr)` built from the kept index ranges -/
def subCS (g : AxisGrp α) (ranges : List (Nat × Nat)) (nMajor nMinor : Nat) : CS α :=
  { nMajor := nMajor, nMinor := nMinor,
    indptr := 0 :: cumsum 0 (ranges.map (fun se => se.2 - se.1)),
    indices := (ranges.map (sliceL g.indices)).flatten,
    data := (ranges.map (sliceL g.data)).flatten }

/-- `Table.from_hdf5(h5grp, ids=req, axis=ax)` — the default (metadata-carrying) subset path -/
def h5Subset [Zero α] [DecidableEq α] (f : H5 α) (req : List Id) (ax : Axis) : Except Err (Table α) :=
  match getIds f.obs.ids (if ax = .obs then some req else none) with
  | .error e => .error e
  | .ok (obsIds, obsIdx) =>
    match getIds f.samp.ids (if ax = .samp then some req else none) with
    | .error e => .error e
    | .ok (sampIds, sampIdx) =>
      let omd := subsetMd f.obs.md obsIdx
      let smd := subsetMd f.samp.md sampIdx
      let idx := if ax = .samp then sampIdx else obsIdx
      let keep := posFrom 0 idx
      let g := f.grp ax
      match mapE (readRange g.indptr) keep with
      | .error e => .error e
      | .ok ranges =>
        let ranges := sortRanges ranges
        -- `np.hstack([])` raises ValueError
        if ranges.isEmpty then .error .value else
        let nMajor := match ax with | .obs => obsIds.length | .samp => sampIds.length
        let nMinor := match ax with | .obs => sampIds.length | .samp => obsIds.length
        let t := mkTable ax (subCS g ranges nMajor nMinor) obsIds sampIds omd smd f.ttype
        -- "filter out any empty samples or observations which may exist due to subsetting"
        .ok (dropEmpty t ax.other)

/-- `Table.from_hdf5(h5grp, ids=req, axis=ax, subset_with_metadata=False)`:
`ids` becomes a set; kept in file order; `len(to_keep) != len(ids)` refuses an unknown ID;
no metadata, no type, NO emptiness filter, ranges not sorted -/
def h5SubsetNoMd [Zero α] (f : H5 α) (req : List Id) (ax : Axis) : Except Err (Table α) :=
  let g := f.grp ax
  let idx := idMask g.ids req
  let keep := posFrom 0 idx
  if keep.length != req.eraseDups.length then .error .value else
  match mapE (readRange g.indptr) keep with
  | .error e => .error e
  | .ok ranges =>
    -- `np.concatenate([])` raises ValueError
    if ranges.isEmpty then .error .value else
    let kept := filterMask g.ids idx
    match ax with
    | .samp => .ok (mkTable .samp (subCS g ranges keep.length f.obs.ids.length) f.obs.ids kept none none none)
    | .obs => .ok (mkTable .obs (subCS g ranges keep.length f.samp.ids.length) kept f.samp.ids none none none)

/-- `parse_biom_table(handle, ids=req, axis=ax)`: the reader's `ValueError` is swallowed and the
handle is then given to `json.loads`, which raises `TypeError` -/
def parseH5 [Zero α] [DecidableEq α] (f : H5 α) (req : List Id) (ax : Axis) : Except Err (Table α) :=
  match h5Subset f req ax with
  | .error .value => .error .type
  | r => r

/-! ## (3) JSON document -/

structure Rec where
  id : Id
  /-- `"metadata": null` or an object -/
  md : Option Md
  deriving Repr, DecidableEq, BEq

structure Triple (α : Type) where
  r : Nat
  c : Nat
  v : α
  deriving Repr, DecidableEq, BEq

structure Doc (α : Type) where
  rows : List Rec
  cols : List Rec
  shape : Nat × Nat
  data : List (Triple α)
  ttype : Option String
  deriving Repr, DecidableEq, BEq

def Doc.recs (d : Doc α) : Axis → List Rec
  | .obs => d.rows
  | .samp => d.cols

/-- `_cast_metadata`: all `None` ⇒ `None`, otherwise `None` entries become empty dicts -/
def castMd (recs : List Rec) : Option (List Md) :=
  if recs.all (fun r => r.md.isNone) then none else some (recs.map (fun r => r.md.getD []))

/-- value of a cell: `coo_matrix(...).tocsr()` sums the entries given for one position -/
def cellOf [Zero α] [Add α] (data : List (Triple α)) (i j : Nat) : α :=
  sumL ((data.filter (fun t => t.r == i && t.c == j)).map (·.v))

/-- `Table.from_json` for a sparse document -/
def docToTable [Zero α] [Add α] (d : Doc α) : Except Err (Table α) :=
  if d.data.any (fun t => decide (d.shape.1 ≤ t.r) || decide (d.shape.2 ≤ t.c)) then .error .value
  else if d.shape.1 != d.rows.length || d.shape.2 != d.cols.length then .error .tableException
  else .ok { obs := d.rows.map (·.id), samp := d.cols.map (·.id),
             rows := (List.range d.shape.1).map (fun i => (List.range d.shape.2).map (cellOf d.data i)),
             omd := castMd d.rows, smd := castMd d.cols, ttype := d.ttype }

/-- `parse_biom_table(json, ids=req, axis=ax)`: load everything, `filter(id_ in ids)`, then
`filter(np.any(vals))` on the other axis.  Unknown IDs are silently ignored here. -/
def jsonSubset [Zero α] [Add α] [DecidableEq α] (d : Doc α) (req : List Id) (ax : Axis) :
    Except Err (Table α) :=
  match docToTable d with
  | .error e => .error e
  | .ok t => .ok (dropEmpty (filterAxis t req ax) ax.other)

/-- `get_axis_indices`: `KeyError` unless every requested ID is present; positions of the
requested IDs; the records standing at those positions -/
def getAxisIndices (d : Doc α) (req : List Id) (ax : Axis) : Except Err (List Nat × List Rec) :=
  let recs := d.recs ax
  let allIds := recs.map (·.id)
  if !(req.all (fun i => allIds.contains i)) then .error .key else
  let idxs := posFrom 0 (idMask allIds req)
  .ok (idxs, (List.range recs.length).filterMap (fun i => if idxs.contains i then recs[i]? else none))

/-- `sorted(set(to_keep))` -/
def sortedSet (l : List Nat) : List Nat := (l.eraseDups).mergeSort (fun a b => decide (a ≤ b))

/-- `_direct_slice_data_sparse_obs/_samp` at triple level: keep the triples whose row (column)
index is kept and rename that index to its rank among the sorted kept indices -/
def sliceTriples (data : List (Triple α)) (keep : List Nat) (ax : Axis) : List (Triple α) :=
  let sk := sortedSet keep
  match ax with
  | .obs => (data.filter (fun t => sk.contains t.r)).map (fun t => { t with r := sk.idxOf t.r })
  | .samp => (data.filter (fun t => sk.contains t.c)).map (fun t => { t with c := sk.idxOf t.c })

def listMax : List Nat → Nat := fun l => l.foldl max 0

/-- `direct_slice_data`: bounds checks, new shape (`len(to_keep)` of the LIST), sliced triples -/
def directSliceData (d : Doc α) (keep : List Nat) (ax : Axis) :
    Except Err (List (Triple α) × (Nat × Nat)) :=
  -- `min(to_keep)` of an empty list raises ValueError
  if keep.isEmpty then .error .value else
  match ax with
  | .obs =>
    if listMax keep ≥ d.shape.1 then .error .index
    else .ok (sliceTriples d.data keep .obs, (keep.length, d.shape.2))
  | .samp =>
    if listMax keep ≥ d.shape.2 then .error .index
    else .ok (sliceTriples d.data keep .samp, (d.shape.1, keep.length))

/-- `_subset_table` on JSON: the document described by the stitched text -/
def cmdJsonDoc (d : Doc α) (req : List Id) (ax : Axis) : Except Err (Doc α) :=
  match getAxisIndices d req ax with
  | .error e => .error e
  | .ok (idxs, recs) =>
    match directSliceData d idxs ax with
    | .error e => .error e
    | .ok (data, shape) =>
      match ax with
      | .obs => .ok { d with rows := recs, data := data, shape := shape }
      | .samp => .ok { d with cols := recs, data := data, shape := shape }

/-- the command's JSON output loaded again with `Table.from_json` -/
def cmdJson [Zero α] [Add α] (d : Doc α) (req : List Id) (ax : Axis) : Except Err (Table α) :=
  match cmdJsonDoc d req ax with
  | .error e => .error e
  | .ok out => docToTable out

/-! ## (4) Raw text -/

abbrev Text := List Char

def jsonStart : List Char := ['0', '1', '2', '3', '4', '5', '6', '7', '8', '9', '{', '[', '"']
def jsonOpen : List Char := ['[', '{']
def jsonClose : List Char := [']', '}']

/-- `str.find`: index of the first occurrence of `pat` -/
def findSub (pat : Text) : Text → Nat → Option Nat
  | [], i => if pat.isEmpty then some i else none
  | c :: cs, i => if pat.isPrefixOf (c :: cs) then some i else findSub pat cs (i + 1)

/-- `while s[cur] not in stop: cur += 1` — running off the end is an `IndexError` -/
def skipTo (stop : Char → Bool) : Text → Nat → Except Err Nat
  | [], _ => .error .index
  | c :: cs, i => if stop c then .ok i else skipTo stop cs (i + 1)

/-- the bracket/quote stack loop of `direct_parse_key` (NOT string-aware: a bracket inside a
string pushes/pops, an escaped quote toggles) -/
def scanObj : Text → List Char → Nat → Except Err Nat
  | _, [], i => .ok i
  | [], _ :: _, _ => .error .index
  | c :: cs, top :: st, i =>
    if c == '"' then
      (if top == '"' then scanObj cs st (i + 1) else scanObj cs (c :: top :: st) (i + 1))
    else if jsonClose.contains c then scanObj cs st (i + 1)
    else if jsonOpen.contains c then scanObj cs (c :: top :: st) (i + 1)
    else scanObj cs (top :: st) (i + 1)

/-- `direct_parse_key(biom_str, key)`: the text `"key": value`, or `""` -/
def directParseKey (s : Text) (key : Text) : Except Err Text :=
  match findSub (['"'] ++ key ++ ['"', ':']) s 0 with
  | none => .ok []
  | some base =>
    let start := base + key.length + 3
    match skipTo (fun c => jsonStart.contains c) (s.drop start) start with
    | .error e => .error e
    | .ok cur =>
      match s[cur]? with
      | none => .error .index
      | some c0 =>
        if !(jsonOpen.contains c0) then
          match skipTo (fun c => c == ',' || c == '{' || c == '}') (s.drop cur) cur with
          | .error e => .error e
          | .ok stop => .ok ((s.drop base).take (stop - base))
        else
          match scanObj (s.drop (cur + 1)) [c0] (cur + 1) with
          | .error e => .error e
          | .ok stop => .ok ((s.drop base).take (stop - base))

def stripSet : List Char := ['[', ']', ' ', '\n', '\t']

/-- `x.strip("[] \n\t")` -/
def stripF (x : Text) : Text :=
  ((x.dropWhile (fun c => stripSet.contains c)).reverse.dropWhile (fun c => stripSet.contains c)).reverse

/-- `str.split(c)` for a one-character separator -/
def split1 (sep : Char) : Text → Text → List Text
  | [], acc => [acc.reverse]
  | x :: rest, acc => if x == sep then acc.reverse :: split1 sep rest [] else split1 sep rest (x :: acc)

/-- `str.split(ab)` for a two-character separator -/
def split2 (a b : Char) : Text → Text → List Text
  | [], acc => [acc.reverse]
  | [x], acc => [(x :: acc).reverse]
  | x :: y :: rest, acc =>
    if x == a && y == b then acc.reverse :: split2 a b rest [] else split2 a b (y :: rest) (x :: acc)

def natText (n : Nat) : Text := (toString n).toList

/-- `remap_lookup = {str(v): i for i, v in enumerate(sorted(to_keep))}`, then `lookup.get(field)` -/
def rankOfText (sk : List Nat) (field : Text) : Option Nat :=
  let keys := sk.map natText
  let i := keys.idxOf field
  if i < keys.length then some i else none

def joinWith (sep : Text) : List Text → Text
  | [] => []
  | [x] => x
  | x :: y :: rest => x ++ sep ++ joinWith sep (y :: rest)

/-- one record of the data field after `split('],')`: `none` = skipped, `some (.error _)` = the
unpacking of three fields failed -/
def sliceRecord (sk : List Nat) (ax : Axis) (rcv : Text) : Option (Except Err Text) :=
  if (stripF rcv).isEmpty then none else
  -- the test field: obs strips the record and splits; samp splits and strips every field
  let test : Except Err Text :=
    match ax with
    | .obs => match split1 ',' (stripF rcv) [] with
      | [r, _, _] => .ok r
      | _ => .error .value
    | .samp => match (split1 ',' rcv []).map stripF with
      | [_, c, _] => .ok c
      | _ => .error .value
  match test with
  | .error e => some (.error e)
  | .ok fld =>
    match rankOfText sk fld with
    | none => none
    | some _ =>
      -- `_remap_axis_sparse_*`: split the raw record again, strip every field
      match (split1 ',' rcv []).map stripF with
      | [r, c, v] =>
        (match ax with
         | .obs => match rankOfText sk r with
           | some k => some (.ok (natText k ++ [','] ++ c ++ [','] ++ v))
           | none => some (.error .key)
         | .samp => match rankOfText sk c with
           | some k => some (.ok (r ++ [','] ++ natText k ++ [','] ++ v))
           | none => some (.error .key))
      | _ => some (.error .value)

def collectRecords : List (Option (Except Err Text)) → Except Err (List Text)
  | [] => .ok []
  | none :: rest => collectRecords rest
  | some (.error e) :: _ => .error e
  | some (.ok x) :: rest =>
    match collectRecords rest with
    | .error e => .error e
    | .ok xs => .ok (x :: xs)

/-- `_direct_slice_data_sparse_obs/_samp(data, to_keep)` on the raw text of the data field -/
def sliceDataText (data : Text) (keep : List Nat) (ax : Axis) : Except Err Text :=
  let sk := sortedSet keep
  match collectRecords ((split2 ']' ',' data []).map (sliceRecord sk ax)) with
  | .error e => .error e
  | .ok [] => .ok ['[', ']']
  | .ok recs => .ok (['[', '['] ++ joinWith [']', ',', '['] recs ++ [']', ']'])

def isSpace (c : Char) : Bool := c == ' ' || c == '\n' || c == '\t' || c == '\r'

/-- `int(text)` for an unsigned decimal with surrounding blanks (anything else: `ValueError`) -/
def pyInt (x : Text) : Except Err Nat :=
  let core := ((x.dropWhile isSpace).reverse.dropWhile isSpace).reverse
  if core.isEmpty || !(core.all Char.isDigit) then .error .value
  else .ok (core.foldl (fun n c => 10 * n + (c.toNat - '0'.toNat)) 0)

/-- `direct_slice_data(biom_str, to_keep, axis)` on raw text -/
def directSliceDataText (s : Text) (keep : List Nat) (ax : Axis) : Except Err Text :=
  match directParseKey s "shape".toList with
  | .error e => .error e
  | .ok shapeKv =>
  if shapeKv.isEmpty then .error .value else
  match directParseKey s "data".toList with
  | .error e => .error e
  | .ok dataFields =>
  if dataFields.isEmpty then .error .value else
  match directParseKey s "matrix_type".toList with
  | .error e => .error e
  | .ok mt =>
  if mt.isEmpty then .error .value else
  let rawShape := ((split1 ':' shapeKv []).getLast?.getD []).filter (fun c => c != '[' && c != ']')
  match mapE pyInt (split1 ',' rawShape []) with
  | .error e => .error e
  | .ok [nRows, nCols] =>
    let dataStart := match findSub ['['] dataFields 0 with | some i => i + 1 | none => 0
    let fields := (dataFields.drop dataStart).take (dataFields.length - 1 - dataStart)
    if keep.isEmpty then .error .value else
    let bound := match ax with | .obs => nRows | .samp => nCols
    if listMax keep ≥ bound then .error .index else
    let newShape := match ax with
      | .obs => "[".toList ++ natText keep.length ++ ", ".toList ++ natText nCols ++ "]".toList
      | .samp => "[".toList ++ natText nRows ++ ", ".toList ++ natText keep.length ++ "]".toList
    match sliceDataText fields keep ax with
    | .error e => .error e
    | .ok newData => .ok ("\"data\": ".toList ++ newData ++ ", \"shape\": ".toList ++ newShape)
  | .ok _ => .error .value

/-- the generator of `_subset_table`, joined: `idxs`/`axisMd` are what `get_axis_indices` returned
(it parses with `json.loads`/`json.dumps`, external) -/
def cmdJsonText (s : Text) (idxs : List Nat) (axisMd : Text) (ax : Axis) : Except Err Text :=
  match directSliceDataText s idxs ax with
  | .error e => .error e
  | .ok newData =>
    let keys := ["id", "format", "format_url", "type", "generated_by", "date", "matrix_type",
                 "matrix_element_type"]
    match mapE (fun k => directParseKey s k.toList) keys with
    | .error e => .error e
    | .ok parts =>
      match directParseKey s (match ax with | .obs => "columns".toList | .samp => "rows".toList) with
      | .error e => .error e
      | .ok otherAxis =>
        .ok (['{'] ++ (parts.map (· ++ [','])).flatten ++ newData ++ [','] ++ axisMd ++ [','] ++
             otherAxis ++ ['}'])

/-- `x.lstrip("[] \n\t")` -/
def lstripF (x : Text) : Text := x.dropWhile (fun c => stripSet.contains c)

/-- the field level of the slicer: the data field after both splits, every field still carrying
its padding (brackets, blanks, newlines).  The observation path tests the row field as it comes out
of `strip_f(rcv).split(',')` — stripped on the left only — and then remaps the fully stripped field;
the sample path strips every field first. -/
def sliceFields (render : Nat → Text) (recs : List (Text × Text × Text)) (sk : List Nat) (ax : Axis) :
    List (Text × Text × Text) :=
  let keys := sk.map render
  match ax with
  | .obs => (recs.filter (fun f => keys.contains (lstripF f.1))).map
      (fun f => (render (keys.idxOf (stripF f.1)), stripF f.2.1, stripF f.2.2))
  | .samp => (recs.filter (fun f => keys.contains (stripF f.2.1))).map
      (fun f => (stripF f.1, render (keys.idxOf (stripF f.2.1)), stripF f.2.2))

/-! ## The property, on observations -/

inductive Variant where
  | h5 | h5nomd | parseH5 | cmdH5 | jsonParse | cmdJson
  deriving Repr, DecidableEq, BEq

/-- variants documented to drop other-axis vectors that became all-zero -/
def Variant.drops : Variant → Bool
  | .h5 | .parseH5 | .cmdH5 | .jsonParse => true
  | .h5nomd | .cmdJson => false

/-- the HDF5 reader (both variants) and the command refuse an unknown ID -/
def Variant.refusesUnknown : Variant → Bool
  | .jsonParse => false
  | _ => true

def Variant.noMd : Variant → Bool
  | .h5nomd => true
  | _ => false

/-- cell addressed by (ID on `ax`, ID on the other axis) -/
def cellA (t : Table α) (ax : Axis) (k o : Id) : Option α :=
  match ax with
  | .obs => t.cell? k o
  | .samp => t.cell? o k

def nzCell [Zero α] [DecidableEq α] (t : Table α) (ax : Axis) (k o : Id) : Bool :=
  match cellA t ax k o with
  | some v => decide (v ≠ 0)
  | none => false

/-- requested IDs present in the file, in FILE order -/
def keptIds (full : Table α) (req : List Id) (ax : Axis) : List Id :=
  (full.ids ax).filter (fun i => req.contains i)

def mdClause (full r : Table α) (a : Axis) : Bool :=
  (r.ids a).all (fun k => r.mdOf? a k == full.mdOf? a k)

/-- clauses demanded of a returned table -/
def okClauses [Zero α] [DecidableEq α] (full : Table α) (req : List Id) (ax : Axis) (v : Variant)
    (r : Table α) : List (String × Bool) :=
  let kept := keptIds full req ax
  let oth := ax.other
  [ ("ids-axis: requested IDs in file order", r.ids ax == kept),
    ("ids-other: other axis (minus all-zero vectors where documented)",
      r.ids oth == (if v.drops then (full.ids oth).filter (fun o => kept.any (fun k => nzCell full ax k o))
                    else full.ids oth)),
    ("cells: every cell equals the file's cell for the same IDs",
      (r.ids ax).all (fun k => (r.ids oth).all (fun o =>
        (cellA r ax k o).isSome && cellA r ax k o == cellA full ax k o))),
    ("md-axis: metadata by ID on the subset axis",
      if v.noMd then (r.md ax).isNone else mdClause full r ax),
    ("md-other: metadata by ID on the other axis",
      if v.noMd then (r.md oth).isNone else mdClause full r oth),
    ("type", v.noMd || r.ttype == full.ttype),
    ("wf: result is a well-formed table", r.wfb) ]

def firstFailing : List (String × Bool) → Codec.Verdict
  | [] => none
  | (c, b) :: rest => if b then firstFailing rest else some c

/-- `full` = the table obtained by loading the whole file; `res` = what the subsetting read returned -/
def verdict [Zero α] [DecidableEq α] (full : Table α) (req : List Id) (ax : Axis) (v : Variant)
    (res : Except Err (Table α)) : Codec.Verdict :=
  if !(req.all (fun i => (full.ids ax).contains i)) then
    (if v.refusesUnknown then
      (match res with | .error _ => none | .ok _ => some "unknown-id: request must be refused")
     else none)
  else if req.isEmpty || !(decide req.Nodup) then none   -- outside the property's quantifier
  else match res with
    | .error _ => some "error: a valid request was refused"
    | .ok r => firstFailing (okClauses full req ax v r)

def holds [Zero α] [DecidableEq α] (full : Table α) (req : List Id) (ax : Axis) (v : Variant)
    (res : Except Err (Table α)) : Bool :=
  (verdict full req ax v res).isNone

/-! ## JSON glue -/
open Codec

def asVariant (s : String) : R Variant :=
  match s with
  | "h5" => pure .h5 | "h5nomd" => pure .h5nomd | "parseh5" => pure .parseH5 | "cmdh5" => pure .cmdH5
  | "jsonparse" => pure .jsonParse | "cmdjson" => pure .cmdJson
  | s => .error s!"bad variant {s}"

def asGrp (j : Json) : R (AxisGrp Rat) := do
  pure { ids := (← listF asStr j "ids"), md := (← optF (asList asMd) j "md"),
         indptr := (← listF asNat j "indptr"), indices := (← listF asNat j "indices"),
         data := (← listF asRat j "data") }

def asShape (j : Json) : R (Nat × Nat) := do
  match (← asList asNat j) with
  | [a, b] => pure (a, b)
  | _ => .error "shape"

def asH5 (j : Json) : R (H5 Rat) := do
  pure { obs := (← asGrp (← fld j "observation")), samp := (← asGrp (← fld j "sample")),
         shape := (← asShape (← fld j "shape")), ttype := (← optF asStr j "type") }

def asRec (j : Json) : R Rec := do
  pure { id := (← strF j "id"), md := (← optF asMd j "md") }

def asTriple (j : Json) : R (Triple Rat) := do
  match (← asArr j) with
  | [r, c, v] => pure { r := (← asNat r), c := (← asNat c), v := (← asRat v) }
  | _ => .error "triple"

def asDoc (j : Json) : R (Doc Rat) := do
  pure { rows := (← listF asRec j "rows"), cols := (← listF asRec j "columns"),
         shape := (← asShape (← fld j "shape")), data := (← listF asTriple j "data"),
         ttype := (← optF asStr j "type") }

def asRes (j : Json) : R (Except Err (Table Rat)) := do
  match optFld j "ok" with
  | some t => pure (.ok (← asTable t))
  | none => pure (.error (asErr (← strF j "error")))

def resToJson : Except Err (Table Rat) → Json
  | .ok t => Json.mkObj [("ok", tableToJson t)]
  | .error e => errToJson e

def textResToJson : Except Err Text → Json
  | .ok t => Json.mkObj [("ok", .str (String.ofList t))]
  | .error e => errToJson e

/-- canonical form for the comparison: metadata of an axis left without any ID is not observable
(an empty tuple, `None` after a write/read of the result) -/
def canonT (t : Table Rat) : Table Rat :=
  { t with omd := orNone t.omd, smd := orNone t.smd }

def resAgree (a b : Except Err (Table Rat)) : Bool :=
  match a, b with
  | .ok x, .ok y => (tableToJson (canonT x)).compress == (tableToJson (canonT y)).compress
  | .error e, .error e' => e == e'
  | _, _ => false

/-- requests:
 `{"op":"subset","variant":…,"axis":…,"ids":[…],"full":table,"result":{"ok":table}|{"error":name},
   "file":h5view | "doc":doc}`;
 `{"op":"parsekey","text":…,"key":…}`; `{"op":"slicetext","text":…,"idxs":[…],"axis":…,"axis_md":…}`;
 `{"op":"axisindices","doc":…,"ids":…,"axis":…}` -/
def handle (req : Json) : R Json := do
  match (← strF req "op") with
  | "subset" =>
    let v ← asVariant (← strF req "variant")
    let ax ← axisF req "axis"
    let ids ← listF asStr req "ids"
    let full ← asTable (← fld req "full")
    let res ← asRes (← fld req "result")
    let (model, modelFull) ← (do
      match v with
      | .h5 | .cmdH5 => let f ← asH5 (← fld req "file"); pure (h5Subset f ids ax, some (fromFile f ax))
      | .parseH5 => let f ← asH5 (← fld req "file"); pure (parseH5 f ids ax, some (fromFile f ax))
      | .h5nomd => let f ← asH5 (← fld req "file"); pure (h5SubsetNoMd f ids ax, some (fromFile f ax))
      | .jsonParse => let d ← asDoc (← fld req "doc"); pure (jsonSubset d ids ax, (docToTable d).toOption)
      | .cmdJson => let d ← asDoc (← fld req "doc"); pure (cmdJson d ids ax, (docToTable d).toOption)
      : R (Except Err (Table Rat) × Option (Table Rat)))
    let vd := verdict full ids ax v res
    -- the model's own view of "load everything" must be the table the real full read gave
    let viewAgree := match modelFull with
      | some mf => (tableToJson mf).compress == (tableToJson full).compress
      | none => false
    pure (Json.mkObj (verdictToJson vd ++
      [("agree", .bool (resAgree model res)), ("view_agree", .bool viewAgree),
       ("model_holds", .bool (holds full ids ax v model)), ("model", resToJson model)]))
  | "parsekey" =>
    let text ← strF req "text"
    let key ← strF req "key"
    pure (Json.mkObj [("model", textResToJson (directParseKey text.toList key.toList))])
  | "slicetext" =>
    let text ← strF req "text"
    let idxs ← listF asNat req "idxs"
    let ax ← axisF req "axis"
    let axisMd ← strF req "axis_md"
    pure (Json.mkObj [("model", textResToJson (cmdJsonText text.toList idxs axisMd.toList ax)),
                      ("slice", textResToJson (directSliceDataText text.toList idxs ax))])
  | "axisindices" =>
    let d ← asDoc (← fld req "doc")
    let ids ← listF asStr req "ids"
    let ax ← axisF req "axis"
    match getAxisIndices d ids ax with
    | .error e => pure (Json.mkObj [("model", errToJson e)])
    | .ok (idxs, recs) =>
      pure (Json.mkObj [("model", Json.mkObj [("idxs", natsToJson idxs), ("ids", strsToJson (recs.map (·.id)))])])
  | s => .error s!"bad op {s}"

end Biom.C14
