import BiomModel.Codec
open Lean
namespace Biom.C02
/-- stub: not built yet -/
def handle (_req : Json) : Codec.R Json := .error "C02: model not built yet"
end Biom.C02
