/-
  C02 — the BIOM 1.0 (JSON) writer emits well-formed JSON that reads back exactly.

  Layers (character-level reasoning is confined to the *contracts* of the external functions
  `json.dumps`, `repr(float)`, `json.loads`, which enter as tokens):

  1. `J ν` JSON values (numbers: integer literals `int`, float literals `num v` with `v : ν`
     the value `float(token)`), `Tok ν` tokens.
  2. `toJsonToks direct t genBy date` — transcription of `Table.to_json` (biom/table.py), both code
     paths (`direct_io` stream / returned string), including the hand-rolled comma placement
     (`have_written`, `max_row_idx` / `max_col_idx` tests, the empty-table special case).
     `dumps(x)` contributes `emit (toJ x)`, `repr(float(v))` contributes `num v`.
  3. `emit : J → List Tok` (canonical emission), `parseToks : List Tok → Option J`.
  4. `docOf` (the document a table denotes), `docToTable` = `Table.from_json` + the constructor.

  `holds` is stated on observations only: the token streams of the two real texts and what each
  real reader returned.
-/
import BiomModel.Codec
open Lean

namespace Biom.C02

/-! ## Layer 1: values and tokens -/

inductive J (ν : Type) where
  | null
  | bool (b : Bool)
  | int (n : Int)
  | num (v : ν)
  | str (s : String)
  | arr (xs : List (J ν))
  | obj (kvs : List (String × J ν))
  deriving Repr, Inhabited

inductive Tok (ν : Type) where
  | lbrace | rbrace | lbrack | rbrack | comma | colon
  | str (s : String) | int (n : Int) | num (v : ν) | null | tru | fls
  deriving Repr, DecidableEq, Inhabited

variable {ν : Type}

mutual
def J.beq [DecidableEq ν] : J ν → J ν → Bool
  | .null, b => (match b with | .null => true | _ => false)
  | .bool a, b => (match b with | .bool b => a == b | _ => false)
  | .int a, b => (match b with | .int b => a == b | _ => false)
  | .num a, b => (match b with | .num b => decide (a = b) | _ => false)
  | .str a, b => (match b with | .str b => a == b | _ => false)
  | .arr a, b => (match b with | .arr b => J.beqL a b | _ => false)
  | .obj a, b => (match b with | .obj b => J.beqF a b | _ => false)
def J.beqL [DecidableEq ν] : List (J ν) → List (J ν) → Bool
  | [], ys => ys.isEmpty
  | x :: xs, ys => (match ys with | y :: ys => J.beq x y && J.beqL xs ys | [] => false)
def J.beqF [DecidableEq ν] : List (String × J ν) → List (String × J ν) → Bool
  | [], ys => ys.isEmpty
  | (k, x) :: xs, ys => (match ys with | (l, y) :: ys => k == l && J.beq x y && J.beqF xs ys | [] => false)
end

/-- insertion of one field into a list sorted by key -/
def insertField (kv : String × J ν) : List (String × J ν) → List (String × J ν)
  | [] => [kv]
  | x :: xs => if kv.1 < x.1 then kv :: x :: xs else x :: insertField kv xs

def sortFields (l : List (String × J ν)) : List (String × J ν) := l.foldr insertField []

mutual
/-- canonical form: the fields of every object sorted by key (JSON objects are unordered) -/
def J.canon : J ν → J ν
  | .arr xs => .arr (J.canonL xs)
  | .obj kvs => .obj (sortFields (J.canonF kvs))
  | .null => .null
  | .bool b => .bool b
  | .int n => .int n
  | .num v => .num v
  | .str s => .str s
def J.canonL : List (J ν) → List (J ν)
  | [] => []
  | x :: xs => x.canon :: J.canonL xs
def J.canonF : List (String × J ν) → List (String × J ν)
  | [] => []
  | (k, v) :: r => (k, v.canon) :: J.canonF r
end

/-- equality as JSON values (object key order is irrelevant) -/
def J.eqv [DecidableEq ν] (a b : J ν) : Bool := J.beq a.canon b.canon

/-- `dict[k]` after `json.loads`: the last occurrence of a key wins -/
def lookupLast (k : String) : List (String × J ν) → Option (J ν)
  | [] => none
  | (k', v) :: r =>
    match lookupLast k r with
    | some x => some x
    | none => if k' = k then some v else none

def J.get? : J ν → String → Option (J ν)
  | .obj kvs, k => lookupLast k kvs
  | _, _ => none

/-! ## Layer 3: canonical emission and the token parser -/

mutual
def emit : J ν → List (Tok ν)
  | .null => [.null]
  | .bool b => [if b then .tru else .fls]
  | .int n => [.int n]
  | .num v => [.num v]
  | .str s => [.str s]
  | .arr [] => [.lbrack, .rbrack]
  | .arr (x :: xs) => .lbrack :: (emit x ++ emitTail xs)
  | .obj [] => [.lbrace, .rbrace]
  | .obj ((k, v) :: r) => .lbrace :: .str k :: .colon :: (emit v ++ emitFTail r)
def emitTail : List (J ν) → List (Tok ν)
  | [] => [.rbrack]
  | y :: ys => .comma :: (emit y ++ emitTail ys)
def emitFTail : List (String × J ν) → List (Tok ν)
  | [] => [.rbrace]
  | (k, v) :: r => .comma :: .str k :: .colon :: (emit v ++ emitFTail r)
end

mutual
/-- recursive descent over tokens with fuel (the contract of `json.loads` at token level) -/
def pVal : Nat → List (Tok ν) → Option (J ν × List (Tok ν))
  | 0, _ => none
  | _ + 1, [] => none
  | f + 1, t :: r =>
    match t with
    | .null => some (.null, r)
    | .tru => some (.bool true, r)
    | .fls => some (.bool false, r)
    | .int n => some (.int n, r)
    | .num v => some (.num v, r)
    | .str s => some (.str s, r)
    | .lbrack =>
      (match r with
       | .rbrack :: r' => some (.arr [], r')
       | _ =>
         match pVal f r with
         | some (x, r1) =>
           (match pElems f r1 with
            | some (xs, r2) => some (.arr (x :: xs), r2)
            | none => none)
         | none => none)
    | .lbrace =>
      (match r with
       | .rbrace :: r' => some (.obj [], r')
       | .str k :: .colon :: r' =>
         (match pVal f r' with
          | some (v, r1) =>
            (match pFields f r1 with
             | some (kvs, r2) => some (.obj ((k, v) :: kvs), r2)
             | none => none)
          | none => none)
       | _ => none)
    | _ => none
def pElems : Nat → List (Tok ν) → Option (List (J ν) × List (Tok ν))
  | 0, _ => none
  | _ + 1, [] => none
  | f + 1, t :: r =>
    match t with
    | .rbrack => some ([], r)
    | .comma =>
      (match pVal f r with
       | some (x, r1) =>
         (match pElems f r1 with
          | some (xs, r2) => some (x :: xs, r2)
          | none => none)
       | none => none)
    | _ => none
def pFields : Nat → List (Tok ν) → Option (List (String × J ν) × List (Tok ν))
  | 0, _ => none
  | _ + 1, [] => none
  | f + 1, t :: r =>
    match t with
    | .rbrace => some ([], r)
    | .comma =>
      (match r with
       | .str k :: .colon :: r' =>
         (match pVal f r' with
          | some (v, r1) =>
            (match pFields f r1 with
             | some (kvs, r2) => some ((k, v) :: kvs, r2)
             | none => none)
          | none => none)
       | _ => none)
    | _ => none
end

def parseToks (ts : List (Tok ν)) : Option (J ν) :=
  match pVal (ts.length + 1) ts with
  | some (j, []) => some j
  | _ => none

/-! ## Layer 2: the writer -/

/-- The table as `to_json` sees it. `omd`/`smd`: the metadata handed out by `iter` per ID as a JSON
value (`null` when the axis has no metadata). `tableId` is `str(self.table_id)`. -/
structure JT (ν : Type) where
  tableId : String
  ttype : Option String
  obs : List String
  samp : List String
  omd : List (J ν)
  smd : List (J ν)
  rows : List (List ν)
  deriving Repr

def fmtVersion : String := "Biological Observation Matrix 1.0.0"
def fmtUrl : String := "http://biom-format.org"

/-- `'"k": %s,' % dumps(s)` (and `'"k": "%s",' % s` for the constant format strings) -/
def kvStr (k s : String) : List (Tok ν) := [.str k, .colon, .str s, .comma]

/-- `matrix_element_type`: `self[0, 0]` is a float whenever the matrix has a cell, else the int 0 -/
def elemType (t : JT ν) : String :=
  if t.obs.length > 0 ∧ t.samp.length > 0 then "float" else "int"

/-- `built_row`: one `"[%d,%d,%s]"` per value with `float(val) != 0.0` -/
def builtRow [DecidableEq ν] [Zero ν] (i : Nat) : Nat → List ν → List (List (Tok ν))
  | _, [] => []
  | j, v :: vs =>
    if v = 0 then builtRow i (j + 1) vs
    else [.lbrack, .int i, .comma, .int j, .comma, .num v, .rbrack] :: builtRow i (j + 1) vs

/-- `','.join(pieces)` -/
def joinComma : List (List (Tok ν)) → List (Tok ν)
  | [] => []
  | [x] => x
  | x :: y :: r => x ++ .comma :: joinComma (y :: r)

/-- `'{"id": %s, "metadata": %s}' % (dumps(id), dumps(md))` -/
def axisPiece (id : String) (md : J ν) : List (Tok ν) :=
  [.lbrace, .str "id", .colon, .str id, .comma, .str "metadata", .colon] ++ emit md ++ [.rbrace]

/-- mutable state of the observation loop -/
structure LoopSt (ν : Type) where
  io : List (Tok ν)            -- everything written to `direct_io` so far
  data : List (List (Tok ν))   -- the list `data` of the returned-string path
  rows : List (List (Tok ν))   -- the list `rows`
  hw : Bool                    -- `have_written`

def obsStep [DecidableEq ν] [Zero ν] (direct : Bool) (maxRowIdx : Int) (st : LoopSt ν) (i : Nat)
    (e : List ν × String × J ν) : LoopSt ν :=
  let piece := axisPiece e.2.1 e.2.2 ++
    (if (i : Int) ≠ maxRowIdx then [.comma] else [.rbrack, .comma])
  let st := { st with rows := st.rows ++ [piece] }
  let built := builtRow i 0 e.1
  if built.isEmpty then st
  else
    let st :=
      if st.hw then
        (if direct then { st with io := st.io ++ [.comma] } else { st with data := st.data ++ [[.comma]] })
      else st
    let st :=
      if direct then { st with io := st.io ++ joinComma built }
      else { st with data := st.data ++ [joinComma built] }
    { st with hw := true }

/-- `for obs_index, obs in enumerate(self.iter(axis='observation'))` -/
def obsLoop [DecidableEq ν] [Zero ν] (direct : Bool) (maxRowIdx : Int) :
    LoopSt ν → Nat → List (List ν × String × J ν) → LoopSt ν
  | st, _, [] => st
  | st, i, e :: es => obsLoop direct maxRowIdx (obsStep direct maxRowIdx st i e) (i + 1) es

/-- `for samp_index, samp in enumerate(self.iter())` building the list `columns` -/
def sampLoop (maxColIdx : Int) : List (List (Tok ν)) → Nat → List (String × J ν) → List (List (Tok ν))
  | cols, _, [] => cols
  | cols, j, e :: es =>
    sampLoop maxColIdx
      (cols ++ [axisPiece e.1 e.2 ++ (if (j : Int) ≠ maxColIdx then [.comma] else [.rbrack])]) (j + 1) es

def obsIter (t : JT ν) : List (List ν × String × J ν) := t.rows.zip (t.obs.zip t.omd)
def sampIter (t : JT ν) : List (String × J ν) := t.samp.zip t.smd

def typeToks (t : JT ν) : List (Tok ν) :=
  match t.ttype with
  | none => [.str "type", .colon, .null, .comma]
  | some s => kvStr "type" s

def shapeToks (t : JT ν) : List (Tok ν) :=
  [.str "shape", .colon, .lbrack, .int t.obs.length, .comma, .int t.samp.length, .rbrack, .comma]

/-- `Table.to_json(generated_by, direct_io, creation_date)`; `date` is `creation_date.isoformat()`.
The result is the token stream of the text written to the stream (`direct`) or returned. -/
def toJsonToks [DecidableEq ν] [Zero ν] (direct : Bool) (t : JT ν) (genBy date : String) : List (Tok ν) :=
  let head : List (Tok ν) := kvStr "id" t.tableId
  let format_ : List (Tok ν) := kvStr "format" fmtVersion
  let formatUrl : List (Tok ν) := kvStr "format_url" fmtUrl
  let generatedBy : List (Tok ν) := kvStr "generated_by" genBy
  let date_ : List (Tok ν) := kvStr "date" date
  let io : List (Tok ν) := if direct then [.lbrace] ++ head ++ format_ ++ formatUrl ++ generatedBy ++ date_ else []
  let met : List (Tok ν) := kvStr "matrix_element_type" (elemType t)
  let shape := shapeToks t
  let io := if direct then io ++ met ++ shape else io
  let type_ := typeToks t
  let io := if direct then io ++ type_ else io
  let matrixType : List (Tok ν) := kvStr "matrix_type" "sparse"
  let io := if direct then io ++ matrixType ++ [.str "data", .colon, .lbrack] else io
  let data0 : List (List (Tok ν)) := if direct then [] else [[.str "data", .colon, .lbrack]]
  let maxRowIdx : Int := (t.obs.length : Int) - 1
  let maxColIdx : Int := (t.samp.length : Int) - 1
  let rows0 : List (List (Tok ν)) := [[.str "rows", .colon, .lbrack]]
  let st := obsLoop direct maxRowIdx ⟨io, data0, rows0, false⟩ 0 (obsIter t)
  let st : LoopSt ν :=
    if direct then { st with io := st.io ++ [.rbrack, .comma] }
    else { st with data := st.data ++ [[.rbrack, .comma]] }
  let columns := sampLoop maxColIdx [[.str "columns", .colon, .lbrack]] 0 (sampIter t)
  -- `if rows[0] == '"rows": [' and len(rows) == 1:` the empty table case
  let emptyCase := st.rows.length == 1
  let rows : List (List (Tok ν)) :=
    if emptyCase then [[.str "rows", .colon, .lbrack, .rbrack, .comma]] else st.rows
  let columns : List (List (Tok ν)) :=
    if emptyCase then [[.str "columns", .colon, .lbrack, .rbrack]] else columns
  if direct then st.io ++ rows.flatten ++ columns.flatten ++ [.rbrace]
  else
    [.lbrace] ++ (head ++ format_ ++ formatUrl ++ matrixType ++ generatedBy ++ date_ ++ type_ ++ met ++ shape ++
      st.data.flatten ++ rows.flatten ++ columns.flatten) ++ [.rbrace]

def writeToks [DecidableEq ν] [Zero ν] (t : JT ν) (genBy date : String) : List (Tok ν) :=
  toJsonToks false t genBy date
def writeToksDirect [DecidableEq ν] [Zero ν] (t : JT ν) (genBy date : String) : List (Tok ν) :=
  toJsonToks true t genBy date

/-! ## Layer 4: the document a table denotes, and the reader -/

def typeJ : Option String → J ν
  | none => .null
  | some s => .str s

def axisObj (id : String) (md : J ν) : J ν := .obj [("id", .str id), ("metadata", md)]

def axisJ : List String → List (J ν) → List (J ν)
  | id :: ids, md :: mds => axisObj id md :: axisJ ids mds
  | _, _ => []

/-- the non-zero cells of one row, left to right -/
def rowTriples [DecidableEq ν] [Zero ν] (i : Nat) : Nat → List ν → List (Nat × Nat × ν)
  | _, [] => []
  | j, v :: vs => if v = 0 then rowTriples i (j + 1) vs else (i, j, v) :: rowTriples i (j + 1) vs

/-- the non-zero cells of a grid in row-major order -/
def triplesFrom [DecidableEq ν] [Zero ν] : Nat → List (List ν) → List (Nat × Nat × ν)
  | _, [] => []
  | i, r :: rs => rowTriples i 0 r ++ triplesFrom (i + 1) rs

def tripleJ (t : Nat × Nat × ν) : J ν := .arr [.int t.1, .int t.2.1, .num t.2.2]

def dataJ [DecidableEq ν] [Zero ν] (t : JT ν) : J ν := .arr ((triplesFrom 0 t.rows).map tripleJ)
def shapeJ (t : JT ν) : J ν := .arr [.int t.obs.length, .int t.samp.length]

/-- the document in the key order of the returned string -/
def docOf [DecidableEq ν] [Zero ν] (t : JT ν) (genBy date : String) : J ν :=
  .obj [("id", .str t.tableId), ("format", .str fmtVersion), ("format_url", .str fmtUrl),
        ("matrix_type", .str "sparse"), ("generated_by", .str genBy), ("date", .str date),
        ("type", typeJ t.ttype), ("matrix_element_type", .str (elemType t)), ("shape", shapeJ t),
        ("data", dataJ t), ("rows", .arr (axisJ t.obs t.omd)), ("columns", .arr (axisJ t.samp t.smd))]

/-- the same document in the key order of the streamed form -/
def docOfDirect [DecidableEq ν] [Zero ν] (t : JT ν) (genBy date : String) : J ν :=
  .obj [("id", .str t.tableId), ("format", .str fmtVersion), ("format_url", .str fmtUrl),
        ("generated_by", .str genBy), ("date", .str date),
        ("matrix_element_type", .str (elemType t)), ("shape", shapeJ t), ("type", typeJ t.ttype),
        ("matrix_type", .str "sparse"),
        ("data", dataJ t), ("rows", .arr (axisJ t.obs t.omd)), ("columns", .arr (axisJ t.samp t.smd))]

/-- what a reader hands back -/
structure Read (ν : Type) where
  obs : List String
  samp : List String
  omd : List (J ν)      -- `null` per ID when the axis has no metadata
  smd : List (J ν)
  ttype : Option String
  genBy : Option String
  date : Option String
  rows : List (List ν)
  deriving Repr

def J.isNull : J ν → Bool
  | .null => true
  | _ => false
def J.isObj : J ν → Bool
  | .obj _ => true
  | _ => false
/-- `m is None or (isinstance(m, dict) and not m)` -/
def J.noMd : J ν → Bool
  | .null => true
  | .obj [] => true
  | _ => false

/-- constructor + `_cast_metadata` on one axis: all-empty becomes "no metadata"; otherwise `None`
entries become empty mappings; anything that is not a mapping is rejected -/
def castMd (mds : List (J ν)) : Except Err (List (J ν)) :=
  if mds.all J.noMd then .ok (mds.map (fun _ => .null))
  else if mds.all (fun m => m.isNull || m.isObj) then
    .ok (mds.map (fun m => if m.isNull then .obj [] else m))
  else .error .tableException

/-- the same normalisation, total: the metadata a reader is expected to return for `mds` -/
def normMd (mds : List (J ν)) : List (J ν) :=
  if mds.all J.noMd then mds.map (fun _ => .null)
  else mds.map (fun m => if m.isNull then .obj [] else m)

/-- `[col['id'] for col in …]`, `[col['metadata'] for col in …]` -/
def axisEntry (j : J ν) : Except Err (String × J ν) :=
  match j.get? "id", j.get? "metadata" with
  | some (.str s), some md => .ok (s, md)
  | some _, some _ => .error .other          -- non-text IDs: not modelled
  | _, _ => .error .key

def axisEntries : List (J ν) → Except Err (List (String × J ν))
  | [] => .ok []
  | j :: js => do
    let e ← axisEntry j
    let es ← axisEntries js
    pure (e :: es)

def asIdx : J ν → Except Err Nat
  | .int n => if 0 ≤ n then .ok n.toNat else .error .value
  | _ => .error .other

def asVal [IntCast ν] : J ν → Except Err ν
  | .num v => .ok v
  | .int n => .ok (n : ν)
  | _ => .error .other

def asTriple [IntCast ν] : J ν → Except Err (Nat × Nat × ν)
  | .arr [a, b, c] => do
    let i ← asIdx a
    let j ← asIdx b
    let v ← asVal c
    pure (i, j, v)
  | _ => .error .value

def asTriples [IntCast ν] : List (J ν) → Except Err (List (Nat × Nat × ν))
  | [] => .ok []
  | j :: js => do
    let t ← asTriple j
    let ts ← asTriples js
    pure (t :: ts)

def sumV [Add ν] [Zero ν] : List ν → ν
  | [] => 0
  | v :: vs => v + sumV vs

/-- contract of `coo_matrix((values, (rows, cols)), shape).tocsr().toarray()`: every cell is the sum
of the entries that name it -/
def entriesAt (ts : List (Nat × Nat × ν)) (i j : Nat) : List ν :=
  (ts.filter (fun t => t.1 == i && t.2.1 == j)).map (·.2.2)

def gridOf [Add ν] [Zero ν] (n m : Nat) (ts : List (Nat × Nat × ν)) : List (List ν) :=
  (List.range n).map (fun i => (List.range m).map (fun j => sumV (entriesAt ts i j)))

def asDenseRow [IntCast ν] : List (J ν) → Except Err (List ν)
  | [] => .ok []
  | j :: js => do
    let v ← asVal j
    let vs ← asDenseRow js
    pure (v :: vs)

def asDense [IntCast ν] : List (J ν) → Except Err (List (List ν))
  | [] => .ok []
  | .arr r :: js => do
    let v ← asDenseRow r
    let vs ← asDense js
    pure (v :: vs)
  | _ => .error .value

def reqField (d : J ν) (k : String) : Except Err (J ν) :=
  match d.get? k with
  | some v => .ok v
  | none => .error .key

def asArrE : J ν → Except Err (List (J ν))
  | .arr xs => .ok xs
  | _ => .error .type

/-- `Table.from_json(json.loads(text))` followed by the `Table` constructor -/
def docToTable [DecidableEq ν] [Add ν] [Zero ν] [IntCast ν] (d : J ν) : Except Err (Read ν) := do
  let cols ← axisEntries (← asArrE (← reqField d "columns"))
  let rws ← axisEntries (← asArrE (← reqField d "rows"))
  let met ← reqField d "matrix_element_type"
  -- MATRIX_ELEMENT_TYPE[...]: the value itself is not used by the constructor
  if !(match met with | .str s => s == "int" || s == "float" || s == "unicode" | _ => false) then
    throw .key
  let dense := match d.get? "matrix_type" with
    | some (.str s) => s == "dense"
    | _ => false
  let ty ← reqField d "type"
  let data ← asArrE (← reqField d "data")
  let date ← reqField d "date"
  let _ ← reqField d "shape"
  let gb ← reqField d "generated_by"
  let n := rws.length
  let m := cols.length
  -- `_to_sparse`
  let grid ←
    if data.isEmpty then pure (gridOf n m ([] : List (Nat × Nat × ν)))
    else if dense then do
      let g ← asDense data
      if g.length == n && g.all (·.length == m) then pure g else throw .tableException
    else do
      let ts ← asTriples data
      if ts.all (fun t => t.1 < n && t.2.1 < m) then pure (gridOf n m ts) else throw .value
  -- errcheck: duplicate IDs
  if !(decide (rws.map (·.1)).Nodup && decide (cols.map (·.1)).Nodup) then throw .tableException
  let smd ← castMd (cols.map (·.2))
  let omd ← castMd (rws.map (·.2))
  let ttype ← match ty with
    | .null => pure none
    | .str s => pure (some s)
    | _ => throw .other
  pure { obs := rws.map (·.1), samp := cols.map (·.1), omd, smd, ttype,
         genBy := (match gb with | .str s => some s | _ => none),
         date := (match date with | .str s => some s | _ => none),  -- `fromisoformat`, else None
         rows := grid }

/-! ## The property, on observations -/

structure Input (ν : Type) where
  t : JT ν
  genBy : String
  date : String

structure Obs (ν : Type) where
  toksS : List (Tok ν)          -- token stream of the returned string
  toksD : List (Tok ν)          -- token stream of what was written to `direct_io`
  reads : List (String × Except Err (Read ν))

open Codec (Verdict chk allV)

def axisOk [DecidableEq ν] : List String → List (J ν) → List (J ν) → Bool
  | [], [], [] => true
  | id :: ids, md :: mds, e :: es =>
    (match e with | .obj kvs => kvs.length == 2 | _ => false) &&
    (match e.get? "id" with | some (.str s) => s == id | _ => false) &&
    (match e.get? "metadata" with | some m => J.eqv m md | none => false) &&
    axisOk ids mds es
  | _, _, _ => false

def decodeTriples : List (J ν) → Option (List (Nat × Nat × ν))
  | [] => some []
  | .arr [.int i, .int j, .num v] :: r =>
    if 0 ≤ i ∧ 0 ≤ j then (decodeTriples r).map ((i.toNat, j.toNat, v) :: ·) else none
  | _ => none

def cellAt (rows : List (List ν)) (i j : Nat) : Option ν := (rows[i]?).bind (·[j]?)

/-- the multiset of triples is exactly `{(i,j,v) | v = T[i][j] ≠ 0}`: all triples are in range and,
for every cell, the values of the triples naming it are the cell's value if non-zero, nothing otherwise
(the triples of a row are selected once per row, so the check is linear in rows x triples) -/
def dataOk [DecidableEq ν] [Zero ν] (rows : List (List ν)) (n m : Nat) (ts : List (Nat × Nat × ν)) : Bool :=
  ts.all (fun t => t.1 < n && t.2.1 < m) &&
  (List.range n).all (fun i =>
    let ri := ts.filter (fun t => t.1 == i)
    (List.range m).all (fun j =>
      (ri.filter (fun t => t.2.1 == j)).map (·.2.2) ==
        (match cellAt rows i j with
         | some v => if v = 0 then [] else [v]
         | none => [])))

def fieldIs [DecidableEq ν] (d : J ν) (k : String) (v : J ν) : Bool :=
  match d.get? k with
  | some x => J.beq x v
  | none => false

def checkDoc [DecidableEq ν] [Zero ν] (inp : Input ν) (tag : String) (d : J ν) : Verdict :=
  let t := inp.t
  allV [
    chk (tag ++ ":twelve-keys") (match d with | .obj kvs => kvs.length == 12 | _ => false),
    chk (tag ++ ":id") (fieldIs d "id" (.str t.tableId)),
    chk (tag ++ ":format") (fieldIs d "format" (.str fmtVersion)),
    chk (tag ++ ":format_url") (fieldIs d "format_url" (.str fmtUrl)),
    chk (tag ++ ":generated_by") (fieldIs d "generated_by" (.str inp.genBy)),
    chk (tag ++ ":date") (fieldIs d "date" (.str inp.date)),
    chk (tag ++ ":type") (fieldIs d "type" (typeJ t.ttype)),
    chk (tag ++ ":shape") (fieldIs d "shape" (shapeJ t)),
    chk (tag ++ ":matrix_type") (fieldIs d "matrix_type" (.str "sparse")),
    chk (tag ++ ":matrix_element_type")
      (fieldIs d "matrix_element_type" (.str "float") ||
       (fieldIs d "matrix_element_type" (.str "int") && (t.obs.isEmpty || t.samp.isEmpty))),
    chk (tag ++ ":rows") (match d.get? "rows" with
      | some (.arr es) => axisOk t.obs t.omd es | _ => false),
    chk (tag ++ ":columns") (match d.get? "columns" with
      | some (.arr es) => axisOk t.samp t.smd es | _ => false),
    chk (tag ++ ":data") (match d.get? "data" with
      | some (.arr es) =>
        (match decodeTriples es with
         | some ts => dataOk t.rows t.obs.length t.samp.length ts
         | none => false)
      | _ => false)]

def mdSame [DecidableEq ν] : List (J ν) → List (J ν) → Bool
  | [], [] => true
  | a :: as, b :: bs => J.eqv a b && mdSame as bs
  | _, _ => false

def checkRead [DecidableEq ν] (inp : Input ν) (name : String) (r : Except Err (Read ν)) : Verdict :=
  match r with
  | .error _ => some (name ++ ":raised")
  | .ok r =>
    let t := inp.t
    allV [
      chk (name ++ ":obs-ids") (r.obs == t.obs),
      chk (name ++ ":samp-ids") (r.samp == t.samp),
      chk (name ++ ":grid") (r.rows == t.rows),
      chk (name ++ ":obs-metadata") (mdSame r.omd (normMd t.omd)),
      chk (name ++ ":samp-metadata") (mdSame r.smd (normMd t.smd)),
      chk (name ++ ":type") (r.ttype == t.ttype),
      chk (name ++ ":generated_by") (r.genBy == some inp.genBy),
      chk (name ++ ":date") (r.date == some inp.date)]

def verdict [DecidableEq ν] [Zero ν] (inp : Input ν) (o : Obs ν) : Verdict :=
  match parseToks o.toksS, parseToks o.toksD with
  | none, _ => some "string:not-well-formed"
  | _, none => some "direct:not-well-formed"
  | some dS, some dD =>
    allV ([chk "same-document" (J.eqv dS dD), checkDoc inp "string" dS, checkDoc inp "direct" dD] ++
      o.reads.map (fun nr => checkRead inp nr.1 nr.2))

def holds [DecidableEq ν] [Zero ν] (inp : Input ν) (o : Obs ν) : Bool := (verdict inp o).isNone

/-- the model's observation -/
def model [DecidableEq ν] [Add ν] [Zero ν] [IntCast ν] (inp : Input ν) : Obs ν :=
  { toksS := writeToks inp.t inp.genBy inp.date,
    toksD := writeToksDirect inp.t inp.genBy inp.date,
    reads := [("from_json", docToTable (docOf inp.t inp.genBy inp.date))] }

/-! ## JSON glue (driver only) -/
open Codec

partial def asJ (j : Json) : R (J Rat) :=
  match j with
  | .null => pure .null
  | .bool b => pure (.bool b)
  | v => do
    if let some x := optFld v "i" then
      match (← asStr x).toInt? with
      | some n => pure (.int n)
      | none => throw "bad int"
    else if let some x := optFld v "n" then pure (.num (← asRat x))
    else if let some x := optFld v "s" then pure (.str (← asStr x))
    else if let some x := optFld v "a" then pure (.arr (← asList asJ x))
    else if let some x := optFld v "o" then
      pure (.obj (← asList (fun p => do
        match (← asArr p) with
        | [k, w] => pure ((← asStr k), (← asJ w))
        | _ => throw "bad field") x))
    else throw "bad J"

def asTok (j : Json) : R (Tok Rat) :=
  match j with
  | .str "{" => pure .lbrace
  | .str "}" => pure .rbrace
  | .str "[" => pure .lbrack
  | .str "]" => pure .rbrack
  | .str "," => pure .comma
  | .str ":" => pure .colon
  | .str "null" => pure .null
  | .str "true" => pure .tru
  | .str "false" => pure .fls
  | v => do
    match (← asArr v) with
    | [.str "s", s] => pure (.str (← asStr s))
    | [.str "i", s] =>
      match (← asStr s).toInt? with
      | some n => pure (.int n)
      | none => throw "bad int token"
    | [.str "n", s] => pure (.num (← asRat s))
    | _ => throw "bad token"

def asJT (j : Json) : R (JT Rat) := do
  pure { tableId := (← strF j "table_id"), ttype := (← optF asStr j "type"),
         obs := (← listF asStr j "obs"), samp := (← listF asStr j "samp"),
         omd := (← listF asJ j "omd"), smd := (← listF asJ j "smd"),
         rows := (← listF (asList asRat) j "rows") }

def asRead (j : Json) : R (Except Err (Read Rat)) := do
  if let some e := optFld j "error" then return .error (asErr (← asStr e))
  pure (.ok { obs := (← listF asStr j "obs"), samp := (← listF asStr j "samp"),
              omd := (← listF asJ j "omd"), smd := (← listF asJ j "smd"),
              ttype := (← optF asStr j "type"), genBy := (← optF asStr j "generated_by"),
              date := (← optF asStr j "date"), rows := (← listF (asList asRat) j "rows") })

def tokText : Tok Rat → String
  | .lbrace => "{" | .rbrace => "}" | .lbrack => "[" | .rbrack => "]" | .comma => "," | .colon => ":"
  | .str s => (Json.str s).compress
  | .int n => toString n
  | .num v => "<" ++ (ratToJson v).compress ++ ">"
  | .null => "null" | .tru => "true" | .fls => "false"

def firstDiff : List (Tok Rat) → List (Tok Rat) → Nat → Option (Nat × String × String)
  | [], [], _ => none
  | a :: as, b :: bs, i => if a = b then firstDiff as bs (i + 1) else some (i, tokText a, tokText b)
  | a :: _, [], i => some (i, tokText a, "<end>")
  | [], b :: _, i => some (i, "<end>", tokText b)

def pow10 (k : Nat) : Rat := ((10 ^ k : Nat) : Rat)

def numRat (n : JsonNumber) : Rat := (n.mantissa : Rat) / pow10 n.exponent

/-- `py` (the exact value of the double Python read) is within float rounding of the decimal `dec`
that Lean's own parser read from the same characters -/
def nearDouble (dec py : Rat) : Bool :=
  let d := if dec ≤ py then py - dec else dec - py
  let a := if py < 0 then -py else py
  decide (d * ((2 ^ 53 : Nat) : Rat) ≤ a) || decide (d * ((2 ^ 1075 : Nat) : Rat) ≤ 1)

/-- the document Lean's own JSON parser read from the characters agrees with the document read from
the harness' tokens (objects as maps; float literals up to float rounding) -/
partial def looseEq (a : J Rat) (b : Json) : Bool :=
  match a, b with
  | .null, .null => true
  | .bool x, .bool y => x == y
  | .int n, .num y => decide ((n : Rat) = numRat y)
  | .num v, .num y => nearDouble (numRat y) v
  | .str s, .str t => s == t
  | .arr xs, .arr ys => xs.length == ys.size && (xs.zip ys.toList).all (fun p => looseEq p.1 p.2)
  | .obj kvs, .obj m =>
    kvs.length == m.toList.length &&
    kvs.all (fun kv => match m.get? kv.1 with | some y => looseEq kv.2 y | none => false)
  | _, _ => false

def leanParseCheck (tag : String) (text : String) (toks : List (Tok Rat)) : Verdict :=
  match Json.parse text with
  | .error _ => some (tag ++ ":lean-json-parse-failed")
  | .ok doc =>
    match parseToks toks with
    | none => some (tag ++ ":not-well-formed")
    | some d => chk (tag ++ ":lean-json-differs-from-tokens") (looseEq d doc)

def readSame (a b : Except Err (Read Rat)) : Bool :=
  match a, b with
  | .error e, .error f => e == f
  | .ok a, .ok b =>
    a.obs == b.obs && a.samp == b.samp && a.rows == b.rows && mdSame a.omd b.omd && mdSame a.smd b.smd &&
    a.ttype == b.ttype && a.genBy == b.genBy && a.date == b.date
  | _, _ => false

/-- request: {"table":…, "generated_by":…, "date":…, "toks":[…], "toks_direct":[…], "text":…,
"text_direct":…, "reads":[{"name":…, …}]} -/
def handle (req : Json) : R Json := do
  let t ← asJT (← fld req "table")
  let inp : Input Rat := { t, genBy := (← strF req "generated_by"), date := (← strF req "date") }
  let toksS ← listF asTok req "toks"
  let toksD ← listF asTok req "toks_direct"
  let reads ← listF (fun j => do pure ((← strF j "name"), (← asRead j))) req "reads"
  let obs : Obs Rat := { toksS, toksD, reads }
  let v1 := verdict inp obs
  let v2 := match optFld req "text", optFld req "text_direct" with
    | some a, some b =>
      match a.getStr?, b.getStr? with
      | .ok a, .ok b => (leanParseCheck "string" a toksS).and (leanParseCheck "direct" b toksD)
      | _, _ => some "bad text fields"
    | _, _ => none
  let v := v1.and v2
  let mo := model inp
  let dS := firstDiff toksS mo.toksS 0
  -- a front end that only writes the returned-string form sends that text for both forms
  let single ← boolFD req "single_form" false
  let dD := firstDiff toksD (if single then mo.toksS else mo.toksD) 0
  let mread := match mo.reads with | (_, r) :: _ => r | [] => .error .other
  let badRead := reads.find? (fun nr => !(readSame nr.2 mread))
  let what : Option String :=
    match dS, dD, badRead with
    | some (i, a, b), _, _ => some s!"string path token {i}: real {a} model {b}"
    | _, some (i, a, b), _ => some s!"direct path token {i}: real {a} model {b}"
    | _, _, some (n, _) => some s!"reader {n} differs from docToTable"
    | none, none, none => none
  pure (Json.mkObj (verdictToJson v ++ [
    ("model_holds", .bool (holds inp mo)),
    ("agree", .bool what.isNone),
    ("what", match what with | some s => .str s | none => .null),
    ("model", Json.mkObj [("n_toks", toJson mo.toksS.length), ("n_toks_direct", toJson mo.toksD.length),
      ("read_ok", .bool (match mread with | .ok _ => true | .error _ => false))])]))

end Biom.C02
