/-
  C01 — HDF5 (BIOM 2.x) write/read round trip is lossless.

  `fromH5` transcribes `Table.from_hdf5` WITHOUT subsetting (ids=None; the subset paths belong to
  C14): header attributes, `axis_load` (IDs decoded as utf-8, per-category parsers `general_parser`
  / `vlen_list_of_str_parser`, `@@SLASH@@` undone, `md if any(md) else None`, group metadata
  payload), the matrix taken from the requested axis' group and handed to scipy.
  `load` adds the sniffing preludes of `parse_biom_table` and `load_table`.
  `C01.holds` states the property on what a loader returned vs. the table that was written.
  The writer `toH5` and the tree live in BiomModel/C04.lean.
-/
import BiomModel.C04
open Lean

namespace Biom.Hdf5

/-- what a loader returns, as far as the property looks at it -/
structure Loaded (α δ : Type) where
  obs : List Id
  samp : List Id
  rows : List (List α)
  omd : Option (List (MdE α))
  smd : Option (List (MdE α))
  ttype : Option String
  tableId : String
  generatedBy : String
  createDate : DateVal δ
  /-- group metadata: key ↦ `ensure_utf8(val[0])` (`none` when the stored entry is not bytes) -/
  ogmd : List (String × Option String)
  sgmd : List (String × Option String)
  deriving Repr, DecidableEq

def Loaded.ids (t : Loaded α δ) : Axis → List Id
  | .obs => t.obs
  | .samp => t.samp
def Loaded.md (t : Loaded α δ) : Axis → Option (List (MdE α))
  | .obs => t.omd
  | .samp => t.smd
def Loaded.gmd (t : Loaded α δ) : Axis → List (String × Option String)
  | .obs => t.ogmd
  | .samp => t.sgmd

/-- `general_parser(x)`: bytes are decoded, anything else is handed back as it is.  A 2-D row
comes back as an array of byte strings (shown decoded, padding included, by the harness). -/
def generalParse (c : Utf8) : Row α → Except Err (MdVal α)
  | .scalar (.s x) => do pure (.text (← c.dec x))
  | .scalar (.i n) => .ok (.int n)
  | .scalar (.f a) => .ok (.float a)
  | .scalar (.b v) => .ok (.bool v)
  | .vec cells => do pure (.list (← cells.mapM (cellStr c)))

/-- `vlen_list_of_str_parser(value)`: padding dropped, the rest decoded; nothing left ⇒ `None`.
(Iterating a scalar entry is not reachable from a written file and is not modelled.) -/
def listParse [DecidableEq α] (c : Utf8) : Row α → Except Err (MdVal α)
  | .vec cells => do
      let l ← (cells.filter (fun x => x != .s c.empty)).mapM (cellStr c)
      pure (if l.isEmpty then .none else .list l)
  | .scalar _ => .error .other

def parserFor [DecidableEq α] (c : Utf8) (cat : String) : Row α → Except Err (MdVal α) :=
  if isSpecial cat then listParse c else generalParse c

/-- `md_dict[category] = value` -/
def setKey (e : MdE α) (k : String) (v : MdVal α) : MdE α :=
  if e.any (fun kv => kv.1 == k) then e.map (fun kv => if kv.1 == k then (k, v) else kv)
  else e ++ [(k, v)]

/-- `for md_dict, data_row in zip(md, data): md_dict[category] = parse_f(data_row)` -/
def zipUpd (k : String) : List (MdE α) → List (MdVal α) → List (MdE α)
  | e :: es, v :: vs => setKey e k v :: zipUpd k es vs
  | es, _ => es

def loadCategory [DecidableEq α] (c : Utf8) (md : List (MdE α)) (nd : String × DSet α) :
    Except Err (List (MdE α)) := do
  let cat := unsanitize nd.1
  match nd.2.data.rowsOf with
  | none => .error .other
  | some rows =>
    let vals ← rows.mapM (parserFor c cat)
    pure (zipUpd cat md vals)

def idOfCell (c : Utf8) : Cell α → Except Err String
  | .s x => c.dec x
  | _ => .error .other           -- non-bytes IDs are kept as they are by the code; not modelled

def loadGmd (c : Utf8) (nd : String × DSet α) : Except Err (String × Option String) :=
  match nd.2.data with
  | .d1 (.s x :: _) => do pure (nd.1, some (← c.dec x))
  | .d1 (_ :: _) => .ok (nd.1, none)
  | .d1 [] => .error .index
  | _ => .error .other

/-- `axis_load(grp)` -/
def axisLoad [DecidableEq α] (c : Utf8) (g : AxGrp α) :
    Except Err (List Id × Option (List (MdE α)) × List (String × Option String)) := do
  let idsDs ← reqE g.ids
  let ids ← match idsDs.data with
    | .d1 cells => cells.mapM (idOfCell c)
    | _ => .error .other
  let mdDs ← reqE g.md
  let md ← mdDs.foldlM (loadCategory c) (List.replicate ids.length [])
  let md' := if md.any (fun e => !e.isEmpty) then some md else none
  let gds ← reqE g.gmd
  let gmd ← gds.mapM (loadGmd c)
  pure (ids, md', gmd)

def loadNat : Cell α → Except Err Nat
  | .i n => if 0 ≤ n then .ok n.toNat else .error .value
  | _ => .error .type

/-- the three arrays of `h5grp[axis]['matrix']` as scipy receives them -/
def loadView (major minor : Nat) (g : Option (MatGrp α)) : Except Err (CS α) := do
  let g ← reqE g
  let arr (d : Option (DSet α)) : Except Err (List (Cell α)) := do
    let d ← reqE d
    match d.data with
    | .d1 cells => .ok cells
    | _ => .error .value
  let data ← (← arr g.data).mapM cellVal
  let indices ← (← arr g.indices).mapM loadNat
  let indptr ← (← arr g.indptr).mapM loadNat
  pure { nMajor := major, nMinor := minor, indptr := indptr, indices := indices, data := data }

/-- `Table.from_hdf5(h5grp, axis=ax)` (ids=None).  scipy's constructor refuses arrays that do not
describe a `shape` matrix (ValueError); `Table(...)` refuses ID counts that differ from the shape. -/
def fromH5 [Zero α] [DecidableEq α] (c : Utf8) (dc : DateC δ) (h : H5 α) (ax : Axis) :
    Except Err (Loaded α δ) := do
  let id ← attrStr h "id"
  let cd ← attrStr h "creation-date"
  let gb ← attrStr h "generated-by"
  let createDate : DateVal δ := match dc.parse cd with
    | some d => .date d
    | none => .text cd
  let (n, m) ← attrShape h
  let ty ← attrStr h "type"
  let ttype := if ty = "" then none else some ty
  let og ← reqE h.obs
  let (obs, omd, ogmd) ← axisLoad c og
  let sg ← reqE h.samp
  let (samp, smd, sgmd) ← axisLoad c sg
  let g ← reqE (h.ax ax)
  let rows ← match ax with
    | .obs => do
        let cs ← loadView n m g.matrix
        if cs.wfb then pure cs.toDense else .error .value
    | .samp => do
        let cs ← loadView m n g.matrix
        if cs.wfb then pure (transposeGrid n cs.toDense) else .error .value
  if obs.length = n ∧ samp.length = m then
    pure { obs := obs, samp := samp, rows := rows, omd := omd, smd := smd, ttype := ttype, tableId := id,
           generatedBy := gb, createDate := createDate, ogmd := ogmd, sgmd := sgmd }
  else .error .tableException

/-! ### the loaders -/

inductive Loader where
  | fromHdf5 | parseTable | loadTable
  deriving Repr, DecidableEq

/-- what `biom_open` finds out about the path: size 0?  gzip magic?  `h5py.is_hdf5`? -/
structure Sniff where
  empty : Bool
  gzip : Bool
  hdf5 : Bool
  deriving Repr, DecidableEq

def Sniff.written : Sniff := { empty := false, gzip := false, hdf5 := true }

/-- `parse_biom_table(handle)`: HDF5 first; a ValueError is swallowed and the JSON attempt on an
h5py handle then ends in `json.loads(<File>)`, a TypeError. -/
def parseBiomTable [Zero α] [DecidableEq α] (c : Utf8) (dc : DateC δ) (h : H5 α) (ax : Axis := .samp) :
    Except Err (Loaded α δ) :=
  match fromH5 c dc h ax with
  | .ok t => .ok t
  | .error .value => .error .type
  | .error e => .error e

/-- `load_table(path)`: `biom_open` sniffs, `parse_biom_table` parses, IndexError / TypeError become
"does not appear to be a BIOM file" (TypeError).  Text inputs are not part of this model. -/
def loadTable [Zero α] [DecidableEq α] (c : Utf8) (dc : DateC δ) (s : Sniff) (h : H5 α) : Except Err (Loaded α δ) :=
  if s.empty then .error .value
  else if s.gzip || !s.hdf5 then .error .other
  else
    match parseBiomTable c dc h with
    | .ok t => .ok t
    | .error .index => .error .type
    | .error e => .error e

def load [Zero α] [DecidableEq α] (c : Utf8) (dc : DateC δ) (s : Sniff) (l : Loader) (h : H5 α) :
    Except Err (Loaded α δ) :=
  match l with
  | .fromHdf5 => fromH5 c dc h .samp
  | .parseTable => parseBiomTable c dc h
  | .loadTable => loadTable c dc s h

end Biom.Hdf5

/-! ### the property -/
namespace Biom.C01
open Biom.Hdf5

variable {α δ : Type}

/-- metadata entry of an ID (`{}` when the axis has no metadata) -/
def entryOf (ids : List Id) (md : Option (List (MdE α))) (id : Id) : MdE α :=
  ((md.bind (fun m => lookupBy ids m id))).getD []

/-- same categories, same value in each (key order irrelevant) -/
def entryEq [DecidableEq α] (a b : MdE α) : Bool :=
  a.length == b.length && a.all (fun kv => b.lookup kv.1 == some kv.2)

def cellOf (obs samp : List Id) (rows : List (List α)) (o s : Id) : Option α :=
  (lookupBy obs rows o).bind (fun r => lookupBy samp r s)

def mdClause [DecidableEq α] (ids : List Id) (a b : Option (List (MdE α))) : Bool :=
  ids.all (fun id => entryEq (entryOf ids a id) (entryOf ids b id))

/-- the text payload of every group-metadata entry comes back (entries given as (data_type, payload)
pairs `a`, and entries the table holds as bare text `bare`) -/
def gmdClause (a : List (String × String × String)) (bare : List (String × String))
    (b : List (String × Option String)) : Bool :=
  a.length + bare.length == b.length && a.all (fun kv => b.lookup kv.1 == some (some kv.2.2)) &&
  bare.all (fun kv => b.lookup kv.1 == some (some kv.2))

/-- The clauses of the property, on a loader's result `r` for the table `t` written with
`generated_by = genBy` and (when supplied) `creation_date = date`. -/
def clauses [DecidableEq α] [DecidableEq δ] (t : Src α) (genBy : String) (date : Option δ)
    (r : Except Err (Loaded α δ)) : List (String × Bool) :=
  match r with
  | .error _ => [("no-error", false)]
  | .ok l =>
    [("observation-ids", l.obs == t.obs),
     ("sample-ids", l.samp == t.samp),
     ("shape", l.rows.length == t.obs.length && l.rows.all (fun r => r.length == t.samp.length)),
     ("values", t.obs.all (fun o => t.samp.all (fun s => cellOf l.obs l.samp l.rows o s == cellOf t.obs t.samp t.rows o s))),
     ("observation-metadata", mdClause t.obs t.omd l.omd),
     ("sample-metadata", mdClause t.samp t.smd l.smd),
     ("type", l.ttype == t.ttype),
     ("id", l.tableId == (match t.tableId with | some s => s | none => "No Table ID")),
     ("generated-by", l.generatedBy == genBy),
     ("creation-date", match date with | some d => l.createDate == .date d | none => true),
     ("observation-group-metadata", gmdClause t.ogmd t.ogmdBare l.ogmd),
     ("sample-group-metadata", gmdClause t.sgmd t.sgmdBare l.sgmd)]

def holds [DecidableEq α] [DecidableEq δ] (t : Src α) (genBy : String) (date : Option δ)
    (r : Except Err (Loaded α δ)) : Bool :=
  (clauses t genBy date r).all (·.2)

/-! ### JSON glue -/
open Codec Biom.C04

def mdValToJson : MdVal Rat → Json
  | .text s => Json.mkObj [("t", "text"), ("v", .str s)]
  | .int i => Json.mkObj [("t", "int"), ("v", .str (toString i))]
  | .float a => Json.mkObj [("t", "float"), ("v", ratToJson a)]
  | .bool b => Json.mkObj [("t", "bool"), ("v", .bool b)]
  | .list l => Json.mkObj [("t", "list"), ("v", strsToJson l)]
  | .none => Json.mkObj [("t", "none")]

/-- entries become JSON objects: key order is not compared -/
def mdToJson (md : Option (List (MdE Rat))) : Json :=
  optToJson (fun m => .arr (m.map (fun e => Json.mkObj (e.map (fun kv => (kv.1, mdValToJson kv.2))))).toArray) md

def gmdToJson (g : List (String × Option String)) : Json :=
  Json.mkObj (g.map (fun kv => (kv.1, optToJson Json.str kv.2)))

def dateToJson : DateVal String → Json
  | .date d => Json.mkObj [("date", .str d)]
  | .text s => Json.mkObj [("text", .str s)]

def loadedToJson (l : Loaded Rat String) : Json :=
  Json.mkObj [("obs", strsToJson l.obs), ("samp", strsToJson l.samp), ("rows", gridToJson l.rows),
    ("omd", mdToJson l.omd), ("smd", mdToJson l.smd), ("type", optToJson Json.str l.ttype),
    ("table_id", .str l.tableId), ("generated_by", .str l.generatedBy), ("create_date", dateToJson l.createDate),
    ("ogmd", gmdToJson l.ogmd), ("sgmd", gmdToJson l.sgmd)]

def asGmdL (j : Json) : R (String × Option String) := do
  match (← asArr j) with
  | [k, v] => pure ((← asStr k), (← asOpt asStr v))
  | _ => .error "group metadata pair expected"

def asDate (j : Json) : R (DateVal String) :=
  match optFld j "date" with
  | some d => do pure (.date (← asStr d))
  | none => do pure (.text (← strF j "text"))

def asLoaded (j : Json) : R (Loaded Rat String) := do
  pure { obs := (← listF asStr j "obs"), samp := (← listF asStr j "samp"),
         rows := (← listF (asList asRat) j "rows"),
         omd := (← optF (asList asMdE) j "omd"), smd := (← optF (asList asMdE) j "smd"),
         ttype := (← optF asStr j "type"), tableId := (← strF j "table_id"),
         generatedBy := (← strF j "generated_by"), createDate := (← asDate (← fld j "create_date")),
         ogmd := (← listF asGmdL j "ogmd"), sgmd := (← listF asGmdL j "sgmd") }

def asResult (j : Json) : R (Except Err (Loaded Rat String)) :=
  match optFld j "error" with
  | some e => do pure (.error (asErr (← asStr e)))
  | none => do pure (.ok (← asLoaded (← fld j "ok")))

def resultToJson (r : Except Err (Loaded Rat String)) : Json := exceptToJson loadedToJson r

def asLoader (s : String) : R Loader :=
  match s with
  | "from_hdf5" => pure .fromHdf5
  | "parse_table" => pure .parseTable
  | "load_table" => pure .loadTable
  | _ => .error s!"bad loader {s}"

def asAxisD (j : Json) (k : String) : R Axis :=
  match optFld j k with
  | some v => asAxis v
  | none => pure .samp

/-- request {"src", "generated_by", "date", "now", "csr", "csc", "raw"?, "loader", "axis", "sniff", "obs": result}
    → holds/clause on the loader's result; the model result `load (toH5 …)`; agreement; and, when the
    raw tree is given, `load` applied to the RAW tree as a second model result. -/
def handle (req : Json) : R Json := do
  let src ← asSrc (← fld req "src")
  if (optFld req "op").isSome then
    return Json.mkObj [("in_domain", .bool (mdDomain src.omd && mdDomain src.smd))]
  let genBy ← strF req "generated_by"
  let date ← optF asStr req "date"
  let now ← strFD req "now" ""
  let csr ← asCS (← fld req "csr")
  let csc ← asCS (← fld req "csc")
  let loader ← asLoader (← strF req "loader")
  let ax ← asAxisD req "axis"
  let sn : Sniff := match optFld req "sniff" with
    | some s => { empty := (boolFD s "empty" false).toOption.getD false, gzip := (boolFD s "gzip" false).toOption.getD false,
                  hdf5 := (boolFD s "hdf5" true).toOption.getD true }
    | none => Sniff.written
  let obs ← asResult (← fld req "obs")
  let v := firstFailing (C01.clauses src genBy date obs)
  let run (h : H5 Rat) : Except Err (Loaded Rat String) :=
    match loader, ax with
    | .fromHdf5, a => fromH5 Utf8.ident DateC.ident h a
    | .parseTable, a => parseBiomTable Utf8.ident DateC.ident h a      -- parse_table(handle, axis=a)
    | l, _ => load Utf8.ident DateC.ident sn l h
  let model : Except Err (Loaded Rat String) :=
    match toH5 Utf8.ident DateC.ident src genBy date now csr csc with
    | .ok h => run h
    | .error e => .error e
  let mj := resultToJson model
  let oj := resultToJson obs
  let rawAgree : Bool ← match optFld req "raw" with
    | some rj => do
        let raw ← asH5 rj
        pure ((resultToJson (run raw)).compress == oj.compress)
    | none => pure true
  pure (Json.mkObj (verdictToJson v ++ [("agree", .bool (mj.compress == oj.compress)),
    ("raw_agree", .bool rawAgree), ("model_holds", .bool (C01.holds src genBy date model)), ("model", mj)]))

end Biom.C01
