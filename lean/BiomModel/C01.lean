import BiomModel.Codec
open Lean
namespace Biom.C01
/-- stub: not built yet -/
def handle (_req : Json) : Codec.R Json := .error "C01: model not built yet"
end Biom.C01
