import BiomModel.Codec
open Lean
namespace Biom.C15
/-- stub: not built yet -/
def handle (_req : Json) : Codec.R Json := .error "C15: model not built yet"
end Biom.C15
