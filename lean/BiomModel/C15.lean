/-
  C15 — the validator accepts what the library writes and rejects structural corruption.

  Model of `biom/cli/table_validator.py`:
    * `TableValidator._validate_json` and every `_valid_*` it calls, over a JSON value type `J`
      (Python's `json.load` result: null / bool / int / float / str / list / dict with insertion
      order).  A Python exception (KeyError, TypeError on unpacking, AttributeError on `.lower()`,
      `reduce` of an empty sequence …) is the explicit verdict `crash`, which is NOT `valid`.
    * `_validate_hdf5` (format version 2.1, the default) over a logical tree `H5`
      (attributes, groups, datasets with length and element kind) as far as the code looks.
    * how `validate-table` turns the result into an exit status.
    * the writers (`docOf`, `h5Of`), a model of `Table.from_json` + constructor (`loadJson`),
      and a mutation grammar with `apply` / `applyH`.

  External libraries are parameters: `datetime.strptime` is the oracle `dateOk`, h5py/json are
  the decoders of the harness, numpy/scipy conversions are exact on the values used.
-/
import BiomModel.Codec
open Lean

namespace Biom.C15

/-! ## JSON values as Python sees them -/

inductive J where
  | null
  | bool (b : Bool)
  | int (i : Int)
  | flt (r : Rat)
  | str (s : String)
  | arr (l : List J)
  | obj (kvs : List (String × J))
  deriving Repr, Inhabited

mutual
def J.beq : J → J → Bool
  | .null, .null => true
  | .bool a, .bool b => a == b
  | .int a, .int b => a == b
  | .flt a, .flt b => a == b
  | .str a, .str b => a == b
  | .arr a, .arr b => J.beqL a b
  | .obj a, .obj b => J.beqO a b
  | _, _ => false
def J.beqL : List J → List J → Bool
  | [], [] => true
  | x :: xs, y :: ys => J.beq x y && J.beqL xs ys
  | _, _ => false
def J.beqO : List (String × J) → List (String × J) → Bool
  | [], [] => true
  | (k, x) :: xs, (k', y) :: ys => k == k' && J.beq x y && J.beqO xs ys
  | _, _ => false
end

mutual
theorem J.beq_eq : ∀ a b : J, J.beq a b = true ↔ a = b
  | .null, b => by cases b <;> simp [J.beq]
  | .bool a, b => by cases b <;> simp [J.beq]
  | .int a, b => by cases b <;> simp [J.beq]
  | .flt a, b => by cases b <;> simp [J.beq]
  | .str a, b => by cases b <;> simp [J.beq]
  | .arr a, b => by cases b <;> simp [J.beq, J.beqL_eq]
  | .obj a, b => by cases b <;> simp [J.beq, J.beqO_eq]
theorem J.beqL_eq : ∀ a b : List J, J.beqL a b = true ↔ a = b
  | [], b => by cases b <;> simp [J.beqL]
  | x :: xs, b => by cases b <;> simp [J.beqL, J.beq_eq, J.beqL_eq]
theorem J.beqO_eq : ∀ a b : List (String × J), J.beqO a b = true ↔ a = b
  | [], b => by cases b <;> simp [J.beqO]
  | (k, x) :: xs, b => by
    cases b with
    | nil => simp [J.beqO]
    | cons h t => obtain ⟨k', y⟩ := h; simp [J.beqO, J.beq_eq, J.beqO_eq, and_assoc]
end

instance : BEq J := ⟨J.beq⟩
instance : LawfulBEq J where
  eq_of_beq h := (J.beq_eq _ _).1 h
  rfl := (J.beq_eq _ _).2 rfl
instance : DecidableEq J := fun a b =>
  if h : J.beq a b = true then isTrue ((J.beq_eq a b).1 h)
  else isFalse (fun e => h ((J.beq_eq a b).2 e))

inductive Verdict3 where
  | valid | invalid | crash
  deriving Repr, DecidableEq, Inhabited

def Verdict3.name : Verdict3 → String
  | .valid => "valid" | .invalid => "invalid" | .crash => "crash"

/-- exit status of `biom validate-table`: 0 only for a valid table; an uncaught exception is 1 -/
def exitStatus : Verdict3 → Nat
  | .valid => 0
  | _ => 1

/-! ## Python primitives (`none` = an exception is raised) -/

/-- `bool(x)` -/
def J.truthy : J → Bool
  | .null => false
  | .bool b => b
  | .int i => i != 0
  | .flt r => r != 0
  | .str s => s.toList != []
  | .arr l => !l.isEmpty
  | .obj k => !k.isEmpty

/-- `TableValidator._is_int`: numpy integer subtype of `type(x)`; `bool` is not one -/
def J.isInt : J → Bool
  | .int _ => true
  | _ => false

def strOfChar (c : Char) : J := .str (String.singleton c)

/-- `iter(x)`: lists give elements, strings give characters, dicts give keys -/
def pyIter : J → Option (List J)
  | .arr l => some l
  | .str s => some (s.toList.map strOfChar)
  | .obj kvs => some (kvs.map (fun kv => J.str kv.1))
  | _ => none

/-- `len(x)` -/
def pyLen (j : J) : Option Nat := (pyIter j).map List.length

def infixOf (p : List Char) : List Char → Bool
  | [] => p.isEmpty
  | c :: cs => p.isPrefixOf (c :: cs) || infixOf p cs

/-- `k in x` for a text key `k` -/
def pyIn (k : String) : J → Option Bool
  | .obj kvs => some (kvs.any (fun kv => kv.1 == k))
  | .arr l => some (l.any (fun x => x == J.str k))
  | .str s => some (infixOf k.toList s.toList)
  | _ => none

/-- `x[k]` for a text key `k` -/
def getItem : J → String → Option J
  | .obj kvs, k => kvs.lookup k
  | _, _ => none

/-- `x[i]` for a position `i` -/
def pyIndex : J → Nat → Option J
  | .arr l, i => l[i]?
  | .str s, i => (s.toList[i]?).map strOfChar
  | _, _ => none

/-- `a, b = x` -/
def unpack2 (j : J) : Option (J × J) :=
  match pyIter j with
  | some [a, b] => some (a, b)
  | _ => none

/-- `len(...) != x` is `False` exactly when `x` is a number equal to the length -/
def pyEqNat (n : Nat) : J → Bool
  | .int i => i == (n : Int)
  | .flt r => r == (n : Rat)
  | .bool b => (if b then 1 else 0) == n
  | _ => false

inductive Num where
  | int (i : Int)
  | flt (r : Rat)
  deriving Repr, DecidableEq

/-- `x -= 1` -/
def sub1 : J → Option Num
  | .int i => some (.int (i - 1))
  | .flt r => some (.flt (r - 1))
  | .bool b => some (.int ((if b then 1 else 0) - 1))
  | _ => none

/-- `x > n` for an integer `x` -/
def Num.ltInt : Num → Int → Bool
  | .int i, x => decide (i < x)
  | .flt r, x => decide (r < (x : Rat))

inductive DType where
  | int | float | str
  deriving Repr, DecidableEq

/-- `TableValidator.ElementTypes` -/
def elementTypes : List (String × DType) :=
  [("int", .int), ("str", .str), ("float", .float), ("unicode", .str)]

/-- `ElementTypes[v]` (KeyError / unhashable ⇒ `none`) -/
def dtypeOf : J → Option DType
  | .str s => elementTypes.lookup s
  | _ => none

/-- `isinstance(v, dtype)`; Python's `bool` is an `int` -/
def isInst : DType → J → Bool
  | .int, .int _ => true
  | .int, .bool _ => true
  | .float, .flt _ => true
  | .str, .str _ => true
  | _, _ => false

def tableTypes : List String :=
  ["otu table", "pathway table", "function table", "ortholog table", "gene table",
   "metabolite table", "taxon table"]

/-- `s.lower() in TableTypes` (the vocabulary is ASCII, so ASCII lowering decides membership) -/
def vocabType (s : String) : Bool :=
  tableTypes.any (fun t => s.toList.map Char.toLower == t.toList)

def lowerIs (s : String) (t : String) : Bool := s.toList.map Char.toLower == t.toList

/-! ## `_validate_json` -/

abbrev KVs := List (String × J)

def formatVersion : String := "1.0.0"
def formatURL : String := "http://biom-format.org"

def validFormat (v : J) : Option Bool :=
  some (v == .str "Biological Observation Matrix 1.0.0" || v == .str "1.0.0")

def validUrl (v : J) : Option Bool := some (v == .str formatURL)

/-- `_valid_type`: null and "" give a (non-empty) remark ("" is not in the vocabulary either),
    other non-strings have no `.lower()` -/
def validType : J → Option Bool
  | .null => some false
  | .str s => some (vocabType s)
  | _ => none

/-- `key not in record` then `method(record)` -/
def checkField (r : J) (k : String) (ok : J → Bool) : Option Bool :=
  match pyIn k r with
  | none => none
  | some false => some false
  | some true =>
    match getItem r k with
    | none => none
    | some v => some (ok v)

def mdOk : J → Bool
  | .null => true
  | .obj _ => true
  | _ => false

/-- the loop of `_valid_rows` / `_valid_columns` (`seen` holds the IDs met so far) -/
def checkRecords : List J → List J → Option Bool
  | [], _ => some true
  | r :: rs, seen =>
    match checkField r "id" J.truthy with
    | none => none
    | some false => some false
    | some true =>
      match checkField r "metadata" mdOk with
      | none => none
      | some false => some false
      | some true =>
        match getItem r "id" with
        | none => none
        | some i => if seen.contains i then some false else checkRecords rs (i :: seen)

/-- `ttype = table_json.get('type'); ttype.lower()` -/
def typeLowerOk (kvs : KVs) : Bool :=
  match kvs.lookup "type" with
  | none => true
  | some .null => true
  | some (.str _) => true
  | some _ => false

def validAxis (kvs : KVs) (v : J) : Option Bool :=
  if typeLowerOk kvs then
    match pyIter v with
    | none => none
    | some l => checkRecords l []
  else none

def validShape (v : J) : Option Bool :=
  match unpack2 v with
  | none => none
  | some (a, b) => some (a.isInt && b.isInt)

/-- one entry of `_valid_sparse_data`; nothing in the loop body can raise -/
def coordOk (dt : DType) (nr nc : Num) (c : J) : Bool :=
  match pyIter c with
  | some [x, y, v] =>
    (match x, y with
     | .int xi, .int yi =>
       isInst dt v && !(decide (xi < 0) || nr.ltInt xi) && !(decide (yi < 0) || nc.ltInt yi)
     | _, _ => false)
  | _ => false

def validSparse (kvs : KVs) (d : J) : Option Bool :=
  match (kvs.lookup "matrix_element_type").bind dtypeOf with
  | none => none
  | some dt =>
    match (kvs.lookup "shape").bind unpack2 with
    | none => none
    | some (a, b) =>
      match sub1 a with
      | none => none
      | some nr =>
        match sub1 b with
        | none => none
        | some nc =>
          match pyIter d with
          | none => none
          | some l => some (l.all (coordOk dt nr nc))

/-- one row of `_valid_dense_data`: `len(row)`, then `reduce(and_, [...])` (raises on `[]`) -/
def denseRowOk (dt : DType) (c : J) (row : J) : Option Bool :=
  match pyIter row with
  | none => none
  | some els =>
    if pyEqNat els.length c then
      (if els.isEmpty then none else some (els.all (isInst dt)))
    else some false

def denseRows (dt : DType) (c : J) : List J → Option Bool
  | [] => some true
  | r :: rs =>
    match denseRowOk dt c r with
    | none => none
    | some false => some false
    | some true => denseRows dt c rs

def validDense (kvs : KVs) (d : J) : Option Bool :=
  match (kvs.lookup "matrix_element_type").bind dtypeOf with
  | none => none
  | some dt =>
    match (kvs.lookup "shape").bind unpack2 with
    | none => none
    | some (a, b) =>
      match pyIter d with
      | none => none
      | some l =>
        match denseRows dt b l with
        | none => none
        | some false => some false
        | some true => some (pyEqNat l.length a)

def validData (kvs : KVs) (d : J) : Option Bool :=
  match kvs.lookup "matrix_type" with
  | some (.str s) =>
    if lowerIs s "sparse" then validSparse kvs d
    else if lowerIs s "dense" then validDense kvs d
    else some false
  | _ => none

/-- `x not in {a set of str}`: lists and dicts are unhashable -/
def hashable : J → Bool
  | .arr _ => false
  | .obj _ => false
  | _ => true

def validMatrixType (v : J) : Option Bool :=
  if hashable v then some (v == .str "sparse" || v == .str "dense") else none

def validElemType (v : J) : Option Bool :=
  if hashable v then some (elementTypes.any (fun e => v == .str e.1)) else none

def validGeneratedBy (v : J) : Option Bool := some v.truthy

def validDate (dateOk : String → Bool) : J → Option Bool
  | .str s => some (dateOk s)
  | _ => some false

def requiredKeys : List String :=
  ["format", "format_url", "type", "rows", "columns", "shape", "data", "matrix_type",
   "matrix_element_type", "generated_by", "id", "date"]

/-- `if key not in table_json: … continue` else `method(table_json)` -/
def runKey (kvs : KVs) (k : String) (check : J → Option Bool) : Option Bool :=
  match kvs.lookup k with
  | none => some false
  | some v => check v

/-- `len(table_json[axis]) != table_json['shape'][pos]` under the two `in` guards -/
def crossCheck (kvs : KVs) (axisKey : String) (pos : Nat) : Option Bool :=
  match kvs.lookup "shape" with
  | none => some true
  | some sh =>
    match kvs.lookup axisKey with
    | none => some true
    | some ax =>
      match pyLen ax with
      | none => none
      | some n =>
        match pyIndex sh pos with
        | none => none
        | some d => some (pyEqNat n d)

/-- every check of `_validate_json`, in the order the code runs them -/
def checksOf (dateOk : String → Bool) (kvs : KVs) : List (Option Bool) :=
  [ runKey kvs "format" validFormat,
    runKey kvs "format_url" validUrl,
    runKey kvs "type" validType,
    runKey kvs "rows" (validAxis kvs),
    runKey kvs "columns" (validAxis kvs),
    runKey kvs "shape" validShape,
    runKey kvs "data" (validData kvs),
    runKey kvs "matrix_type" validMatrixType,
    runKey kvs "matrix_element_type" validElemType,
    runKey kvs "generated_by" validGeneratedBy,
    runKey kvs "id" (fun _ => some true),
    runKey kvs "date" (validDate dateOk),
    crossCheck kvs "rows" 0,
    crossCheck kvs "columns" 1 ]

/-- the first raising check aborts the run; otherwise valid iff no check left a report line -/
def verdictOf (cs : List (Option Bool)) : Verdict3 :=
  if cs.any (fun c => c.isNone) then .crash
  else if cs.all (fun c => c == some true) then .valid
  else .invalid

def reportLines (cs : List (Option Bool)) : Nat := (cs.filter (fun c => c == some false)).length

def validateJson (dateOk : String → Bool) : J → Verdict3
  | .obj kvs => verdictOf (checksOf dateOk kvs)
  | j => if requiredKeys.any (fun k => pyIn k j != some false) then .crash else .invalid

def reportLinesJson (dateOk : String → Bool) : J → Nat
  | .obj kvs => reportLines (checksOf dateOk kvs)
  | _ => requiredKeys.length

/-! ## The structural facts of a document (declarative, Bool-valued) -/

def topLookup (j : J) (k : String) : Option J :=
  match j with
  | .obj kvs => kvs.lookup k
  | _ => none

/-- the records of an axis (`rows` / `columns`) -/
def records (j : J) (axisKey : String) : List J := ((topLookup j axisKey).bind pyIter).getD []

def idsOf (j : J) (axisKey : String) : List J := (records j axisKey).filterMap (fun r => getItem r "id")

def nodupB : List J → Bool
  | [] => true
  | x :: xs => !xs.contains x && nodupB xs

def requiredKeysB (j : J) : Bool := requiredKeys.all (fun k => (topLookup j k).isSome)

def recordHasFields : J → Bool
  | .obj kv => (kv.lookup "id").isSome && (kv.lookup "metadata").isSome
  | _ => false

def recordFieldsB (j : J) : Bool :=
  (records j "rows").all recordHasFields && (records j "columns").all recordHasFields

/-- the declared shape, when it is a pair of integers -/
def declShape (j : J) : Option (Int × Int) :=
  match topLookup j "shape" with
  | some (.arr [.int r, .int c]) => some (r, c)
  | _ => none

def shapeB (j : J) : Bool :=
  match declShape j with
  | some (r, c) =>
    (match (topLookup j "rows").bind pyLen, (topLookup j "columns").bind pyLen with
     | some n, some m => (n : Int) == r && (m : Int) == c
     | _, _ => false)
  | none => false

def matrixTypeIs (j : J) (s : String) : Bool := topLookup j "matrix_type" == some (.str s)

def coordInRange (r c : Int) : J → Bool
  | .arr [.int x, .int y, _] => decide (0 ≤ x) && decide (x < r) && decide (0 ≤ y) && decide (y < c)
  | _ => false

/-- sparse: every entry is `[int, int, _]` inside the declared shape; dense: the grid has the
    declared dimensions.  (No claim when shape or data are absent: other conjuncts cover that.) -/
def coordsB (j : J) : Bool :=
  match declShape j, topLookup j "data" with
  | some (r, c), some d =>
    if matrixTypeIs j "sparse" then
      (match pyIter d with
       | some l => l.all (coordInRange r c)
       | none => false)
    else if matrixTypeIs j "dense" then
      (match pyIter d with
       | some l => ((l.length : Int) == r) && l.all (fun row => (pyLen row).map Int.ofNat == some c)
       | none => false)
    else true
  | _, _ => true

def coordValueTyped (dt : DType) (c : J) : Bool :=
  match pyIter c with
  | some [_, _, v] => isInst dt v
  | _ => true

def typedB (j : J) : Bool :=
  match (topLookup j "matrix_element_type").bind dtypeOf with
  | none => false
  | some dt =>
    match topLookup j "data" with
    | none => true
    | some d =>
      if matrixTypeIs j "sparse" then ((pyIter d).getD []).all (coordValueTyped dt)
      else if matrixTypeIs j "dense" then
        ((pyIter d).getD []).all (fun row => ((pyIter row).getD []).all (isInst dt))
      else true

def idNonEmpty (r : J) : Bool :=
  match getItem r "id" with
  | some v => v.truthy
  | none => true

def idsNonEmptyB (j : J) : Bool :=
  (records j "rows").all idNonEmpty && (records j "columns").all idNonEmpty

def idsDistinctB (j : J) : Bool := nodupB (idsOf j "rows") && nodupB (idsOf j "columns")

def mdObjOrNull (r : J) : Bool :=
  match getItem r "metadata" with
  | some v => mdOk v
  | none => true

def mdB (j : J) : Bool := (records j "rows").all mdObjOrNull && (records j "columns").all mdObjOrNull

/-- name ↦ truth of every structural conjunct, in a fixed order -/
def conjuncts (j : J) : List (String × Bool) :=
  [ ("requiredKeys", requiredKeysB j), ("recordFields", recordFieldsB j), ("shape", shapeB j),
    ("coordsInRange", coordsB j), ("elementsTyped", typedB j), ("idsNonEmpty", idsNonEmptyB j),
    ("idsDistinct", idsDistinctB j), ("mdObjOrNull", mdB j) ]

def structuralB (j : J) : Bool := (conjuncts j).all (fun p => p.2)

/-- the property's notion of a structurally corrupted document -/
def corrupt (j : J) : Bool := !structuralB j

def violated (j : J) : List String := ((conjuncts j).filter (fun p => !p.2)).map (fun p => p.1)

/-! ## The writer: the document `to_json` denotes -/

structure WTable where
  obs : List String
  samp : List String
  omd : List J
  smd : List J
  grid : List (List Rat)
  ttype : String
  tableId : String
  generatedBy : String
  date : String
  deriving Repr

def recOf (id : String) (md : J) : J := .obj [("id", .str id), ("metadata", md)]

/-- non-zero entries of row `i`, in column order starting at column `j` -/
def rowCoords (i : Nat) : Nat → List Rat → List J
  | _, [] => []
  | j, v :: vs =>
    (if v = 0 then [] else [J.arr [.int i, .int j, .flt v]]) ++ rowCoords i (j + 1) vs

def gridCoords : Nat → List (List Rat) → List J
  | _, [] => []
  | i, r :: rs => rowCoords i 0 r ++ gridCoords (i + 1) rs

def docKVs (t : WTable) : KVs :=
       [ ("id", .str t.tableId),
         ("format", .str "Biological Observation Matrix 1.0.0"),
         ("format_url", .str formatURL),
         ("matrix_type", .str "sparse"),
         ("generated_by", .str t.generatedBy),
         ("date", .str t.date),
         ("type", .str t.ttype),
         ("matrix_element_type", .str "float"),
         ("shape", .arr [.int t.obs.length, .int t.samp.length]),
         ("data", .arr (gridCoords 0 t.grid)),
         ("rows", .arr (List.zipWith recOf t.obs t.omd)),
         ("columns", .arr (List.zipWith recOf t.samp t.smd)) ]

def docOf (t : WTable) : J := .obj (docKVs t)

def strNodupB : List String → Bool
  | [] => true
  | x :: xs => !xs.contains x && strNodupB xs

/-- the writer's invariants for a table of the C01/C02 domain with a vocabulary type -/
def WTable.wfb (dateOk : String → Bool) (t : WTable) : Bool :=
  decide (1 ≤ t.obs.length) && decide (1 ≤ t.samp.length) &&
  t.grid.length == t.obs.length && t.grid.all (fun r => r.length == t.samp.length) &&
  t.omd.length == t.obs.length && t.smd.length == t.samp.length &&
  t.omd.all mdOk && t.smd.all mdOk &&
  t.obs.all (fun s => s.toList != []) && t.samp.all (fun s => s.toList != []) &&
  strNodupB t.obs && strNodupB t.samp &&
  vocabType t.ttype && t.generatedBy.toList != [] && dateOk t.date

/-! ## The loader: `Table.from_json` + constructor, as far as a validated document reaches -/

structure Loaded where
  obs : List J
  samp : List J
  grid : List (List Rat)
  deriving Repr

def numVal : J → Option Rat
  | .int i => some (i : Rat)
  | .flt r => some r
  | .bool b => some (if b then 1 else 0)
  | _ => none

/-- `[x, y, v]` with integer coordinates and a numeric value -/
def entryOf : J → Option (Int × Int × Rat)
  | .arr [.int x, .int y, v] => (numVal v).map (fun q => (x, y, q))
  | _ => none

/-- scipy COO → CSR: the cell is the sum of the entries that name it -/
def cellSum (es : List (Int × Int × Rat)) (i j : Nat) : Rat :=
  sumL ((es.filter (fun e => e.1 == (i : Int) && e.2.1 == (j : Int))).map (fun e => e.2.2))

def gridOfEntries (n m : Nat) (es : List (Int × Int × Rat)) : List (List Rat) :=
  (List.range n).map (fun i => (List.range m).map (fun j => cellSum es i j))

def entryInRange (n m : Nat) (e : Int × Int × Rat) : Bool :=
  decide (0 ≤ e.1) && decide (e.1 < (n : Int)) && decide (0 ≤ e.2.1) && decide (e.2.1 < (m : Int))

/-- `mapM` in `Option`, written out -/
def mapOpt {α β : Type} (f : α → Option β) : List α → Option (List β)
  | [] => some []
  | x :: xs =>
    match f x, mapOpt f xs with
    | some y, some ys => some (y :: ys)
    | _, _ => none

def denseRowVals : J → Option (List Rat)
  | .arr l => mapOpt numVal l
  | _ => none

/-- `MATRIX_ELEMENT_TYPE[...]` of biom/table.py -/
def loaderDtypes : List String := ["int", "float", "unicode"]

def matrixOf (n m : Nat) (dense : Bool) : J → Option (List (List Rat))
  | .arr [] => some ((List.range n).map (fun _ => (List.range m).map (fun _ => (0 : Rat))))
  | .arr l =>
    if dense then
      (match mapOpt denseRowVals l with
       | some g => if g.length == n && g.all (fun r => r.length == m) then some g else none
       | none => none)
    else
      (match mapOpt entryOf l with
       | some es => if es.all (entryInRange n m) then some (gridOfEntries n m es) else none
       | none => none)
  | .obj [] => some ((List.range n).map (fun _ => (List.range m).map (fun _ => (0 : Rat))))
  | _ => none

def loadJson (j : J) : Option Loaded :=
  match (topLookup j "columns").bind pyIter, (topLookup j "rows").bind pyIter with
  | some cols, some rows =>
    match mapOpt (fun r => getItem r "id") cols, mapOpt (fun r => getItem r "metadata") cols,
          mapOpt (fun r => getItem r "id") rows, mapOpt (fun r => getItem r "metadata") rows with
    | some sids, some smd, some oids, some omd =>
      match topLookup j "matrix_element_type", topLookup j "type", topLookup j "data",
            topLookup j "date", topLookup j "shape", topLookup j "generated_by" with
      | some (.str et), some _, some d, some _, some _, some _ =>
        if loaderDtypes.contains et && smd.all mdOk && omd.all mdOk && nodupB oids && nodupB sids then
          match matrixOf oids.length sids.length (matrixTypeIs j "dense") d with
          | some g => some { obs := oids, samp := sids, grid := g }
          | none => none
        else none
      | _, _, _, _, _, _ => none
    | _, _, _, _ => none
  | _, _ => none

def numericElem (j : J) : Bool :=
  topLookup j "matrix_element_type" == some (.str "int") ||
  topLookup j "matrix_element_type" == some (.str "float")

def isStr : J → Bool
  | .str _ => true
  | _ => false

def idsAreStrings (j : J) : Bool := (idsOf j "rows").all isStr && (idsOf j "columns").all isStr

def dataIsList (j : J) : Bool :=
  match topLookup j "data" with
  | some (.arr _) => true
  | _ => false

/-- the grid a document declares: sparse ⇒ sums of the entries, dense ⇒ the rows as written -/
def declaredGrid (j : J) (n m : Nat) : Option (List (List Rat)) :=
  match topLookup j "data" with
  | some d => matrixOf n m (matrixTypeIs j "dense") d
  | none => none

/-! ## Mutation grammar (JSON) -/

inductive AxisK where
  | rows | columns
  deriving Repr, DecidableEq

def AxisK.key : AxisK → String
  | .rows => "rows"
  | .columns => "columns"

inductive Mutation where
  | deleteKey (k : String)
  | renameKey (k k' : String)
  | setShape (r c : Int)
  | shapeRaw (v : J)
  | appendCoord (c : J)
  | setData (v : J)
  | dupId (ax : AxisK) (i j : Nat)
  | blankId (ax : AxisK) (i : Nat)
  | setId (ax : AxisK) (i : Nat) (v : J)
  | setMetadata (ax : AxisK) (i : Nat) (v : J)
  | deleteField (ax : AxisK) (i : Nat) (field : String)
  | dropRecord (ax : AxisK) (i : Nat)
  | appendRecord (ax : AxisK) (r : J)
  | swapElemType (v : J)
  | swapMatrixType (v : J)
  | corruptDate (v : J)
  | corruptFormat (v : J)
  | corruptUrl (v : J)
  | setType (v : J)
  | setGeneratedBy (v : J)
  deriving Repr

def Mutation.cls : Mutation → String
  | .deleteKey _ => "deleteKey" | .renameKey _ _ => "renameKey" | .setShape _ _ => "setShape"
  | .shapeRaw _ => "shapeRaw" | .appendCoord _ => "appendCoord" | .setData _ => "setData"
  | .dupId _ _ _ => "dupId" | .blankId _ _ => "blankId" | .setId _ _ _ => "setId"
  | .setMetadata _ _ _ => "setMetadata" | .deleteField _ _ _ => "deleteField"
  | .dropRecord _ _ => "dropRecord" | .appendRecord _ _ => "appendRecord"
  | .swapElemType _ => "swapElemType" | .swapMatrixType _ => "swapMatrixType"
  | .corruptDate _ => "corruptDate" | .corruptFormat _ => "corruptFormat"
  | .corruptUrl _ => "corruptUrl" | .setType _ => "setType" | .setGeneratedBy _ => "setGeneratedBy"

/-- `d[k] = v` -/
def setKV (kvs : KVs) (k : String) (v : J) : KVs :=
  if kvs.any (fun kv => kv.1 == k) then kvs.map (fun kv => if kv.1 == k then (k, v) else kv)
  else kvs ++ [(k, v)]

/-- `del d[k]` when present -/
def eraseK (kvs : KVs) (k : String) : KVs := kvs.filter (fun kv => kv.1 != k)

def modifyAt (f : J → J) : List J → Nat → List J
  | [], _ => []
  | x :: xs, 0 => f x :: xs
  | x :: xs, n + 1 => x :: modifyAt f xs n

def eraseAt : List J → Nat → List J
  | [], _ => []
  | _ :: xs, 0 => xs
  | x :: xs, n + 1 => x :: eraseAt xs n

def updTop (j : J) (f : KVs → KVs) : J :=
  match j with
  | .obj kvs => .obj (f kvs)
  | j => j

/-- `if k in d: d[k] = f(d[k])` -/
def updKey (j : J) (k : String) (f : J → J) : J :=
  updTop j (fun kvs => kvs.map (fun kv => if kv.1 == k then (kv.1, f kv.2) else kv))

def updList (f : List J → List J) : J → J
  | .arr l => .arr (f l)
  | v => v

def updRecord (j : J) (ax : AxisK) (i : Nat) (f : J → J) : J :=
  updKey j ax.key (updList (fun l => modifyAt f l i))

def setField (k : String) (v : J) : J → J
  | .obj kvs => .obj (setKV kvs k v)
  | r => r

def delField (k : String) : J → J
  | .obj kvs => .obj (eraseK kvs k)
  | r => r

def idAt (j : J) (ax : AxisK) (i : Nat) : Option J :=
  ((records j ax.key)[i]?).bind (fun r => getItem r "id")

def apply : Mutation → J → J
  | .deleteKey k, j => updTop j (fun kvs => eraseK kvs k)
  | .renameKey k k', j =>
    (match topLookup j k with
     | some v => updTop j (fun kvs => setKV (eraseK kvs k) k' v)
     | none => j)
  | .setShape r c, j => updTop j (fun kvs => setKV kvs "shape" (.arr [.int r, .int c]))
  | .shapeRaw v, j => updTop j (fun kvs => setKV kvs "shape" v)
  | .appendCoord c, j => updKey j "data" (updList (fun l => l ++ [c]))
  | .setData v, j => updTop j (fun kvs => setKV kvs "data" v)
  | .dupId ax i k, j =>
    (match idAt j ax i with
     | some v => updRecord j ax k (setField "id" v)
     | none => j)
  | .blankId ax i, j => updRecord j ax i (setField "id" (.str ""))
  | .setId ax i v, j => updRecord j ax i (setField "id" v)
  | .setMetadata ax i v, j => updRecord j ax i (setField "metadata" v)
  | .deleteField ax i f, j => updRecord j ax i (delField f)
  | .dropRecord ax i, j => updKey j ax.key (updList (fun l => eraseAt l i))
  | .appendRecord ax r, j => updKey j ax.key (updList (fun l => l ++ [r]))
  | .swapElemType v, j => updTop j (fun kvs => setKV kvs "matrix_element_type" v)
  | .swapMatrixType v, j => updTop j (fun kvs => setKV kvs "matrix_type" v)
  | .corruptDate v, j => updTop j (fun kvs => setKV kvs "date" v)
  | .corruptFormat v, j => updTop j (fun kvs => setKV kvs "format" v)
  | .corruptUrl v, j => updTop j (fun kvs => setKV kvs "format_url" v)
  | .setType v, j => updTop j (fun kvs => setKV kvs "type" v)
  | .setGeneratedBy v, j => updTop j (fun kvs => setKV kvs "generated_by" v)

def applyAll (ms : List Mutation) (j : J) : J := ms.foldl (fun d m => apply m d) j

/-! ## `holds` for JSON documents: stated on the real validator's verdict and the real loader's result -/

structure LoadObs where
  ok : Bool
  obs : List String
  samp : List String
  grid : List (List Rat)
  deriving Repr

structure JsonObs where
  isBase : Bool
  verdict : Verdict3
  load : Option LoadObs
  /-- for a written file: the observation and sample IDs of the table it was written from -/
  tableIds : Option (List String × List String) := none
  deriving Repr

def strIds (ids : List J) : List String := ids.filterMap (fun v => match v with | .str s => some s | _ => none)

/-- the loaded table has the declared shape, IDs and values -/
def loadMatches (j : J) (l : LoadObs) : Bool :=
  let oids := strIds (idsOf j "rows")
  let sids := strIds (idsOf j "columns")
  l.ok && l.obs == oids && l.samp == sids &&
  declShape j == some ((l.obs.length : Int), (l.samp.length : Int)) &&
  l.grid.length == l.obs.length && l.grid.all (fun r => r.length == l.samp.length) &&
  declaredGrid j oids.length sids.length == some l.grid

/-- a written file that is valid (numeric element type) loads with exactly its table's IDs -/
def tableIdsOk (tids : Option (List String × List String)) (validNumeric : Bool) (load : Option LoadObs) : Bool :=
  match tids with
  | none => true
  | some (eo, es) =>
    !validNumeric ||
      (match load with
       | some l => l.ok && l.obs == eo && l.samp == es
       | none => false)

open Codec in
def holdsJson (j : J) (o : JsonObs) : Verdict :=
  allV [
    chk "written_valid" (!o.isBase || o.verdict == .valid),
    chk "corrupt_rejected" (!(corrupt j) || o.verdict != .valid),
    chk "valid_loads"
      (!(o.verdict == .valid && numericElem j && idsAreStrings j && dataIsList j) ||
        (match o.load with
         | some l => loadMatches j l
         | none => false)),
    chk "written_loads_table_ids" (tableIdsOk o.tableIds (o.verdict == .valid && numericElem j) o.load) ]

/-! ## HDF5: the logical tree and `_validate_hdf5` (format version 2.1) -/

inductive AVal where
  | str (s : String)
  | int (i : Int)
  | real (r : Rat)
  | ints (l : List Int)
  | reals (l : List Rat)
  | other
  deriving Repr, DecidableEq

inductive DData where
  | ints (l : List Int)
  | reals (n : Nat)
  | strs (l : List String)
  | other (n : Nat)
  deriving Repr, DecidableEq

inductive Node where
  | group
  | ds (len : Option Nat) (d : DData)
  deriving Repr, DecidableEq

abbrev Path := List String

structure H5 where
  attrs : List (String × AVal)
  nodes : List (Path × Node)
  deriving Repr, DecidableEq

def H5.attr (h : H5) (k : String) : Option AVal := h.attrs.lookup k
def H5.has (h : H5) (p : Path) : Bool := h.nodes.any (fun n => n.1 == p)
def H5.get (h : H5) (p : Path) : Option Node := h.nodes.lookup p
def H5.children (h : H5) (p : Path) : List (Path × Node) :=
  h.nodes.filter (fun n => n.1 != [] && n.1.dropLast == p)

/-- `len(node)`: members of a group, first dimension of a dataset (a scalar dataset raises) -/
def H5.lenOf (h : H5) (p : Path) : Option Nat :=
  match h.get p with
  | some .group => some (h.children p).length
  | some (.ds len _) => len
  | none => none

def hUrl : AVal → Option Bool
  | .str s => some (s == formatURL)
  | _ => some false

def versionSet : List (List Rat) := [[2, 0], [2, 0, 0], [2, 1], [2, 1, 0]]

/-- `tuple(ver) not in HDF5FormatVersions` -/
def hVersion : AVal → Option Bool
  | .ints l => some (versionSet.contains (l.map (fun (i : Int) => (i : Rat))))
  | .reals l => some (versionSet.contains l)
  | .str _ => some false
  | _ => none

def hType : AVal → Option Bool
  | .str s => some (vocabType s)
  | _ => none

def unpackA : AVal → Option (AVal × AVal)
  | .ints [a, b] => some (.int a, .int b)
  | .reals [a, b] => some (.real a, .real b)
  | .str s => (match s.toList with
               | [a, b] => some (.str (String.singleton a), .str (String.singleton b))
               | _ => none)
  | _ => none

def aIsInt : AVal → Bool
  | .int _ => true
  | _ => false

def hShape (v : AVal) : Option Bool :=
  match unpackA v with
  | some (a, b) => some (aIsInt a && aIsInt b)
  | none => none

def hNnz : AVal → Option Bool
  | .int i => some (decide (0 ≤ i))
  | _ => some false

def hGeneratedBy : AVal → Option Bool
  | .str s => some (s.toList != [])
  | .int i => some (i != 0)
  | .real r => some (r != 0)
  | .ints [i] => some (i != 0)
  | .reals [r] => some (r != 0)
  | _ => none

def hDate (dateOk : String → Bool) : AVal → Option Bool
  | .str s => some (dateOk s)
  | _ => some false

def attrCheck (h : H5) (k : String) (f : AVal → Option Bool) : Option Bool :=
  match h.attr k with
  | none => some false
  | some v => f v

def requiredAttrs : List String :=
  ["format-url", "format-version", "type", "shape", "nnz", "generated-by", "id", "creation-date"]

def coreGroups : List Path :=
  [["observation"], ["sample"], ["observation", "matrix"], ["sample", "matrix"]]

def mdGroups : List Path :=
  [["observation", "metadata"], ["observation", "group-metadata"],
   ["sample", "metadata"], ["sample", "group-metadata"]]

def requiredDatasets : List Path :=
  [["observation", "ids"], ["observation", "matrix", "data"], ["observation", "matrix", "indices"],
   ["observation", "matrix", "indptr"], ["sample", "ids"], ["sample", "matrix", "data"],
   ["sample", "matrix", "indices"], ["sample", "matrix", "indptr"]]

def aEqNat (n : Nat) : AVal → Bool
  | .int i => i == (n : Int)
  | .real r => r == (n : Rat)
  | _ => false

/-- `n != len(table.get(path))` — `len(None)` raises -/
def idsLenCheck (h : H5) (p : Path) (a : AVal) : Option Bool :=
  match h.lenOf p with
  | none => none
  | some n => some (aEqNat n a)

def shapeBlock (h : H5) : List (Option Bool) :=
  match h.attr "shape" with
  | none => [some false]
  | some sv =>
    match unpackA sv with
    | none => [none]
    | some (a, b) =>
      [ idsLenCheck h ["observation", "ids"] a, idsLenCheck h ["sample", "ids"] b ]

def version21 (h : H5) : Bool := h.attr "format-version" == some (.ints [2, 1])

/-- every child of a metadata group must have one entry per ID (`len` of a scalar raises) -/
def mdLens (h : H5) (p : Path) (n : Nat) : Option Bool :=
  match h.get p with
  | some .group =>
    (h.children p).foldl (fun acc c =>
      match acc with
      | none => none
      | some false => some false
      | some true =>
        match h.lenOf c.1 with
        | none => none
        | some k => some (k == n)) (some true)
  | _ => none

/-- `_valid_hdf5_metadata_v210`: `some true` = no message -/
def mdV210 (h : H5) : Option Bool :=
  if !(mdGroups.all h.has) then some false
  else
    match h.lenOf ["observation", "ids"], h.lenOf ["sample", "ids"] with
    | some no, some ns =>
      (match mdLens h ["observation", "metadata"] no with
       | none => none
       | some false => some false
       | some true => mdLens h ["sample", "metadata"] ns)
    | _, _ => none

/-- the version block: a message (version mismatch or a failed metadata check) makes the table
    invalid (repair dd41daf0), an exception aborts -/
def versionBlock (h : H5) : Option Bool :=
  match h.attr "format-version" with
  | none => some true
  | some (.ints l) => if l == [2, 1] then mdV210 h else some false
  | some (.reals _) => some false
  | some (.str _) => some false
  | some _ => none

/-- the `format_version` argument of `validate-table` / `_validate_table` for an HDF5 file -/
inductive FV where
  | default | v21 | v210 | v20 | v200
  deriving Repr, DecidableEq

/-- `kwargs['format_version'] in ['2.0', '2.0.0']`; every other accepted spelling (None, '2.1',
    '2.1.0') takes the 2.1 branch -/
def FV.two0 : FV → Bool
  | .v20 => true
  | .v200 => true
  | _ => false

/-- `_valid_hdf5_metadata_v200` for one axis: `json.loads(table[ax].get('metadata', ["[]"])[0])`.
    Absent metadata parses; indexing a group raises TypeError; slicing a scalar dataset raises
    ValueError, which is caught and reported; other datasets are outside the enumerated domain. -/
def mdV200Axis (h : H5) (ax : String) : Option Bool :=
  match h.get [ax] with
  | some .group =>
    (match h.get [ax, "metadata"] with
     | none => some true
     | some .group => none
     | some (.ds none _) => some false
     | some (.ds (some _) _) => none)
  | _ => none

def mdV200 (h : H5) : Option Bool :=
  match mdV200Axis h "observation" with
  | none => none
  | some false => some false
  | some true => mdV200Axis h "sample"

/-- the version block when validation against 2.0 is requested -/
def versionBlock20 (h : H5) : Option Bool :=
  match h.attr "format-version" with
  | none => some true
  | some (.ints l) => if l == [2, 0] then mdV200 h else some false
  | some (.reals _) => some false
  | some (.str _) => some false
  | some _ => none

/-- the checks shared by every requested version -/
def checksCommon (dateOk : String → Bool) (h : H5) : List (Option Bool) :=
  [ attrCheck h "format-url" hUrl,
    attrCheck h "format-version" hVersion,
    attrCheck h "type" hType,
    attrCheck h "shape" hShape,
    attrCheck h "nnz" hNnz,
    attrCheck h "generated-by" hGeneratedBy,
    attrCheck h "id" (fun _ => some true),
    attrCheck h "creation-date" (hDate dateOk) ] ++
  coreGroups.map (fun p => some (h.has p)) ++
  requiredDatasets.map (fun p => some (h.has p)) ++
  shapeBlock h

/-- the checks that decide `valid_table` (requested version 2.1: None, '2.1', '2.1.0') -/
def checksH (dateOk : String → Bool) (h : H5) : List (Option Bool) :=
  checksCommon dateOk h ++ [versionBlock h]

/-- the same for a requested version 2.0 ('2.0', '2.0.0') -/
def checksH20 (dateOk : String → Bool) (h : H5) : List (Option Bool) :=
  checksCommon dateOk h ++ [versionBlock20 h]

def validateH5 (dateOk : String → Bool) (h : H5) : Verdict3 := verdictOf (checksH dateOk h)

def validateH5v20 (dateOk : String → Bool) (h : H5) : Verdict3 := verdictOf (checksH20 dateOk h)

/-- `_validate_table(path, format_version)` on an HDF5 file -/
def validateH5As (dateOk : String → Bool) (fv : FV) (h : H5) : Verdict3 :=
  if fv.two0 then validateH5v20 dateOk h else validateH5 dateOk h

def reportLinesH5 (dateOk : String → Bool) (h : H5) : Nat := reportLines (checksH dateOk h)

/-- validating against 2.0 adds the line "WARNING: 2.0 is not actively supported!" -/
def reportLinesH5As (dateOk : String → Bool) (fv : FV) (h : H5) : Nat :=
  if fv.two0 then
    reportLines (checksH20 dateOk h) + (if h.attr "format-version" == some (.ints [2, 0]) then 1 else 0)
  else reportLinesH5 dateOk h

/-! ### structural facts of an HDF5 tree -/

def attrsB (h : H5) : Bool := requiredAttrs.all (fun k => (h.attr k).isSome)
def coreGroupsB (h : H5) : Bool := coreGroups.all h.has
def mdGroupsB (h : H5) : Bool := mdGroups.all h.has
def datasetsB (h : H5) : Bool := requiredDatasets.all h.has

def shapeOfH (h : H5) : Option (Int × Int) :=
  match h.attr "shape" with
  | some (.ints [r, c]) => some (r, c)
  | _ => none

def shapeHB (h : H5) : Bool :=
  match shapeOfH h, h.lenOf ["observation", "ids"], h.lenOf ["sample", "ids"] with
  | some (r, c), some n, some m => (n : Int) == r && (m : Int) == c
  | _, _, _ => false

def intsOf (h : H5) (p : Path) : Option (List Int) :=
  match h.get p with
  | some (.ds _ (.ints l)) => some l
  | _ => none

def strsOf (h : H5) (p : Path) : Option (List String) :=
  match h.get p with
  | some (.ds _ (.strs l)) => some l
  | _ => none

/-- every stored minor index lies inside the other axis (no claim when the dataset is not integer) -/
def indicesB (h : H5) : Bool :=
  match shapeOfH h with
  | some (r, c) =>
    ((intsOf h ["observation", "matrix", "indices"]).getD []).all (fun x => decide (0 ≤ x) && decide (x < c)) &&
    ((intsOf h ["sample", "matrix", "indices"]).getD []).all (fun x => decide (0 ≤ x) && decide (x < r))
  | none => true

def kindNumeric : Node → Bool
  | .ds _ (.ints _) => true
  | .ds _ (.reals _) => true
  | _ => false

def kindInt : Node → Bool
  | .ds _ (.ints _) => true
  | _ => false

def kindStr : Node → Bool
  | .ds _ (.strs _) => true
  | _ => false

def kindIs (h : H5) (p : Path) (f : Node → Bool) : Bool :=
  match h.get p with
  | some n => f n
  | none => true

/-- matrix values numeric, indices and offsets integer, IDs text -/
def typedHB (h : H5) : Bool :=
  kindIs h ["observation", "matrix", "data"] kindNumeric && kindIs h ["sample", "matrix", "data"] kindNumeric &&
  kindIs h ["observation", "matrix", "indices"] kindInt && kindIs h ["sample", "matrix", "indices"] kindInt &&
  kindIs h ["observation", "matrix", "indptr"] kindInt && kindIs h ["sample", "matrix", "indptr"] kindInt &&
  kindIs h ["observation", "ids"] kindStr && kindIs h ["sample", "ids"] kindStr

def idsNonEmptyHB (h : H5) : Bool :=
  ((strsOf h ["observation", "ids"]).getD []).all (fun s => s.toList != []) &&
  ((strsOf h ["sample", "ids"]).getD []).all (fun s => s.toList != [])

def idsDistinctHB (h : H5) : Bool :=
  strNodupB ((strsOf h ["observation", "ids"]).getD []) && strNodupB ((strsOf h ["sample", "ids"]).getD [])

/-- in a 2.1 file per-ID metadata is a group of datasets on both axes -/
def mdKindB (h : H5) : Bool :=
  h.get ["observation", "metadata"] == some .group && h.get ["sample", "metadata"] == some .group

/-- every metadata category has one entry per ID -/
def mdLensB (h : H5) : Bool :=
  match h.lenOf ["observation", "ids"], h.lenOf ["sample", "ids"] with
  | some n, some m =>
    (h.children ["observation", "metadata"]).all (fun c => h.lenOf c.1 == some n) &&
    (h.children ["sample", "metadata"]).all (fun c => h.lenOf c.1 == some m)
  | _, _ => false

/-- conjuncts the validator enforces -/
def checkedConjunctsH (h : H5) : List (String × Bool) :=
  [ ("requiredAttrs", attrsB h), ("requiredGroups", coreGroupsB h && mdGroupsB h),
    ("requiredDatasets", datasetsB h), ("shape", shapeHB h), ("formatVersion21", version21 h),
    ("mdIsGroup", mdKindB h), ("mdLengths", mdLensB h) ]

/-- conjuncts of the property the validator does not look at (the known finding) -/
def uncheckedConjunctsH (h : H5) : List (String × Bool) :=
  [ ("indicesInRange", indicesB h), ("elementsTyped", typedHB h),
    ("idsNonEmpty", idsNonEmptyHB h), ("idsDistinct", idsDistinctHB h) ]

def version20 (h : H5) : Bool := h.attr "format-version" == some (.ints [2, 0])

/-- conjuncts enforced when validation against 2.0 is requested (2.0 metadata is optional) -/
def checkedConjunctsH20 (h : H5) : List (String × Bool) :=
  [ ("requiredAttrs", attrsB h), ("requiredGroups", coreGroupsB h),
    ("requiredDatasets", datasetsB h), ("shape", shapeHB h), ("formatVersion20", version20 h) ]

def checkedH (h : H5) : Bool := (checkedConjunctsH h).all (fun p => p.2)
def checkedH20 (h : H5) : Bool := (checkedConjunctsH20 h).all (fun p => p.2)
def checkedHAs (fv : FV) (h : H5) : Bool := if fv.two0 then checkedH20 h else checkedH h
def structuralHB (h : H5) : Bool := checkedH h && (uncheckedConjunctsH h).all (fun p => p.2)
def corruptH (h : H5) : Bool := !structuralHB h
def corruptHAs (fv : FV) (h : H5) : Bool :=
  !(checkedHAs fv h && (uncheckedConjunctsH h).all (fun p => p.2))

def violatedH (h : H5) : List String :=
  (((checkedConjunctsH h) ++ (uncheckedConjunctsH h)).filter (fun p => !p.2)).map (fun p => p.1)

def violatedHAs (fv : FV) (h : H5) : List String :=
  if fv.two0 then
    (((checkedConjunctsH20 h) ++ (uncheckedConjunctsH h)).filter (fun p => !p.2)).map (fun p => p.1)
  else violatedH h

/-! ### the writer's tree -/

def csrIndices (grid : List (List Rat)) : List Int :=
  grid.flatMap (fun r => (r.zipIdx.filter (fun p => p.1 != 0)).map (fun p => (p.2 : Int)))

def csrIndptr (grid : List (List Rat)) : List Int :=
  (grid.foldl (fun (acc : List Int × Int) r =>
    let k := acc.2 + ((r.filter (fun v => v != 0)).length : Int)
    (acc.1 ++ [k], k)) ([0], 0)).1

def nnzOf (grid : List (List Rat)) : Nat := (grid.map (fun r => (r.filter (fun v => v != 0)).length)).foldl (· + ·) 0

/-- what `to_hdf5` writes, `mdNames` being the metadata categories of each axis -/
def h5Of (t : WTable) (omdNames smdNames : List String) : H5 :=
  let gT := transposeGrid t.samp.length t.grid
  { attrs := [ ("id", .str t.tableId), ("type", .str t.ttype), ("format-url", .str formatURL),
               ("format-version", .ints [2, 1]), ("generated-by", .str t.generatedBy),
               ("creation-date", .str t.date), ("shape", .ints [t.obs.length, t.samp.length]),
               ("nnz", .int (nnzOf t.grid)) ],
    nodes :=
      [ (["observation"], .group), (["observation", "matrix"], .group),
        (["observation", "matrix", "data"], .ds (some (nnzOf t.grid)) (.reals (nnzOf t.grid))),
        (["observation", "matrix", "indices"], .ds (some (nnzOf t.grid)) (.ints (csrIndices t.grid))),
        (["observation", "matrix", "indptr"], .ds (some (t.obs.length + 1)) (.ints (csrIndptr t.grid))),
        (["observation", "ids"], .ds (some t.obs.length) (.strs t.obs)),
        (["observation", "metadata"], .group), (["observation", "group-metadata"], .group),
        (["sample"], .group), (["sample", "matrix"], .group),
        (["sample", "matrix", "data"], .ds (some (nnzOf t.grid)) (.reals (nnzOf t.grid))),
        (["sample", "matrix", "indices"], .ds (some (nnzOf t.grid)) (.ints (csrIndices gT))),
        (["sample", "matrix", "indptr"], .ds (some (t.samp.length + 1)) (.ints (csrIndptr gT))),
        (["sample", "ids"], .ds (some t.samp.length) (.strs t.samp)),
        (["sample", "metadata"], .group), (["sample", "group-metadata"], .group) ] ++
      omdNames.map (fun k => (["observation", "metadata", k], Node.ds (some t.obs.length) (.other t.obs.length))) ++
      smdNames.map (fun k => (["sample", "metadata", k], Node.ds (some t.samp.length) (.other t.samp.length))) }

/-- the shape invariants of a file `to_hdf5` writes for a table with a vocabulary type, stated on the
    tree alone (the harness evaluates this on every file the real writer produced) -/
def writerTreeB (dateOk : String → Bool) (h : H5) : Bool :=
  (match h.attr "format-url" with | some (.str s) => s == formatURL | _ => false) &&
  (h.attr "format-version" == some (.ints [2, 1])) &&
  (match h.attr "type" with | some (.str s) => vocabType s | _ => false) &&
  (match h.attr "nnz" with | some (.int i) => decide (0 ≤ i) | _ => false) &&
  (match h.attr "generated-by" with | some (.str s) => s.toList != [] | _ => false) &&
  (h.attr "id").isSome &&
  (match h.attr "creation-date" with | some (.str s) => dateOk s | _ => false) &&
  coreGroups.all h.has && mdGroups.all h.has && requiredDatasets.all h.has &&
  (match h.attr "shape", h.lenOf ["observation", "ids"], h.lenOf ["sample", "ids"] with
   | some (.ints [r, c]), some n, some m =>
     (n : Int) == r && (m : Int) == c &&
     h.get ["observation", "metadata"] == some .group && h.get ["sample", "metadata"] == some .group &&
     (h.children ["observation", "metadata"]).all (fun c => h.lenOf c.1 == some n) &&
     (h.children ["sample", "metadata"]).all (fun c => h.lenOf c.1 == some m)
   | _, _, _ => false)

/-! ### mutation grammar (HDF5) -/

inductive HAxis where
  | observation | sample
  deriving Repr, DecidableEq

def HAxis.name : HAxis → String
  | .observation => "observation"
  | .sample => "sample"

inductive HMutation where
  | deleteAttr (k : String)
  | renameAttr (k k' : String)
  | setAttr (k : String) (v : AVal)
  | deleteNode (p : Path)
  | renameNode (p : Path) (last : String)
  | setIndex (ax : HAxis) (pos : Nat) (v : Int)
  | retypeData (ax : HAxis)
  | retypeIndices (ax : HAxis)
  | dupId (ax : HAxis) (i j : Nat)
  | blankId (ax : HAxis) (i : Nat)
  | dropLastId (ax : HAxis)
  | groupToDataset (p : Path)
  | resizeDataset (p : Path) (k : Nat)
  deriving Repr

def isPrefixPath (p q : Path) : Bool := p.isPrefixOf q

def setAttrL (as : List (String × AVal)) (k : String) (v : AVal) : List (String × AVal) :=
  if as.any (fun a => a.1 == k) then as.map (fun a => if a.1 == k then (k, v) else a) else as ++ [(k, v)]

def updNode (h : H5) (p : Path) (f : Node → Node) : H5 :=
  { h with nodes := h.nodes.map (fun n => if n.1 == p then (n.1, f n.2) else n) }

def setNth {α : Type} (l : List α) (i : Nat) (v : α) : List α := l.set i v

def applyH : HMutation → H5 → H5
  | .deleteAttr k, h => { h with attrs := h.attrs.filter (fun a => a.1 != k) }
  | .renameAttr k k', h =>
    (match h.attr k with
     | some v => { h with attrs := setAttrL (h.attrs.filter (fun a => a.1 != k)) k' v }
     | none => h)
  | .setAttr k v, h => { h with attrs := setAttrL h.attrs k v }
  | .deleteNode p, h => { h with nodes := h.nodes.filter (fun n => !(isPrefixPath p n.1)) }
  | .renameNode p last, h =>
    if h.has p then
      { h with nodes := h.nodes.map (fun n =>
          if isPrefixPath p n.1 then (p.dropLast ++ [last] ++ n.1.drop p.length, n.2) else n) }
    else h
  | .setIndex ax pos v, h =>
    updNode h [ax.name, "matrix", "indices"] (fun n =>
      match n with
      | .ds len (.ints l) => .ds len (.ints (setNth l pos v))
      | n => n)
  | .retypeData ax, h =>
    updNode h [ax.name, "matrix", "data"] (fun n =>
      match n with
      | .ds len (.reals k) => .ds len (.strs (List.replicate k "x"))
      | n => n)
  | .retypeIndices ax, h =>
    updNode h [ax.name, "matrix", "indices"] (fun n =>
      match n with
      | .ds len (.ints l) => .ds len (.reals l.length)
      | n => n)
  | .dupId ax i j, h =>
    updNode h [ax.name, "ids"] (fun n =>
      match n with
      | .ds len (.strs l) => (match l[i]? with
                              | some s => .ds len (.strs (setNth l j s))
                              | none => .ds len (.strs l))
      | n => n)
  | .blankId ax i, h =>
    updNode h [ax.name, "ids"] (fun n =>
      match n with
      | .ds len (.strs l) => .ds len (.strs (setNth l i ""))
      | n => n)
  | .dropLastId ax, h =>
    updNode h [ax.name, "ids"] (fun n =>
      match n with
      | .ds (some k) (.strs l) => .ds (some (k - 1)) (.strs l.dropLast)
      | n => n)
  | .groupToDataset p, h =>
    if h.has p then
      { h with nodes := (h.nodes.filter (fun n => !(isPrefixPath p n.1))) ++ [(p, .ds none (.ints [0]))] }
    else h
  | .resizeDataset p k, h =>
    updNode h p (fun n =>
      match n with
      | .ds _ _ => .ds (some k) (.reals k)
      | n => n)

def applyAllH (ms : List HMutation) (h : H5) : H5 := ms.foldl (fun d m => applyH m d) h

structure H5Obs where
  isBase : Bool
  verdict : Verdict3
  /-- the `format_version` argument the validator was called with -/
  fv : FV := .default
  deriving Repr

open Codec in
/-- a written (2.1) file must be reported valid under every spelling that requests 2.1 -/
def holdsH5 (h : H5) (o : H5Obs) : Verdict :=
  allV [
    chk "written_valid" (!o.isBase || o.fv.two0 || o.verdict == .valid),
    chk "checked_conjunct_accepted" (checkedHAs o.fv h || o.verdict != .valid),
    chk "corrupt_rejected" (!(corruptHAs o.fv h) || o.verdict != .valid) ]

/-! ## JSON glue (untrusted by the theorems) -/
open Codec

partial def asJ (j : Json) : R J :=
  match j with
  | .null => pure .null
  | .bool b => pure (.bool b)
  | .str s => pure (.str s)
  | .num _ => do pure (.int (← j.getInt?))
  | .arr a => do pure (.arr (← a.toList.mapM asJ))
  | .obj _ =>
    match j.getObjVal? "f" with
    | .ok v => do pure (.flt (← asRat v))
    | .error _ => do
      let kvs ← listF (fun p => do
        match (← asArr p) with
        | [k, v] => pure ((← asStr k), (← asJ v))
        | _ => .error "kv pair") j "o"
      pure (.obj kvs)

partial def jToJson : J → Json
  | .null => .null
  | .bool b => .bool b
  | .int i => toJson i
  | .flt r => Json.mkObj [("f", ratToJson r)]
  | .str s => .str s
  | .arr l => .arr (l.map jToJson).toArray
  | .obj kvs => Json.mkObj [("o", .arr (kvs.map (fun kv => Json.arr #[.str kv.1, jToJson kv.2])).toArray)]

def asAxisK (j : Json) : R AxisK := do
  match (← asStr j) with
  | "rows" => pure .rows
  | "columns" => pure .columns
  | s => .error s!"bad axis {s}"

def asMutation (j : Json) : R Mutation := do
  match (← strF j "m") with
  | "deleteKey" => pure (.deleteKey (← strF j "k"))
  | "renameKey" => pure (.renameKey (← strF j "k") (← strF j "k2"))
  | "setShape" => pure (.setShape (← intF j "r") (← intF j "c"))
  | "shapeRaw" => pure (.shapeRaw (← asJ (← fld j "v")))
  | "appendCoord" => pure (.appendCoord (← asJ (← fld j "v")))
  | "setData" => pure (.setData (← asJ (← fld j "v")))
  | "dupId" => pure (.dupId (← asAxisK (← fld j "ax")) (← natF j "i") (← natF j "j"))
  | "blankId" => pure (.blankId (← asAxisK (← fld j "ax")) (← natF j "i"))
  | "setId" => pure (.setId (← asAxisK (← fld j "ax")) (← natF j "i") (← asJ (← fld j "v")))
  | "setMetadata" => pure (.setMetadata (← asAxisK (← fld j "ax")) (← natF j "i") (← asJ (← fld j "v")))
  | "deleteField" => pure (.deleteField (← asAxisK (← fld j "ax")) (← natF j "i") (← strF j "k"))
  | "dropRecord" => pure (.dropRecord (← asAxisK (← fld j "ax")) (← natF j "i"))
  | "appendRecord" => pure (.appendRecord (← asAxisK (← fld j "ax")) (← asJ (← fld j "v")))
  | "swapElemType" => pure (.swapElemType (← asJ (← fld j "v")))
  | "swapMatrixType" => pure (.swapMatrixType (← asJ (← fld j "v")))
  | "corruptDate" => pure (.corruptDate (← asJ (← fld j "v")))
  | "corruptFormat" => pure (.corruptFormat (← asJ (← fld j "v")))
  | "corruptUrl" => pure (.corruptUrl (← asJ (← fld j "v")))
  | "setType" => pure (.setType (← asJ (← fld j "v")))
  | "setGeneratedBy" => pure (.setGeneratedBy (← asJ (← fld j "v")))
  | s => .error s!"bad mutation {s}"

def asVerdict3 (s : String) : R Verdict3 :=
  match s with
  | "valid" => pure .valid
  | "invalid" => pure .invalid
  | "crash" => pure .crash
  | s => .error s!"bad verdict {s}"

def asLoadObs (j : Json) : R LoadObs := do
  match j.getObjVal? "ok" with
  | .ok t =>
    pure { ok := true, obs := (← listF asStr t "obs"), samp := (← listF asStr t "samp"),
           grid := (← listF (asList asRat) t "grid") }
  | .error _ => pure { ok := false, obs := [], samp := [], grid := [] }

def loadedToJson (l : Option Loaded) : Json :=
  match l with
  | none => Json.mkObj [("error", "raise")]
  | some t => Json.mkObj [("ok", Json.mkObj [("obs", .arr (t.obs.map jToJson).toArray),
      ("samp", .arr (t.samp.map jToJson).toArray), ("grid", gridToJson t.grid)])]

/-- equal up to the order of the top-level keys (the streamed form of the writer emits them in
    another order than the returned-string form) -/
def sameDoc (a b : J) : Bool :=
  match a, b with
  | .obj ka, .obj kb => ka.length == kb.length && ka.all (fun x => kb.contains x) && kb.all (fun x => ka.contains x)
  | a, b => a == b

def handleJson (req : Json) : R Json := do
  let doc ← asJ (← fld req "doc")
  let dOk ← boolFD req "date_ok" false
  let dateOk : String → Bool := fun _ => dOk
  let verdict ← asVerdict3 (← strF req "verdict")
  let isBase ← boolFD req "is_base" false
  let load ← optF asLoadObs req "load"
  let nlines ← optF asNat req "nlines"
  let applyAgree ←
    match optFld req "base" with
    | none => pure true
    | some b => do
      let base ← asJ b
      let ms ← listF asMutation req "muts"
      pure (applyAll ms base == doc)
  -- a written base file must be the document `docOf` denotes for the table it was written from
  let tableIds ←
    match optFld req "written_from" with
    | none => pure none
    | some w => do pure (some ((← listF asStr w "obs"), (← listF asStr w "samp")))
  let writerAgree ←
    match optFld req "written_from" with
    | none => pure true
    | some w => do
      let obs ← listF asStr w "obs"
      let samp ← listF asStr w "samp"
      let grid ← listF (asList asRat) w "rows"
      let mdOf := fun (ax : String) => (records doc ax).map (fun r => (getItem r "metadata").getD .null)
      let sOf := fun (k : String) => match topLookup doc k with | some (.str s) => s | _ => ""
      let wt : WTable := { obs, samp, omd := mdOf "rows", smd := mdOf "columns", grid,
                           ttype := sOf "type", tableId := sOf "id", generatedBy := sOf "generated_by",
                           date := sOf "date" }
      pure (sameDoc (docOf wt) doc && wt.wfb dateOk)
  let mv := validateJson dateOk doc
  let ml := reportLinesJson dateOk doc
  let mload := loadJson doc
  let h := holdsJson doc { isBase, verdict, load, tableIds }
  let linesAgree := match nlines with
    | some n => mv == .crash || n == ml
    | none => true
  let loadAgree := match load with
    | some l => l.ok == mload.isSome
    | none => true
  let agree := applyAgree && mv == verdict && linesAgree && loadAgree && writerAgree
  let what := (if applyAgree then [] else ["apply"]) ++ (if mv == verdict then [] else ["verdict"]) ++
    (if linesAgree then [] else ["report_lines"]) ++ (if loadAgree then [] else ["load"]) ++
    (if writerAgree then [] else ["writer_document"])
  pure (Json.mkObj (verdictToJson h ++ [("agree", .bool agree), ("differs", strsToJson what),
    ("model", Json.mkObj [("verdict", .str mv.name), ("nlines", toJson ml), ("exit", toJson (exitStatus mv)),
      ("corrupt", .bool (corrupt doc)), ("violated", strsToJson (violated doc)),
      ("load", loadedToJson mload)])]))

def asAVal (j : Json) : R AVal := do
  match (← strF j "t") with
  | "str" => pure (.str (← strF j "v"))
  | "int" => pure (.int (← intF j "v"))
  | "real" => pure (.real (← asRat (← fld j "v")))
  | "ints" => pure (.ints (← listF asInt j "v"))
  | "reals" => pure (.reals (← listF asRat j "v"))
  | _ => pure .other

def asDData (j : Json) : R DData := do
  match (← strF j "t") with
  | "ints" => pure (.ints (← listF asInt j "v"))
  | "reals" => pure (.reals (← natF j "n"))
  | "strs" => pure (.strs (← listF asStr j "v"))
  | _ => pure (.other (← natFD j "n" 0))

def asNode (j : Json) : R Node := do
  match (← strF j "kind") with
  | "group" => pure .group
  | _ => pure (.ds (← optF asNat j "len") (← asDData (← fld j "data")))

def asH5 (j : Json) : R H5 := do
  let attrs ← listF (fun p => do
    match (← asArr p) with
    | [k, v] => pure ((← asStr k), (← asAVal v))
    | _ => .error "attr pair") j "attrs"
  let nodes ← listF (fun p => do
    match (← asArr p) with
    | [k, v] => pure ((← asList asStr k), (← asNode v))
    | _ => .error "node pair") j "nodes"
  pure { attrs, nodes }

def asHAxis (j : Json) : R HAxis := do
  match (← asStr j) with
  | "observation" => pure .observation
  | "sample" => pure .sample
  | s => .error s!"bad axis {s}"

def asHMutation (j : Json) : R HMutation := do
  match (← strF j "m") with
  | "deleteAttr" => pure (.deleteAttr (← strF j "k"))
  | "renameAttr" => pure (.renameAttr (← strF j "k") (← strF j "k2"))
  | "setAttr" => pure (.setAttr (← strF j "k") (← asAVal (← fld j "v")))
  | "deleteNode" => pure (.deleteNode (← listF asStr j "p"))
  | "renameNode" => pure (.renameNode (← listF asStr j "p") (← strF j "last"))
  | "setIndex" => pure (.setIndex (← asHAxis (← fld j "ax")) (← natF j "pos") (← intF j "v"))
  | "retypeData" => pure (.retypeData (← asHAxis (← fld j "ax")))
  | "retypeIndices" => pure (.retypeIndices (← asHAxis (← fld j "ax")))
  | "dupId" => pure (.dupId (← asHAxis (← fld j "ax")) (← natF j "i") (← natF j "j"))
  | "blankId" => pure (.blankId (← asHAxis (← fld j "ax")) (← natF j "i"))
  | "dropLastId" => pure (.dropLastId (← asHAxis (← fld j "ax")))
  | "groupToDataset" => pure (.groupToDataset (← listF asStr j "p"))
  | "resizeDataset" => pure (.resizeDataset (← listF asStr j "p") (← natF j "k"))
  | s => .error s!"bad h5 mutation {s}"

/-- node lists are compared as sets of (path, node): h5py's visiting order is not an observation -/
def sameTree (a b : H5) : Bool :=
  a.attrs.all (fun x => b.attrs.contains x) && b.attrs.all (fun x => a.attrs.contains x) &&
  a.nodes.all (fun x => b.nodes.contains x) && b.nodes.all (fun x => a.nodes.contains x)

def handleH5 (req : Json) : R Json := do
  let tree ← asH5 (← fld req "tree")
  let dOk ← boolFD req "date_ok" false
  let dateOk : String → Bool := fun _ => dOk
  let verdict ← asVerdict3 (← strF req "verdict")
  let isBase ← boolFD req "is_base" false
  let nlines ← optF asNat req "nlines"
  let applyAgree ←
    match optFld req "base" with
    | none => pure true
    | some b => do
      let base ← asH5 b
      let ms ← listF asHMutation req "muts"
      pure (sameTree (applyAllH ms base) tree)
  let fv : FV := match optFld req "fv" with
    | some (.str "2.1") => .v21
    | some (.str "2.1.0") => .v210
    | some (.str "2.0") => .v20
    | some (.str "2.0.0") => .v200
    | _ => .default
  let mv := validateH5As dateOk fv tree
  let ml := reportLinesH5As dateOk fv tree
  let h := holdsH5 tree { isBase, verdict, fv }
  let linesAgree := match nlines with
    | some n => mv == .crash || n == ml
    | none => true
  let idsOk ←
    match optFld req "written_from" with
    | none => pure true
    | some w => do
      pure (strsOf tree ["observation", "ids"] == some (← listF asStr w "obs") &&
            strsOf tree ["sample", "ids"] == some (← listF asStr w "samp"))
  -- a file the library wrote is not corrupt by the property's own predicate (every conjunct, the
  -- unenforced ones included), and its offset arrays have one entry per ID plus one
  let layoutOk :=
    match tree.lenOf ["observation", "ids"], tree.lenOf ["sample", "ids"] with
    | some n, some m =>
      tree.lenOf ["observation", "matrix", "indptr"] == some (n + 1) &&
      tree.lenOf ["sample", "matrix", "indptr"] == some (m + 1) &&
      tree.lenOf ["observation", "matrix", "indices"] == tree.lenOf ["observation", "matrix", "data"] &&
      tree.lenOf ["sample", "matrix", "indices"] == tree.lenOf ["sample", "matrix", "data"]
    | _, _ => false
  let writerOk := (!isBase || (writerTreeB dateOk tree && structuralHB tree && layoutOk)) && idsOk
  let agree := applyAgree && mv == verdict && linesAgree && writerOk
  let what := (if applyAgree then [] else ["apply"]) ++ (if mv == verdict then [] else ["verdict"]) ++
    (if linesAgree then [] else ["report_lines"]) ++ (if writerOk then [] else ["writer_invariants"])
  pure (Json.mkObj (verdictToJson h ++ [("agree", .bool agree), ("differs", strsToJson what),
    ("model", Json.mkObj [("verdict", .str mv.name), ("nlines", toJson ml), ("exit", toJson (exitStatus mv)),
      ("corrupt", .bool (corruptHAs fv tree)), ("violated", strsToJson (violatedHAs fv tree))])]))

/-- request kinds: {"op":"json", …} and {"op":"h5", …} -/
def handle (req : Json) : R Json := do
  match (← strF req "op") with
  | "json" => handleJson req
  | "h5" => handleH5 req
  | s => .error s!"bad op {s}"

end Biom.C15
