/-
  C20 — the error-handling profile of `biom/err.py` is honoured and scoped.

  Model of: ErrorProfile.state setter (validate every keyword, then apply), seterr, seterrcall,
  ErrorProfile.test / errcheck (kinds visited in sorted order, first triggering kind decides),
  errstate (seterr on entry, `finally: seterr(**old_state)` on exit).

  A program is run against a profile and yields an *observation tree* that mirrors the program:
  what `geterr()` returned before/after every primitive, which reaction was observed, which part
  of a sequence did not run because an exception was propagating.  `holds` is a declarative
  predicate on such a tree; the harness builds the same tree from the real module.
-/
import BiomModel.Codec
open Lean

namespace Biom.C20

abbrev Kind := String
abbrev Kw := List (String × String)
/-- `geterr()`: kind ↦ reaction, in the registry's (sorted) order. -/
abbrev State := List (Kind × String)

def validReactions : List String := ["raise", "ignore", "call", "print", "warn"]

def kinds (s : State) : List Kind := s.map (·.1)

structure Profile where
  state : State
  /-- registered callbacks by id; id 0 stands for "none registered" (the default no-op) -/
  calls : List (Kind × Nat)
  deriving Repr, DecidableEq

/-- the validation loop of the `state` setter: every keyword is checked before anything changes -/
def validKw (s : State) (kw : Kw) : Bool :=
  kw.all (fun kr => validReactions.contains kr.2 && (kr.1 == "all" || (kinds s).contains kr.1))

/-- `self._state[errtype] = state` -/
def set1 (s : State) (k r : String) : State :=
  s.map (fun kr => if kr.1 = k then (kr.1, r) else kr)

/-- the apply loop of the setter: `all` overrides everything else -/
def applyKw (s : State) (kw : Kw) : State :=
  match kw.lookup "all" with
  | some r => s.map (fun kr => (kr.1, r))
  | none => kw.foldl (fun s kr => set1 s kr.1 kr.2) s

def seterr (s : State) (kw : Kw) : Option State :=
  if validKw s kw then some (applyKw s kw) else none

inductive Prog where
  | seterr (kw : Kw)
  | seterrcall (k : Kind) (cb : Nat)
  | check (trig : List Kind)      -- errcheck(item) where exactly the tests of `trig` fire on `item`
  | raise                          -- the program raises an exception of its own
  | seq (a b : Prog)
  | errstate (kw : Kw) (body : Prog)
  deriving Repr, DecidableEq

inductive Out where
  | normal | keyError | tableException | user
  deriving Repr, DecidableEq

/-- what was observed when `errcheck` ran -/
inductive Ev where
  | quiet
  | raised (k : Kind)
  | warned (k : Kind)
  | printed (k : Kind)
  | called (k : Kind) (cb : Nat)
  deriving Repr, DecidableEq

inductive Obs where
  | seterr (before after : State) (refused : Bool)
  | seterrcall (st : State) (refused : Bool)
  | check (st : State) (cb : Nat) (ev : Ev)   -- cb: callback registered for the deciding kind (0 = none)
  | raise (st : State)
  | seq (a : Obs) (b : Option Obs)
  | errstate (before : State) (entered : Option (State × Obs)) (after : State)
  deriving Repr

def Obs.out : Obs → Out
  | .seterr _ _ refused => if refused then .keyError else .normal
  | .seterrcall _ refused => if refused then .keyError else .normal
  | .check _ _ ev => match ev with | .raised _ => .tableException | _ => .normal
  | .raise _ => .user
  | .seq a none => a.out
  | .seq _ (some b) => b.out
  | .errstate _ none _ => .keyError
  | .errstate _ (some (_, body)) _ => body.out

def Obs.pre : Obs → State
  | .seterr b _ _ => b
  | .seterrcall st _ => st
  | .check st _ _ => st
  | .raise st => st
  | .seq a _ => a.pre
  | .errstate b _ _ => b

def Obs.post : Obs → State
  | .seterr _ a _ => a
  | .seterrcall st _ => st
  | .check st _ _ => st
  | .raise st => st
  | .seq a none => a.post
  | .seq _ (some b) => b.post
  | .errstate _ _ a => a

/-- `ErrorProfile.test`: kinds are visited in sorted order; the first one whose test fires decides. -/
def firstTriggered (s : State) (trig : List Kind) : Option Kind :=
  (kinds s).find? (fun k => trig.contains k)

def reactionEv (k : Kind) (r : String) (cb : Nat) : Ev :=
  if r = "raise" then .raised k
  else if r = "warn" then .warned k
  else if r = "print" then .printed k
  else if r = "call" then (if cb = 0 then .quiet else .called k cb)
  else .quiet

def react (p : Profile) (trig : List Kind) : Nat × Ev :=
  match firstTriggered p.state trig with
  | none => (0, .quiet)
  | some k =>
    let cb := (p.calls.lookup k).getD 0
    (cb, reactionEv k ((p.state.lookup k).getD "ignore") cb)

def setCall (calls : List (Kind × Nat)) (k : Kind) (cb : Nat) : List (Kind × Nat) :=
  (k, cb) :: calls.filter (fun kc => kc.1 != k)

def exec : Prog → Profile → Profile × Obs
  | .seterr kw, p =>
    match seterr p.state kw with
    | some s' => ({ p with state := s' }, .seterr p.state s' false)
    | none => (p, .seterr p.state p.state true)
  | .seterrcall k cb, p =>
    if (kinds p.state).contains k then ({ p with calls := setCall p.calls k cb }, .seterrcall p.state false)
    else (p, .seterrcall p.state true)
  | .check trig, p => let (cb, ev) := react p trig; (p, .check p.state cb ev)
  | .raise, p => (p, .raise p.state)
  | .seq a b, p =>
    let (p1, oa) := exec a p
    if oa.out = .normal then
      let (p2, ob) := exec b p1
      (p2, .seq oa (some ob))
    else (p1, .seq oa none)
  | .errstate kw body, p =>
    match seterr p.state kw with
    | none => (p, .errstate p.state none p.state)
    | some s' =>
      let (p1, ob) := exec body { p with state := s' }
      -- finally: seterr(**old_state)
      let restored := (seterr p1.state p.state).getD p1.state
      ({ p1 with state := restored }, .errstate p.state (some (s', ob)) restored)

/-! ### which kinds fire on a table (the seven registered test functions of err.py) -/

/-- the facts about a table the tests look at -/
structure Facts where
  nrows : Nat
  ncols : Nat
  obsIds : List String
  sampIds : List String
  omdLen : Option Nat       -- none = no observation metadata
  smdLen : Option Nat
  deriving Repr

def distinctCount : List String → Nat
  | [] => 0
  | a :: t => if t.contains a then distinctCount t else distinctCount t + 1

/-- `empty`: no sample ids or no observation ids; `*size`: matrix dimension ≠ number of ids;
`*dup`: matrix dimension ≠ number of distinct ids; `*mdsize`: metadata present and its length ≠ dimension -/
def firing (f : Facts) : List Kind :=
  (if f.sampIds.isEmpty || f.obsIds.isEmpty then ["empty"] else []) ++
  (if f.nrows != distinctCount f.obsIds then ["obsdup"] else []) ++
  (match f.omdLen with | some l => if f.nrows != l then ["obsmdsize"] else [] | none => []) ++
  (if f.nrows != f.obsIds.length then ["obssize"] else []) ++
  (if f.ncols != distinctCount f.sampIds then ["sampdup"] else []) ++
  (match f.smdLen with | some l => if f.ncols != l then ["sampmdsize"] else [] | none => []) ++
  (if f.ncols != f.sampIds.length then ["sampsize"] else [])

/-! ### The property, stated on observations only -/

/-- what a successful `seterr(**kw)` must leave behind, kind by kind -/
def expectedAfter (before : State) (kw : Kw) : State :=
  before.map (fun kr =>
    match kw.lookup "all" with
    | some r => (kr.1, r)
    | none => (kr.1, (kw.lookup kr.1).getD kr.2))

def holds : Prog → Obs → Bool
  | .seterr kw, .seterr before after refused =>
    -- unknown kinds or reactions are refused (and only those); a refused call changes nothing;
    -- an accepted one sets exactly the named kinds
    refused == !(validKw before kw) &&
    (if refused then after == before else after == expectedAfter before kw)
  | .seterrcall k _, .seterrcall st refused => refused == !((kinds st).contains k)
  | .check trig, .check st cb ev =>
    -- the configured reaction is what happens (stated for at most one triggering kind)
    match trig with
    | [] => ev == .quiet
    | [k] =>
      (match st.lookup k with
       | some r => ev == reactionEv k r cb
       | none => ev == .quiet)
    | _ => true
  | .raise, .raise _ => true
  | .seq a b, .seq oa ob =>
    holds a oa &&
    (match ob with
     | none => oa.out != .normal
     | some ob => oa.out == .normal && holds b ob && ob.pre == oa.post)
  | .errstate kw body, .errstate before entered after =>
    -- the previous profile is restored on exit, however the block is left
    after == before &&
    (match entered with
     | none => !(validKw before kw)
     | some (inside, ob) =>
       validKw before kw && inside == expectedAfter before kw && ob.pre == inside && holds body ob)
  | _, _ => false

/-! ### JSON glue -/
open Codec

def asKw (j : Json) : R Kw := asList (fun p => do
  match (← asArr p) with
  | [a, b] => pure ((← asStr a), (← asStr b))
  | _ => .error "kw pair") j

partial def asProg (j : Json) : R Prog := do
  match (← strF j "op") with
  | "seterr" => pure (.seterr (← asKw (← fld j "kw")))
  | "seterrcall" => pure (.seterrcall (← strF j "kind") (← natF j "cb"))
  | "check" => pure (.check (← listF asStr j "trig"))
  | "raise" => pure .raise
  | "seq" => pure (.seq (← asProg (← fld j "a")) (← asProg (← fld j "b")))
  | "errstate" => pure (.errstate (← asKw (← fld j "kw")) (← asProg (← fld j "body")))
  | s => .error s!"bad prog op {s}"

def asEv (j : Json) : R Ev := do
  match (← strF j "ev") with
  | "quiet" => pure .quiet
  | "raised" => pure (.raised (← strF j "kind"))
  | "warned" => pure (.warned (← strF j "kind"))
  | "printed" => pure (.printed (← strF j "kind"))
  | "called" => pure (.called (← strF j "kind") (← natF j "cb"))
  | s => .error s!"bad ev {s}"

partial def asObs (j : Json) : R Obs := do
  match (← strF j "op") with
  | "seterr" => pure (.seterr (← asKw (← fld j "before")) (← asKw (← fld j "after")) (← boolF j "refused"))
  | "seterrcall" => pure (.seterrcall (← asKw (← fld j "st")) (← boolF j "refused"))
  | "check" => pure (.check (← asKw (← fld j "st")) (← natF j "cb") (← asEv (← fld j "ev")))
  | "raise" => pure (.raise (← asKw (← fld j "st")))
  | "seq" => pure (.seq (← asObs (← fld j "a")) (← optF asObs j "b"))
  | "errstate" =>
    let entered ← optF (fun e => do pure ((← asKw (← fld e "inside")), (← asObs (← fld e "body")))) j "entered"
    pure (.errstate (← asKw (← fld j "before")) entered (← asKw (← fld j "after")))
  | s => .error s!"bad obs op {s}"

def kwToJson (kw : Kw) : Json := .arr (kw.map (fun (k, r) => Json.arr #[.str k, .str r])).toArray

def evToJson : Ev → Json
  | .quiet => Json.mkObj [("ev", "quiet")]
  | .raised k => Json.mkObj [("ev", "raised"), ("kind", .str k)]
  | .warned k => Json.mkObj [("ev", "warned"), ("kind", .str k)]
  | .printed k => Json.mkObj [("ev", "printed"), ("kind", .str k)]
  | .called k cb => Json.mkObj [("ev", "called"), ("kind", .str k), ("cb", toJson cb)]

partial def obsToJson : Obs → Json
  | .seterr b a r => Json.mkObj [("op", "seterr"), ("before", kwToJson b), ("after", kwToJson a), ("refused", .bool r)]
  | .seterrcall st r => Json.mkObj [("op", "seterrcall"), ("st", kwToJson st), ("refused", .bool r)]
  | .check st cb ev => Json.mkObj [("op", "check"), ("st", kwToJson st), ("cb", toJson cb), ("ev", evToJson ev)]
  | .raise st => Json.mkObj [("op", "raise"), ("st", kwToJson st)]
  | .seq a b => Json.mkObj [("op", "seq"), ("a", obsToJson a), ("b", match b with | none => .null | some b => obsToJson b)]
  | .errstate b e a => Json.mkObj [("op", "errstate"), ("before", kwToJson b),
      ("entered", match e with
        | none => .null
        | some (i, ob) => Json.mkObj [("inside", kwToJson i), ("body", obsToJson ob)]),
      ("after", kwToJson a)]

def asFacts (j : Json) : R Facts := do
  pure { nrows := (← natF j "nrows"), ncols := (← natF j "ncols"), obsIds := (← listF asStr j "obs_ids"),
         sampIds := (← listF asStr j "samp_ids"), omdLen := (← optF asNat j "omd_len"), smdLen := (← optF asNat j "smd_len") }

/-! ### The registry itself: a fresh `ErrorProfile()` under register / unregister / state= / setcall / getcall /
`in` / test.  Module-level code in err.py builds the process-wide profile with seven `register` calls; this is the
model of the class those calls go through, and of `test` when several kinds fire or `*args` restricts the kinds. -/
namespace Reg

/-- one registered kind: its current reaction and its callback (0 = none: the default no-op under 'call') -/
structure Entry where
  kind : Kind
  reaction : String
  cb : Nat
  deriving Repr, DecidableEq

/-- the three dicts of an `ErrorProfile` (they always have the same keys), in insertion order -/
abbrev Registry := List Entry

def rkinds (g : Registry) : List Kind := g.map (·.kind)
def find (g : Registry) (k : Kind) : Option Entry := g.find? (fun e => e.kind == k)

inductive Op where
  | register (k r : String) (cb : Nat)
  | unregister (k : Kind)
  | setState (kw : Kw)
  | setcall (k : Kind) (cb : Nat)
  | getcall (k : Kind)
  | contains (k : Kind)
  | test (trig args : List Kind)   -- `test(item, *args)` where exactly the tests of `trig` fire on `item`
  deriving Repr, DecidableEq

inductive Res where
  | ok | keyError | typeError
  | removed (r : String) (cb : Nat)     -- what `unregister` hands back: the state and the 'call' entry
  | cb (n : Nat)                        -- `setcall` returns the previous callback, `getcall` the current one
  | bool (b : Bool)
  | ev (e : Ev)
  deriving Repr, DecidableEq

/-- the validation loop of the `state` setter over a registry -/
def validKwR (g : Registry) (kw : Kw) : Bool :=
  kw.all (fun kr => validReactions.contains kr.2 && (kr.1 == "all" || (rkinds g).contains kr.1))

/-- the reaction a kind has after an accepted `state = kw` (kw is a dict: distinct keys; `seterr_spec` shows the
assignment loop and this closed form agree) -/
def newReaction (kw : Kw) (e : Entry) : String :=
  match kw.lookup "all" with
  | some r => r
  | none => (kw.lookup e.kind).getD e.reaction

def leStr (a b : String) : Bool := decide (a ≤ b)

/-- the loop of `ErrorProfile.test` over the sorted candidate kinds: a name that is not registered gets the
fallback `lambda: None`, which cannot be called with the item (TypeError); the first firing kind decides -/
def testLoop (g : Registry) (trig : List Kind) : List Kind → Res
  | [] => .ev .quiet
  | k :: rest =>
    match find g k with
    | none => .typeError
    | some e => if trig.contains k then .ev (reactionEv k e.reaction e.cb) else testLoop g trig rest

def candidates (g : Registry) (args : List Kind) : List Kind :=
  ((if args.isEmpty then rkinds g else args)).mergeSort leStr

def step (g : Registry) : Op → Registry × Res
  | .register k r cb =>
    if (rkinds g).contains k then (g, .keyError)
    else if !(validReactions.contains r) then (g, .keyError)
    else (g ++ [⟨k, r, cb⟩], .ok)
  | .unregister k =>
    match find g k with
    | none => (g, .keyError)
    | some e => (g.filter (fun x => x.kind != k), .removed e.reaction e.cb)
  | .setState kw =>
    if validKwR g kw then (g.map (fun e => { e with reaction := newReaction kw e }), .ok) else (g, .keyError)
  | .setcall k cb =>
    match find g k with
    | none => (g, .keyError)
    | some e => (g.map (fun x => if x.kind == k then { x with cb := cb } else x), .cb e.cb)
  | .getcall k =>
    match find g k with
    | none => (g, .keyError)
    | some e => (g, .cb e.cb)
  | .contains k => (g, .bool ((rkinds g).contains k))
  | .test trig args => (g, testLoop g trig (candidates g args))

def run (g : Registry) : List Op → Registry × List Res
  | [] => (g, [])
  | op :: ops =>
    let (g1, r) := step g op
    let (g2, rs) := run g1 ops
    (g2, r :: rs)

/-- same entries irrespective of the order in which a dict lists them -/
def sameEntries (a b : Registry) : Bool := a.length == b.length && a.all (fun e => b.contains e)

/-- The registry clauses, stated on what one call was observed to do: the registry before, the answer, the
registry after.  Nothing here mentions `step`. -/
def holdsStep (before : Registry) (op : Op) (res : Res) (after : Registry) : Bool :=
  match op with
  | .register k r cb =>
    -- refused exactly for a kind already registered or an unknown reaction, and then nothing changes;
    -- accepted: the new kind is there with the given reaction and callback, every other kind as before
    let refuse := (rkinds before).contains k || !(validReactions.contains r)
    if refuse then res == .keyError && sameEntries before after
    else res == .ok && after.length == before.length + 1 && after.contains ⟨k, r, cb⟩ &&
         before.all (fun e => after.contains e)
  | .unregister k =>
    match find before k with
    | none => res == .keyError && sameEntries before after
    | some e =>
      res == .removed e.reaction e.cb && !((rkinds after).contains k) &&
      after.length + 1 == before.length && before.all (fun x => x.kind == k || after.contains x)
  | .setState kw =>
    if validKwR before kw then
      res == .ok && after.length == before.length &&
      before.all (fun e => after.contains { e with reaction := newReaction kw e })
    else res == .keyError && sameEntries before after
  | .setcall k cb =>
    match find before k with
    | none => res == .keyError && sameEntries before after
    | some e =>
      res == .cb e.cb && after.length == before.length &&
      before.all (fun x => after.contains (if x.kind == k then { x with cb := cb } else x))
  | .getcall k =>
    sameEntries before after &&
    (match find before k with | none => res == .keyError | some e => res == .cb e.cb)
  | .contains k => sameEntries before after && res == .bool ((rkinds before).contains k)
  | .test trig args =>
    sameEntries before after &&
    (let cands := if args.isEmpty then rkinds before else args
     -- a name that is not registered among the requested kinds: outside the documented arguments, not judged
     if cands.any (fun k => !((rkinds before).contains k)) then true
     else
       let firing := cands.filter (fun k => trig.contains k)
       match res with
       | .ev ev =>
         if firing.isEmpty then ev == .quiet
         else
           -- the reaction is the configured one of a kind that fires on the item.  WHICH of several firing kinds
           -- decides (the one that sorts first: `test_least_firing_decides`) is not part of the property's text; it is
           -- compared with the model by the correspondence, not demanded here
           firing.any (fun k =>
             (match find before k with | some e => ev == reactionEv k e.reaction e.cb | none => false))
       | _ => false)

/-! the reaction table and callback table the program-level model works on, read off a registry -/


/-- the reaction table `geterr()` shows for a registry: kinds in sorted order (the order `test` visits them in) -/
def toState (g : Registry) : State :=
  ((rkinds g).mergeSort leStr).map (fun k => (k, ((find g k).map (·.reaction)).getD "ignore"))


def callsOf (g : Registry) : List (Kind × Nat) := g.map (fun e => (e.kind, e.cb))


/-- the seven `register` calls at the bottom of biom/err.py, in that order, with their default reactions -/
def moduleOps : List Op :=
  [.register "empty" "ignore" 0, .register "obssize" "raise" 0, .register "sampsize" "raise" 0,
   .register "obsdup" "raise" 0, .register "sampdup" "raise" 0, .register "obsmdsize" "raise" 0,
   .register "sampmdsize" "raise" 0]


def moduleRegistry : Registry := (run [] moduleOps).1

end Reg

/-! registry requests -/
def asEntry (j : Json) : R Reg.Entry := do
  match (← asArr j) with
  | [k, r, c] => pure ⟨(← asStr k), (← asStr r), (← asNat c)⟩
  | _ => .error "entry"

def asRegOp (j : Json) : R Reg.Op := do
  match (← strF j "op") with
  | "register" => pure (.register (← strF j "kind") (← strF j "reaction") (← natF j "cb"))
  | "unregister" => pure (.unregister (← strF j "kind"))
  | "setState" => pure (.setState (← asKw (← fld j "kw")))
  | "setcall" => pure (.setcall (← strF j "kind") (← natF j "cb"))
  | "getcall" => pure (.getcall (← strF j "kind"))
  | "contains" => pure (.contains (← strF j "kind"))
  | "test" => pure (.test (← listF asStr j "trig") (← listF asStr j "args"))
  | s => .error s!"bad registry op {s}"

def asRegRes (j : Json) : R Reg.Res := do
  match (← strF j "res") with
  | "ok" => pure .ok
  | "keyError" => pure .keyError
  | "typeError" => pure .typeError
  | "removed" => pure (.removed (← strF j "reaction") (← natF j "cb"))
  | "cb" => pure (.cb (← natF j "cb"))
  | "bool" => pure (.bool (← boolF j "value"))
  | "ev" => pure (.ev (← asEv j))
  | s => .error s!"bad registry res {s}"

def regResToJson : Reg.Res → Json
  | .ok => Json.mkObj [("res", "ok")]
  | .keyError => Json.mkObj [("res", "keyError")]
  | .typeError => Json.mkObj [("res", "typeError")]
  | .removed r c => Json.mkObj [("res", "removed"), ("reaction", .str r), ("cb", toJson c)]
  | .cb c => Json.mkObj [("res", "cb"), ("cb", toJson c)]
  | .bool b => Json.mkObj [("res", "bool"), ("value", .bool b)]
  | .ev e => (evToJson e).setObjVal! "res" "ev"

/-- {"reg": [{"before":[[k,r,cb]…], "op":…, "res":…, "after":[…]} …]}: every step is judged by `holdsStep` on what
was observed, the steps must chain, and the model is run from the first registry over the same calls -/
def handleReg (steps : List Json) : R Json := do
  let mut clause : Option String := none
  let mut agree := true
  let mut cur : Option Reg.Registry := none
  let mut mreg : Reg.Registry := []
  let mut i := 0
  let mut mres : List Json := []
  for sj in steps do
    let before ← listF asEntry sj "before"
    let after ← listF asEntry sj "after"
    let op ← asRegOp (← fld sj "op")
    let res ← asRegRes (← fld sj "res")
    if cur.isNone then mreg := before
    match cur with
    | some c => if !(Reg.sameEntries c before) && clause.isNone then clause := some s!"step {i}: registry changed between calls"
    | none => pure ()
    if !(Reg.holdsStep before op res after) && clause.isNone then
      clause := some s!"step {i}: {reprStr op |>.take 60}"
    let (m', r') := Reg.step mreg op
    if !(r' == res && Reg.sameEntries m' after) then agree := false
    mres := mres ++ [regResToJson r']
    mreg := m'
    cur := some after
    i := i + 1
  pure (Json.mkObj [("holds", .bool clause.isNone), ("clause", match clause with | some c => .str c | none => .null),
    ("agree", .bool agree), ("model", .arr mres.toArray)])

/-- request: {"prog":…, "state":[[k,r]…], "obs":…}  →  {"holds":…, "model":…, "agree":…}
    or {"facts": …} → {"firing": [kinds]} -/
def handle (req : Json) : R Json := do
  if let some fj := optFld req "facts" then
    return Json.mkObj [("firing", strsToJson (firing (← asFacts fj)))]
  if let some mj := optFld req "module_defaults" then
    -- {"order": registration order of the kinds, "state": [[kind, reaction]…] sorted by kind} of a fresh interpreter
    let order ← listF asStr mj "order"
    let st ← asKw (← fld mj "state")
    let mo := Reg.rkinds Reg.moduleRegistry
    let ms := Reg.toState Reg.moduleRegistry
    return Json.mkObj [("agree", .bool (order == mo && st == ms)), ("holds", .bool true),
      ("model", Json.mkObj [("order", strsToJson mo), ("state", kwToJson ms)])]
  if let some rj := optFld req "reg" then
    return (← handleReg (← asArr rj))
  let prog ← asProg (← fld req "prog")
  let st ← asKw (← fld req "state")
  let obs ← asObs (← fld req "obs")
  let (_, mobs) := exec prog { state := st, calls := [] }
  let mj := obsToJson mobs
  let oj := obsToJson obs
  let h := holds prog obs
  pure (Json.mkObj [("holds", .bool h), ("model_holds", .bool (holds prog mobs)),
    ("agree", .bool (mj.compress == oj.compress)), ("model", mj)])

end Biom.C20
