/-
  C20 — the error-handling profile of `biom/err.py` is honoured and scoped.

  Model of: ErrorProfile.state setter (validate every keyword, then apply), seterr, seterrcall,
  ErrorProfile.test / errcheck (kinds visited in sorted order, first triggering kind decides),
  errstate (seterr on entry, `finally: seterr(**old_state)` on exit).

  A program is run against a profile and yields an *observation tree* that mirrors the program:
  what `geterr()` returned before/after every primitive, which reaction was observed, which part
  of a sequence did not run because an exception was propagating.  `holds` is a declarative
  predicate on such a tree; the harness builds the same tree from the real module.
-/
import BiomModel.Codec
open Lean

namespace Biom.C20

abbrev Kind := String
abbrev Kw := List (String × String)
/-- `geterr()`: kind ↦ reaction, in the registry's (sorted) order. -/
abbrev State := List (Kind × String)

def validReactions : List String := ["raise", "ignore", "call", "print", "warn"]

def kinds (s : State) : List Kind := s.map (·.1)

structure Profile where
  state : State
  /-- registered callbacks by id; id 0 stands for "none registered" (the default no-op) -/
  calls : List (Kind × Nat)
  deriving Repr, DecidableEq

/-- the validation loop of the `state` setter: every keyword is checked before anything changes -/
def validKw (s : State) (kw : Kw) : Bool :=
  kw.all (fun kr => validReactions.contains kr.2 && (kr.1 == "all" || (kinds s).contains kr.1))

/-- `self._state[errtype] = state` -/
def set1 (s : State) (k r : String) : State :=
  s.map (fun kr => if kr.1 = k then (kr.1, r) else kr)

/-- the apply loop of the setter: `all` overrides everything else -/
def applyKw (s : State) (kw : Kw) : State :=
  match kw.lookup "all" with
  | some r => s.map (fun kr => (kr.1, r))
  | none => kw.foldl (fun s kr => set1 s kr.1 kr.2) s

def seterr (s : State) (kw : Kw) : Option State :=
  if validKw s kw then some (applyKw s kw) else none

inductive Prog where
  | seterr (kw : Kw)
  | seterrcall (k : Kind) (cb : Nat)
  | check (trig : List Kind)      -- errcheck(item) where exactly the tests of `trig` fire on `item`
  | raise                          -- the program raises an exception of its own
  | seq (a b : Prog)
  | errstate (kw : Kw) (body : Prog)
  deriving Repr, DecidableEq

inductive Out where
  | normal | keyError | tableException | user
  deriving Repr, DecidableEq

/-- what was observed when `errcheck` ran -/
inductive Ev where
  | quiet
  | raised (k : Kind)
  | warned (k : Kind)
  | printed (k : Kind)
  | called (k : Kind) (cb : Nat)
  deriving Repr, DecidableEq

inductive Obs where
  | seterr (before after : State) (refused : Bool)
  | seterrcall (st : State) (refused : Bool)
  | check (st : State) (cb : Nat) (ev : Ev)   -- cb: callback registered for the deciding kind (0 = none)
  | raise (st : State)
  | seq (a : Obs) (b : Option Obs)
  | errstate (before : State) (entered : Option (State × Obs)) (after : State)
  deriving Repr

def Obs.out : Obs → Out
  | .seterr _ _ refused => if refused then .keyError else .normal
  | .seterrcall _ refused => if refused then .keyError else .normal
  | .check _ _ ev => match ev with | .raised _ => .tableException | _ => .normal
  | .raise _ => .user
  | .seq a none => a.out
  | .seq _ (some b) => b.out
  | .errstate _ none _ => .keyError
  | .errstate _ (some (_, body)) _ => body.out

def Obs.pre : Obs → State
  | .seterr b _ _ => b
  | .seterrcall st _ => st
  | .check st _ _ => st
  | .raise st => st
  | .seq a _ => a.pre
  | .errstate b _ _ => b

def Obs.post : Obs → State
  | .seterr _ a _ => a
  | .seterrcall st _ => st
  | .check st _ _ => st
  | .raise st => st
  | .seq a none => a.post
  | .seq _ (some b) => b.post
  | .errstate _ _ a => a

/-- `ErrorProfile.test`: kinds are visited in sorted order; the first one whose test fires decides. -/
def firstTriggered (s : State) (trig : List Kind) : Option Kind :=
  (kinds s).find? (fun k => trig.contains k)

def reactionEv (k : Kind) (r : String) (cb : Nat) : Ev :=
  if r = "raise" then .raised k
  else if r = "warn" then .warned k
  else if r = "print" then .printed k
  else if r = "call" then (if cb = 0 then .quiet else .called k cb)
  else .quiet

def react (p : Profile) (trig : List Kind) : Nat × Ev :=
  match firstTriggered p.state trig with
  | none => (0, .quiet)
  | some k =>
    let cb := (p.calls.lookup k).getD 0
    (cb, reactionEv k ((p.state.lookup k).getD "ignore") cb)

def setCall (calls : List (Kind × Nat)) (k : Kind) (cb : Nat) : List (Kind × Nat) :=
  (k, cb) :: calls.filter (fun kc => kc.1 != k)

def exec : Prog → Profile → Profile × Obs
  | .seterr kw, p =>
    match seterr p.state kw with
    | some s' => ({ p with state := s' }, .seterr p.state s' false)
    | none => (p, .seterr p.state p.state true)
  | .seterrcall k cb, p =>
    if (kinds p.state).contains k then ({ p with calls := setCall p.calls k cb }, .seterrcall p.state false)
    else (p, .seterrcall p.state true)
  | .check trig, p => let (cb, ev) := react p trig; (p, .check p.state cb ev)
  | .raise, p => (p, .raise p.state)
  | .seq a b, p =>
    let (p1, oa) := exec a p
    if oa.out = .normal then
      let (p2, ob) := exec b p1
      (p2, .seq oa (some ob))
    else (p1, .seq oa none)
  | .errstate kw body, p =>
    match seterr p.state kw with
    | none => (p, .errstate p.state none p.state)
    | some s' =>
      let (p1, ob) := exec body { p with state := s' }
      -- finally: seterr(**old_state)
      let restored := (seterr p1.state p.state).getD p1.state
      ({ p1 with state := restored }, .errstate p.state (some (s', ob)) restored)

/-! ### which kinds fire on a table (the seven registered test functions of err.py) -/

/-- the facts about a table the tests look at -/
structure Facts where
  nrows : Nat
  ncols : Nat
  obsIds : List String
  sampIds : List String
  omdLen : Option Nat       -- none = no observation metadata
  smdLen : Option Nat
  deriving Repr

def distinctCount : List String → Nat
  | [] => 0
  | a :: t => if t.contains a then distinctCount t else distinctCount t + 1

/-- `empty`: no sample ids or no observation ids; `*size`: matrix dimension ≠ number of ids;
`*dup`: matrix dimension ≠ number of distinct ids; `*mdsize`: metadata present and its length ≠ dimension -/
def firing (f : Facts) : List Kind :=
  (if f.sampIds.isEmpty || f.obsIds.isEmpty then ["empty"] else []) ++
  (if f.nrows != distinctCount f.obsIds then ["obsdup"] else []) ++
  (match f.omdLen with | some l => if f.nrows != l then ["obsmdsize"] else [] | none => []) ++
  (if f.nrows != f.obsIds.length then ["obssize"] else []) ++
  (if f.ncols != distinctCount f.sampIds then ["sampdup"] else []) ++
  (match f.smdLen with | some l => if f.ncols != l then ["sampmdsize"] else [] | none => []) ++
  (if f.ncols != f.sampIds.length then ["sampsize"] else [])

/-! ### The property, stated on observations only -/

/-- what a successful `seterr(**kw)` must leave behind, kind by kind -/
def expectedAfter (before : State) (kw : Kw) : State :=
  before.map (fun kr =>
    match kw.lookup "all" with
    | some r => (kr.1, r)
    | none => (kr.1, (kw.lookup kr.1).getD kr.2))

def holds : Prog → Obs → Bool
  | .seterr kw, .seterr before after refused =>
    -- unknown kinds or reactions are refused (and only those); a refused call changes nothing;
    -- an accepted one sets exactly the named kinds
    refused == !(validKw before kw) &&
    (if refused then after == before else after == expectedAfter before kw)
  | .seterrcall k _, .seterrcall st refused => refused == !((kinds st).contains k)
  | .check trig, .check st cb ev =>
    -- the configured reaction is what happens (stated for at most one triggering kind)
    match trig with
    | [] => ev == .quiet
    | [k] =>
      (match st.lookup k with
       | some r => ev == reactionEv k r cb
       | none => ev == .quiet)
    | _ => true
  | .raise, .raise _ => true
  | .seq a b, .seq oa ob =>
    holds a oa &&
    (match ob with
     | none => oa.out != .normal
     | some ob => oa.out == .normal && holds b ob && ob.pre == oa.post)
  | .errstate kw body, .errstate before entered after =>
    -- the previous profile is restored on exit, however the block is left
    after == before &&
    (match entered with
     | none => !(validKw before kw)
     | some (inside, ob) =>
       validKw before kw && inside == expectedAfter before kw && ob.pre == inside && holds body ob)
  | _, _ => false

/-! ### JSON glue -/
open Codec

def asKw (j : Json) : R Kw := asList (fun p => do
  match (← asArr p) with
  | [a, b] => pure ((← asStr a), (← asStr b))
  | _ => .error "kw pair") j

partial def asProg (j : Json) : R Prog := do
  match (← strF j "op") with
  | "seterr" => pure (.seterr (← asKw (← fld j "kw")))
  | "seterrcall" => pure (.seterrcall (← strF j "kind") (← natF j "cb"))
  | "check" => pure (.check (← listF asStr j "trig"))
  | "raise" => pure .raise
  | "seq" => pure (.seq (← asProg (← fld j "a")) (← asProg (← fld j "b")))
  | "errstate" => pure (.errstate (← asKw (← fld j "kw")) (← asProg (← fld j "body")))
  | s => .error s!"bad prog op {s}"

def asEv (j : Json) : R Ev := do
  match (← strF j "ev") with
  | "quiet" => pure .quiet
  | "raised" => pure (.raised (← strF j "kind"))
  | "warned" => pure (.warned (← strF j "kind"))
  | "printed" => pure (.printed (← strF j "kind"))
  | "called" => pure (.called (← strF j "kind") (← natF j "cb"))
  | s => .error s!"bad ev {s}"

partial def asObs (j : Json) : R Obs := do
  match (← strF j "op") with
  | "seterr" => pure (.seterr (← asKw (← fld j "before")) (← asKw (← fld j "after")) (← boolF j "refused"))
  | "seterrcall" => pure (.seterrcall (← asKw (← fld j "st")) (← boolF j "refused"))
  | "check" => pure (.check (← asKw (← fld j "st")) (← natF j "cb") (← asEv (← fld j "ev")))
  | "raise" => pure (.raise (← asKw (← fld j "st")))
  | "seq" => pure (.seq (← asObs (← fld j "a")) (← optF asObs j "b"))
  | "errstate" =>
    let entered ← optF (fun e => do pure ((← asKw (← fld e "inside")), (← asObs (← fld e "body")))) j "entered"
    pure (.errstate (← asKw (← fld j "before")) entered (← asKw (← fld j "after")))
  | s => .error s!"bad obs op {s}"

def kwToJson (kw : Kw) : Json := .arr (kw.map (fun (k, r) => Json.arr #[.str k, .str r])).toArray

def evToJson : Ev → Json
  | .quiet => Json.mkObj [("ev", "quiet")]
  | .raised k => Json.mkObj [("ev", "raised"), ("kind", .str k)]
  | .warned k => Json.mkObj [("ev", "warned"), ("kind", .str k)]
  | .printed k => Json.mkObj [("ev", "printed"), ("kind", .str k)]
  | .called k cb => Json.mkObj [("ev", "called"), ("kind", .str k), ("cb", toJson cb)]

partial def obsToJson : Obs → Json
  | .seterr b a r => Json.mkObj [("op", "seterr"), ("before", kwToJson b), ("after", kwToJson a), ("refused", .bool r)]
  | .seterrcall st r => Json.mkObj [("op", "seterrcall"), ("st", kwToJson st), ("refused", .bool r)]
  | .check st cb ev => Json.mkObj [("op", "check"), ("st", kwToJson st), ("cb", toJson cb), ("ev", evToJson ev)]
  | .raise st => Json.mkObj [("op", "raise"), ("st", kwToJson st)]
  | .seq a b => Json.mkObj [("op", "seq"), ("a", obsToJson a), ("b", match b with | none => .null | some b => obsToJson b)]
  | .errstate b e a => Json.mkObj [("op", "errstate"), ("before", kwToJson b),
      ("entered", match e with
        | none => .null
        | some (i, ob) => Json.mkObj [("inside", kwToJson i), ("body", obsToJson ob)]),
      ("after", kwToJson a)]

def asFacts (j : Json) : R Facts := do
  pure { nrows := (← natF j "nrows"), ncols := (← natF j "ncols"), obsIds := (← listF asStr j "obs_ids"),
         sampIds := (← listF asStr j "samp_ids"), omdLen := (← optF asNat j "omd_len"), smdLen := (← optF asNat j "smd_len") }

/-- request: {"prog":…, "state":[[k,r]…], "obs":…}  →  {"holds":…, "model":…, "agree":…}
    or {"facts": …} → {"firing": [kinds]} -/
def handle (req : Json) : R Json := do
  if let some fj := optFld req "facts" then
    return Json.mkObj [("firing", strsToJson (firing (← asFacts fj)))]
  let prog ← asProg (← fld req "prog")
  let st ← asKw (← fld req "state")
  let obs ← asObs (← fld req "obs")
  let (_, mobs) := exec prog { state := st, calls := [] }
  let mj := obsToJson mobs
  let oj := obsToJson obs
  let h := holds prog obs
  pure (Json.mkObj [("holds", .bool h), ("model_holds", .bool (holds prog mobs)),
    ("agree", .bool (mj.compress == oj.compress)), ("model", mj)])

end Biom.C20
