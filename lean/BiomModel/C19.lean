import BiomModel.Codec
open Lean
namespace Biom.C19
/-- stub: not built yet -/
def handle (_req : Json) : Codec.R Json := .error "C19: model not built yet"
end Biom.C19
