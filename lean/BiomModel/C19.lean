/-
  C19 — summaries and exports report the numbers that are in the matrix.

  Model of: Table.sum / min / max / nonzero_counts / get_table_density / reduce / nonzero /
  to_dataframe / metadata_to_dataframe / head (biom/table.py), compute_counts_per_sample_stats
  (biom/util.py), _summarize_table (biom/cli/table_summarizer.py), table-ids, head,
  export-metadata (biom/cli).

  Two layers.  The *specification side* is a handful of direct functions of the dense grid
  (`total`, `cntNZ`, `minNZ`, `specDensity`, `specCounts`, …) reached through lookups by ID
  (`vecOf?`, `Table.cell?`).  The *model side* follows the code: which scipy axis a name maps to,
  per-vector iteration, the stored values of each vector of the CSR/CSC view for min/max/nonzero/
  nnz, the dict built by the statistics helper, the transposition done by `--observations`, the
  sort of the detail lines.  `holds…` predicates are stated on observations with the
  specification side only.
-/
import BiomModel.Codec
open Lean

namespace Biom.C19

abbrev Grid := List (List Rat)

/-! ## Specification side: direct functions of the dense grid -/

def nzVals (v : List Rat) : List Rat := v.filter (fun x => x ≠ 0)
/-- number of non-zero cells of a vector -/
def cntNZ (v : List Rat) : Nat := (nzVals v).length

def minL? : List Rat → Option Rat
  | [] => none
  | x :: xs => some (xs.foldl min x)

def maxL? : List Rat → Option Rat
  | [] => none
  | x :: xs => some (xs.foldl max x)

/-- minimum / maximum of the non-zero values of a vector (`none`: no non-zero value) -/
def minNZ (v : List Rat) : Option Rat := minL? (nzVals v)
def maxNZ (v : List Rat) : Option Rat := maxL? (nzVals v)

/-- Σ of all cells, row by row -/
def total (g : Grid) : Rat := (g.map List.sum).sum
/-- number of non-zero cells -/
def nnzCells (g : Grid) : Nat := (g.map cntNZ).sum

/-- the vector of an ID: the row / the column standing where the ID stands -/
def vecOf? (t : Table Rat) : Axis → Id → Option (List Rat)
  | .obs, id => t.row? id
  | .samp, id => lookupBy t.samp (transposeGrid t.samp.length t.rows) id

/-- `f` of the vector of every ID of an axis, in ID order -/
def perId {β : Type} (t : Table Rat) (ax : Axis) (f : List Rat → β) : List (Option β) :=
  (t.ids ax).map (fun id => (vecOf? t ax id).map f)

def specDensity (t : Table Rat) : Rat :=
  if t.obs.length = 0 ∨ t.samp.length = 0 then 0
  else (nnzCells t.rows : Rat) / ((t.samp.length * t.obs.length : Nat) : Rat)

/-- the per-vector count of the statistics helper: number of non-zero entries, or the sum -/
def countOf (binary : Bool) (v : List Rat) : Rat := if binary then (cntNZ v : Rat) else v.sum

def insertR (x : Rat) : List Rat → List Rat
  | [] => [x]
  | y :: ys => if x ≤ y then x :: y :: ys else y :: insertR x ys

def isort (l : List Rat) : List Rat := l.foldr insertR []

/-- median of a list of numbers (0 for the empty list, as the helper returns) -/
def median (c : List Rat) : Rat :=
  let s := isort c
  let n := s.length
  if n % 2 = 1 then s.getD (n / 2) 0 else (s.getD (n / 2 - 1) 0 + s.getD (n / 2) 0) / 2

def mean (c : List Rat) : Rat := c.sum / (c.length : Rat)

/-- population variance (numpy `std` with ddof = 0, squared) -/
def variance (c : List Rat) : Rat :=
  (c.map (fun x => (x - mean c) * (x - mean c))).sum / (c.length : Rat)

/-! ## Model side -/

/-- the table as the library holds it: content plus the two compressed views of `_data` -/
structure Input where
  t : Table Rat
  csr : CS Rat
  csc : CS Rat
  deriving Repr

/-- what the row view must satisfy (scipy's structural invariant, same content, and — since the
constructor eliminates them — no stored zero) -/
structure ViewOK (cs : CS Rat) (nMajor nMinor : Nat) (dense : Grid) : Prop where
  wf : cs.WF
  nMaj : cs.nMajor = nMajor
  nMin : cs.nMinor = nMinor
  content : cs.toDense = dense
  nsz : cs.NoStoredZeros

def nszb (cs : CS Rat) : Bool := cs.data.all (fun v => v != 0)

def viewOKb (cs : CS Rat) (nMajor nMinor : Nat) (dense : Grid) : Bool :=
  cs.wfb && cs.nMajor == nMajor && cs.nMinor == nMinor && cs.toDense == dense && nszb cs

def Input.rowOK (inp : Input) : Prop :=
  ViewOK inp.csr inp.t.obs.length inp.t.samp.length inp.t.rows
def Input.colOK (inp : Input) : Prop :=
  ViewOK inp.csc inp.t.samp.length inp.t.obs.length (transposeGrid inp.t.samp.length inp.t.rows)

def Input.okb (inp : Input) : Bool :=
  viewOKb inp.csr inp.t.obs.length inp.t.samp.length inp.t.rows &&
  viewOKb inp.csc inp.t.samp.length inp.t.obs.length (transposeGrid inp.t.samp.length inp.t.rows)

/-- `Table.transpose`: IDs and metadata swap, `_data.transpose()` turns the CSR view into the CSC
view of the result and vice versa -/
def Input.transpose (inp : Input) : Input :=
  { t := inp.t.transpose, csr := inp.csc, csc := inp.csr }

/-- dense vectors handed out by `iter_data(axis=…)` / `iter(axis=…)` -/
def iterData (t : Table Rat) : Axis → Grid
  | .obs => t.rows
  | .samp => (List.range t.samp.length).map (colAt t.rows)

/-- stored values of every major vector: what `iter_data(dense=False)` exposes as `.data` -/
def storedVals (cs : CS Rat) : Grid :=
  (List.range cs.nMajor).map (fun i => (cs.slice i).map (·.2))

def Input.view (inp : Input) : Axis → CS Rat
  | .obs => inp.csr
  | .samp => inp.csc

inductive Query where
  | sum (ax : Option Axis)
  | min (ax : Option Axis)
  | max (ax : Option Axis)
  | nzc (ax : Option Axis) (binary : Bool)
  | density
  | nnz
  | reduce (f : String) (ax : Axis)
  deriving Repr, DecidableEq

inductive Ans where
  | num (x : Rat)
  | nums (xs : List Rat)
  | inf (neg : Bool)
  | err (e : Err)
  deriving Repr, DecidableEq

/-- `sum`: axis name → scipy axis -/
def scipyAxis : Option Axis → Option Nat
  | none => none
  | some .samp => some 0
  | some .obs => some 1

/-- scipy's `sum(axis)` on the dense content: `None` everything, 0 collapses the rows (one figure
per column), 1 collapses the columns (one figure per row) -/
def spSum (nCols : Nat) (g : Grid) : Option Nat → List Rat
  | none => [total g]
  | some 0 => (List.range nCols).map (fun j => (colAt g j).sum)
  | some _ => g.map List.sum

def sumM (t : Table Rat) (ax : Option Axis) : Ans :=
  match ax, spSum t.samp.length t.rows (scipyAxis ax) with
  | none, [x] => .num x
  | none, _ => .err .other
  | some _, xs => .nums xs

def mapE {α β : Type} (f : α → Except Err β) : List α → Except Err (List β)
  | [] => .ok []
  | a :: as =>
    match f a with
    | .error e => .error e
    | .ok b =>
      match mapE f as with
      | .error e => .error e
      | .ok bs => .ok (b :: bs)

/-- numpy `.min()` of an array: refuses the empty array -/
def npMin : List Rat → Except Err Rat
  | [] => .error .value
  | x :: xs => .ok (xs.foldl min x)

def npMax : List Rat → Except Err Rat
  | [] => .error .value
  | x :: xs => .ok (xs.foldl max x)

def extremeM (red : List Rat → Except Err Rat) (comb : Rat → Rat → Rat) (neg : Bool)
    (inp : Input) : Option Axis → Ans
  | some a =>
    match mapE red (storedVals (inp.view a)) with
    | .ok xs => .nums xs
    | .error e => .err e
  | none =>
    -- 'whole' walks the sample vectors, starting from ±inf
    match mapE red (storedVals inp.csc) with
    | .error e => .err e
    | .ok [] => .inf neg
    | .ok (m :: ms) => .num (ms.foldl comb m)

def minM := extremeM npMin min false
def maxM := extremeM npMax max true

def opNZ (binary : Bool) (v : List Rat) : Rat := if binary then (cntNZ v : Rat) else v.sum

def nzcM (t : Table Rat) (ax : Option Axis) (binary : Bool) : Ans :=
  match ax with
  | some a => .nums ((iterData t a).map (opNZ binary))
  | none => .nums [((iterData t .samp).map (opNZ binary)).foldl (· + ·) 0]

/-- `nnz` of a compressed matrix without stored zeros: the last `indptr` entry -/
def nnzM (cs : CS Rat) : Nat := cs.indptr.getD cs.nMajor 0

def densityM (inp : Input) : Rat :=
  if inp.t.samp.length = 0 ∨ inp.t.obs.length = 0 then 0
  else (nnzM inp.csr : Rat) / ((inp.t.samp.length * inp.t.obs.length : Nat) : Rat)

/-- the named family of reduce functions used by the correspondence (theorems: every function) -/
def redF : String → Rat → Rat → Rat
  | "add" => fun a b => a + b
  | "sub" => fun a b => a - b
  | "max" => fun a b => max a b
  | "last" => fun _ b => b
  | "affine" => fun a b => 2 * a + b
  | _ => fun a _ => a

/-- `functools.reduce(f, v)` without initial value -/
def reduce1 (f : Rat → Rat → Rat) : List Rat → Except Err Rat
  | [] => .error .type
  | x :: xs => .ok (xs.foldl f x)

def reduceM (t : Table Rat) (f : Rat → Rat → Rat) (ax : Axis) : Ans :=
  if t.samp.length = 0 ∨ t.obs.length = 0 then .err .tableException
  else
    match mapE (reduce1 f) (iterData t ax) with
    | .ok xs => .nums xs
    | .error e => .err e

def answerF (inp : Input) (f : Rat → Rat → Rat) : Query → Ans
  | .sum ax => sumM inp.t ax
  | .min ax => minM inp ax
  | .max ax => maxM inp ax
  | .nzc ax b => nzcM inp.t ax b
  | .density => .num (densityM inp)
  | .nnz => .num (nnzM inp.csr : Rat)
  | .reduce _ ax => reduceM inp.t f ax

def qFun : Query → Rat → Rat → Rat
  | .reduce f _ => redF f
  | _ => fun a _ => a

def answer (inp : Input) (q : Query) : Ans := answerF inp (qFun q) q

/-- `nonzero()`: walks the CSR view, one (observation ID, sample ID) per stored entry -/
def nonzeroM (inp : Input) : Except Err (List (Id × Id)) :=
  (List.range inp.csr.nMajor).foldr (fun i acc => do
      let rest ← acc
      let o ← getE inp.t.obs i
      let ps ← mapE (fun (e : Nat × Rat) => do let s ← getE inp.t.samp e.1; pure (o, s)) (inp.csr.slice i)
      pure (ps ++ rest)) (.ok [])

/-! ### the statistics helper and the report -/

/-- `d[k] = v` on an insertion-ordered dict -/
def dictSet (d : List (Id × Rat)) (k : Id) (v : Rat) : List (Id × Rat) :=
  if d.any (fun e => e.1 == k) then d.map (fun e => if e.1 == k then (k, v) else e) else d ++ [(k, v)]

def buildDict (kvs : List (Id × Rat)) : List (Id × Rat) :=
  kvs.foldl (fun d kv => dictSet d kv.1 kv.2) []

structure Stats where
  min : Rat
  max : Rat
  median : Rat
  mean : Rat
  counts : List (Id × Rat)
  deriving Repr, DecidableEq

def statsM (t : Table Rat) (binary : Bool) : Stats :=
  let d := buildDict (t.samp.zip ((iterData t .samp).map (countOf binary)))
  let c := d.map (·.2)
  match c with
  | [] => { min := 0, max := 0, median := 0, mean := 0, counts := d }
  | x :: xs => { min := xs.foldl min x, max := xs.foldl max x, median := median c, mean := mean c, counts := d }

def insertKV (e : Id × Rat) : List (Id × Rat) → List (Id × Rat)
  | [] => [e]
  | y :: ys => if e.2 ≤ y.2 then e :: y :: ys else y :: insertKV e ys

/-- `sorted(items, key=itemgetter(1))`: stable, ascending by count -/
def sortKV (l : List (Id × Rat)) : List (Id × Rat) := l.foldr insertKV []

def mdKeys : Option (List Md) → List String
  | none => ["None provided"]
  | some [] => []
  | some (m :: _) => m.map (·.1)

/-- the report with exact figures; `printsAs…` relate them to the printed text -/
structure Report where
  numSamples : Int
  numObservations : Int
  total : Option Int          -- `%d`
  density : Option Rat        -- `%1.3f`
  summaryTitle : String
  detailTitle : String
  min : Rat
  max : Rat
  median : Rat
  mean : Rat
  variance : Option Rat       -- the report prints its square root; `none`: not a number
  sampKeys : List String
  obsKeys : List String
  detail : List (Id × Rat)
  deriving Repr, DecidableEq

/-- `%d` of a number: truncation toward zero -/
def truncZ (x : Rat) : Int := if 0 ≤ x then x.floor else -((-x).floor)

def reportM (inp : Input) (qualitative observations : Bool) : Report :=
  let inp' := if observations then inp.transpose else inp
  let t := inp'.t
  let st := statsM t qualitative
  let cv := st.counts.map (·.2)
  let nObs := t.obs.length
  let nSamp := t.samp.length
  let sampKeys := mdKeys t.smd
  let obsKeys := mdKeys t.omd
  { numSamples := if observations then nObs else nSamp
    numObservations := if observations then nSamp else nObs
    total := if qualitative then none else some (truncZ cv.sum)
    density := if qualitative then none else some (densityM inp')
    summaryTitle := if qualitative then (if observations then "Sample/observations summary:" else "Observations/sample summary:")
                    else "Counts/sample summary:"
    detailTitle := if qualitative then "Observations/sample detail:" else "Counts/sample detail:"
    min := st.min, max := st.max, median := st.median, mean := st.mean
    variance := if cv.length = 0 then none else some (variance cv)
    sampKeys := if observations then obsKeys else sampKeys
    obsKeys := if observations then sampKeys else obsKeys
    detail := sortKV st.counts }

/-- `repr(table)`: "N x M <class> with K nonzero entries (P% dense)" -/
structure ReprObs where
  rows : Nat
  cols : Nat
  nnz : Nat
  pct : Int
  deriving Repr, DecidableEq

def reprM (inp : Input) : ReprObs :=
  { rows := inp.t.obs.length, cols := inp.t.samp.length, nnz := nnzM inp.csr, pct := truncZ (100 * densityM inp) }

/-! ### listings and exports -/

/-- `table-ids` -/
def idsM (t : Table Rat) (observations : Bool) : List Id :=
  t.ids (if observations then .obs else .samp)

structure HeadObs where
  obs : List Id
  samp : List Id
  rows : Grid
  deriving Repr, DecidableEq

/-- `biom head -n -m`: the command's guards, then the first n observation and m sample IDs are
kept (`filter` by ID: C08) -/
def headM (t : Table Rat) (n m : Int) : Except Err HeadObs :=
  if n = 0 ∨ m = 0 then .error .value
  else if n < 0 then .error .value
  else if m < 0 then .error .value
  else .ok { obs := t.obs.take n.toNat, samp := t.samp.take m.toNat,
             rows := (t.rows.take n.toNat).map (·.take m.toNat) }

/-- a data frame: row labels, column labels, cells (`none` = NaN) -/
structure Frame where
  index : List Id
  columns : List Id
  cells : List (List (Option Rat))
  deriving Repr, DecidableEq

def frameDenseM (t : Table Rat) : Frame :=
  { index := t.obs, columns := t.samp, cells := t.rows.map (·.map some) }

/-- pandas `DataFrame.sparse.from_spmatrix(mat.tocsc())` as installed: column j is a sparse array
over the stored entries of column j whose fill value is NaN -/
def frameSparseM (inp : Input) : Frame :=
  { index := inp.t.obs, columns := inp.t.samp,
    cells := (List.range inp.t.obs.length).map (fun i =>
      (List.range inp.t.samp.length).map (fun j =>
        ((inp.csc.slice j).find? (fun e => e.1 == i)).map (·.2))) }

/-- a metadata value as `metadata_to_dataframe` sees it: a scalar or a list/tuple -/
inductive MdVal where
  | scalar (s : String)
  | list (xs : List String)
  deriving Repr, DecidableEq

abbrev MdE := List (String × MdVal)

structure MdFrame where
  index : List Id
  columns : List String
  rows : List (List String)
  deriving Repr, DecidableEq

def entryColumns (m : MdE) : List String :=
  m.flatMap (fun kv => match kv.2 with
    | .scalar _ => [kv.1]
    | .list xs => (List.range xs.length).map (fun i => kv.1 ++ "_" ++ toString i))

def entryRow (m : MdE) : List String :=
  m.flatMap (fun kv => match kv.2 with
    | .scalar s => [s]
    | .list xs => xs)

/-- the text that stands for a missing cell (None / NaN padding) -/
def missing : String := "missing"

/-- the row of one entry: under every column the entry's own value for that column, a column the
entry lacks (a shorter list) stays missing (`row.get(col)`) -/
def rowFor (mcols : List String) (m : MdE) : List String :=
  mcols.map (fun c => (lookupBy (entryColumns m) (entryRow m) c).getD missing)

/-- what the layout pass records about one (key, value): list-valued?, length -/
def itemShape (kv : String × MdVal) : String × Bool × Nat :=
  match kv.2 with
  | .scalar _ => (kv.1, false, 0)
  | .list xs => (kv.1, true, xs.length)

/-- one step of the layout pass over the insertion-ordered dicts `expand` / `widths`: a new key is
appended; a known key keeps its place, takes the list-ness seen last and the larger width -/
def widthsStep (w : List (String × Bool × Nat)) (it : String × Bool × Nat) : List (String × Bool × Nat) :=
  if w.any (fun e => e.1 == it.1) then
    w.map (fun e => if e.1 == it.1 then (e.1, it.2.1, if it.2.1 then max e.2.2 it.2.2 else e.2.2) else e)
  else w ++ [it]

def colsOfShape (w : List (String × Bool × Nat)) : List String :=
  w.flatMap (fun e => if e.2.1 then (List.range e.2.2).map (fun i => e.1 ++ "_" ++ toString i) else [e.1])

/-- `metadata_to_dataframe` (cc0c0aa1): keys in first-seen order over the entries in axis order, a
list-valued category gets one column per element of its LONGEST list, every value goes under its
own column, a position an entry lacks stays missing -/
def mdFrameM (ids : List Id) (md : Option (List MdE)) : Except Err MdFrame :=
  match md with
  | none => .error .key
  | some es =>
    let mcols := colsOfShape ((es.flatMap (·.map itemShape)).foldl widthsStep [])
    .ok { index := ids, columns := mcols, rows := es.map (rowFor mcols) }

/-! ## The property, on observations only -/
open Codec

def approx (a b : Rat) : Bool := (a - b).abs ≤ b.abs / 1099511627776

/-- all vectors of the axis carry a non-zero value: the domain of min/max -/
def allNonEmpty (t : Table Rat) (ax : Axis) : Bool :=
  (perId t ax cntNZ).all (fun c => match c with | some n => n != 0 | none => false)

def allCells (t : Table Rat) : List Rat := t.rows.flatten

def holdsQ (t : Table Rat) (f : Rat → Rat → Rat) : Query → Ans → Bool
  | .sum none, .num x => x == total t.rows
  | .sum (some ax), .nums xs => xs.map some == perId t ax List.sum
  | .min (some ax), a =>
    if allNonEmpty t ax then (match a with | .nums xs => xs.map (fun x => some (some x)) == perId t ax minNZ | _ => false)
    else true
  | .max (some ax), a =>
    if allNonEmpty t ax then (match a with | .nums xs => xs.map (fun x => some (some x)) == perId t ax maxNZ | _ => false)
    else true
  | .min none, a =>
    if allNonEmpty t .samp && t.samp.length != 0 then (match a with | .num x => some x == minNZ (allCells t) | _ => false)
    else true
  | .max none, a =>
    if allNonEmpty t .samp && t.samp.length != 0 then (match a with | .num x => some x == maxNZ (allCells t) | _ => false)
    else true
  | .nzc (some ax) true, .nums xs => xs.map some == perId t ax (fun v => (cntNZ v : Rat))
  | .nzc (some ax) false, .nums xs => xs.map some == perId t ax List.sum
  | .nzc none true, .nums xs => xs == [(nnzCells t.rows : Rat)]
  | .nzc none false, .nums xs => xs == [total t.rows]
  | .density, .num x => approx x (specDensity t)
  | .nnz, .num x => x == (nnzCells t.rows : Rat)
  | .reduce _ ax, a =>
    if t.samp.length = 0 ∨ t.obs.length = 0 then a == .err .tableException
    else (match a with
      | .nums xs => xs.map (fun x => some (some x)) == perId t ax (fun v => (reduce1 f v).toOption)
      | _ => false)
  | _, _ => false

/-- `nonzero()`: exactly the (observation ID, sample ID) pairs whose cell is not zero, each once -/
def holdsNonzero (t : Table Rat) (ps : List (Id × Id)) : Bool :=
  decide ps.Nodup &&
  ps.all (fun p => t.obs.contains p.1 && t.samp.contains p.2) &&
  t.obs.all (fun o => t.samp.all (fun s => ps.contains (o, s) == (t.cell? o s != some 0)))

/-- the counts the statistics are about, by sample ID -/
def specCounts (t : Table Rat) (binary : Bool) : List (Option Rat) := perId t .samp (countOf binary)

def holdsStats (t : Table Rat) (binary : Bool) (s : Stats) : Bool :=
  let c := (specCounts t binary).map (·.getD 0)
  s.counts.map (·.1) == t.samp &&
  s.counts.map (fun e => some e.2) == specCounts t binary &&
  (match c with
   | [] => s.min == 0 && s.max == 0 && s.median == 0 && s.mean == 0
   | _ :: _ => some s.min == minL? c && some s.max == maxL? c && s.median == median c && approx s.mean (mean c))

def tol3 : Rat := 1 / 2000 + 1 / 1000000000

/-- a figure printed with `%1.3f` -/
def printsAs3 (exact printed : Rat) : Bool := (printed - exact).abs ≤ tol3

def printsAsStd (var : Option Rat) (printed : Option Rat) : Bool :=
  match var, printed with
  | none, none => true
  | some v, some p =>
    let lo := if p - tol3 ≤ 0 then 0 else (p - tol3) * (p - tol3)
    0 ≤ p + tol3 && lo ≤ v && v ≤ (p + tol3) * (p + tol3)
  | _, _ => false

/-- the report as parsed from the text: same shape, numbers at printed precision, the standard
deviation in place of the variance -/
structure Printed where
  numSamples : Int
  numObservations : Int
  total : Option Int
  density : Option Rat
  summaryTitle : String
  detailTitle : String
  min : Rat
  max : Rat
  median : Rat
  mean : Rat
  std : Option Rat
  sampKeys : List String
  obsKeys : List String
  detail : List (Id × Rat)
  deriving Repr, DecidableEq

def sortedKeys (ks : List String) : List String := ks.mergeSort (fun a b => a ≤ b)

def pairwiseLe : List Rat → Bool
  | [] => true
  | [_] => true
  | a :: b :: rest => a ≤ b && pairwiseLe (b :: rest)

/-- the figures a report must show, for a mode, from the dense table only -/
def holdsReport (t : Table Rat) (qualitative observations : Bool) (p : Printed) : Bool :=
  let ax : Axis := if observations then .obs else .samp
  let ids := t.ids ax
  let cnt : Id → Option Rat := fun id => (vecOf? t ax id).map (countOf qualitative)
  let c := ids.map (fun id => (cnt id).getD 0)
  p.numSamples == (t.samp.length : Int) && p.numObservations == (t.obs.length : Int) &&
  (if qualitative then p.total == none && p.density == none
   else p.total == some (truncZ (total t.rows)) &&
        (match p.density with | some d => printsAs3 (specDensity t) d | none => false)) &&
  p.summaryTitle == (if qualitative then (if observations then "Sample/observations summary:" else "Observations/sample summary:")
                     else "Counts/sample summary:") &&
  p.detailTitle == (if qualitative then "Observations/sample detail:" else "Counts/sample detail:") &&
  (match c with
   | [] => printsAs3 0 p.min && printsAs3 0 p.max && printsAs3 0 p.median && printsAs3 0 p.mean && p.std == none
   | _ :: _ =>
     (match minL? c, maxL? c with
      | some mn, some mx => printsAs3 mn p.min && printsAs3 mx p.max
      | _, _ => false) &&
     printsAs3 (median c) p.median && printsAs3 (mean c) p.mean && printsAsStd (some (variance c)) p.std) &&
  sortedKeys p.sampKeys == sortedKeys (mdKeys t.smd) && sortedKeys p.obsKeys == sortedKeys (mdKeys t.omd) &&
  -- every ID of the summarised axis is listed once with its own count, in ascending order of count
  p.detail.length == ids.length && ids.all (fun id => (p.detail.map (·.1)).contains id) &&
  p.detail.all (fun e => match cnt e.1 with | some x => printsAs3 x e.2 | none => false) &&
  pairwiseLe (p.detail.map (fun e => (cnt e.1).getD 0))

/-- the model's report seen as a printed one (exact figures print as themselves) -/
def Report.printed (r : Report) (std : Option Rat) : Printed :=
  { numSamples := r.numSamples, numObservations := r.numObservations, total := r.total,
    density := r.density, summaryTitle := r.summaryTitle, detailTitle := r.detailTitle,
    min := r.min, max := r.max, median := r.median, mean := r.mean, std := std,
    sampKeys := r.sampKeys, obsKeys := r.obsKeys, detail := r.detail }

/-- the parsed text agrees with the model's exact report -/
def reportAgrees (r : Report) (p : Printed) : Bool :=
  p.numSamples == r.numSamples && p.numObservations == r.numObservations && p.total == r.total &&
  (match r.density, p.density with | some x, some d => printsAs3 x d | none, none => true | _, _ => false) &&
  p.summaryTitle == r.summaryTitle && p.detailTitle == r.detailTitle &&
  printsAs3 r.min p.min && printsAs3 r.max p.max && printsAs3 r.median p.median && printsAs3 r.mean p.mean &&
  printsAsStd r.variance p.std &&
  sortedKeys p.sampKeys == sortedKeys r.sampKeys && sortedKeys p.obsKeys == sortedKeys r.obsKeys &&
  p.detail.map (·.1) == r.detail.map (·.1) &&
  (p.detail.zip r.detail).all (fun pr => printsAs3 pr.2.2 pr.1.2)

def pctEps : Rat := 1 / 1000000000

/-- a percentage printed with `%d` (slack for the binary64 product the code truncates) -/
def pctOK (d : Rat) (p : Int) : Bool := (p : Rat) ≤ 100 * d + pctEps && 100 * d - pctEps < (p : Rat) + 1

def holdsRepr (t : Table Rat) (r : ReprObs) : Bool :=
  r.rows == t.obs.length && r.cols == t.samp.length && r.nnz == nnzCells t.rows && pctOK (specDensity t) r.pct

def holdsIds (t : Table Rat) (observations : Bool) (listed : List Id) : Bool :=
  listed == (if observations then t.obs else t.samp)

/-- `head`: the first n / m IDs in order, every shown value is the table's value for that ID pair -/
def holdsHead (t : Table Rat) (n m : Int) (r : Except Err HeadObs) : Bool :=
  if n ≤ 0 ∨ m ≤ 0 then (match r with | .error _ => true | .ok _ => false)
  else match r with
    | .error _ => false
    | .ok h =>
      h.obs == t.obs.take n.toNat && h.samp == t.samp.take m.toNat &&
      h.obs.all (fun o => h.samp.all (fun s =>
        (lookupBy h.obs h.rows o).bind (fun r => lookupBy h.samp r s) == t.cell? o s))

def Frame.cell? (f : Frame) (o s : Id) : Option (Option Rat) :=
  (lookupBy f.index f.cells o).bind (fun r => lookupBy f.columns r s)

def frameLabels (t : Table Rat) (f : Frame) : Bool := f.index == t.obs && f.columns == t.samp

/-- every cell of the frame, looked up by its labels, is the table's value -/
def frameValues (t : Table Rat) (f : Frame) : Bool :=
  t.obs.all (fun o => t.samp.all (fun s => f.cell? o s == (t.cell? o s).map some))

/-- the frame is right wherever the table's value is not zero, and where it is zero the frame
shows zero or NaN -/
def frameValuesNZ (t : Table Rat) (f : Frame) : Bool :=
  t.obs.all (fun o => t.samp.all (fun s =>
    match t.cell? o s with
    | some v => if v = 0 then (f.cell? o s == some (some 0) || f.cell? o s == some none) else f.cell? o s == some (some v)
    | none => false))

def frameVerdict (t : Table Rat) (sparse : Bool) (f : Frame) : Verdict :=
  allV [chk "frame.labels" (frameLabels t f),
        if sparse then
          (chk "frame.sparse.cell" (frameValuesNZ t f)).and (chk "frame.sparse.values" (frameValues t f))
        else chk "frame.dense.values" (frameValues t f)]

/-- the frame has the table's labels and values (the verdict above only names the failing clause) -/
def holdsFrame (t : Table Rat) (f : Frame) : Bool := frameLabels t f && frameValues t f

/-- metadata frame: index = IDs in order; for every ID and every (key, position) of its entry the
frame shows that value under the column `key` / `key_position`; a column the entry does not have (a
shorter list) is missing for that ID; every column belongs to some entry -/
def holdsMdFrame (ids : List Id) (md : Option (List MdE)) (r : Except Err MdFrame) : Bool :=
  match md, r with
  | none, .error e => e == .key
  | some es, .ok f =>
    f.index == ids && f.rows.length == ids.length &&
    (ids.zip es).all (fun (id, m) =>
      match lookupBy f.index f.rows id with
      | none => false
      | some row =>
        row.length == f.columns.length &&
        ((entryColumns m).zip (entryRow m)).all (fun (c, v) => lookupBy f.columns row c == some v) &&
        f.columns.all (fun c => (entryColumns m).contains c || lookupBy f.columns row c == some missing)) &&
    f.columns.all (fun c => es.any (fun m => (entryColumns m).contains c))
  | _, _ => false

/-! ## JSON glue -/

def asOptAxis (j : Json) : R (Option Axis) := do
  match (← asStr j) with
  | "observation" => pure (some .obs)
  | "sample" => pure (some .samp)
  | "whole" => pure none
  | s => .error s!"bad axis {s}"

def asQuery (j : Json) : R Query := do
  match (← strF j "q") with
  | "sum" => pure (.sum (← asOptAxis (← fld j "axis")))
  | "min" => pure (.min (← asOptAxis (← fld j "axis")))
  | "max" => pure (.max (← asOptAxis (← fld j "axis")))
  | "nzc" => pure (.nzc (← asOptAxis (← fld j "axis")) (← boolF j "binary"))
  | "density" => pure .density
  | "nnz" => pure .nnz
  | "reduce" => pure (.reduce (← strF j "f") (← axisF j "axis"))
  | s => .error s!"bad query {s}"

def asAns (j : Json) : R Ans := do
  if let some v := optFld j "num" then return .num (← asRat v)
  if let some v := optFld j "nums" then return .nums (← asList asRat v)
  if let some v := optFld j "inf" then return .inf (← asBool v)
  if let some v := optFld j "err" then return .err (asErr (← asStr v))
  .error "bad answer"

def ansToJson : Ans → Json
  | .num x => Json.mkObj [("num", ratToJson x)]
  | .nums xs => Json.mkObj [("nums", ratsToJson xs)]
  | .inf n => Json.mkObj [("inf", .bool n)]
  | .err e => Json.mkObj [("err", .str e.name)]

def asInput (j : Json) : R Input := do
  pure { t := (← asTable (← fld j "table")), csr := (← asCS (← fld j "csr")), csc := (← asCS (← fld j "csc")) }

def asKV (j : Json) : R (Id × Rat) := do
  match (← asArr j) with
  | [a, b] => pure ((← asStr a), (← asRat b))
  | _ => .error "kv pair"

def kvToJson (l : List (Id × Rat)) : Json := .arr (l.map (fun (k, v) => Json.arr #[.str k, ratToJson v])).toArray

def asPair (j : Json) : R (Id × Id) := do
  match (← asArr j) with
  | [a, b] => pure ((← asStr a), (← asStr b))
  | _ => .error "id pair"

def asStats (j : Json) : R Stats := do
  pure { min := (← asRat (← fld j "min")), max := (← asRat (← fld j "max")), median := (← asRat (← fld j "median")),
         mean := (← asRat (← fld j "mean")), counts := (← listF asKV j "counts") }

def statsToJson (s : Stats) : Json :=
  Json.mkObj [("min", ratToJson s.min), ("max", ratToJson s.max), ("median", ratToJson s.median),
    ("mean", ratToJson s.mean), ("counts", kvToJson s.counts)]

def asPrinted (j : Json) : R Printed := do
  pure { numSamples := (← intF j "num_samples"), numObservations := (← intF j "num_observations"),
         total := (← optF asInt j "total"), density := (← optF asRat j "density"),
         summaryTitle := (← strF j "summary_title"), detailTitle := (← strF j "detail_title"),
         min := (← asRat (← fld j "min")), max := (← asRat (← fld j "max")),
         median := (← asRat (← fld j "median")), mean := (← asRat (← fld j "mean")),
         std := (← optF asRat j "std"), sampKeys := (← listF asStr j "samp_keys"),
         obsKeys := (← listF asStr j "obs_keys"), detail := (← listF asKV j "detail") }

def reportToJson (r : Report) : Json :=
  Json.mkObj [("num_samples", toJson r.numSamples), ("num_observations", toJson r.numObservations),
    ("total", optToJson (fun (i : Int) => toJson i) r.total), ("density", optToJson ratToJson r.density),
    ("summary_title", .str r.summaryTitle), ("detail_title", .str r.detailTitle),
    ("min", ratToJson r.min), ("max", ratToJson r.max), ("median", ratToJson r.median),
    ("mean", ratToJson r.mean), ("variance", optToJson ratToJson r.variance),
    ("samp_keys", strsToJson r.sampKeys), ("obs_keys", strsToJson r.obsKeys), ("detail", kvToJson r.detail)]

def asCell (j : Json) : R (Option Rat) := asOpt asRat j

def asFrame (j : Json) : R Frame := do
  pure { index := (← listF asStr j "index"), columns := (← listF asStr j "columns"),
         cells := (← listF (asList asCell) j "cells") }

def frameToJson (f : Frame) : Json :=
  Json.mkObj [("index", strsToJson f.index), ("columns", strsToJson f.columns),
    ("cells", .arr (f.cells.map (fun r => Json.arr (r.map (optToJson ratToJson)).toArray)).toArray)]

def asMdVal (j : Json) : R MdVal :=
  match j with
  | .str s => pure (.scalar s)
  | v => do pure (.list (← asList asStr v))

def asMdE (j : Json) : R MdE := asList (fun p => do
  match (← asArr p) with
  | [k, v] => pure ((← asStr k), (← asMdVal v))
  | _ => .error "md pair") j

def asMdFrameR (j : Json) : R (Except Err MdFrame) := do
  if let some e := optFld j "error" then return .error (asErr (← asStr e))
  let f ← fld j "ok"
  pure (.ok { index := (← listF asStr f "index"), columns := (← listF asStr f "columns"),
              rows := (← listF (asList asStr) f "rows") })

def mdFrameToJson (f : MdFrame) : Json :=
  Json.mkObj [("index", strsToJson f.index), ("columns", strsToJson f.columns),
    ("rows", .arr (f.rows.map strsToJson).toArray)]

def asHeadR (j : Json) : R (Except Err HeadObs) := do
  if let some e := optFld j "error" then return .error (asErr (← asStr e))
  let f ← fld j "ok"
  pure (.ok { obs := (← listF asStr f "obs"), samp := (← listF asStr f "samp"), rows := (← listF (asList asRat) f "rows") })

def headToJson (h : HeadObs) : Json :=
  Json.mkObj [("obs", strsToJson h.obs), ("samp", strsToJson h.samp), ("rows", gridToJson h.rows)]

def result (v : Verdict) (agree : Bool) (model : Json) (extra : List (String × Json) := []) : Json :=
  Json.mkObj (verdictToJson v ++ [("agree", .bool agree), ("model", model)] ++ extra)

/-- requests: {"op": "queries"|"repr"|"nonzero"|"stats"|"report"|"ids"|"head"|"frame"|"mdframe", …} -/
def handle (req : Json) : R Json := do
  match (← strF req "op") with
  | "queries" =>
    -- {"input": {table, csr, csc}, "items": [{"query": …, "ans": …}]}
    let inp ← asInput (← fld req "input")
    let items ← listF (fun it => do pure ((← asQuery (← fld it "query")), (← asAns (← fld it "ans")))) req "items"
    let verdicts := items.map (fun (q, a) => chk (toString (repr q)) (holdsQ inp.t (qFun q) q a))
    let models := items.map (fun (q, _) => answer inp q)
    let same : Query → Ans → Ans → Bool := fun q a m =>
      match q, a, m with
      | .density, .num x, .num y => approx x y
      | _, _, _ => a == m
    let agree := (items.zip models).all (fun ((q, a), m) => same q a m)
    let modelHolds := (items.zip models).all (fun ((q, _), m) => holdsQ inp.t (qFun q) q m)
    pure (result (allV verdicts) agree (.arr (models.map ansToJson).toArray)
      [("layout_ok", .bool inp.okb), ("model_holds", .bool modelHolds),
       ("disagree", .arr ((items.zip models).filterMap (fun ((q, a), m) =>
          if same q a m then none else some (Json.str (toString (repr q))))).toArray)])
  | "nonzero" =>
    let inp ← asInput (← fld req "input")
    let ps ← listF asPair req "pairs"
    let m := nonzeroM inp
    let mj := match m with
      | .ok l => Json.mkObj [("ok", .arr (l.map (fun (o, s) => Json.arr #[.str o, .str s])).toArray)]
      | .error e => errToJson e
    pure (result (chk "nonzero" (holdsNonzero inp.t ps)) (match m with | .ok l => l == ps | .error _ => false) mj [("layout_ok", .bool inp.okb)])
  | "stats" =>
    let t ← asTable (← fld req "table")
    let binary ← boolF req "binary"
    let s ← asStats (← fld req "stats")
    let m := statsM t binary
    let agree := s.min == m.min && s.max == m.max && s.median == m.median && approx s.mean m.mean && s.counts == m.counts
    pure (result (chk "stats" (holdsStats t binary s)) agree (statsToJson m)
      [("model_holds", .bool (holdsStats t binary m))])
  | "report" =>
    let inp ← asInput (← fld req "input")
    let q ← boolF req "qualitative"
    let o ← boolF req "observations"
    let p ← asPrinted (← fld req "printed")
    let m := reportM inp q o
    pure (result (chk "report" (holdsReport inp.t q o p)) (reportAgrees m p) (reportToJson m)
      [("layout_ok", .bool inp.okb),
       ("model_holds", .bool (holdsReport inp.t q o (m.printed p.std) || !printsAsStd m.variance p.std))])
  | "repr" =>
    let inp ← asInput (← fld req "input")
    let o ← fld req "repr"
    let r : ReprObs := { rows := (← natF o "rows"), cols := (← natF o "cols"), nnz := (← natF o "nnz"), pct := (← intF o "pct") }
    let m := reprM inp
    let agree := r.rows == m.rows && r.cols == m.cols && r.nnz == m.nnz && pctOK (densityM inp) r.pct
    pure (result (chk "repr" (holdsRepr inp.t r)) agree
      (Json.mkObj [("rows", toJson m.rows), ("cols", toJson m.cols), ("nnz", toJson m.nnz), ("pct", toJson m.pct)])
      [("layout_ok", .bool inp.okb), ("model_holds", .bool (holdsRepr inp.t m))])
  | "ids" =>
    let t ← asTable (← fld req "table")
    let o ← boolF req "observations"
    let l ← listF asStr req "listed"
    pure (result (chk "ids" (holdsIds t o l)) (l == idsM t o) (strsToJson (idsM t o)))
  | "head" =>
    let t ← asTable (← fld req "table")
    let n ← intF req "n"
    let m ← intF req "m"
    let r ← asHeadR (← fld req "result")
    let mo := headM t n m
    let agree := match r, mo with
      | .ok a, .ok b => a == b
      | .error a, .error b => a == b
      | _, _ => false
    pure (result (chk "head" (holdsHead t n m r)) agree (exceptToJson headToJson mo))
  | "frame" =>
    let inp ← asInput (← fld req "input")
    let sparse ← boolF req "sparse"
    let f ← asFrame (← fld req "frame")
    let m := if sparse then frameSparseM inp else frameDenseM inp.t
    pure (result (frameVerdict inp.t sparse f) (f == m) (frameToJson m) [("layout_ok", .bool inp.okb)])
  | "mdframe" =>
    let ids ← listF asStr req "ids"
    let md ← optF (asList asMdE) req "md"
    let r ← asMdFrameR (← fld req "result")
    let mo := mdFrameM ids md
    let agree := match r, mo with
      | .ok a, .ok b => a.index == b.index && a.columns == b.columns && a.rows == b.rows
      | .error a, .error b => a == b
      | _, _ => false
    pure (result (chk "mdframe" (holdsMdFrame ids md r)) agree (exceptToJson mdFrameToJson mo))
  | s => .error s!"C19: unknown op {s}"

end Biom.C19
