/-
  C12 — subsampling (rarefaction) draws exactly n counts per vector, never inventing any.

  Model of: `biom/_subsample.pyx` (`_subsample_without_replacement`: the running-offset walk with
  its four counters, the `counts_sum < n` early exit, the tail clean-up, every read of
  `intdata[el]`/write of `data[start+el]` bounds-checked; `_subsample_with_replacement`: one
  multinomial draw per vector) and of `Table.subsample` around it (copy, sparse layout along the
  requested axis, kernel per vector, `eliminate_zeros`, the emptiness filter on the axis and then on
  the other axis; the by-ID path).

  The random generator is a parameter: what `rng.choice(total, n, replace=False)` returned for
  each vector, what `rng.multinomial(n, p)` returned, what `rng.shuffle(ids)` left behind are
  INPUTS of the model.  scipy's layout (which entries of a vector are stored, in which order) is
  an input too (`Lay`), tied to the table by the hypothesis `layOK`.

  A table is seen along the subsampled axis (`View`): IDs on the axis, IDs on the other axis,
  and `data(id, axis)` for every ID on the axis.  `holds` is stated on such observations only.
-/
import BiomModel.Codec
open Lean

namespace Biom.C12

/-! ### the kernel, one vector, without replacement -/

/-- insertion into a sorted list (`permuted.sort()`; structural, so closed examples evaluate) -/
def ins (x : Nat) : List Nat → List Nat
  | [] => [x]
  | y :: ys => if x ≤ y then x :: y :: ys else y :: ins x ys

def isort : List Nat → List Nat
  | [] => []
  | x :: xs => ins x (isort xs)

/-- the loop state of `_subsample_without_replacement` for one vector:
`out` is `data[start:end]` (written in place), `el`, `count_el`, `count_rem`, `el_cnt`. -/
structure W where
  out : List Nat
  el : Nat
  countEl : Nat
  countRem : Nat
  elCnt : Nat
  deriving Repr, DecidableEq

/-- `while (perm_count_el - count_el) >= count_rem:` with fuel; reads and writes are checked -/
def walkSkip (counts : List Nat) (p : Nat) : Nat → W → Except Err W
  | 0, _ => .error .index
  | fuel + 1, w =>
    if p - w.countEl ≥ w.countRem then
      match putE w.out w.el w.elCnt with
      | .error e => .error e
      | .ok out =>
        match getE counts (w.el + 1) with
        | .error e => .error e
        | .ok next =>
          walkSkip counts p fuel
            { out := out, el := w.el + 1, countEl := w.countEl + w.countRem, countRem := next, elCnt := 0 }
    else .ok w

/-- one iteration of `for idx in range(n)` -/
def walkStep (counts : List Nat) (w : W) (p : Nat) : Except Err W :=
  match walkSkip counts p (counts.length + 1) w with
  | .error e => .error e
  | .ok w1 =>
    .ok { w1 with elCnt := w1.elCnt + 1, countRem := w1.countRem - (p - w1.countEl), countEl := p }

def walkLoop (counts : List Nat) : List Nat → W → Except Err W
  | [], w => .ok w
  | p :: ps, w =>
    match walkStep counts w p with
    | .error e => .error e
    | .ok w1 => walkLoop counts ps w1

/-- `data[start+el+1:end] = 0` -/
def zeroTail (out : List Nat) (k : Nat) : List Nat :=
  out.take k ++ List.replicate (out.length - k) 0

/-- the walk over one vector for SORTED chosen positions (`count_rem = intdata[0]` first) -/
def walk (counts chosen : List Nat) : Except Err (List Nat) :=
  match getE counts 0 with
  | .error e => .error e
  | .ok c0 =>
    match walkLoop counts chosen { out := counts, el := 0, countEl := 0, countRem := c0, elCnt := 0 } with
    | .error e => .error e
    | .ok w =>
      match putE w.out w.el w.elCnt with
      | .error e => .error e
      | .ok out => .ok (zeroTail out (w.el + 1))

/-- what the kernel does with the array `rng.choice` returned: sort it, read `permuted[0..n)` -/
def subsampleVec (n : Nat) (counts chosen : List Nat) : Except Err (List Nat) :=
  let s := isort chosen
  if s.length < n then .error .index else walk counts (s.take n)

/-- `for i in range(indptr.shape[0] - 1)`: vectors whose total is below `n` are zeroed without
consulting the generator; the others consume the generator's next answer. -/
def kernelWithout (n : Nat) : List (List Nat) → List (List Nat) → Except Err (List (List Nat))
  | [], _ => .ok []
  | v :: vs, ch =>
    if v.sum < n then
      match kernelWithout n vs ch with
      | .error e => .error e
      | .ok r => .ok (v.map (fun _ => 0) :: r)
    else
      match ch with
      | [] => .error .other
      | c :: cs =>
        match subsampleVec n v c with
        | .error e => .error e
        | .ok w =>
          match kernelWithout n vs cs with
          | .error e => .error e
          | .ok r => .ok (w :: r)

/-- with replacement: `data[start:end] = rng.multinomial(n, pvals)`.  numpy's multinomial refuses
an empty `pvals` (ValueError); a vector of another length cannot be assigned to the slice. -/
def kernelWith : List (List Nat) → List (List Nat) → Except Err (List (List Nat))
  | [], _ => .ok []
  | v :: vs, ms =>
    if v.length = 0 then .error .value
    else
      match ms with
      | [] => .error .other
      | m :: ms' =>
        if m.length ≠ v.length then .error .value
        else
          match kernelWith vs ms' with
          | .error e => .error e
          | .ok r => .ok (m :: r)

/-! ### the specification of the walk: a histogram of positions over the entries' intervals -/

/-- number of chosen positions in `[base, base + c)` for each entry `c`, intervals laid end to end -/
def histFrom (base : Nat) : List Nat → List Nat → List Nat
  | [], _ => []
  | c :: cs, chosen =>
    chosen.countP (fun p => decide (base ≤ p) && decide (p < base + c)) :: histFrom (base + c) cs chosen

def hist (counts chosen : List Nat) : List Nat := histFrom 0 counts chosen

/-- start of entry `j`'s interval: the total of the entries before it -/
def prefixSum (counts : List Nat) (j : Nat) : Nat := (counts.take j).sum

/-! ### a table seen along the subsampled axis -/

structure View where
  ids : List Id
  oids : List Id
  vecs : List (List Nat)
  deriving Repr, DecidableEq, BEq

namespace View
def vec? (t : View) (id : Id) : Option (List Nat) := lookupBy t.ids t.vecs id
def cell? (t : View) (id o : Id) : Option Nat := (t.vec? id).bind (fun v => lookupBy t.oids v o)
def total (t : View) (id : Id) : Nat := ((t.vec? id).getD []).sum
def wfb (t : View) : Bool :=
  t.vecs.length == t.ids.length && t.vecs.all (fun v => v.length == t.oids.length)
end View

/-- stored entries of one vector in storage order: minor indices and values -/
abbrev LVec := List Nat × List Nat
abbrev Lay := List LVec

/-- value at minor position `j`: first stored entry with that index, else 0 -/
def lookupN : List Nat → List Nat → Nat → Nat
  | i :: is, v :: vs, j => if i = j then v else lookupN is vs j
  | _, _, _ => 0

def scatter (m : Nat) (idx vals : List Nat) : List Nat := (List.range m).map (lookupN idx vals)

/-- `eliminate_zeros()` on one vector's stored entries -/
def elimZeros : List Nat → List Nat → LVec
  | i :: is, v :: vs =>
    let r := elimZeros is vs
    if v = 0 then r else (i :: r.1, v :: r.2)
  | _, _ => ([], [])

def addV (a b : List Nat) : List Nat := List.zipWith (· + ·) a b

/-- totals along the other axis -/
def colSums (m : Nat) (d : List (List Nat)) : List Nat := d.foldr addV (List.replicate m 0)

/-- `table.filter(lambda v, i, md: v.sum() > 0, axis=inv_axis)` -/
def otherFilter (ids oids : List Id) (d : List (List Nat)) : View :=
  let mask := (colSums oids.length d).map (fun s => decide (0 < s))
  { ids := ids, oids := filterMask oids mask, vecs := d.map (fun v => filterMask v mask) }

/-- write-back of the kernel's values, `eliminate_zeros`, dense content per vector -/
def denseAfter (m : Nat) (lay : Lay) (outs : List (List Nat)) : List (List Nat) :=
  (lay.zip outs).map (fun lo => let e := elimZeros lo.1.1 lo.2; scatter m e.1 e.2)

/-- the two emptiness filters -/
def finish (t : View) (dense : List (List Nat)) : View :=
  let keep := dense.map (fun v => decide (0 < v.sum))
  otherFilter (filterMask t.ids keep) t.oids (filterMask dense keep)

/-- `table.filter(lambda v, i, md: v.sum() > 0, axis=axis)` on the copy, before the kernel
(with replacement only): what is left is what the layout and the kernel see -/
def dropEmpty (t : View) : View :=
  let keep := t.vecs.map (fun v => decide (0 < v.sum))
  { ids := filterMask t.ids keep, oids := t.oids, vecs := filterMask t.vecs keep }

inductive Mode where
  | without | withRepl | byId
  deriving Repr, DecidableEq, BEq

/-- everything the generator returned during one call -/
structure Rng where
  choices : List (List Nat) := []
  multis : List (List Nat) := []
  shuffled : List Id := []
  deriving Repr, DecidableEq

/-- `Table.subsample(n, axis, by_id, with_replacement)` seen along `axis` -/
def subsample (t : View) (lay : Lay) (n : Nat) (mode : Mode) (rng : Rng) : Except Err View :=
  match mode with
  | .byId =>
    let keep := t.ids.map (fun id => (rng.shuffled.take n).contains id)
    .ok (otherFilter (filterMask t.ids keep) t.oids (filterMask t.vecs keep))
  | .without =>
    match kernelWithout n (lay.map (·.2)) rng.choices with
    | .error e => .error e
    | .ok outs => .ok (finish t (denseAfter t.oids.length lay outs))
  | .withRepl =>
    -- vectors without any count are filtered out of the copy before the layout is taken
    let t1 := dropEmpty t
    match kernelWith (lay.map (·.2)) rng.multis with
    | .error e => .error e
    | .ok outs => .ok (finish t1 (denseAfter t.oids.length lay outs))

/-- what a caller sees: the result (or the exception) and the input table afterwards -/
structure Obs where
  result : Except Err View
  after : View

/-- the call works on `self.copy()`: the input is what it was -/
def run (t : View) (lay : Lay) (n : Nat) (mode : Mode) (rng : Rng) : Obs :=
  { result := subsample t lay n mode rng, after := t }

/-! ### hypotheses (decidable) -/

def nodupB [DecidableEq β] : List β → Bool
  | [] => true
  | x :: xs => !xs.contains x && nodupB xs

def viewWF (t : View) : Bool := t.wfb && nodupB t.ids && nodupB t.oids

/-- scipy's contract for the layout of one vector: distinct in-range minor indices, one value per
index, and the dense content is the table's vector -/
def lvecOK (m : Nat) (v : List Nat) (l : LVec) : Bool :=
  nodupB l.1 && l.1.all (fun i => decide (i < m)) && l.1.length == l.2.length && scatter m l.1 l.2 == v

def layOK (t : View) (lay : Lay) : Bool :=
  lay.length == t.vecs.length && (t.vecs.zip lay).all (fun vl => lvecOK t.oids.length vl.1 vl.2)

/-- numpy's contract for `choice(total, n, replace=False)`: `n` distinct positions below `total`;
one answer for each vector whose total reaches `n`, in order -/
def choicesOK (n : Nat) : List (List Nat) → List (List Nat) → Bool
  | [], _ => true
  | v :: vs, ch =>
    if v.sum < n then choicesOK n vs ch
    else
      match ch with
      | [] => false
      | c :: cs => nodupB c && c.length == n && c.all (fun p => decide (p < v.sum)) && choicesOK n vs cs

/-- numpy's contract for `multinomial(n, p)` with p ∝ ceil(data): one natural per entry, summing
to `n`, zero where `p` is zero -/
def multisOK (n : Nat) : List (List Nat) → List (List Nat) → Bool
  | [], _ => true
  | v :: vs, ms =>
    match ms with
    | [] => false
    | m :: ms' =>
      m.length == v.length && m.sum == n && (v.zip m).all (fun vm => vm.1 != 0 || vm.2 == 0) &&
        multisOK n vs ms'

/-- all hypotheses of the property theorems for one call, as one decidable condition; with
replacement the layout is that of the table after its all-zero vectors were dropped -/
def pre (t : View) (lay : Lay) (n : Nat) (mode : Mode) (rng : Rng) : Bool :=
  viewWF t && decide (1 ≤ n) &&
    (match mode with
     | .without => layOK t lay && choicesOK n (lay.map (·.2)) rng.choices
     | .withRepl => layOK (dropEmpty t) lay && multisOK n (lay.map (·.2)) rng.multis
     | .byId => rng.shuffled.isPerm t.ids)

/-! ### the property, on observations only -/

/-- entrywise comparison by ID of a result with the input on the result's IDs -/
def cellsRel (rel : Nat → Nat → Bool) (t r : View) : Bool :=
  r.ids.all fun id => r.oids.all fun o =>
    match r.cell? id o, t.cell? id o with
    | some a, some b => rel a b
    | _, _ => false

def clauses (t : View) (n : Nat) (mode : Mode) (o : Obs) : List (String × Bool) :=
  ("input-unchanged", decide (o.after = t)) ::
  match o.result with
  | .error _ => [("returns-a-table", false)]
  | .ok r =>
    let common : List (String × Bool) :=
      [("shape", r.wfb),
       ("other-ids-sublist", r.oids.isSublist t.oids),
       ("no-empty-other-vector", (colSums r.oids.length r.vecs).all (fun s => decide (0 < s)))]
    match mode with
    | .without =>
      common ++
      [("retained-iff-total-ge-n", r.ids == t.ids.filter (fun id => decide (n ≤ t.total id))),
       ("vector-sum-n", r.vecs.all (fun v => v.sum == n)),
       ("entry-le-original", cellsRel (fun a b => decide (a ≤ b)) t r)]
    | .withRepl =>
      common ++
      [("retained-iff-total-pos", r.ids == t.ids.filter (fun id => decide (0 < t.total id))),
       ("vector-sum-n", r.vecs.all (fun v => v.sum == n)),
       ("support-within-original", cellsRel (fun a b => a == 0 || decide (0 < b)) t r)]
    | .byId =>
      common ++
      [("ids-sublist", r.ids.isSublist t.ids),
       ("keeps-min-n-N", r.ids.length == min n t.ids.length),
       ("other-ids-nonzero-over-kept",
          r.oids == filterMask t.oids
            ((colSums t.oids.length (r.ids.map (fun id => (t.vec? id).getD []))).map (fun s => decide (0 < s)))),
       ("values-unchanged", cellsRel (fun a b => a == b) t r)]

def holds (t : View) (n : Nat) (mode : Mode) (o : Obs) : Bool :=
  (clauses t n mode o).all (·.2)

/-- kernel level, one call of `biom.subsample(arr, n, False, rng)` on vectors `vecs`:
a vector below `n` is zeroed, any other sums to `n` with every entry at most the original -/
def kernelClauses (n : Nat) (vecs : List (List Nat)) (got : Except Err (List (List Nat))) : List (String × Bool) :=
  match got with
  | .error _ => [("kernel-returns", false)]
  | .ok outs =>
    [("kernel-shape", outs.length == vecs.length),
     ("kernel-vectors", (vecs.zip outs).all fun vo =>
        vo.2.length == vo.1.length &&
        (if vo.1.sum < n then vo.2.all (· == 0)
         else vo.2.sum == n && (vo.1.zip vo.2).all (fun ab => decide (ab.2 ≤ ab.1))))]

def kernelHolds (n : Nat) (vecs : List (List Nat)) (got : Except Err (List (List Nat))) : Bool :=
  (kernelClauses n vecs got).all (·.2)

/-! ### JSON glue -/
open Codec

def asNatRat (j : Json) : R Nat := do
  let r ← asRat j
  if r.den = 1 ∧ 0 ≤ r.num then pure r.num.toNat else .error "not a natural number"

/-- a view whose values may be anything: `none` when some value is not a natural number -/
def asViewOpt (j : Json) : R (Option View) := do
  let ids ← listF asStr j "ids"
  let oids ← listF asStr j "oids"
  let vecs ← listF (asList asRat) j "vecs"
  if vecs.all (fun v => v.all (fun r => r.den == 1 && decide (0 ≤ r.num))) then
    pure (some { ids, oids, vecs := vecs.map (·.map (fun r => r.num.toNat)) })
  else pure none

def asView (j : Json) : R View := do
  match (← asViewOpt j) with
  | some v => pure v
  | none => .error "view with a value that is not a natural number"

def viewToJson (v : View) : Json :=
  Json.mkObj [("ids", strsToJson v.ids), ("oids", strsToJson v.oids),
    ("vecs", .arr (v.vecs.map natsToJson).toArray)]

def asMode (j : Json) : R Mode := do
  match (← asStr j) with
  | "without" => pure .without
  | "with" => pure .withRepl
  | "byid" => pure .byId
  | s => .error s!"bad mode {s}"

def asNatLists (j : Json) (k : String) : R (List (List Nat)) :=
  match optFld j k with
  | none => pure []
  | some v => asList (asList asNat) v

def asRng (j : Json) : R Rng := do
  let shuffled ← match optFld j "shuffled" with
    | none => pure []
    | some v => asList asStr v
  pure { choices := (← asNatLists j "choices"), multis := (← asNatLists j "multis"), shuffled }

def asLay (j : Json) : R Lay := asList (fun p => do
  match (← asArr p) with
  | [a, b] => pure ((← asList asNat a), (← asList asNat b))
  | _ => .error "layout vector must be [indices, values]") j

def firstFailing (cs : List (String × Bool)) : Verdict :=
  match cs.find? (fun c => !c.2) with
  | some c => some c.1
  | none => none

def resultToJson : Except Err View → Json
  | .ok v => Json.mkObj [("ok", viewToJson v)]
  | .error e => Json.mkObj [("error", e.name)]

def gridJson (g : List (List Nat)) : Json := .arr (g.map natsToJson).toArray

def handleTable (req : Json) : R Json := do
  let t ← asView (← fld req "t")
  let n ← natF req "n"
  let mode ← asMode (← fld req "mode")
  let rng ← asRng (← fld req "rng")
  let lay ← match optFld req "lay" with
    | none => pure []
    | some v => asLay v
  let obsJ ← fld req "obs"
  let after ← asView (← fld obsJ "after")
  let resJ ← fld obsJ "result"
  let mobs := run t lay n mode rng
  let pre := pre t lay n mode rng
  let modelJ := resultToJson mobs.result
  let mh := holds t n mode mobs
  -- the implementation's observation
  let (verdict, agree) ← match optFld resJ "error" with
    | some e => do
      let es ← asStr e
      let o : Obs := { result := .error (asErr es), after }
      pure (firstFailing (clauses t n mode o), (resultToJson o.result).compress == modelJ.compress)
    | none => do
      match (← asViewOpt (← fld resJ "ok")) with
      | none => pure (some "entries-natural", false)
      | some r =>
        let o : Obs := { result := .ok r, after }
        pure (firstFailing (clauses t n mode o), (resultToJson o.result).compress == modelJ.compress)
  pure (Json.mkObj (verdictToJson verdict ++
    [("agree", .bool agree), ("model", modelJ), ("model_holds", .bool mh), ("pre", .bool pre)]))

def gotToJson : Except Err (List (List Nat)) → Json
  | .ok g => Json.mkObj [("ok", gridJson g)]
  | .error e => Json.mkObj [("error", e.name)]

def handleKernel (req : Json) : R Json := do
  let vecs ← listF (asList asNat) req "vecs"
  let n ← natF req "n"
  let mode ← asMode (← fld req "mode")
  let rng ← asRng (← fld req "rng")
  let gotJ ← fld req "got"
  let model := match mode with
    | .withRepl => kernelWith vecs rng.multis
    | _ => kernelWithout n vecs rng.choices
  let pre := match mode with
    | .withRepl => multisOK n vecs rng.multis && vecs.all (fun v => decide (0 < v.sum))
    | _ => choicesOK n vecs rng.choices
  let got : Option (Except Err (List (List Nat))) ← match optFld gotJ "error" with
    | some e => do pure (some (.error (asErr (← asStr e))))
    | none => do
      let g ← listF (asList asRat) gotJ "ok"
      if g.all (fun v => v.all (fun r => r.den == 1 && decide (0 ≤ r.num))) then
        pure (some (.ok (g.map (·.map (fun r => r.num.toNat)))))
      else pure none
  let modelJ := gotToJson model
  -- when the scripted generator keeps its contract, the model's answer is the histogram
  let spec : Bool := match mode with
    | .withRepl => true
    | _ => !pre || kernelHolds n vecs model
  match got with
  | none => pure (Json.mkObj (verdictToJson (some "entries-natural") ++
      [("agree", .bool false), ("model", modelJ), ("pre", .bool pre), ("model_holds", .bool spec)]))
  | some g =>
    let verdict : Verdict := match mode with
      | .withRepl => none
      | _ => if pre then firstFailing (kernelClauses n vecs g) else none
    pure (Json.mkObj (verdictToJson verdict ++
      [("agree", .bool ((gotToJson g).compress == modelJ.compress)), ("model", modelJ), ("pre", .bool pre),
       ("model_holds", .bool spec)]))

/-- `hist` of one vector, for the harness's exhaustive unit-count bookkeeping -/
def handleHist (req : Json) : R Json := do
  let counts ← listF asNat req "counts"
  let chosen ← listF asNat req "chosen"
  pure (Json.mkObj [("hist", natsToJson (hist counts chosen)), ("holds", true), ("clause", .null), ("agree", true),
    ("model", natsToJson (hist counts chosen))])

def handle (req : Json) : R Json := do
  match (← strF req "op") with
  | "table" => handleTable req
  | "kernel" => handleKernel req
  | "hist" => handleHist req
  | s => .error s!"bad op {s}"

end Biom.C12
