import BiomModel.Codec
open Lean
namespace Biom.C12
/-- stub: not built yet -/
def handle (_req : Json) : Codec.R Json := .error "C12: model not built yet"
end Biom.C12
