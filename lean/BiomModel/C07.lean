import BiomModel.Codec
open Lean
namespace Biom.C07
/-- stub: not built yet -/
def handle (_req : Json) : Codec.R Json := .error "C07: model not built yet"
end Biom.C07
