/-
  C07 — non-in-place operations never modify their inputs; in-place is equivalent.

  Value semantics would make this property vacuous, so the model is an OWNERSHIP / HEAP model.

  * The heap has three typed stores: matrix buffers (`data/indices/indptr` of one scipy matrix are
    one location holding the abstract dense content), ID arrays (numpy arrays) and metadata dicts.
  * A Table object is a record of *references* (`Obj`): one matrix location plus its layout
    (CSR/CSC), one ID-array location per axis, optionally one dict location per ID and axis, and the
    (immutable) type string.
  * Every API operation is a short program of micro-steps transcribed from `biom/table.py`:
      `construct`  = `Table.__init__`: `astype(float)` copies the matrix into a fresh buffer (CSR),
                     `_cast_metadata` wraps every metadata entry in a fresh dict (after the
                     constructor's "no information" normalisation), `np.asarray(ids)` keeps the
                     caller's array when it is one (an alias) and makes a new one from a list;
      `matKernel`  = `tocsr()/tocsc()` (returns self when the layout matches, a new matrix otherwise)
                     followed by a kernel that writes the buffers it is handed in place
                     (`_remove_rows_csr`, `_transform`, `_subsample`, `sort_indices`,
                     `eliminate_zeros`) and `table._data = arr`;
      `setIds`     = a new ID array is installed (`_filter`: `np.asarray(list(compress(..)))`,
                     `update_ids`: `zeros(..)`); no API operation writes an ID array in place;
      `keepMd`     = `tuple(compress(metadata, bools))`: the same dict objects, fewer of them
                     (`None` when the kept ones are all empty);
      `addMd`      = `add_metadata`: `dict.update` in place, or a new tuple; then `_cast_metadata`
                     re-wraps both axes;
      `delMd`      = `del_metadata`: `del md[k]` in place, `None` when nothing is left;
      `relayout`   = the read accessors `_get_row/_get_col` (behind `data`, `iter`, `partition`,
                     `collapse`, the general path of `merge`): `self._data = self._data.tocsr()/tocsc()`
                     on the table that is READ — its content is untouched, its buffer may be replaced.
  * `Op.inplace r bodies` is `table = self`; `Op.new pre srcs F .. post` is: re-layouts of source
    tables while the arguments are computed, then a constructor call whose arguments are computed
    from the source tables (`F` is ANY content function: what filter, sort, merge … compute is not
    re-modelled here), then in-place bodies on the new table (`copy()` then the body = the
    `inplace=False` variant; `head`, `subsample`, `partition(remove_empty=True)`).
  * `holds` is the property on observations only (snapshots, object identities); `obsOp` is the
    model's own observation of a call; `handle` evaluates `holds` on the real code's observations
    and compares contents, layouts and aliasing facts with the model heap.
-/
import BiomModel.Codec
open Lean

namespace Biom.C07

inductive Fmt where
  | csr | csc
  deriving Repr, DecidableEq, Inhabited

/-- `_get_sparse_data(axis)`: CSR for observations, CSC for samples -/
def Fmt.ofAxis : Axis → Fmt
  | .obs => .csr
  | .samp => .csc

/-- abstract (observable) content of a table: IDs, values, metadata, type -/
structure Content (γ : Type) where
  obs : List Id
  samp : List Id
  mat : γ
  omd : Option (List Md)
  smd : Option (List Md)
  ttype : Option String
  deriving Repr, DecidableEq

namespace Content
variable {γ : Type}
def ids (c : Content γ) : Axis → List Id
  | .obs => c.obs
  | .samp => c.samp
def md (c : Content γ) : Axis → Option (List Md)
  | .obs => c.omd
  | .samp => c.smd
def setIds (c : Content γ) : Axis → List Id → Content γ
  | .obs, l => { c with obs := l }
  | .samp, l => { c with samp := l }
def setMd (c : Content γ) : Axis → Option (List Md) → Content γ
  | .obs, m => { c with omd := m }
  | .samp, m => { c with smd := m }
end Content

/-- a Table object: references into the heap -/
structure Obj where
  mat : Nat
  fmt : Fmt
  obsIds : Nat
  sampIds : Nat
  omd : Option (List Nat)
  smd : Option (List Nat)
  ttype : Option String
  deriving Repr, DecidableEq

namespace Obj
def idsLoc (o : Obj) : Axis → Nat
  | .obs => o.obsIds
  | .samp => o.sampIds
def md (o : Obj) : Axis → Option (List Nat)
  | .obs => o.omd
  | .samp => o.smd
def setIdsLoc (o : Obj) : Axis → Nat → Obj
  | .obs, l => { o with obsIds := l }
  | .samp, l => { o with sampIds := l }
def setMd (o : Obj) : Axis → Option (List Nat) → Obj
  | .obs, m => { o with omd := m }
  | .samp, m => { o with smd := m }
/-- every dict the table references -/
def dlocs (o : Obj) : List Nat := o.omd.getD [] ++ o.smd.getD []
end Obj

structure Heap (γ : Type) where
  mats : List γ
  ids : List (List Id)
  dicts : List Md
  objs : List Obj

def Heap.empty {γ : Type} : Heap γ := { mats := [], ids := [], dicts := [], objs := [] }

/-- the constructor's `no_metadata` + `_cast_metadata`: entries that are all empty carry no
information and become `None` -/
def normMd : Option (List Md) → Option (List Md)
  | none => none
  | some l => if l.all (·.isEmpty) then none else some l

/-- where the ID array handed to the constructor comes from -/
inductive IdSrc where
  | fresh                          -- a list (or `.copy()`): `np.asarray` makes a new array
  | ofTable (t : Nat) (ax : Axis)  -- a view of a live table's array (`self.ids()[:]`, `other.ids()`)
  | ofLoc (l : Nat)                -- an array the caller holds
  deriving Repr, DecidableEq

/-- content of a brand-new metadata tuple built by `add_metadata` on an axis without metadata -/
def newEntries (ups : List (Option (Md → Md))) : List Md :=
  ups.map (fun u => match u with | some f => f [] | none => [])

section model
variable {γ : Type} [Inhabited γ]

namespace Heap

def mat (h : Heap γ) (l : Nat) : γ := h.mats[l]?.getD default
def idArr (h : Heap γ) (l : Nat) : List Id := h.ids[l]?.getD []
def dict (h : Heap γ) (l : Nat) : Md := h.dicts[l]?.getD []
def readMd (h : Heap γ) (m : Option (List Nat)) : Option (List Md) := m.map (·.map h.dict)

/-- deep snapshot of one object -/
def absObj (h : Heap γ) (o : Obj) : Content γ :=
  { obs := h.idArr o.obsIds, samp := h.idArr o.sampIds, mat := h.mat o.mat,
    omd := h.readMd o.omd, smd := h.readMd o.smd, ttype := o.ttype }

/-- deep snapshot of live table `t` -/
def abs (h : Heap γ) (t : Nat) : Option (Content γ) := h.objs[t]?.map h.absObj

/-- an existing array the constructor argument aliases, if any -/
def aliasLoc (h : Heap γ) : IdSrc → Option Nat
  | .fresh => none
  | .ofLoc l => if l < h.ids.length then some l else none
  | .ofTable t ax =>
    match h.objs[t]? with
    | some o => if o.idsLoc ax < h.ids.length then some (o.idsLoc ax) else none
    | none => none

/-- `Table.__init__` -/
def construct (h : Heap γ) (srcs : List Nat) (F : List (Content γ) → Content γ) (os ss : IdSrc) : Heap γ :=
  let c := F (srcs.filterMap h.abs)
  let ids1 := match h.aliasLoc os with | some _ => h.ids | none => h.ids ++ [c.obs]
  let ol := match h.aliasLoc os with | some l => l | none => h.ids.length
  let ids2 := match h.aliasLoc ss with | some _ => ids1 | none => ids1 ++ [c.samp]
  let sl := match h.aliasLoc ss with | some l => l | none => ids1.length
  let om := (normMd c.omd).getD []
  let sm := (normMd c.smd).getD []
  { mats := h.mats ++ [c.mat], ids := ids2, dicts := h.dicts ++ om ++ sm,
    objs := h.objs ++ [{ mat := h.mats.length, fmt := .csr, obsIds := ol, sampIds := sl,
                         omd := (normMd c.omd).map (fun l => List.range' h.dicts.length l.length),
                         smd := (normMd c.smd).map (fun l => List.range' (h.dicts.length + om.length) l.length),
                         ttype := c.ttype }] }

/-- `arr = table._data.tocsr()/tocsc()` ; kernel writes `arr` in place ; `table._data = arr` -/
def matKernel (h : Heap γ) (t : Nat) (ax : Axis) (g : γ → γ) : Heap γ :=
  match h.objs[t]? with
  | none => h
  | some o =>
    if o.fmt = Fmt.ofAxis ax then { h with mats := h.mats.set o.mat (g (h.mat o.mat)) }
    else { h with mats := h.mats ++ [g (h.mat o.mat)],
                  objs := h.objs.set t { o with mat := h.mats.length, fmt := Fmt.ofAxis ax } }

/-- a READ accessor that caches a format conversion on the table it reads: `_get_row` / `_get_col`
(behind `data()`, `iter()`, `partition`, `collapse`, the general path of `merge`) do
`self._data = self._data.tocsr()/tocsc()`.  The content is untouched; when the layout differs the
table henceforth references a new buffer (the old one is not written). -/
def relayout (h : Heap γ) (t : Nat) (ax : Axis) : Heap γ :=
  match h.objs[t]? with
  | none => h
  | some o =>
    if o.fmt = Fmt.ofAxis ax then h
    else { h with mats := h.mats ++ [h.mat o.mat],
                  objs := h.objs.set t { o with mat := h.mats.length, fmt := Fmt.ofAxis ax } }

/-- a new ID array is installed -/
def setIds (h : Heap γ) (t : Nat) (ax : Axis) (l : List Id) : Heap γ :=
  match h.objs[t]? with
  | none => h
  | some o => { h with ids := h.ids ++ [l], objs := h.objs.set t (o.setIdsLoc ax h.ids.length) }

/-- `tuple(compress(metadata, bools))`, then `None` when nothing the kept dicts hold is left
("for consistency with init on absence of metadata") -/
def keepMd (h : Heap γ) (t : Nat) (ax : Axis) (mask : List Bool) : Heap γ :=
  match h.objs[t]? with
  | none => h
  | some o =>
    let kept : Option (List Nat) :=
      match o.md ax with
      | some ls => if (filterMask ls mask).all (fun l => (h.dict l).isEmpty) then none else some (filterMask ls mask)
      | none => none
    { h with objs := h.objs.set t (o.setMd ax kept) }

/-- `_cast_metadata`: on both axes, entries that are all empty become `None`; otherwise every entry
is re-wrapped in a fresh dict with the same content -/
def recast (h : Heap γ) (t : Nat) : Heap γ :=
  match h.objs[t]? with
  | none => h
  | some o =>
    let oc := normMd (h.readMd o.omd)
    let sc := normMd (h.readMd o.smd)
    { h with dicts := h.dicts ++ oc.getD [] ++ sc.getD [],
             objs := h.objs.set t { o with omd := oc.map (fun l => List.range' h.dicts.length l.length),
                                           smd := sc.map (fun l => List.range' (h.dicts.length + (oc.getD []).length) l.length) } }

/-- a run of in-place dict writes (`d.update(..)`, `del d[k]`) -/
def writeDicts (h : Heap γ) : List (Nat × Option (Md → Md)) → Heap γ
  | [] => h
  | (l, some u) :: r => writeDicts { h with dicts := h.dicts.set l (u (h.dict l)) } r
  | (_, none) :: r => writeDicts h r

/-- `add_metadata` -/
def addMd (h : Heap γ) (t : Nat) (ax : Axis) (ups : List (Option (Md → Md))) : Heap γ :=
  match h.objs[t]? with
  | none => h
  | some o =>
    match o.md ax with
    | some locs => (h.writeDicts (locs.zip ups)).recast t
    | none =>
      if ups.all (·.isNone) then h.recast t
      else
        -- the tuple first holds the caller's own dicts (objects outside every table) ...
        let h1 : Heap γ := { h with dicts := h.dicts ++ newEntries ups,
                                    objs := h.objs.set t (o.setMd ax (some (List.range' h.dicts.length ups.length))) }
        -- ... and `_cast_metadata` wraps them
        h1.recast t

/-- `del_metadata` on one axis; `none` = `keys=None` -/
def delMd (h : Heap γ) (t : Nat) (ax : Axis) (d : Option (Md → Md)) : Heap γ :=
  match h.objs[t]? with
  | none => h
  | some o =>
    match d with
    | none => { h with objs := h.objs.set t (o.setMd ax none) }
    | some f =>
      match o.md ax with
      | none => h
      | some locs =>
        let h1 := h.writeDicts (locs.map (fun l => (l, some f)))
        if locs.all (fun l => (h1.dict l).isEmpty) then { h1 with objs := h1.objs.set t (o.setMd ax none) }
        else h1

end Heap

/-- primitive actions -/
inductive Micro (γ : Type) where
  | allocIds (l : List Id)
  | construct (srcs : List Nat) (F : List (Content γ) → Content γ) (os ss : IdSrc)
  | matKernel (t : Nat) (ax : Axis) (g : γ → γ)
  | setIds (t : Nat) (ax : Axis) (l : List Id)
  | keepMd (t : Nat) (ax : Axis) (mask : List Bool)
  | addMd (t : Nat) (ax : Axis) (ups : List (Option (Md → Md)))
  | delMd (t : Nat) (ax : Axis) (d : Option (Md → Md))
  | relayout (t : Nat) (ax : Axis)

/-- the table an action modifies in place (`none`: it only allocates) -/
def Micro.target : Micro γ → Option Nat
  | .allocIds _ => none
  | .construct .. => none
  | .matKernel t .. => some t
  | .setIds t .. => some t
  | .keepMd t .. => some t
  | .addMd t .. => some t
  | .delMd t .. => some t
  | .relayout t _ => some t

/-- actions that change the record of their target but never its content -/
def Micro.quiet : Micro γ → Bool
  | .relayout .. => true
  | _ => false

def step (h : Heap γ) : Micro γ → Heap γ
  | .allocIds l => { h with ids := h.ids ++ [l] }
  | .construct srcs F os ss => h.construct srcs F os ss
  | .matKernel t ax g => h.matKernel t ax g
  | .setIds t ax l => h.setIds t ax l
  | .keepMd t ax mask => h.keepMd t ax mask
  | .addMd t ax ups => h.addMd t ax ups
  | .delMd t ax d => h.delMd t ax d
  | .relayout t ax => h.relayout t ax

def run (h : Heap γ) (ms : List (Micro γ)) : Heap γ := ms.foldl step h

/-- existing locations an action writes: (matrix buffers, dicts).  ID arrays: never. -/
def writes (h : Heap γ) : Micro γ → List Nat × List Nat
  | .allocIds _ => ([], [])
  | .construct .. => ([], [])
  | .matKernel t ax _ =>
    match h.objs[t]? with
    | some o => if o.fmt = Fmt.ofAxis ax then ([o.mat], []) else ([], [])
    | none => ([], [])
  | .setIds .. => ([], [])
  | .keepMd .. => ([], [])
  | .addMd t ax _ =>
    match h.objs[t]? with
    | some o => ([], (o.md ax).getD [])
    | none => ([], [])
  | .delMd t ax d =>
    match h.objs[t]?, d with
    | some o, some _ => ([], (o.md ax).getD [])
    | _, _ => ([], [])
  | .relayout .. => ([], [])

/-- the bodies of the operations that can run in place, on target table `t` -/
inductive Body (γ : Type) where
  | filter (ax : Axis) (g : γ → γ) (ids : List Id) (mask : List Bool)
  | transform (ax : Axis) (g : γ → γ)        -- transform, norm, pa, rankdata; the subsample kernel
  | updateIds (ax : Axis) (ids : List Id)
  | addMd (ax : Axis) (ups : List (Option (Md → Md)))
  | delMd (ax : Axis) (d : Option (Md → Md))

def Body.micro (t : Nat) : Body γ → List (Micro γ)
  | .filter ax g ids mask => [.matKernel t ax g, .setIds t ax ids, .keepMd t ax mask]
  | .transform ax g => [.matKernel t ax g]
  | .updateIds ax ids => [.setIds t ax ids]
  | .addMd ax ups => [.addMd t ax ups]
  | .delMd ax d => [.delMd t ax d]

def bodiesMicro (t : Nat) (bs : List (Body γ)) : List (Micro γ) := bs.flatMap (Body.micro t)

/-- the constructor's / `_cast_metadata`'s normalisation, on both axes -/
def Content.norm (c : Content γ) : Content γ := { c with omd := normMd c.omd, smd := normMd c.smd }

/-- what a body does to the content of its target — a function of the content alone -/
def zipUpd : List Md → List (Option (Md → Md)) → List Md
  | m :: ms, some f :: us => f m :: zipUpd ms us
  | m :: ms, none :: us => m :: zipUpd ms us
  | ms, [] => ms
  | [], _ => []

def Micro.absStep : Micro γ → Content γ → Content γ
  | .allocIds _, c => c
  | .construct .., c => c
  | .matKernel _ _ g, c => { c with mat := g c.mat }
  | .setIds _ ax l, c => c.setIds ax l
  | .keepMd _ ax mask, c => c.setMd ax (normMd ((c.md ax).map (fun ms => filterMask ms mask)))
  | .addMd _ ax ups, c =>
    (match c.md ax with
     | some ms => c.setMd ax (some (zipUpd ms ups))
     | none => if ups.all (·.isNone) then c else c.setMd ax (some (newEntries ups))).norm
  | .delMd _ ax d, c =>
    match d with
    | none => c.setMd ax none
    | some f =>
      match c.md ax with
      | none => c
      | some ms => if (ms.map f).all (·.isEmpty) then c.setMd ax none else c.setMd ax (some (ms.map f))
  | .relayout .., c => c

def absRun (ms : List (Micro γ)) (c : Content γ) : Content γ := ms.foldl (fun c m => m.absStep c) c

/-- API operations -/
inductive Op (γ : Type) where
  | extIds (l : List Id)                                  -- the caller makes an ID array
  /-- read accessors (`data`, `iter`, `str`, …) called on live tables: no result table, only the
  cached format conversions they leave behind -/
  | read (pre : List (Nat × Axis))
  | inplace (recv : Nat) (bs : List (Body γ))             -- `table = self` ; bodies ; `return table`
  /-- `pre`: read accessors that re-lay-out source tables while the arguments are computed;
  then the constructor call; then in-place bodies on the new table -/
  | new (pre : List (Nat × Axis)) (srcs : List Nat) (F : List (Content γ) → Content γ) (os ss : IdSrc)
      (post : List (Body γ))

def copyF : List (Content γ) → Content γ := fun cs => cs.headD
  { obs := [], samp := [], mat := default, omd := none, smd := none, ttype := none }

/-- `table = self.copy()` ; bodies ; `return table` -/
def Op.copyThen (recv : Nat) (bs : List (Body γ)) : Op γ := .new [] [recv] copyF .fresh .fresh bs

/-- micro-steps of an operation when `n` tables exist -/
def Op.micro (n : Nat) : Op γ → List (Micro γ)
  | .extIds l => [.allocIds l]
  | .read pre => pre.map (fun p => Micro.relayout p.1 p.2)
  | .inplace r bs => bodiesMicro r bs
  | .new pre srcs F os ss post =>
    pre.map (fun p => Micro.relayout p.1 p.2) ++ .construct srcs F os ss :: bodiesMicro n post

/-- index of the returned table -/
def Op.result (n : Nat) : Op γ → Option Nat
  | .extIds _ => none
  | .read _ => none
  | .inplace r _ => some r
  | .new .. => some n

def stepOp (h : Heap γ) (op : Op γ) : Heap γ := run h (op.micro h.objs.length)

def runOps (h : Heap γ) (ops : List (Op γ)) : Heap γ := ops.foldl stepOp h

/-! ### The named operations of the property, as instances (alias pattern transcribed from the code) -/

def Op.copy (r : Nat) : Op γ := .copyThen r []
/-- `self.__class__(self._data.transpose(copy=True), self.ids()[:], self.ids('observation')[:], ..)` -/
def Op.transpose (r : Nat) (F : List (Content γ) → Content γ) : Op γ :=
  .new [] [r] F (.ofTable r .samp) (.ofTable r .obs) []
/-- `sort_order`: the other axis is `self.ids(..)[:]` (a view); the sorted axis is `order[:]` —
a new array for a list, a view for an array (`align_to` passes `other.ids(axis)`) -/
def Op.sortOrder (r : Nat) (ax : Axis) (order : IdSrc) (F : List (Content γ) → Content γ) : Op γ :=
  match ax with
  | .samp => .new [] [r] F (.ofTable r .obs) order []
  | .obs => .new [] [r] F order (.ofTable r .samp) []
def Op.sort (r : Nat) (ax : Axis) (F : List (Content γ) → Content γ) : Op γ := Op.sortOrder r ax .fresh F
/-- `head`: `self.filter(rows, 'observation', inplace=False)` then `.filter(cols, 'sample')` -/
def Op.head (r : Nat) (f1 f2 : Body γ) : Op γ := .copyThen r [f1, f2]
/-- `subsample`: `self.copy()`, kernel on `_get_sparse_data(axis)`, filter on the axis, filter on the other -/
def Op.subsample (r : Nat) (bodies : List (Body γ)) : Op γ := .copyThen r bodies
/-- one yielded table of `partition` (which walks the receiver with `iter(axis)`, hence the
re-layout of the receiver); `collapse` builds its result the same way -/
def Op.partition (r : Nat) (ax : Axis) (pre : List (Nat × Axis)) (F : List (Content γ) → Content γ)
    (post : List (Body γ)) : Op γ :=
  match ax with
  | .samp => .new pre [r] F (.ofTable r .obs) .fresh post
  | .obs => .new pre [r] F .fresh (.ofTable r .samp) post
def Op.collapse (r : Nat) (ax : Axis) (pre : List (Nat × Axis)) (F : List (Content γ) → Content γ) : Op γ :=
  Op.partition r ax pre F []
/-- `merge`, `concat`: every constructor argument is newly built (the general path of `merge` reads
both operands row by row with `data(id, 'observation')`) -/
def Op.combine (r : Nat) (others : List Nat) (pre : List (Nat × Axis)) (F : List (Content γ) → Content γ) : Op γ :=
  .new pre (r :: others) F .fresh .fresh []
/-- `align_to`: a chain of `sort_order(other.ids(axis), axis)`; only the last table is returned -/
def Op.alignTo (r o : Nat) (alignObs alignSamp : Bool) (F : List (Content γ) → Content γ) : Op γ :=
  .new [] [r, o] F (.ofTable (if alignObs then o else r) .obs) (.ofTable (if alignSamp then o else r) .samp) []

/-! ### The property, on observations only -/

/-- what the harness (or the model) observed around one call -/
structure CallObs (γ : Type) where
  inplace : Bool
  raised : Bool
  recv : Nat
  before : List (Content γ)            -- deep snapshot of every live table before the call
  after : List (Content γ)             -- the same tables, same order, after the call
  resultIds : List Nat                 -- returned objects, as indices into the live list (≥ |before| = a new object)
  results : List (Content γ)           -- their snapshots right after the call
  reference : Option (Content γ)       -- in-place: what the non-in-place variant returns on an equal table
  afterPoke : List (Content γ)         -- non-in-place: the `before` tables after the result has been poked
  extBefore : List (List Id)           -- caller-held arrays
  extAfter : List (List Id)
  extAfterPoke : List (List Id)
  /-- group metadata (both axes, rendered as text) of every table that was alive before the call.  The heap
  model has no group metadata (no operation of the property's list carries it over to a result), so the
  model's own observations hold empty entries; on the real code the entries are what `group_metadata` says. -/
  gBefore : List (List String)
  gAfter : List (List String)
  gAfterPoke : List (List String)

variable [DecidableEq γ]

open Codec in
def holdsV (c : CallObs γ) : Verdict :=
  if c.inplace then
    allV [
      chk "inplace.others-unchanged"
        ((List.range c.before.length).all (fun i => i == c.recv || c.after[i]? == c.before[i]?)
          && c.after.length == c.before.length),
      chk "inplace.caller-arrays-unchanged" (c.extAfter == c.extBefore),
      chk "inplace.others-group-metadata-unchanged"
        ((List.range c.gBefore.length).all (fun i => i == c.recv || c.gAfter[i]? == c.gBefore[i]?)),
      chk "inplace.returns-receiver" (c.raised || c.resultIds == [c.recv]),
      chk "inplace.result-is-receiver-state" (c.raised || c.after[c.recv]? == c.results.head?),
      chk "inplace.equals-noninplace" (c.raised || (c.reference.isSome && c.results.head? == c.reference))]
  else
    allV [
      chk "new.inputs-unchanged" (c.after == c.before),
      chk "new.caller-arrays-unchanged" (c.extAfter == c.extBefore),
      chk "new.result-is-new-object" (c.resultIds.all (fun i => decide (c.before.length ≤ i))),
      chk "new.result-count" (c.raised || (c.resultIds.length == c.results.length)),
      chk "new.poke-does-not-show-through" (c.afterPoke == c.before),
      chk "new.poke-caller-arrays-unchanged" (c.extAfterPoke == c.extBefore),
      chk "new.inputs-group-metadata-unchanged" (c.gAfter == c.gBefore),
      chk "new.poke-group-metadata-does-not-show-through" (c.gAfterPoke == c.gBefore)]

def holds (c : CallObs γ) : Bool := (holdsV c).isNone

/-! ### The model's own observation of a call -/

/-- deep snapshots of all live tables -/
def snaps (h : Heap γ) : List (Content γ) := h.objs.map h.absObj

/-- the poke: in-place bodies applied to the result -/
def obsOp (h : Heap γ) (op : Op γ) (poke : List (Body γ)) : CallObs γ × Heap γ :=
  let n := h.objs.length
  let h1 := stepOp h op
  match op with
  | .inplace r bs =>
    ({ inplace := true, raised := false, recv := r, before := snaps h, after := (snaps h1).take n,
       resultIds := [r], results := (h1.abs r).toList,
       reference := (stepOp h (Op.copyThen r bs)).abs n,
       afterPoke := [], extBefore := h.ids, extAfter := h1.ids.take h.ids.length, extAfterPoke := [],
       gBefore := List.replicate n [], gAfter := List.replicate n [], gAfterPoke := [] }, h1)
  | _ =>
    let h2 := stepOp h1 (.inplace n poke)
    ({ inplace := false, raised := false, recv := 0, before := snaps h, after := (snaps h1).take n,
       resultIds := (List.range (h1.objs.length - n)).map (· + n),
       results := (snaps h1).drop n,
       reference := none,
       afterPoke := (snaps h2).take n, extBefore := h.ids, extAfter := h1.ids.take h.ids.length,
       extAfterPoke := h2.ids.take h.ids.length,
       gBefore := List.replicate n [], gAfter := List.replicate n [], gAfterPoke := List.replicate n [] }, h2)

def runObs (h : Heap γ) : List (Op γ × List (Body γ)) → List (CallObs γ)
  | [] => []
  | (op, poke) :: rest => (obsOp h op poke).1 :: runObs (obsOp h op poke).2 rest

/-- no axis carries a metadata tuple without information (the constructor, `_cast_metadata`,
`filter` and `del_metadata` all turn such a tuple into `None`) -/
def Content.mdNormal (c : Content γ) : Bool := normMd c.omd == c.omd && normMd c.smd == c.smd

/-- well-formedness of a call: an in-place call names a live table -/
def okCall (h : Heap γ) : Op γ → Bool
  | .inplace r _ => decide (r < h.objs.length)
  | _ => true

/-- every in-place call of a history names a table that is live at that time -/
def okRun (h : Heap γ) : List (Op γ × List (Body γ)) → Bool
  | [] => true
  | (op, poke) :: rest => okCall h op && okRun (obsOp h op poke).2 rest

end model


/-! ### JSON glue and the driver (untrusted for the theorems) -/
open Codec

abbrev G := List (List Rat)

def contentOfTable (t : Table Rat) : Content G :=
  { obs := t.obs, samp := t.samp, mat := t.rows, omd := t.omd, smd := t.smd, ttype := t.ttype }

def asContent (j : Json) : R (Content G) := do pure (contentOfTable (← asTable j))

def contentToJson (c : Content G) : Json :=
  tableToJson { obs := c.obs, samp := c.samp, rows := c.mat, omd := c.omd, smd := c.smd, ttype := c.ttype }

/-- what `_remove_rows_csr` leaves of the dense content -/
def filterGrid (ax : Axis) (mask : List Bool) (g : G) : G :=
  match ax with
  | .obs => filterMask g mask
  | .samp => g.map (fun r => filterMask r mask)

def mdInsert (k v : String) : Md → Md
  | [] => [(k, v)]
  | (k', v') :: r =>
    match compare k k' with
    | .lt => (k, v) :: (k', v') :: r
    | .eq => (k, v) :: r
    | .gt => (k', v') :: mdInsert k v r

/-- `dict.update(e)` on canonical (key-sorted) entries -/
def mdUpdate (e : Md) (old : Md) : Md := e.foldl (fun acc kv => mdInsert kv.1 kv.2 acc) old
/-- `for k in keys: if k in md: del md[k]` -/
def mdErase (keys : List String) (old : Md) : Md := old.filter (fun kv => !keys.contains kv.1)

structure CallJ where
  name : String
  args : Json
  raised : Bool
  inplace : Bool
  recv : Nat
  results : List Nat
  resultContents : List (Content G)
  ref : Option (Content G)
  after : List (Content G)
  ext : List (List String)     -- everything the caller holds, in creation order
  extIdIdx : List Nat          -- which of them are ID arrays
  gmd : List (List String)     -- group metadata of every live table after the call
  facts : Json
  poke : Nat

def CallJ.extIds (c : CallJ) : List (List Id) := c.extIdIdx.map (fun i => c.ext[i]?.getD [])

def asCallJ (j : Json) : R CallJ := do
  pure { name := (← strF j "name"), args := (optFld j "args").getD Json.null,
         raised := (← boolFD j "raised" false), inplace := (← boolFD j "inplace" false),
         recv := (← natFD j "recv" 0), results := (← listF asNat j "results"),
         resultContents := (← listF asContent j "result_contents"),
         ref := (← optF asContent j "ref"), after := (← listF asContent j "after"),
         ext := (← listF (asList asStr) j "ext"), extIdIdx := (← listF asNat j "ext_id_idx"),
         gmd := (← listF (asList asStr) j "gmd"),
         facts := (← fld j "facts"), poke := (← natFD j "poke" 0) }

def filterBody (cur : Content G) (ax : Axis) (newIds : List Id) (gOverride : Option G) : Body G :=
  let mask := (cur.ids ax).map (fun i => newIds.contains i)
  .filter ax (match gOverride with | some g => (fun _ => g) | none => filterGrid ax mask) newIds mask

def asIdSrc (ext : List Nat) (j : Json) : R IdSrc := do
  match (← strF j "kind") with
  | "list" => pure .fresh
  | "ext" => match ext[(← natF j "j")]? with
    | some l => pure (.ofLoc l)
    | none => .error "unknown ext array"
  | "table" => pure (.ofTable (← natF j "i") (← axisF j "axis"))
  | s => .error s!"bad id source {s}"

def setEq (a b : List Id) : Bool := a.all (b.contains ·) && b.all (a.contains ·)

/-- the bodies of an operation that has an `inplace` flag, against the current content of its target -/
def bodiesOf (cur : Content G) (name : String) (a : Json) : R (List (Body G)) := do
  match name with
  | "filter" => pure [filterBody cur (← axisF a "axis") (← listF asStr a "ids") none]
  | "transform" | "norm" | "pa" | "rankdata" =>
    let rows ← listF (asList asRat) a "rows"
    let ax ← axisF a "axis"
    -- a user function may write into the metadata mappings it is handed (`dict` writes in place)
    let ups ← optF (asList (asOpt asMd)) a "ups"
    pure ([.transform ax (fun _ => rows)] ++
      (match ups with | some u => [Body.addMd ax (u.map (fun x => x.map mdUpdate))] | none => []))
  | "remove_empty" =>
    let stages ← listF (fun st => do pure ((← axisF st "axis"), (← listF asStr st "ids"))) a "stages"
    pure (stages.map (fun st => filterBody cur st.1 st.2 none))
  | "update_ids" => pure [.updateIds (← axisF a "axis") (← listF asStr a "ids")]
  | "add_metadata" | "edit_md_value" =>
    let ups ← listF (asOpt asMd) a "ups"
    pure [.addMd (← axisF a "axis") (ups.map (fun u => u.map mdUpdate))]
  | "del_metadata" =>
    let axes ← listF asAxis a "axes"
    let keys ← optF (asList asStr) a "keys"
    pure (axes.map (fun ax => .delMd ax (keys.map mdErase)))
  -- group metadata is not part of the heap model: nothing the model tracks changes
  | "add_group_metadata" => pure []
  | s => .error s!"no bodies for {s}"

def inplaceNames : List String :=
  ["filter", "transform", "norm", "pa", "rankdata", "remove_empty", "update_ids", "add_metadata", "del_metadata",
   "add_group_metadata", "edit_md_value"]

/-- the model's operations for one call of the real API -/
def mkOps (h : Heap G) (ext : List Nat) (c : CallJ) : R (List (Op G)) := do
  if c.raised then return []
  let a := c.args
  let res0 : R (Content G) := match c.resultContents.head? with
    | some x => pure x
    | none => .error s!"{c.name}: no result content"
  let cur : R (Content G) := match h.abs c.recv with
    | some x => pure x
    | none => .error s!"{c.name}: unknown receiver {c.recv}"
  if inplaceNames.contains c.name then
    let bs ← bodiesOf (← cur) c.name a
    return [if c.inplace then .inplace c.recv bs else Op.copyThen c.recv bs]
  match c.name with
  | "ext_ids" => pure [.extIds (← listF asStr a "ids")]
  | "construct" =>
    let r ← res0
    pure [.new [] [] (fun _ => r) (← asIdSrc ext (← fld a "obs_src")) (← asIdSrc ext (← fld a "samp_src")) []]
  | "read" =>
    -- which accessor caches which conversion: `data(id, axis)` / `iter(axis)` go through `_get_col` (sample)
    -- or `_get_row` (observation); `str` walks the rows; `nnz`, `sum`, single cells, metadata do not convert
    let t ← natF a "table"
    let ax : Option Axis := match (← strF a "accessor") with
      | "data_samp" | "iter_samp" => some .samp
      | "data_obs" | "iter_obs" | "str" => some .obs
      | _ => none
    if (← strF a "accessor") == "iter_flip" then
      -- `iter('sample')` suspended after its first vector, `data(id, 'observation')`, iteration resumed:
      -- `_get_col`, `_get_row`, and `_get_col` again if there is a second sample
      let n := ((h.abs t).map (·.samp.length)).getD 0
      return [.read ([(t, Axis.samp), (t, Axis.obs)] ++ (if n ≥ 2 then [(t, Axis.samp)] else []))]
    pure [.read (ax.map (fun x => (t, x))).toList]
  | "ctor_from_table" =>
    -- `Table(src.matrix_data, src.ids('observation'), src.ids(), src.metadata('observation'), src.metadata())`
    let r ← res0
    let src ← natF a "src"
    pure [.new [] [src] (fun _ => r) (.ofTable src .obs) (.ofTable src .samp) []]
  | "copy" => pure [Op.copy c.recv]
  | "transpose" => let r ← res0; pure [Op.transpose c.recv (fun _ => r)]
  | "sort" => let r ← res0; pure [Op.sort c.recv (← axisF a "axis") (fun _ => r)]
  | "sort_order" =>
    let r ← res0
    pure [Op.sortOrder c.recv (← axisF a "axis") (← asIdSrc ext (← fld a "order")) (fun _ => r)]
  | "head" =>
    let r ← res0
    let cu ← cur
    pure [Op.head c.recv (filterBody cu .obs r.obs none) (filterBody cu .samp r.samp none)]
  | "subsample" | "generate_subsamples" =>
    -- `generate_subsamples(table, n, axis, by_id)` yields `table.subsample(n, axis, by_id)` again and again
    let cu ← cur
    let ax ← axisF a "axis"
    let byId ← boolF a "by_id"
    pure (c.resultContents.map (fun r =>
      let kernel : List (Body G) := if byId then [] else [.transform ax (fun _ => r.mat)]
      Op.subsample c.recv (kernel ++ [filterBody cu ax (r.ids ax) (some r.mat),
                                      filterBody cu ax.other (r.ids ax.other) (some r.mat)])))
  | "partition" =>
    let ax ← axisF a "axis"
    let re ← boolF a "remove_empty"
    let cu ← cur
    -- `iter(axis)` walks the receiver with `_get_col` / `_get_row` (when there is anything to walk)
    let pre := if (cu.ids ax).isEmpty then [] else [(c.recv, ax)]
    -- nothing is yielded when every ID is ignored (`ignore_none`); the receiver has been walked all the same
    if c.resultContents.isEmpty then return [.read pre]
    pure (c.resultContents.map (fun r =>
      Op.partition c.recv ax pre (fun _ => r)
        (if re then [filterBody r .samp r.samp none, filterBody r .obs r.obs none] else [])))
  | "collapse" =>
    let r ← res0
    let cu ← cur
    let ax ← axisF a "axis"
    pure [Op.collapse c.recv ax (if (cu.ids ax).isEmpty then [] else [(c.recv, ax)]) (fun _ => r)]
  | "concat" => let r ← res0; pure [Op.combine c.recv (← listF asNat a "others") [] (fun _ => r)]
  | "merge" =>
    let r ← res0
    let others ← listF asNat a "others"
    let uu ← boolF a "union_union"
    let ignoreMd ← boolFD a "ignore_md" false
    let hasMd (x : Content G) : Bool := x.omd.isSome || x.smd.isSome
    let cu ← cur
    let ocs := others.filterMap (fun i => (h.abs i).map (fun x => (i, x)))
    -- top level: one COO aggregation when no operand carries metadata (or it is ignored) and both axes are unions
    let topFast := uu && (ignoreMd || (!hasMd cu && ocs.all (fun p => !hasMd p.2)))
    -- otherwise pairwise merges, each taking its own fast path or reading both operands row by row
    -- (`data(obs_id, 'observation')` on every operand that has the observation)
    let reads (x : Content G) : Bool := x.obs.any (r.obs.contains ·)
    let pre : List (Nat × Axis) :=
      if topFast then [] else
        (ocs.foldl (fun (acc : List (Nat × Axis) × Bool × Bool) p =>
          -- acc = (reads so far, merged-so-far has metadata, merged-so-far is still the receiver)
          let fastK := uu && (ignoreMd || (!acc.2.1 && !hasMd p.2))
          if fastK then (acc.1, false, false)
          else (acc.1 ++ (if acc.2.2 && reads cu then [(c.recv, Axis.obs)] else []) ++
                  (if reads p.2 then [(p.1, Axis.obs)] else []),
                !ignoreMd && (acc.2.1 || hasMd p.2), false)) ([], hasMd cu, true)).1
    pure [Op.combine c.recv others pre (fun _ => r)]
  | "align_to" =>
    let r ← res0
    let cu ← cur
    let o ← natF a "other"
    let oc ← match h.abs o with | some x => pure x | none => .error "align_to: unknown other"
    let axis ← strF a "axis"
    let so := setEq cu.obs oc.obs
    let ss := setEq cu.samp oc.samp
    let (ao, as) := match axis with
      | "both" => (true, true)
      | "sample" => (false, true)
      | "observation" => (true, false)
      | _ => (so, ss)
    pure [Op.alignTo c.recv o ao as (fun _ => r)]
  | s => .error s!"unknown operation {s}"

/-! predicted aliasing facts -/

def pairsOf {α : Type} (l : List α) : List (α × α) :=
  match l with
  | [] => []
  | x :: r => r.map (fun y => (x, y)) ++ pairsOf r

def idOwners (h : Heap G) (ext : List Nat) : List (String × Nat) :=
  (h.objs.zipIdx.flatMap (fun (o, i) => [(s!"t{i}.o", o.obsIds), (s!"t{i}.s", o.sampIds)])) ++
  ext.zipIdx.map (fun (l, j) => (s!"e{j}", l))

def predIdShare (h : Heap G) (ext : List Nat) (unknown : List String) : List (String × String) :=
  ((pairsOf (idOwners h ext)).filter (fun (a, b) => a.2 == b.2 && !unknown.contains a.1 && !unknown.contains b.1)).map
    (fun (a, b) => (a.1, b.1))

def predMatShare (h : Heap G) : List (Nat × Nat) :=
  ((pairsOf h.objs.zipIdx).filter (fun (a, b) => a.1.mat == b.1.mat)).map (fun (a, b) => (a.2, b.2))

def predDictShare (h : Heap G) : List (Nat × Nat) :=
  ((pairsOf h.objs.zipIdx).filter (fun (a, b) => a.1.dlocs.any (b.1.dlocs.contains ·))).map (fun (a, b) => (a.2, b.2))

def hasDup : List Nat → Bool
  | [] => false
  | x :: r => r.contains x || hasDup r

def predDictDup (h : Heap G) : List Nat :=
  (h.objs.zipIdx.filter (fun (o, _) => hasDup o.dlocs)).map (·.2)

def predKept (h0 h1 : Heap G) : List Nat :=
  (h0.objs.zipIdx.filter (fun (o, i) => (h1.objs[i]?.map (·.mat)) == some o.mat)).map (·.2)

def Fmt.name : Fmt → String
  | .csr => "csr"
  | .csc => "csc"

def sameSet {α : Type} [BEq α] (a b : List α) : Bool := a.all (b.contains ·) && b.all (a.contains ·)

def asPairN (j : Json) : R (Nat × Nat) := do
  match (← asArr j) with
  | [a, b] => pure ((← asNat a), (← asNat b))
  | _ => .error "pair"

def asPairS (j : Json) : R (String × String) := do
  match (← asArr j) with
  | [a, b] => pure ((← asStr a), (← asStr b))
  | _ => .error "pair"

def symS (l : List (String × String)) : List (String × String) := l ++ l.map (fun p => (p.2, p.1))

/-- compare the model heap with what was observed after a call; `none` = agreement -/
def compareFacts (h0 h1 : Heap G) (ext : List Nat) (c : CallJ) : R (Option String) := do
  let f := c.facts
  let fmts ← listF asStr f "fmt"
  let matShare ← listF asPairN f "mat_share"
  let idShare ← listF asPairS f "id_share"
  let idUnknown ← listF asStr f "id_unknown"
  let dictShare ← listF asPairN f "dict_share"
  let dictDup ← listF asNat f "dict_dup"
  let kept ← listF asNat f "kept"
  let lookupShare ← listF asPairN f "lookup_share"
  let modelContents := snaps h1
  if modelContents.length != c.after.length then
    return some s!"live tables: model {modelContents.length} vs {c.after.length}"
  -- an in-place call that raised may have changed its receiver before raising (e.g. `errcheck` under a
  -- non-default profile runs after the change); the property is silent about the receiver then
  let skip : Option Nat := if c.raised && c.inplace then some c.recv else none
  match (modelContents.zip c.after).zipIdx.find? (fun (p, i) => p.1 != p.2 && some i != skip) with
  | some (p, i) => return some s!"content of table {i}: model {(contentToJson p.1).compress} vs observed {(contentToJson p.2).compress}"
  | none => pure ()
  let mExt := ext.map h1.idArr
  if mExt != c.extIds then return some "caller-held ID arrays differ"
  if h1.objs.map (·.fmt.name) != fmts then return some s!"layouts: model {h1.objs.map (·.fmt.name)} vs {fmts}"
  if !sameSet (predMatShare h1) matShare then return some s!"matrix sharing: model {predMatShare h1} vs {matShare}"
  if !sameSet (symS (predIdShare h1 ext idUnknown)) (symS idShare) then
    return some s!"ID array sharing: model {predIdShare h1 ext idUnknown} vs {idShare}"
  if !sameSet (predDictShare h1) dictShare then return some s!"dict sharing: model {predDictShare h1} vs {dictShare}"
  -- every constructor call indexes its IDs anew or is handed a copy (`_index_ids`, `.copy()` in filter / partition):
  -- no two tables ever resolve IDs through the same lookup object
  if !lookupShare.isEmpty then return some s!"ID lookup or group-metadata dict objects shared between tables {lookupShare} (the model: never)"
  if !sameSet (predDictDup h1) dictDup then return some s!"duplicate dicts: model {predDictDup h1} vs {dictDup}"
  if !c.raised && !sameSet (predKept h0 h1) kept then return some s!"buffers kept: model {predKept h0 h1} vs {kept}"
  return none

structure RunState where
  h : Heap G
  ext : List Nat
  prevAfter : List (Content G)
  prevExt : List (List Id)
  prevG : List (List String)
  k : Nat
  verdict : Verdict
  diff : Option String
  modelHolds : Bool

def extAll (c : CallJ) : List (List Id) := c.ext

/-- after a call that raised, the model adopts the layouts the tables were left in (a read accessor
may have cached a conversion before the exception); nothing else is taken from the observation -/
def resync (h : Heap G) (fmts : List String) : Heap G :=
  (h.objs.zip fmts).zipIdx.foldl (fun hh (p, i) =>
    if p.1.fmt.name == p.2 then hh else hh.relayout i (if p.2 == "csc" then Axis.samp else Axis.obs)) h

def stepCall (calls : Array CallJ) (st : RunState) (c : CallJ) : R RunState := do
  let ops ← mkOps st.h st.ext c
  let h1 := runOps st.h ops
  let h1 ← if c.raised then do pure (resync h1 (← listF asStr c.facts "fmt")) else pure h1
  let ext1 := if c.name == "ext_ids" && !c.raised then st.ext ++ [st.h.ids.length] else st.ext
  let n := st.prevAfter.length
  let later := calls[st.k + c.poke]?
  let obs : CallObs G :=
    { inplace := c.inplace, raised := c.raised, recv := c.recv, before := st.prevAfter,
      after := c.after.take n, resultIds := c.results, results := c.resultContents, reference := c.ref,
      afterPoke := match later with | some l => l.after.take n | none => [],
      extBefore := st.prevExt, extAfter := (extAll c).take st.prevExt.length,
      extAfterPoke := match later with | some l => (extAll l).take st.prevExt.length | none => [],
      gBefore := st.prevG, gAfter := c.gmd.take n,
      gAfterPoke := match later with | some l => l.gmd.take n | none => [] }
  let v := (holdsV obs).map (fun cl => s!"{st.k}:{c.name}:{cl}")
  let d ← compareFacts st.h h1 ext1 c
  let d := d.map (fun x => s!"{st.k}:{c.name}: {x}")
  -- the model's own observation of the same call satisfies the predicate (cf. model_holds)
  let mh := (ops.foldl (fun (acc : Bool × Heap G) op =>
    (acc.1 && (holds (obsOp acc.2 op []).1 || !(okCall acc.2 op)), stepOp acc.2 op)) (true, st.h)).1
  pure { h := h1, ext := ext1, prevAfter := c.after, prevExt := extAll c, prevG := c.gmd, k := st.k + 1,
         verdict := st.verdict.and v, diff := match st.diff with | some x => some x | none => d,
         modelHolds := st.modelHolds && mh }

/-- request: {"calls":[…]} → {"holds", "clause", "agree", "diff", "model_holds", "model"} -/
def handle (req : Json) : R Json := do
  let calls ← listF asCallJ req "calls"
  let arr := calls.toArray
  let st0 : RunState := { h := Heap.empty, ext := [], prevAfter := [], prevExt := [], prevG := [], k := 0,
                          verdict := none, diff := none, modelHolds := true }
  let st ← calls.foldlM (stepCall arr) st0
  pure (Json.mkObj (verdictToJson st.verdict ++
    [("agree", .bool st.diff.isNone), ("diff", optToJson Json.str st.diff),
     ("model_holds", .bool st.modelHolds),
     ("model", Json.mkObj [("tables", toJson st.h.objs.length), ("mats", toJson st.h.mats.length),
                           ("id_arrays", toJson st.h.ids.length), ("dicts", toJson st.h.dicts.length),
                           ("fmt", strsToJson (st.h.objs.map (·.fmt.name)))])]))

end Biom.C07
