/-
  C16 — helper lemmas: slices of a well-formed layout, the element-wise difference count, the
  stored-entry count of a layout without stored zeros, `ofEntries` / `eliminateZeros`.
-/
import BiomModel.C16

namespace Biom.C16
open Biom

variable {α : Type}

/-! ### small list facts -/

theorem sum_map_eq_zero {β : Type} (l : List β) (f : β → Nat) :
    (l.map f).sum = 0 ↔ ∀ x ∈ l, f x = 0 := by
  induction l with
  | nil => simp
  | cons x xs ih =>
    simp only [List.map_cons, List.sum_cons, List.mem_cons, forall_eq_or_imp]
    rw [← ih]; omega

theorem zip_map_fst_snd {β γ : Type} (l : List (β × γ)) : (l.map (·.1)).zip (l.map (·.2)) = l := by
  induction l with
  | nil => rfl
  | cons x xs ih => simp [ih]

/-- telescoping sum of a non-decreasing sequence -/
theorem sum_range_diff (p : Nat → Nat) (n : Nat) (h : ∀ i, i < n → p i ≤ p (i + 1)) :
    ((List.range n).map (fun i => p (i + 1) - p i)).sum = p n - p 0 ∧ p 0 ≤ p n := by
  induction n with
  | zero => simp
  | succ n ih =>
    have ih' := ih (fun i hi => h i (Nat.lt_succ_of_lt hi))
    have hn := h n (Nat.lt_succ_self n)
    rw [List.range_succ, List.map_append, List.sum_append]
    simp only [List.map_cons, List.map_nil, List.sum_cons, List.sum_nil, Nat.add_zero]
    omega

/-- flipping one position of a predicate from false to true adds one to the count -/
theorem countP_flip {β : Type} [DecidableEq β] (l : List β) (hn : l.Nodup) (k : β) (hk : k ∈ l)
    (p q : β → Bool) (hpk : p k = false) (hqk : q k = true) (hq : ∀ j, j ≠ k → q j = p j) :
    l.countP q = l.countP p + 1 := by
  induction l with
  | nil => cases hk
  | cons x xs ih =>
    rw [List.nodup_cons] at hn
    by_cases hx : x = k
    · subst hx
      have hcong : xs.countP q = xs.countP p := by
        apply List.countP_congr
        intro j hj
        have : j ≠ x := fun e => hn.1 (e ▸ hj)
        rw [hq j this]
      simp [hpk, hqk, hcong]
    · have hk' : k ∈ xs := by
        rcases List.mem_cons.mp hk with h | h
        · exact absurd h.symm hx
        · exact h
      have := ih hn.2 hk'
      simp [List.countP_cons, hq x hx, this]; omega

/-! ### entries of one vector -/

theorem entryAt_nil [Zero α] (j : Nat) : CS.entryAt ([] : List (Nat × α)) j = 0 := rfl

theorem entryAt_cons [Zero α] (e : Nat × α) (es : List (Nat × α)) (j : Nat) :
    CS.entryAt (e :: es) j = if e.1 = j then e.2 else CS.entryAt es j := by
  unfold CS.entryAt
  by_cases h : e.1 = j
  · simp [List.find?, h]
  · have : (e.1 == j) = false := by simpa using h
    simp [List.find?, this, h]

theorem entryAt_of_not_mem [Zero α] (es : List (Nat × α)) (j : Nat) (h : j ∉ es.map (·.1)) :
    CS.entryAt es j = 0 := by
  induction es with
  | nil => rfl
  | cons e es ih =>
    simp only [List.map_cons, List.mem_cons, not_or] at h
    rw [entryAt_cons, if_neg (fun e' => h.1 e'.symm)]
    exact ih h.2

theorem mem_unionIdx (e₁ e₂ : List (Nat × α)) (j : Nat) :
    j ∈ unionIdx e₁ e₂ ↔ j ∈ e₁.map (·.1) ∨ j ∈ e₂.map (·.1) := by
  unfold unionIdx
  simp only [List.mem_append, List.mem_filter]
  constructor
  · rintro (h | h)
    · exact .inl h
    · exact .inr h.1
  · rintro (h | h)
    · exact .inl h
    · by_cases h1 : j ∈ e₁.map (·.1)
      · exact .inl h1
      · refine .inr ⟨h, ?_⟩
        simpa using h1

/-- the difference count of one vector is zero exactly when the dense vectors agree -/
theorem neRow_eq_zero_iff [Zero α] [DecidableEq α] (n : Nat) (e₁ e₂ : List (Nat × α))
    (h₁ : ∀ p ∈ e₁, p.1 < n) (h₂ : ∀ p ∈ e₂, p.1 < n) :
    neRow e₁ e₂ = 0 ↔ CS.denseVec n e₁ = CS.denseVec n e₂ := by
  unfold neRow CS.denseVec
  rw [List.countP_eq_zero, List.map_inj_left]
  constructor
  · intro h j _
    by_cases hj : j ∈ unionIdx e₁ e₂
    · simpa using h j hj
    · rw [mem_unionIdx, not_or] at hj
      rw [entryAt_of_not_mem _ _ hj.1, entryAt_of_not_mem _ _ hj.2]
  · intro h j hj
    rw [mem_unionIdx] at hj
    have hlt : j < n := by
      rcases hj with hj | hj
      · obtain ⟨p, hp, rfl⟩ := List.mem_map.mp hj; exact h₁ p hp
      · obtain ⟨p, hp, rfl⟩ := List.mem_map.mp hj; exact h₂ p hp
    simpa using h j (List.mem_range.mpr hlt)

/-- without stored zeros and with distinct in-range indices, the number of non-zero cells of the
dense vector is the number of stored entries -/
theorem countP_denseVec [Zero α] [DecidableEq α] (n : Nat) (es : List (Nat × α))
    (hnd : (es.map (·.1)).Nodup) (hr : ∀ p ∈ es, p.1 < n) (hz : ∀ p ∈ es, p.2 ≠ 0) :
    (CS.denseVec n es).countP (fun v => decide (v ≠ 0)) = es.length := by
  unfold CS.denseVec
  rw [List.countP_map]
  induction es with
  | nil =>
    simp only [List.length_nil, List.countP_eq_zero]
    intro j _
    simp [Function.comp, entryAt_nil]
  | cons e es ih =>
    simp only [List.map_cons, List.nodup_cons] at hnd
    have ih' := ih hnd.2 (fun p hp => hr p (List.mem_cons_of_mem _ hp))
      (fun p hp => hz p (List.mem_cons_of_mem _ hp))
    rw [List.length_cons, ← ih']
    apply countP_flip (List.range n) List.nodup_range e.1
      (List.mem_range.mpr (hr e List.mem_cons_self))
    · simp [Function.comp, entryAt_of_not_mem es e.1 hnd.1]
    · have := hz e List.mem_cons_self
      simp [Function.comp, entryAt_cons, this]
    · intro j hj
      have hne : ¬ (e.1 = j) := fun h => hj h.symm
      simp only [Function.comp, entryAt_cons, if_neg hne]

/-! ### slices of a well-formed layout -/

theorem slice_mem_indices (c : CS α) (i : Nat) (p : Nat × α) (hp : p ∈ c.slice i) :
    p.1 ∈ c.indices ∧ p.2 ∈ c.data := by
  unfold CS.slice at hp
  have := List.of_mem_zip (a := p.1) (b := p.2) hp
  exact ⟨List.mem_of_mem_drop (List.mem_of_mem_take this.1),
         List.mem_of_mem_drop (List.mem_of_mem_take this.2)⟩

theorem slice_inRange (c : CS α) (h : c.WF) (i : Nat) : ∀ p ∈ c.slice i, p.1 < c.nMinor :=
  fun p hp => h.inRange _ (slice_mem_indices c i p hp).1

theorem slice_nonzero [Zero α] [DecidableEq α] (c : CS α) (hz : c.NoStoredZeros) (i : Nat) :
    ∀ p ∈ c.slice i, p.2 ≠ 0 :=
  fun p hp => hz _ (slice_mem_indices c i p hp).2

theorem ptr_mono (c : CS α) (h : c.WF) (a b : Nat) (hab : a ≤ b) (hb : b ≤ c.nMajor) :
    c.indptr.getD a 0 ≤ c.indptr.getD b 0 := by
  induction b with
  | zero => have : a = 0 := by omega
            subst this; exact Nat.le_refl _
  | succ b ih =>
    by_cases hab' : a = b + 1
    · subst hab'; exact Nat.le_refl _
    · exact Nat.le_trans (ih (by omega) (by omega)) (h.ptrMono b (by omega))

theorem slice_length (c : CS α) (h : c.WF) (i : Nat) (hi : i < c.nMajor) :
    (c.slice i).length = c.indptr.getD (i + 1) 0 - c.indptr.getD i 0 := by
  have hle : c.indptr.getD (i + 1) 0 ≤ c.data.length := by
    rw [← h.ptrLast]; exact ptr_mono c h _ _ (by omega) (Nat.le_refl _)
  have hs := h.sameLen
  unfold CS.slice
  simp only [List.length_zip, List.length_take, List.length_drop]
  omega

theorem ptr_zero (c : CS α) (h : c.WF) : c.indptr.getD 0 0 = 0 := by
  have := h.ptrZero
  simp [List.getD, this]

/-- the stored-entry count is the sum of the vector lengths -/
theorem storedCount_eq_sum (c : CS α) (h : c.WF) :
    storedCount c = ((List.range c.nMajor).map (fun i => (c.slice i).length)).sum := by
  have htel := sum_range_diff (fun i => c.indptr.getD i 0) c.nMajor (fun i hi => h.ptrMono i hi)
  have hcongr : (List.range c.nMajor).map (fun i => (c.slice i).length) =
      (List.range c.nMajor).map (fun i => c.indptr.getD (i + 1) 0 - c.indptr.getD i 0) := by
    apply List.map_congr_left
    intro i hi
    exact slice_length c h i (List.mem_range.mp hi)
  rw [hcongr, htel.1, ptr_zero c h]
  rfl

/-- number of non-zero cells of a dense grid -/
def nnzDense [Zero α] [DecidableEq α] (g : List (List α)) : Nat :=
  (g.map (fun r => r.countP (fun v => decide (v ≠ 0)))).sum

/-- a layout without stored zeros stores exactly the non-zero cells of its content -/
theorem storedCount_eq_nnzDense [Zero α] [DecidableEq α] (c : CS α) (h : c.WF) (hz : c.NoStoredZeros) :
    storedCount c = nnzDense c.toDense := by
  rw [storedCount_eq_sum c h]
  unfold nnzDense CS.toDense
  rw [List.map_map]
  congr 1
  apply List.map_congr_left
  intro i hi
  have hi' := List.mem_range.mp hi
  simp only [Function.comp]
  exact (countP_denseVec c.nMinor (c.slice i) (h.distinct i hi') (slice_inRange c h i)
    (slice_nonzero c hz i)).symm

theorem neCount_eq_zero_iff [Zero α] [DecidableEq α] (c₁ c₂ : CS α) (h₁ : c₁.WF) (h₂ : c₂.WF)
    (hM : c₁.nMajor = c₂.nMajor) (hm : c₁.nMinor = c₂.nMinor) :
    neCount c₁ c₂ = 0 ↔ c₁.toDense = c₂.toDense := by
  unfold neCount CS.toDense
  rw [sum_map_eq_zero, ← hM, ← hm, List.map_inj_left]
  constructor
  · intro h i hi
    exact (neRow_eq_zero_iff c₁.nMinor _ _ (slice_inRange c₁ h₁ i)
      (hm ▸ slice_inRange c₂ h₂ i)).mp (h i hi)
  · intro h i hi
    exact (neRow_eq_zero_iff c₁.nMinor _ _ (slice_inRange c₁ h₁ i)
      (hm ▸ slice_inRange c₂ h₂ i)).mpr (h i hi)

theorem toDense_length [Zero α] (c : CS α) : c.toDense.length = c.nMajor := by
  simp [CS.toDense]

theorem toDense_row_length [Zero α] (c : CS α) : ∀ r ∈ c.toDense, r.length = c.nMinor := by
  intro r hr
  simp only [CS.toDense, List.mem_map] at hr
  obtain ⟨i, _, rfl⟩ := hr
  simp [CS.denseVec]

/-! ### `ofEntries` and `eliminateZeros` -/

theorem getD_prefixSums (ls : List Nat) (i : Nat) (hi : i ≤ ls.length) :
    (prefixSums ls).getD i 0 = (ls.take i).sum := by
  unfold prefixSums
  have : i < ls.length + 1 := by omega
  simp [List.getD, List.getElem?_map, List.getElem?_range this]

theorem sum_take_succ (ls : List Nat) (i : Nat) (hi : i < ls.length) :
    (ls.take (i + 1)).sum = (ls.take i).sum + ls[i] := by
  rw [List.take_succ_eq_append_getElem hi, List.sum_append]
  simp

/-- the `i`-th block of a flattened list -/
theorem drop_take_flatten {β : Type} (L : List (List β)) (i : Nat) (hi : i < L.length) :
    (L.flatten.drop ((L.map List.length).take i).sum).take L[i].length = L[i] := by
  induction L generalizing i with
  | nil => cases hi
  | cons l L ih =>
    cases i with
    | zero => simp
    | succ i =>
      have hi' : i < L.length := by simpa using hi
      simp only [List.map_cons, List.take_succ_cons, List.sum_cons, List.flatten_cons,
        List.getElem_cons_succ]
      rw [List.drop_length_add_append]
      exact ih i hi'

theorem zip_drop_take {β γ : Type} (flat : List (β × γ)) (s n : Nat) :
    (((flat.map (·.1)).drop s).take n).zip (((flat.map (·.2)).drop s).take n) = (flat.drop s).take n := by
  rw [← List.map_drop, ← List.map_take, ← List.map_drop, ← List.map_take]
  exact zip_map_fst_snd _

theorem ofEntries_ptr (m : Nat) (ents : List (List (Nat × α))) (i : Nat) (hi : i ≤ ents.length) :
    (ofEntries m ents).indptr.getD i 0 = ((ents.map List.length).take i).sum := by
  unfold ofEntries
  exact getD_prefixSums _ i (by simpa using hi)

theorem slice_ofEntries (m : Nat) (ents : List (List (Nat × α))) (i : Nat) (hi : i < ents.length) :
    (ofEntries m ents).slice i = ents[i] := by
  have hs := ofEntries_ptr m ents i (by omega)
  have he := ofEntries_ptr m ents (i + 1) (by omega)
  have hlen : i < (ents.map List.length).length := by simpa using hi
  rw [sum_take_succ _ i hlen] at he
  unfold CS.slice
  simp only [hs, he]
  have hsub : ((ents.map List.length).take i).sum + (ents.map List.length)[i] -
      ((ents.map List.length).take i).sum = ents[i].length := by
    simp
  rw [hsub]
  simp only [ofEntries]
  rw [zip_drop_take, drop_take_flatten ents i hi]

theorem keptEntries_length [Zero α] [DecidableEq α] (c : CS α) : (keptEntries c).length = c.nMajor := by
  simp [keptEntries]

theorem keptEntries_get [Zero α] [DecidableEq α] (c : CS α) (i : Nat) (hi : i < (keptEntries c).length) :
    (keptEntries c)[i] = (c.slice i).filter (fun e => decide (e.2 ≠ 0)) := by
  simp [keptEntries]

theorem eliminateZeros_nMajor [Zero α] [DecidableEq α] (c : CS α) :
    (eliminateZeros c).nMajor = c.nMajor := by
  simp [eliminateZeros, ofEntries, keptEntries_length]

theorem eliminateZeros_nMinor [Zero α] [DecidableEq α] (c : CS α) :
    (eliminateZeros c).nMinor = c.nMinor := rfl

/-- every vector of the result is the corresponding vector of the input minus its zero entries -/
theorem slice_eliminateZeros [Zero α] [DecidableEq α] (c : CS α) (i : Nat) (hi : i < c.nMajor) :
    (eliminateZeros c).slice i = (c.slice i).filter (fun e => decide (e.2 ≠ 0)) := by
  have hi' : i < (keptEntries c).length := by rw [keptEntries_length]; exact hi
  unfold eliminateZeros
  rw [slice_ofEntries _ _ i hi', keptEntries_get]

theorem mem_keptEntries_flatten [Zero α] [DecidableEq α] (c : CS α) (p : Nat × α)
    (hp : p ∈ (keptEntries c).flatten) : ∃ i, p ∈ c.slice i ∧ p.2 ≠ 0 := by
  rw [List.mem_flatten] at hp
  obtain ⟨l, hl, hpl⟩ := hp
  simp only [keptEntries, List.mem_map] at hl
  obtain ⟨i, _, rfl⟩ := hl
  rw [List.mem_filter] at hpl
  exact ⟨i, hpl.1, by simpa using hpl.2⟩

/-- dropping the zero-valued entries of a vector with distinct indices does not change its content -/
theorem entryAt_filter_nonzero [Zero α] [DecidableEq α] (es : List (Nat × α))
    (hnd : (es.map (·.1)).Nodup) (j : Nat) :
    CS.entryAt (es.filter (fun e => decide (e.2 ≠ 0))) j = CS.entryAt es j := by
  induction es with
  | nil => rfl
  | cons e es ih =>
    simp only [List.map_cons, List.nodup_cons] at hnd
    rw [entryAt_cons]
    by_cases hv : e.2 = 0
    · have : List.filter (fun e => decide (e.2 ≠ 0)) (e :: es) = List.filter (fun e => decide (e.2 ≠ 0)) es := by
        simp [hv]
      rw [this, ih hnd.2]
      by_cases hk : e.1 = j
      · rw [if_pos hk, hv]
        exact entryAt_of_not_mem es j (hk ▸ hnd.1)
      · rw [if_neg hk]
    · have : List.filter (fun e => decide (e.2 ≠ 0)) (e :: es) = e :: List.filter (fun e => decide (e.2 ≠ 0)) es := by
        simp [hv]
      rw [this, entryAt_cons, ih hnd.2]

theorem sum_take_le (ls : List Nat) (i : Nat) (hi : i < ls.length) :
    (ls.take i).sum ≤ (ls.take (i + 1)).sum := by
  rw [sum_take_succ ls i hi]; omega

/-- `eliminate_zeros` returns a well-formed layout -/
theorem eliminateZeros_wf [Zero α] [DecidableEq α] (c : CS α) (h : c.WF) : (eliminateZeros c).WF := by
  have hlen := keptEntries_length c
  refine ⟨?_, ?_, ?_, ?_, ?_, ?_, ?_⟩
  · simp [eliminateZeros, ofEntries, prefixSums, hlen]
  · simp [eliminateZeros, ofEntries, prefixSums]
  · intro i hi
    rw [eliminateZeros_nMajor] at hi
    unfold eliminateZeros
    rw [ofEntries_ptr _ _ i (by omega), ofEntries_ptr _ _ (i + 1) (by omega)]
    exact sum_take_le _ i (by simpa [hlen] using hi)
  · unfold eliminateZeros
    have : (ofEntries c.nMinor (keptEntries c)).nMajor = (keptEntries c).length := rfl
    rw [this, ofEntries_ptr _ _ _ (Nat.le_refl _)]
    simp only [ofEntries, List.length_map, List.length_flatten]
    rw [← List.length_map (f := List.length), List.take_length]
  · simp only [eliminateZeros, ofEntries, List.length_map]
  · intro j hj
    simp only [eliminateZeros, ofEntries, List.mem_map] at hj
    obtain ⟨p, hp, rfl⟩ := hj
    obtain ⟨i, hpi, _⟩ := mem_keptEntries_flatten c p hp
    exact slice_inRange c h i p hpi
  · intro i hi
    rw [eliminateZeros_nMajor] at hi
    rw [slice_eliminateZeros c i hi]
    exact List.Nodup.sublist (List.Sublist.map _ List.filter_sublist) (h.distinct i hi)

/-! ### the constructor establishes the hypothesis, content unchanged -/

/-- after `eliminate_zeros` no stored entry is zero -/
theorem eliminateZeros_noStoredZeros [Zero α] [DecidableEq α] (c : CS α) :
    (eliminateZeros c).NoStoredZeros := by
  intro v hv
  simp only [eliminateZeros, ofEntries, List.mem_map] at hv
  obtain ⟨p, hp, rfl⟩ := hv
  obtain ⟨_, _, hnz⟩ := mem_keptEntries_flatten c p hp
  exact hnz

/-- `eliminate_zeros` does not change the content -/
theorem eliminateZeros_toDense [Zero α] [DecidableEq α] (c : CS α) (h : c.WF) :
    (eliminateZeros c).toDense = c.toDense := by
  unfold CS.toDense
  rw [eliminateZeros_nMajor, eliminateZeros_nMinor]
  apply List.map_congr_left
  intro i hi
  rw [slice_eliminateZeros c i (List.mem_range.mp hi)]
  unfold CS.denseVec
  apply List.map_congr_left
  intro j _
  exact entryAt_filter_nonzero _ (h.distinct i (List.mem_range.mp hi)) j

/-! ### table level -/

/-- what the (repaired) constructor guarantees of every table, and every operation keeps:
a well-formed layout of the right shape without stored zeros -/
structure Reach [Zero α] [DecidableEq α] (r : Rep α) : Prop where
  wf : r.data.WF
  nz : r.data.NoStoredZeros
  nObs : r.data.nMajor = r.obs.length
  nSamp : r.data.nMinor = r.samp.length

/-- recorded contract of scipy's format conversions (`tocsr`, `tocsc`, seen row-major): some
well-formed layout of the same shape with the same dense content and no new stored zero -/
structure LayoutConv [Zero α] [DecidableEq α] (conv : CS α → CS α) : Prop where
  wf : ∀ c, c.WF → (conv c).WF
  nz : ∀ c, c.WF → c.NoStoredZeros → (conv c).NoStoredZeros
  nMajor : ∀ c, c.WF → (conv c).nMajor = c.nMajor
  nMinor : ∀ c, c.WF → (conv c).nMinor = c.nMinor
  dense : ∀ c, c.WF → (conv c).toDense = c.toDense

theorem layoutConv_id [Zero α] [DecidableEq α] : LayoutConv (id : CS α → CS α) :=
  ⟨fun _ h => h, fun _ _ h => h, fun _ _ => rfl, fun _ _ => rfl, fun _ _ => rfl⟩

/-- `r'` is another representation of the table `r` -/
def Stable [Zero α] [DecidableEq α] (r r' : Rep α) : Prop := Reach r' ∧ r'.content = r.content

theorem Stable.refl [Zero α] [DecidableEq α] (r : Rep α) (h : Reach r) : Stable r r := ⟨h, rfl⟩

theorem Stable.trans [Zero α] [DecidableEq α] {r r' r'' : Rep α} (h₁ : Stable r r') (h₂ : Stable r' r'') :
    Stable r r'' := ⟨h₂.1, h₂.2.trans h₁.2⟩

theorem content_eq_iff [Zero α] (r₁ r₂ : Rep α) :
    r₁.content = r₂.content ↔ (r₁.ttype = r₂.ttype ∧ r₁.obs = r₂.obs ∧ r₁.samp = r₂.samp ∧
      r₁.omd = r₂.omd ∧ r₁.smd = r₂.smd ∧ r₁.data.toDense = r₂.data.toDense) := by
  unfold Rep.content
  constructor
  · intro h
    injection h with h1 h2 h3 h4 h5 h6
    exact ⟨h6, h1, h2, h4, h5, h3⟩
  · rintro ⟨h1, h2, h3, h4, h5, h6⟩
    rw [h1, h2, h3, h4, h5, h6]

theorem stable_relayout [Zero α] [DecidableEq α] (r : Rep α) (h : Reach r) (d : CS α) (f : Fmt)
    (hwf : d.WF) (hnz : d.NoStoredZeros) (hM : d.nMajor = r.data.nMajor) (hm : d.nMinor = r.data.nMinor)
    (hd : d.toDense = r.data.toDense) : Stable r { r with data := d, fmt := f } := by
  refine ⟨⟨hwf, hnz, hM.trans h.nObs, hm.trans h.nSamp⟩, ?_⟩
  rw [content_eq_iff]
  exact ⟨rfl, rfl, rfl, rfl, rfl, hd⟩

theorem stable_fmt [Zero α] [DecidableEq α] (r : Rep α) (h : Reach r) (f : Fmt) :
    Stable r { r with fmt := f } :=
  stable_relayout r h r.data f h.wf h.nz rfl rfl rfl

theorem acc_apply_stable [Zero α] [DecidableEq α] (conv : CS α → CS α) (hc : LayoutConv conv)
    (acc : Acc) (r : Rep α) (h : Reach r) : Stable r (acc.apply conv r) := by
  have hconv : ∀ f, Stable r { r with data := conv r.data, fmt := f } := fun f =>
    stable_relayout r h _ f (hc.wf _ h.wf) (hc.nz _ h.wf h.nz) (hc.nMajor _ h.wf) (hc.nMinor _ h.wf)
      (hc.dense _ h.wf)
  cases acc with
  | nnz =>
    exact stable_relayout r h _ r.fmt (eliminateZeros_wf _ h.wf) (eliminateZeros_noStoredZeros _)
      (eliminateZeros_nMajor _) (eliminateZeros_nMinor _) (eliminateZeros_toDense _ h.wf)
  | vecObs =>
    simp only [Acc.apply]
    split
    · exact Stable.refl r h
    · exact hconv .csr
  | vecSamp =>
    simp only [Acc.apply]
    split
    · exact Stable.refl r h
    · exact hconv .csc
  | getValue =>
    simp only [Acc.apply]
    split
    · exact hconv .csr
    · exact Stable.refl r h
  | plain => exact Stable.refl r h

theorem eqEffect_stable [Zero α] [DecidableEq α] (conv : CS α → CS α) (hc : LayoutConv conv)
    (r s : Rep α) (h : Reach r) : Stable r (eqEffect conv r s) := by
  unfold eqEffect
  split
  · exact acc_apply_stable conv hc .vecObs r h
  · exact Stable.refl r h

end Biom.C16
