/-
  C03 — helper lemmas: blanks, split/join, the last field, line ends, triples.
-/
import BiomModel.C03

namespace Biom.C03

/-! ### blanks -/

/-- no blank at the start -/
def NoLead (s : Text) : Prop := ∀ c t, s = c :: t → ws c = false
/-- no blank at the end -/
def NoTrail (s : Text) : Prop := ∀ c, s.getLast? = some c → ws c = false
/-- only blanks -/
def AllWs (e : Text) : Prop := ∀ c ∈ e, ws c = true

theorem rstrip_allWs (e : Text) (h : AllWs e) : rstrip e = [] := by
  induction e with
  | nil => rfl
  | cons c t ih =>
    have ht : AllWs t := fun x hx => h x (List.mem_cons_of_mem _ hx)
    have hc : ws c = true := h c (List.mem_cons_self ..)
    simp [rstrip, ih ht, hc]

theorem rstrip_append_ws (s e : Text) (h : AllWs e) : rstrip (s ++ e) = rstrip s := by
  induction s with
  | nil => exact rstrip_allWs e h
  | cons c t ih => simp only [List.cons_append, rstrip, ih]

theorem strip_append_ws (s e : Text) (h : AllWs e) : strip (s ++ e) = strip s := by
  simp only [strip, rstrip_append_ws s e h]

theorem rstrip_cons_ne_nil (c : Char) (t : Text) (h : rstrip t ≠ []) : rstrip (c :: t) = c :: rstrip t := by
  cases hr : rstrip t with
  | nil => exact absurd hr h
  | cons a r => simp only [rstrip, hr]

theorem rstrip_of_noTrail (s : Text) (h : NoTrail s) : rstrip s = s := by
  induction s with
  | nil => rfl
  | cons c t ih =>
    cases t with
    | nil =>
      have : ws c = false := h c (by simp)
      simp [rstrip, this]
    | cons d u =>
      have ht : NoTrail (d :: u) := fun x hx => h x (by simpa [List.getLast?_cons_cons] using hx)
      have e := ih ht
      rw [rstrip_cons_ne_nil c (d :: u) (by rw [e]; exact List.cons_ne_nil _ _), e]

theorem lstrip_of_noLead (s : Text) (h : NoLead s) : lstrip s = s := by
  cases s with
  | nil => rfl
  | cons c t =>
    have : ws c = false := h c t rfl
    simp [lstrip, List.dropWhile, this]

theorem strip_of_clean (s : Text) (h1 : NoLead s) (h2 : NoTrail s) : strip s = s := by
  simp only [strip, rstrip_of_noTrail s h2, lstrip_of_noLead s h1]

theorem rstrip_cons_of_not_ws (c : Char) (t : Text) (h : ws c = false) :
    rstrip (c :: t) = c :: rstrip t := by
  simp only [rstrip]
  split
  · next h0 => simp [h, h0]
  · rfl

theorem strip_cons_of_not_ws (c : Char) (t : Text) (h : ws c = false) :
    strip (c :: t) = c :: rstrip t := by
  simp [strip, rstrip_cons_of_not_ws c t h, lstrip, h]

theorem strip_ne_nil (s : Text) (hne : s ≠ []) (h : NoLead s) : strip s ≠ [] := by
  cases s with
  | nil => exact absurd rfl hne
  | cons c t => rw [strip_cons_of_not_ws c t (h c t rfl)]; exact List.cons_ne_nil _ _

theorem noLead_append (s r : Text) (hne : s ≠ []) (h : NoLead s) : NoLead (s ++ r) := by
  cases s with
  | nil => exact absurd rfl hne
  | cons c t =>
    intro x u e
    simp only [List.cons_append, List.cons.injEq] at e
    exact e.1 ▸ h c t rfl

theorem noTrail_append (s r : Text) (hne : r ≠ []) (h : NoTrail r) : NoTrail (s ++ r) := by
  intro c hc
  rw [List.getLast?_append] at hc
  cases hr : r.getLast? with
  | none => exact absurd (List.getLast?_eq_none_iff.mp hr) hne
  | some x =>
    rw [hr] at hc
    simp only [Option.some_or, Option.some.injEq] at hc
    exact hc ▸ h x hr

theorem noTrail_cons (d : Char) (r : Text) (hne : r ≠ []) (h : NoTrail r) : NoTrail (d :: r) := by
  have := noTrail_append [d] r hne h
  simpa using this

theorem startsHash_append (s r : Text) (hne : s ≠ []) : startsHash (s ++ r) = startsHash s := by
  cases s with
  | nil => exact absurd rfl hne
  | cons c t => rfl

/-! ### split / join -/

theorem split_ne_nil (d : Char) (s : Text) : split d s ≠ [] := by
  cases s with
  | nil => simp [split]
  | cons c t =>
    simp only [split]
    split
    · exact List.cons_ne_nil _ _
    · cases split d t <;> simp [consHead]

theorem split_of_not_mem (d : Char) (s : Text) (h : d ∉ s) : split d s = [s] := by
  induction s with
  | nil => rfl
  | cons c t ih =>
    have hc : c ≠ d := fun e => h (e ▸ List.mem_cons_self ..)
    have ht : d ∉ t := fun m => h (List.mem_cons_of_mem _ m)
    simp [split, hc, ih ht, consHead]

theorem split_append_cons (d : Char) (f rest : Text) (h : d ∉ f) :
    split d (f ++ d :: rest) = f :: split d rest := by
  induction f with
  | nil => simp [split]
  | cons c t ih =>
    have hc : c ≠ d := fun e => h (e ▸ List.mem_cons_self ..)
    have ht : d ∉ t := fun m => h (List.mem_cons_of_mem _ m)
    simp [split, hc, ih ht, consHead]

/-- Joining fields with a delimiter none of them contains, then splitting at it, gives the fields back. -/
theorem split_join (d : Char) (fs : List Text) (h : ∀ f ∈ fs, d ∉ f) (hne : fs ≠ []) :
    split d (join d fs) = fs := by
  induction fs with
  | nil => exact absurd rfl hne
  | cons f gs ih =>
    cases gs with
    | nil => simpa [join] using split_of_not_mem d f (h f (List.mem_cons_self ..))
    | cons g hs =>
      simp only [join]
      rw [split_append_cons d f _ (h f (List.mem_cons_self ..))]
      rw [ih (fun x hx => h x (List.mem_cons_of_mem _ hx)) (List.cons_ne_nil _ _)]

theorem join_cons_ne_nil (d : Char) (f : Text) (gs : List Text) (h : gs ≠ []) :
    join d (f :: gs) = f ++ d :: join d gs := by
  cases gs with
  | nil => exact absurd rfl h
  | cons g hs => rfl

theorem join_append_singleton (d : Char) (fs : List Text) (m : Text) (h : fs ≠ []) :
    join d (fs ++ [m]) = join d fs ++ d :: m := by
  induction fs with
  | nil => exact absurd rfl h
  | cons f gs ih =>
    cases gs with
    | nil => simp [join]
    | cons g hs =>
      have := ih (List.cons_ne_nil _ _)
      simp only [List.cons_append, join] at this ⊢
      rw [this]; simp

/-- `X` with `e` appended to its last element -/
def appendLast (e : Text) : List Text → List Text
  | [] => []
  | [f] => [f ++ e]
  | f :: g :: fs => f :: appendLast e (g :: fs)

theorem appendLast_cons (e f : Text) (gs : List Text) (h : gs ≠ []) :
    appendLast e (f :: gs) = f :: appendLast e gs := by
  cases gs with
  | nil => exact absurd rfl h
  | cons g hs => rfl

theorem appendLast_consHead (e : Text) (c : Char) (X : List Text) (h : X ≠ []) :
    appendLast e (consHead c X) = consHead c (appendLast e X) := by
  cases X with
  | nil => exact absurd rfl h
  | cons f gs =>
    cases gs with
    | nil => simp [consHead, appendLast]
    | cons g hs => simp [consHead, appendLast]

theorem split_append_noDelim (d : Char) (s e : Text) (h : d ∉ e) :
    split d (s ++ e) = appendLast e (split d s) := by
  induction s with
  | nil => simpa [split, appendLast] using split_of_not_mem d e h
  | cons c t ih =>
    simp only [List.cons_append, split]
    split
    · rw [ih, appendLast_cons _ _ _ (split_ne_nil d t)]
    · rw [ih, appendLast_consHead _ _ _ (split_ne_nil d t)]

theorem stripLast_appendLast (e : Text) (X : List Text) (h : AllWs e) :
    stripLast (appendLast e X) = stripLast X := by
  induction X with
  | nil => rfl
  | cons f gs ih =>
    cases gs with
    | nil => simp [appendLast, stripLast, strip_append_ws f e h]
    | cons g hs =>
      simp only [appendLast, stripLast] at ih ⊢
      cases hh : appendLast e (g :: hs) with
      | nil =>
        cases hs <;> simp [appendLast] at hh
      | cons a as =>
        rw [hh] at ih
        simp only [stripLast]
        rw [ih]

theorem stripLast_cons (f : Text) (gs : List Text) (h : gs ≠ []) :
    stripLast (f :: gs) = f :: stripLast gs := by
  cases gs with
  | nil => exact absurd rfl h
  | cons g hs => rfl

theorem stripLast_of_clean (fs : List Text) (h : ∀ f ∈ fs, strip f = f) : stripLast fs = fs := by
  induction fs with
  | nil => rfl
  | cons f gs ih =>
    cases gs with
    | nil => simp [stripLast, h f (List.mem_cons_self ..)]
    | cons g hs =>
      simp only [stripLast]
      rw [ih (fun x hx => h x (List.mem_cons_of_mem _ hx))]

theorem stripLast_append_singleton (fs : List Text) (m : Text) :
    stripLast (fs ++ [m]) = fs ++ [strip m] := by
  induction fs with
  | nil => rfl
  | cons f gs ih =>
    rw [List.cons_append, stripLast_cons f _ (by simp), ih]; rfl

/-! ### the text after the last delimiter -/

theorem afterLast_of_not_mem (d : Char) (s : Text) (h : d ∉ s) : afterLast d s = s := by
  cases s with
  | nil => rfl
  | cons c t =>
    have hc : c ≠ d := fun e => h (e ▸ List.mem_cons_self ..)
    have ht : d ∉ t := fun m => h (List.mem_cons_of_mem _ m)
    simp [afterLast, hc, ht]

theorem afterLast_append_cons (d : Char) (p l : Text) (h : d ∉ l) : afterLast d (p ++ d :: l) = l := by
  induction p with
  | nil => simp [afterLast, h]
  | cons c t ih => simp [afterLast, ih]

theorem afterLast_append_noDelim (d : Char) (s e : Text) (h : d ∉ e) :
    afterLast d (s ++ e) = afterLast d s ++ e := by
  induction s with
  | nil => simpa [afterLast] using afterLast_of_not_mem d e h
  | cons c t ih =>
    simp only [List.cons_append, afterLast]
    have : (t ++ e).contains d = t.contains d := by simp [h]
    rw [this]
    split
    · exact ih
    · split <;> simp

/-- a joined line ends with its last field -/
theorem join_ends (d : Char) (o : Text) (fs : List Text) (hne : fs ≠ []) :
    ∃ p, o ++ d :: join d fs = p ++ d :: fs.getLast hne := by
  induction fs generalizing o with
  | nil => exact absurd rfl hne
  | cons f gs ih =>
    cases gs with
    | nil => exact ⟨o, by simp [join]⟩
    | cons g hs =>
      obtain ⟨p, hp⟩ := ih f (List.cons_ne_nil _ _)
      refine ⟨o ++ d :: p, ?_⟩
      simp only [join, List.getLast_cons_cons]
      rw [hp]; simp

/-! ### values -/

theorem parseAll_map_fmt (io : NumIO α) (r : List α) (h : ∀ v ∈ r, io.parse (io.fmt v) = some v) :
    parseAll io (r.map io.fmt) = some r := by
  induction r with
  | nil => rfl
  | cons v vs ih =>
    simp only [List.map_cons, parseAll, h v (List.mem_cons_self ..),
      ih (fun x hx => h x (List.mem_cons_of_mem _ hx))]

/-- the entries the data loop produces for a block of rows starting at row number `i` -/
def allTriples [Zero α] [DecidableEq α] : Nat → List (List α) → List (Nat × Nat × α)
  | _, [] => []
  | i, r :: rs => rowTriples i 0 r ++ allTriples (i + 1) rs

section triples
variable [Zero α] [DecidableEq α]

theorem rowTriples_mem (i j0 : Nat) (vs : List α) :
    ∀ t ∈ rowTriples i j0 vs, t.1 = i ∧ j0 ≤ t.2.1 ∧ t.2.1 < j0 + vs.length := by
  induction vs generalizing j0 with
  | nil => intro t ht; simp [rowTriples] at ht
  | cons v vs ih =>
    intro t ht
    simp only [rowTriples] at ht
    split at ht
    · have := ih (j0 + 1) t ht
      simp only [List.length_cons]; omega
    · rcases List.mem_cons.mp ht with e | ht
      · subst e; simp
      · have := ih (j0 + 1) t ht
        simp only [List.length_cons]; omega

theorem allTriples_lower (i0 : Nat) (rows : List (List α)) :
    ∀ t ∈ allTriples i0 rows, i0 ≤ t.1 := by
  induction rows generalizing i0 with
  | nil => intro t ht; simp [allTriples] at ht
  | cons r rs ih =>
    intro t ht
    simp only [allTriples, List.mem_append] at ht
    rcases ht with ht | ht
    · have := rowTriples_mem i0 0 r t ht; omega
    · have := ih (i0 + 1) t ht; omega

theorem allTriples_mem (i0 m : Nat) (rows : List (List α)) (hm : ∀ r ∈ rows, r.length = m) :
    ∀ t ∈ allTriples i0 rows, i0 ≤ t.1 ∧ t.1 < i0 + rows.length ∧ t.2.1 < m := by
  induction rows generalizing i0 with
  | nil => intro t ht; simp [allTriples] at ht
  | cons r rs ih =>
    intro t ht
    simp only [allTriples, List.mem_append] at ht
    rcases ht with ht | ht
    · have := rowTriples_mem i0 0 r t ht
      have hr := hm r (List.mem_cons_self ..)
      simp only [List.length_cons]; omega
    · have := ih (i0 + 1) (fun x hx => hm x (List.mem_cons_of_mem _ hx)) t ht
      simp only [List.length_cons]; omega

/-- looking a cell up among the entries of one row -/
theorem find_rowTriples (i j0 k : Nat) (vs : List α) :
    (rowTriples i j0 vs).find? (fun t => t.1 == i && t.2.1 == j0 + k) =
      match vs[k]? with
      | some v => if v = 0 then none else some (i, j0 + k, v)
      | none => none := by
  induction vs generalizing j0 k with
  | nil => simp [rowTriples]
  | cons v vs ih =>
    cases k with
    | zero =>
      simp only [rowTriples, List.getElem?_cons_zero, Nat.add_zero]
      split
      · -- v = 0: nothing in the rest has column j0
        rw [List.find?_eq_none.mpr]
        intro t ht
        have := rowTriples_mem i (j0 + 1) vs t ht
        simp only [Bool.and_eq_true, beq_iff_eq, not_and]
        intro _; omega
      · simp
    | succ k =>
      have e : j0 + (k + 1) = (j0 + 1) + k := by omega
      simp only [rowTriples, List.getElem?_cons_succ]
      split
      · rw [e]; exact ih (j0 + 1) k
      · rw [List.find?_cons]
        have : ((i, j0, v).1 == i && (i, j0, v).2.1 == j0 + (k + 1)) = false := by
          simp
        rw [this, e]; exact ih (j0 + 1) k

theorem find_rowTriples_other (i i' j : Nat) (vs : List α) (h : i' ≠ i) (j0 : Nat) :
    (rowTriples i' j0 vs).find? (fun t => t.1 == i && t.2.1 == j) = none := by
  rw [List.find?_eq_none]
  intro t ht
  have := rowTriples_mem i' j0 vs t ht
  simp only [Bool.and_eq_true, beq_iff_eq, not_and]
  intro e; omega

theorem cellOf_allTriples (i0 a j : Nat) (rows : List (List α)) :
    cellOf (allTriples i0 rows) (i0 + a) j = ((rows[a]?).bind (·[j]?)).getD 0 := by
  induction rows generalizing i0 a with
  | nil => simp [allTriples, cellOf]
  | cons r rs ih =>
    cases a with
    | zero =>
      simp only [allTriples, cellOf, List.find?_append, Nat.add_zero, List.getElem?_cons_zero,
        Option.bind_some]
      have h1 := find_rowTriples (α := α) i0 0 j r
      simp only [Nat.zero_add] at h1
      rw [h1]
      have h2 : (allTriples (i0 + 1) rs).find? (fun t => t.1 == i0 && t.2.1 == j) = none := by
        rw [List.find?_eq_none]
        intro t ht
        have hb := allTriples_lower (i0 + 1) rs t ht
        simp only [Bool.and_eq_true, beq_iff_eq, not_and]
        intro e; omega
      rw [h2]
      cases hv : r[j]? with
      | none => simp
      | some v =>
        by_cases hz : v = 0
        · simp [hz]
        · simp [hz]
    | succ a =>
      simp only [allTriples, cellOf, List.find?_append, List.getElem?_cons_succ]
      have e : i0 + (a + 1) = (i0 + 1) + a := by omega
      rw [find_rowTriples_other (i0 + (a + 1)) i0 j r (by omega) 0]
      simp only [Option.none_or]
      have := ih (i0 + 1) a
      simp only [cellOf] at this
      rw [e]; exact this

theorem gridOf_allTriples (n m : Nat) (rows : List (List α)) (hn : rows.length = n)
    (hm : ∀ r ∈ rows, r.length = m) : gridOf n m (allTriples 0 rows) = rows := by
  apply List.ext_getElem
  · simp [gridOf, hn]
  · intro i h1 h2
    simp only [gridOf, List.getElem_map, List.getElem_range]
    have hri : (rows[i]).length = m := hm _ (List.getElem_mem h2)
    apply List.ext_getElem
    · simp [hri]
    · intro j h3 h4
      simp only [List.getElem_map, List.getElem_range]
      have := cellOf_allTriples (α := α) 0 i j rows
      simp only [Nat.zero_add] at this
      rw [this, List.getElem?_eq_getElem h2]
      simp [List.getElem?_eq_getElem h4]

end triples

/-! ### line ends: text after the last field that consists of blanks and has no tab -/

def EolOk (e : Text) : Prop := AllWs e ∧ '\t' ∉ e

/-- `ls'` is `ls` with a (possibly different, possibly empty) blank line end on every line -/
inductive EolRel : List Text → List Text → Prop where
  | nil : EolRel [] []
  | cons (l e : Text) (ls ls' : List Text) : EolOk e → EolRel ls ls' → EolRel (l :: ls) ((l ++ e) :: ls')

theorem EolRel.map_append (e : Text) (h : EolOk e) (ls : List Text) : EolRel ls (ls.map (· ++ e)) := by
  induction ls with
  | nil => exact .nil
  | cons l ls ih => exact .cons l e ls _ h ih

theorem EolRel.refl (ls : List Text) : EolRel ls ls := by
  induction ls with
  | nil => exact .nil
  | cons l ls ih =>
    have := EolRel.cons l [] ls ls ⟨(fun _ h => nomatch h), (by simp)⟩ ih
    simpa using this

theorem EolRel.drop (k : Nat) {ls ls' : List Text} (h : EolRel ls ls') : EolRel (ls.drop k) (ls'.drop k) := by
  induction k generalizing ls ls' with
  | zero => simpa using h
  | succ k ih =>
    cases h with
    | nil => exact .nil
    | cons l e ls ls' he hr => simpa using ih hr

theorem findHeader_eol {ls ls' : List Text} (h : EolRel ls ls') (hd : Option (List Text)) (i : Nat) :
    findHeader ls' hd i = findHeader ls hd i := by
  induction h generalizing hd i with
  | nil => rfl
  | cons l e ls ls' he _ ih =>
    simp only [findHeader, strip_append_ws l e he.1, rstrip_append_ws l e he.1]
    by_cases hb : strip l = []
    · simp only [hb, if_true]; exact ih hd i
    · have hne : l ≠ [] := by
        intro e0; subst e0; exact hb rfl
      simp only [hb, if_false, startsHash_append l e hne]
      split
      · rfl
      · exact ih _ _

theorem dataLoop_eol [Zero α] [DecidableEq α] (io : NumIO α) (b : Bool) {ls ls' : List Text}
    (h : EolRel ls ls') (i : Nat) : dataLoop io b ls' i = dataLoop io b ls i := by
  induction h generalizing i with
  | nil => rfl
  | cons l e ls ls' he _ ih =>
    simp only [dataLoop, strip_append_ws l e he.1]
    by_cases hb : strip l = []
    · simp only [hb, if_true]; exact ih i
    · have hne : l ≠ [] := by
        intro e0; subst e0; exact hb rfl
      simp only [hb, if_false, startsHash_append l e hne, split_append_noDelim '\t' l e he.2,
        stripLast_appendLast e _ he.1, ih]

theorem numeric_eol (io : NumIO α) {ls ls' : List Text} (h : EolRel ls ls') :
    ls'.all (fun l => (io.parse (strip (afterLast '\t' l))).isSome) =
    ls.all (fun l => (io.parse (strip (afterLast '\t' l))).isSome) := by
  induction h with
  | nil => rfl
  | cons l e ls ls' he _ ih =>
    simp only [List.all_cons, afterLast_append_noDelim '\t' l e he.2, strip_append_ws _ e he.1, ih]

/-- Blank line ends (none, "\n", "\r\n", …) are invisible to the extractor. -/
theorem extractData_eol [Zero α] [DecidableEq α] (io : NumIO α) {ls ls' : List Text} (h : EolRel ls ls') :
    extractData io ls' = extractData io ls := by
  simp only [extractData, findHeader_eol h, numeric_eol io (h.drop _), dataLoop_eol io _ (h.drop _)]

theorem fromTsv_eol [Zero α] [DecidableEq α] (io : NumIO α) (proc : Text → ν) {ls ls' : List Text}
    (h : EolRel ls ls') : fromTsv io proc ls' = fromTsv io proc ls := by
  simp only [fromTsv, extractData_eol io h]

end Biom.C03
