import BiomModel.C17

namespace Biom.C17

/-! ### grids -/

theorem gridIs_iff (D : Grid) (n m : Nat) :
    gridIs D n m = true ↔ D.length = n ∧ ∀ r ∈ D, r.length = m := by
  simp [gridIs, List.all_eq_true]

theorem tabulate_length (n m : Nat) (f : Nat → Nat → Rat) : (tabulate n m f).length = n := by
  simp [tabulate]

theorem gridIs_tabulate (n m : Nat) (f : Nat → Nat → Rat) : gridIs (tabulate n m f) n m = true := by
  rw [gridIs_iff]
  refine ⟨tabulate_length n m f, ?_⟩
  intro r hr
  simp only [tabulate, List.mem_map] at hr
  obtain ⟨i, _, rfl⟩ := hr
  simp

theorem cellD_tabulate (n m : Nat) (f : Nat → Nat → Rat) (i j : Nat) (hi : i < n) (hj : j < m) :
    cellD (tabulate n m f) i j = f i j := by
  simp [cellD, tabulate, List.getD_eq_getElem?_getD, hi, hj]

/-- a grid is determined by its shape and its cells -/
theorem grid_ext (A B : Grid) (n m : Nat) (hA : gridIs A n m = true) (hB : gridIs B n m = true)
    (h : ∀ i j, i < n → j < m → cellD A i j = cellD B i j) : A = B := by
  rw [gridIs_iff] at hA hB
  apply List.ext_getElem (by rw [hA.1, hB.1])
  intro i h1 h2
  have hra : (A[i]).length = m := hA.2 _ (List.getElem_mem h1)
  have hrb : (B[i]).length = m := hB.2 _ (List.getElem_mem h2)
  apply List.ext_getElem (by rw [hra, hrb])
  intro j g1 g2
  have := h i j (by rw [← hA.1]; exact h1) (by rw [← hra]; exact g1)
  simpa [cellD, List.getD_eq_getElem?_getD, h1, h2, g1, g2] using this

theorem tabulate_eq (D : Grid) (n m : Nat) (f : Nat → Nat → Rat) (hD : gridIs D n m = true)
    (h : ∀ i j, i < n → j < m → f i j = cellD D i j) : tabulate n m f = D := by
  apply grid_ext _ _ n m (gridIs_tabulate n m f) hD
  intro i j hi hj
  rw [cellD_tabulate n m f i j hi hj, h i j hi hj]

theorem allCells_iff (n m : Nat) (p : Nat → Nat → Bool) :
    allCells n m p = true ↔ ∀ i j, i < n → j < m → p i j = true := by
  simp only [allCells, List.all_eq_true, List.mem_range]
  constructor
  · intro h i j hi hj; exact h i hi j hj
  · intro h i hi j hj; exact h i j hi hj

/-! ### sums -/

theorem sumL_append (a b : List Rat) : sumL (a ++ b) = sumL a + sumL b := by
  induction a with
  | nil => simp [sumL, Rat.zero_add]
  | cons x xs ih =>
    simp only [sumL, List.cons_append, List.foldr_cons] at ih ⊢
    rw [ih, Rat.add_assoc]

theorem cellVals_append (a b : List Triple) (i j : Nat) :
    cellVals (a ++ b) i j = cellVals a i j ++ cellVals b i j := by
  simp [cellVals]

theorem cellSum_append (a b : List Triple) (i j : Nat) :
    cellSum (a ++ b) i j = cellSum a i j + cellSum b i j := by
  simp [cellSum, cellVals_append, sumL_append]

theorem cellSum_nil (i j : Nat) : cellSum [] i j = 0 := by
  simp [cellSum, cellVals, sumL]

theorem cellSum_cons (t : Triple) (ts : List Triple) (i j : Nat) :
    cellSum (t :: ts) i j = (if t.1 = i ∧ t.2.1 = j then t.2.2 + cellSum ts i j else cellSum ts i j) := by
  by_cases h : t.1 = i ∧ t.2.1 = j
  · simp [cellSum, cellVals, sumL, h]
  · have : (t.1 == i && t.2.1 == j) = false := by
      simp only [Bool.and_eq_false_iff, beq_eq_false_iff_ne]
      by_cases h1 : t.1 = i
      · right; intro h2; exact h ⟨h1, h2⟩
      · left; exact h1
    simp [cellSum, cellVals, this, h]

theorem inRange_iff (n m : Nat) (ts : List Triple) :
    inRange n m ts = true ↔ ∀ t ∈ ts, t.1 < n ∧ t.2.1 < m := by
  simp [inRange, List.all_eq_true]

theorem inRange_append (n m : Nat) (a b : List Triple) :
    inRange n m (a ++ b) = (inRange n m a && inRange n m b) := by
  simp [inRange, List.all_append]

/-- what the scipy contract gives for in-range triples whose cell sums are those of `D` -/
theorem cooDense_eq (n m : Nat) (ts : List Triple) (D : Grid) (hD : gridIs D n m = true)
    (hr : inRange n m ts = true) (hc : ∀ i j, i < n → j < m → cellSum ts i j = cellD D i j) :
    cooDense n m ts = .ok ⟨n, m, D⟩ := by
  simp only [cooDense, hr, if_true]
  rw [tabulate_eq D n m _ hD hc]

/-! ### maxima -/

theorem le_maxL (xs : List Nat) (x : Nat) (h : x ∈ xs) : x ≤ maxL xs := by
  induction xs with
  | nil => cases h
  | cons y ys ih =>
    simp only [maxL, List.foldr_cons]
    rcases List.mem_cons.mp h with rfl | h'
    · exact Nat.le_max_left _ _
    · exact Nat.le_trans (ih h') (Nat.le_max_right _ _)

theorem maxL_le (xs : List Nat) (k : Nat) (h : ∀ x ∈ xs, x ≤ k) : maxL xs ≤ k := by
  induction xs with
  | nil => simp [maxL]
  | cons y ys ih =>
    simp only [maxL, List.foldr_cons]
    exact Nat.max_le.mpr ⟨h y (List.mem_cons_self), ih (fun x hx => h x (List.mem_cons_of_mem _ hx))⟩

theorem maxL_eq (xs : List Nat) (k : Nat) (h : ∀ x ∈ xs, x ≤ k) (hk : k ∈ xs) : maxL xs = k :=
  Nat.le_antisymm (maxL_le xs k h) (le_maxL xs k hk)

/-! ### dense nested lists as coordinate triples -/

theorem cellSum_eq_zero (ts : List Triple) (i j : Nat) (h : ∀ t ∈ ts, ¬ (t.1 = i ∧ t.2.1 = j)) :
    cellSum ts i j = 0 := by
  induction ts with
  | nil => exact cellSum_nil i j
  | cons t ts ih =>
    rw [cellSum_cons, if_neg (h t (List.mem_cons_self))]
    exact ih (fun t' ht' => h t' (List.mem_cons_of_mem _ ht'))

theorem rowTriples_fst (i : Nat) (vs : List Rat) (j0 : Nat) :
    ∀ t ∈ rowTriples i j0 vs, t.1 = i ∧ j0 ≤ t.2.1 := by
  induction vs generalizing j0 with
  | nil => intro t ht; simp [rowTriples] at ht
  | cons v vs ih =>
    intro t ht
    simp only [rowTriples] at ht
    have hrest : ∀ t ∈ rowTriples i (j0 + 1) vs, t.1 = i ∧ j0 ≤ t.2.1 := by
      intro t ht
      have := ih (j0 + 1) t ht
      omega
    split at ht
    · exact hrest t ht
    · rcases List.mem_cons.mp ht with rfl | ht'
      · simp
      · exact hrest t ht'

theorem rowTriples_cellSum (i : Nat) (vs : List Rat) (j0 j' : Nat) (h : j0 ≤ j') :
    cellSum (rowTriples i j0 vs) i j' = vs.getD (j' - j0) 0 := by
  induction vs generalizing j0 with
  | nil => simp [rowTriples, cellSum_nil]
  | cons v vs ih =>
    by_cases h2 : j0 = j'
    · subst h2
      have hz : cellSum (rowTriples i (j0 + 1) vs) i j0 = 0 := by
        apply cellSum_eq_zero
        intro t ht
        have := rowTriples_fst i vs (j0 + 1) t ht
        omega
      simp only [rowTriples]
      by_cases hv : v = 0
      · rw [if_pos hv, hz]; simp [hv]
      · rw [if_neg hv, cellSum_cons, if_pos ⟨rfl, rfl⟩, hz, Rat.add_zero]; simp
    · have h3 : j0 + 1 ≤ j' := by omega
      have h4 : j' - j0 = (j' - (j0 + 1)) + 1 := by omega
      have hrec := ih (j0 + 1) h3
      simp only [rowTriples]
      by_cases hv : v = 0
      · rw [if_pos hv, hrec, h4, List.getD_cons_succ]
      · rw [if_neg hv, cellSum_cons, if_neg (by simp; omega), hrec, h4, List.getD_cons_succ]

theorem rowTriples_cellSum_other (i : Nat) (vs : List Rat) (j0 i' j' : Nat) (h : i' ≠ i) :
    cellSum (rowTriples i j0 vs) i' j' = 0 := by
  apply cellSum_eq_zero
  intro t ht
  have := rowTriples_fst i vs j0 t ht
  omega

theorem gridTriples_fst (D : Grid) (i0 : Nat) : ∀ t ∈ gridTriples i0 D, i0 ≤ t.1 := by
  induction D generalizing i0 with
  | nil => intro t ht; simp [gridTriples] at ht
  | cons r rs ih =>
    intro t ht
    simp only [gridTriples, List.mem_append] at ht
    rcases ht with ht | ht
    · have := rowTriples_fst i0 r 0 t ht; omega
    · have := ih (i0 + 1) t ht; omega

theorem gridTriples_cellSum (D : Grid) (i0 i' j' : Nat) (h : i0 ≤ i') :
    cellSum (gridTriples i0 D) i' j' = cellD D (i' - i0) j' := by
  induction D generalizing i0 with
  | nil => simp [gridTriples, cellSum_nil, cellD]
  | cons r rs ih =>
    simp only [gridTriples]
    rw [cellSum_append]
    by_cases h2 : i' = i0
    · subst h2
      have hz : cellSum (gridTriples (i' + 1) rs) i' j' = 0 := by
        apply cellSum_eq_zero
        intro t ht
        have := gridTriples_fst rs (i' + 1) t ht
        omega
      rw [hz, Rat.add_zero, rowTriples_cellSum i' r 0 j' (Nat.zero_le _)]
      simp [cellD]
    · have h3 : i0 + 1 ≤ i' := by omega
      have h4 : i' - i0 = (i' - (i0 + 1)) + 1 := by omega
      rw [rowTriples_cellSum_other i0 r 0 i' j' h2, Rat.zero_add, ih (i0 + 1) h3, h4]
      simp [cellD]

theorem rowTriples_range (i : Nat) (vs : List Rat) (j0 : Nat) :
    ∀ t ∈ rowTriples i j0 vs, t.1 = i ∧ j0 ≤ t.2.1 ∧ t.2.1 < j0 + vs.length := by
  induction vs generalizing j0 with
  | nil => intro t ht; simp [rowTriples] at ht
  | cons v vs ih =>
    intro t ht
    simp only [rowTriples] at ht
    have hrest : ∀ t ∈ rowTriples i (j0 + 1) vs, t.1 = i ∧ j0 ≤ t.2.1 ∧ t.2.1 < j0 + (v :: vs).length := by
      intro t ht
      have := ih (j0 + 1) t ht
      simp only [List.length_cons]; omega
    split at ht
    · exact hrest t ht
    · rcases List.mem_cons.mp ht with rfl | ht'
      · simp
      · exact hrest t ht'

theorem gridTriples_range (D : Grid) (m : Nat) (hD : ∀ r ∈ D, r.length = m) (i0 : Nat) :
    ∀ t ∈ gridTriples i0 D, i0 ≤ t.1 ∧ t.1 < i0 + D.length ∧ t.2.1 < m := by
  induction D generalizing i0 with
  | nil => intro t ht; simp [gridTriples] at ht
  | cons r rs ih =>
    intro t ht
    simp only [gridTriples, List.mem_append] at ht
    rcases ht with ht | ht
    · have := rowTriples_range i0 r 0 t ht
      have hr := hD r (List.mem_cons_self)
      simp only [List.length_cons]; omega
    · have := ih (fun r' hr' => hD r' (List.mem_cons_of_mem _ hr')) (i0 + 1) t ht
      simp only [List.length_cons]; omega

/-! ### dictionaries -/

theorem lookup_eq_none_of_not_mem (d : Dict) (k : Coord) (h : k ∉ d.map (·.1)) : d.lookup k = none := by
  induction d with
  | nil => rfl
  | cons e es ih =>
    obtain ⟨ek, ev⟩ := e
    simp only [List.map_cons, List.mem_cons, not_or] at h
    rw [List.lookup_cons]
    have : (k == ek) = false := by simpa using h.1
    rw [this]; exact ih h.2

/-- with distinct keys, the values stored for a cell are the looked-up value, alone -/
theorem cellSum_dictTriples (d : Dict) (h : (d.map (·.1)).Nodup) (i j : Nat) :
    cellSum (dictTriples d) i j = (d.lookup (i, j)).getD 0 := by
  induction d with
  | nil => simp [dictTriples, cellSum_nil]
  | cons e es ih =>
    obtain ⟨⟨r, c⟩, v⟩ := e
    simp only [List.map_cons, List.nodup_cons] at h
    simp only [dictTriples, List.map_cons] at ih ⊢
    rw [cellSum_cons, List.lookup_cons]
    by_cases hk : r = i ∧ c = j
    · obtain ⟨rfl, rfl⟩ := hk
      have hnone := lookup_eq_none_of_not_mem es (r, c) h.1
      have h0 := ih h.2
      rw [hnone] at h0
      simp [h0, Rat.add_zero]
    · have : ((i, j) == (r, c)) = false := by
        simp only [beq_eq_false_iff_ne, ne_eq, Prod.mk.injEq]
        intro hh; exact hk ⟨hh.1.symm, hh.2.symm⟩
      simp only [hk, if_false, this]
      exact ih h.2

theorem inRange_dictTriples (n m : Nat) (d : Dict) :
    inRange n m (dictTriples d) = true ↔ ∀ e ∈ d, e.1.1 < n ∧ e.1.2 < m := by
  rw [inRange_iff]
  constructor
  · intro h e he
    exact h (e.1.1, e.1.2, e.2) (by simp only [dictTriples, List.mem_map]; exact ⟨e, he, rfl⟩)
  · intro h t ht
    simp only [dictTriples, List.mem_map] at ht
    obtain ⟨e, he, rfl⟩ := ht
    exact h e he

/-! ### every accepted form decodes to the grid it describes -/

theorem headD_length (D : Grid) (n m : Nat) (hD : gridIs D n m = true) (hn : 1 ≤ n) :
    (D.headD []).length = m := by
  rw [gridIs_iff] at hD
  cases D with
  | nil => simp at hD; omega
  | cons r rs => exact hD.2 r (List.mem_cons_self)

theorem all_length (D : Grid) (n m : Nat) (hD : gridIs D n m = true) :
    D.all (fun r => r.length == m) = true := by
  rw [gridIs_iff] at hD
  simpa [List.all_eq_true] using hD.2

theorem decode_vec (v : List Rat) (D : Grid) (n m : Nat) (hD : gridIs D n m = true) (hm : 1 ≤ m)
    (hn : n = 1) (hv : D = [v]) : vecToSparse v = ⟨n, m, D⟩ := by
  subst hv hn
  rw [gridIs_iff] at hD
  have hl : v.length = m := hD.2 v (List.mem_cons_self)
  have : ¬ m = 0 := by omega
  simp [vecToSparse, this, hl]

theorem decode_arr (D : Grid) (n m : Nat) (hn : 1 ≤ n) (hm : 1 ≤ m) : arrToSparse n m D = ⟨n, m, D⟩ := by
  have : ¬ ((n = 1 ∧ m = 0) ∨ (n = 0 ∧ m = 1)) := by omega
  simp [arrToSparse, this]

theorem decode_listArr (D : Grid) (n m : Nat) (hD : gridIs D n m = true) (hn : 1 ≤ n) :
    listNparrayToSparse D = .ok ⟨n, m, D⟩ := by
  have hl := (gridIs_iff D n m).mp hD
  simp only [listNparrayToSparse, headD_length D n m hD hn, all_length D n m hD, if_true, hl.1]

theorem sum_nR (ms : List Mat) (h : ∀ M ∈ ms, M.rows.length = M.nR) :
    sumL (ms.map (·.nR)) = (ms.flatMap (·.rows)).length := by
  induction ms with
  | nil => simp [sumL]
  | cons M rest ih =>
    have h1 := h M (List.mem_cons_self)
    have h2 := ih (fun M' hM' => h M' (List.mem_cons_of_mem _ hM'))
    simp only [sumL, List.map_cons, List.foldr_cons, List.flatMap_cons, List.length_append] at h2 ⊢
    rw [h2, h1]

theorem decode_listSparse (ms : List Mat) (D : Grid) (n m : Nat) (hD : gridIs D n m = true) (hn : 1 ≤ n)
    (hms : ms.all (fun M => M.nC == m && matIs M) = true) (hrows : ms.flatMap (·.rows) = D) :
    listSparseToSparse ms = .ok ⟨n, m, D⟩ := by
  have hl := (gridIs_iff D n m).mp hD
  have hall : ∀ M ∈ ms, M.nC = m ∧ M.rows.length = M.nR := by
    intro M hM
    have := (List.all_eq_true.mp hms) M hM
    simp only [Bool.and_eq_true, beq_iff_eq, matIs, gridIs] at this
    exact ⟨this.1, this.2.1⟩
  cases ms with
  | nil => simp at hrows; subst hrows; simp at hl; omega
  | cons m0 rest =>
    have h0 := hall m0 (List.mem_cons_self)
    have hc : (m0 :: rest).all (fun M => M.nC == m0.nC) = true := by
      rw [List.all_eq_true]; intro M hM
      simp [(hall M hM).1, h0.1]
    simp only [listSparseToSparse, hc, if_true]
    rw [sum_nR (m0 :: rest) (fun M hM => (hall M hM).2), hrows, hl.1, h0.1]

theorem decode_emptyList (D : Grid) (n m : Nat) (hD : gridIs D n m = true)
    (hz : allCells n m (fun i j => cellD D i j == 0) = true) :
    tabulate n m (fun _ _ => 0) = D := by
  apply tabulate_eq D n m _ hD
  intro i j hi hj
  have := (allCells_iff n m _).mp hz i j hi hj
  have h2 : cellD D i j = 0 := by simpa using this
  exact h2.symm

theorem decode_dict (kv : Dict) (D : Grid) (n m : Nat) (hD : gridIs D n m = true)
    (hk : nodupKeys kv = true) (hr : inRange n m (dictTriples kv) = true)
    (hc : allCells n m (fun i j => (kv.lookup (i, j)).getD 0 == cellD D i j) = true) :
    dictToSparse kv (some (n, m)) = .ok ⟨n, m, D⟩ := by
  simp only [dictToSparse, cooArraysToSparse]
  apply cooDense_eq n m _ D hD hr
  intro i j hi hj
  rw [cellSum_dictTriples kv (by simpa [nodupKeys] using hk)]
  simpa using (allCells_iff n m _).mp hc i j hi hj

theorem decode_triples (ls : Grid) (ts : List Triple) (D : Grid) (n m : Nat) (hD : gridIs D n m = true)
    (ht : triplesOf? ls = some ts) (hr : inRange n m ts = true)
    (hc : allCells n m (fun i j => cellSum ts i j == cellD D i j) = true) :
    listListToSparse ls (some (n, m)) = .ok ⟨n, m, D⟩ := by
  simp only [listListToSparse, ht, cooArraysToSparse]
  apply cooDense_eq n m _ D hD hr
  intro i j hi hj
  simpa using (allCells_iff n m _).mp hc i j hi hj

theorem cooOfLists_grid (D : Grid) (n m : Nat) (hD : gridIs D n m = true) (hn : 1 ≤ n) :
    cooOfLists D = .ok (n, m, gridTriples 0 D) := by
  have hl := (gridIs_iff D n m).mp hD
  simp only [cooOfLists, headD_length D n m hD hn, all_length D n m hD, if_true, hl.1]

theorem decode_denseLists (D : Grid) (n m : Nat) (hD : gridIs D n m = true) :
    cooArraysToSparse (gridTriples 0 D) (some (n, m)) = .ok ⟨n, m, D⟩ := by
  have hl := (gridIs_iff D n m).mp hD
  simp only [cooArraysToSparse]
  apply cooDense_eq n m _ D hD
  · rw [inRange_iff]
    intro t ht
    have := gridTriples_range D m hl.2 0 t ht
    omega
  · intro i j _ _
    rw [gridTriples_cellSum D 0 i j (Nat.zero_le _)]; simp

/-! ### lists of dictionaries: the orientation guess -/

def placeAt (isCol : Bool) (idx : Nat) (e : Coord × Rat) : Triple :=
  if isCol then (e.1.1, idx, e.2) else (idx, e.1.2, e.2)

/-- the coordinate that the list position supplies -/
def major (isCol : Bool) (t : Triple) : Nat := if isCol then t.2.1 else t.1

theorem enumTriples_cons (isCol : Bool) (idx : Nat) (d : Dict) (rest : List Dict) :
    enumTriples isCol idx (d :: rest) = d.map (placeAt isCol idx) ++ enumTriples isCol (idx + 1) rest := rfl

theorem major_placeAt (isCol : Bool) (idx : Nat) (e : Coord × Rat) : major isCol (placeAt isCol idx e) = idx := by
  cases isCol <;> simp [major, placeAt]

theorem enum_major (isCol : Bool) (ds : List Dict) (k : Nat) :
    ∀ t ∈ enumTriples isCol k ds, k ≤ major isCol t ∧ major isCol t < k + ds.length := by
  induction ds generalizing k with
  | nil => intro t ht; simp [enumTriples] at ht
  | cons d rest ih =>
    intro t ht
    rw [enumTriples_cons, List.mem_append] at ht
    rcases ht with ht | ht
    · rw [List.mem_map] at ht
      obtain ⟨e, _, rfl⟩ := ht
      rw [major_placeAt]; simp only [List.length_cons]; omega
    · have := ih (k + 1) t ht
      simp only [List.length_cons]; omega

theorem major_of_cell (isCol : Bool) (t : Triple) (i j : Nat) (h : t.1 = i ∧ t.2.1 = j) :
    major isCol t = (if isCol then j else i) := by
  cases isCol <;> simp [major, h.1, h.2]

theorem enum_cellSum (isCol : Bool) (ds : List Dict) (k i j : Nat)
    (h : k ≤ (if isCol then j else i)) :
    cellSum (enumTriples isCol k ds) i j =
      cellSum ((ds.getD ((if isCol then j else i) - k) []).map (placeAt isCol (if isCol then j else i))) i j := by
  induction ds generalizing k with
  | nil => simp [enumTriples, cellSum_nil]
  | cons d rest ih =>
    rw [enumTriples_cons, cellSum_append]
    by_cases h2 : (if isCol then j else i) = k
    · have hz : cellSum (enumTriples isCol (k + 1) rest) i j = 0 := by
        apply cellSum_eq_zero
        intro t ht hc
        have h3 := (enum_major isCol rest (k + 1) t ht).1
        rw [major_of_cell isCol t i j hc] at h3
        omega
      rw [hz, Rat.add_zero, h2]; simp
    · have hz : cellSum (d.map (placeAt isCol k)) i j = 0 := by
        apply cellSum_eq_zero
        intro t ht hc
        rw [List.mem_map] at ht
        obtain ⟨e, _, rfl⟩ := ht
        have := major_of_cell isCol _ i j hc
        rw [major_placeAt] at this
        exact h2 this.symm
      have h3 : k + 1 ≤ (if isCol then j else i) := by omega
      have h4 : (if isCol then j else i) - k = ((if isCol then j else i) - (k + 1)) + 1 := by omega
      rw [hz, Rat.zero_add, ih (k + 1) h3, h4, List.getD_cons_succ]

/-- a row dictionary `{(0, c): v}` placed at row `i` -/
theorem cellSum_rowDict (d : Dict) (i j : Nat) (hk : (d.map (·.1)).Nodup) (h0 : ∀ e ∈ d, e.1.1 = 0) :
    cellSum (d.map (placeAt false i)) i j = (d.lookup (0, j)).getD 0 := by
  induction d with
  | nil => simp [cellSum_nil]
  | cons e es ih =>
    obtain ⟨⟨r, c⟩, v⟩ := e
    have hr : r = 0 := h0 _ (List.mem_cons_self)
    subst hr
    simp only [List.map_cons, List.nodup_cons] at hk
    have ih' := ih hk.2 (fun e he => h0 e (List.mem_cons_of_mem _ he))
    rw [List.map_cons, cellSum_cons, List.lookup_cons]
    simp only [placeAt, Bool.false_eq_true, if_false, true_and]
    by_cases hc : c = j
    · subst hc
      have hnone := lookup_eq_none_of_not_mem es (0, c) hk.1
      rw [hnone] at ih'
      simp [ih', Rat.add_zero]
    · have : ((0, j) == (0, c)) = false := by
        simp only [beq_eq_false_iff_ne, ne_eq, Prod.mk.injEq, true_and]
        exact fun hh => hc hh.symm
      simp only [hc, if_false, this]
      exact ih'

/-- a column dictionary `{(r, 0): v}` placed at column `j` -/
theorem cellSum_colDict (d : Dict) (i j : Nat) (hk : (d.map (·.1)).Nodup) (h0 : ∀ e ∈ d, e.1.2 = 0) :
    cellSum (d.map (placeAt true j)) i j = (d.lookup (i, 0)).getD 0 := by
  induction d with
  | nil => simp [cellSum_nil]
  | cons e es ih =>
    obtain ⟨⟨r, c⟩, v⟩ := e
    have hc : c = 0 := h0 _ (List.mem_cons_self)
    subst hc
    simp only [List.map_cons, List.nodup_cons] at hk
    have ih' := ih hk.2 (fun e he => h0 e (List.mem_cons_of_mem _ he))
    rw [List.map_cons, cellSum_cons, List.lookup_cons]
    simp only [placeAt, if_true, and_true]
    by_cases hr : r = i
    · subst hr
      have hnone := lookup_eq_none_of_not_mem es (r, 0) hk.1
      rw [hnone] at ih'
      simp [ih', Rat.add_zero]
    · have : ((i, 0) == (r, 0)) = false := by
        simp only [beq_eq_false_iff_ne, ne_eq, Prod.mk.injEq, and_true]
        exact fun hh => hr hh.symm
      simp only [hr, if_false, this]
      exact ih'

theorem mem_allKeys (ds : List Dict) (k : Coord) : k ∈ allKeys ds ↔ ∃ d ∈ ds, ∃ e ∈ d, e.1 = k := by
  simp only [allKeys, List.mem_flatMap, List.mem_map]

theorem getD_mem_or_nil (ds : List Dict) (i : Nat) : ds.getD i [] ∈ ds ∨ ds.getD i [] = [] := by
  rw [List.getD_eq_getElem?_getD]
  by_cases h : i < ds.length
  · left; simp [h]
  · right; simp [List.getElem?_eq_none (Nat.le_of_not_lt h)]

theorem decode_rowDicts (ds : List Dict) (D : Grid) (n m : Nat) (hD : gridIs D n m = true) (hm : 1 ≤ m)
    (h : rowDicts ds D n m = true) : listDictToSparse ds = .ok ⟨n, m, D⟩ := by
  simp only [rowDicts, Bool.and_eq_true, beq_iff_eq, List.all_eq_true, List.any_eq_true,
    decide_eq_true_eq] at h
  obtain ⟨⟨⟨hlen, hds⟩, ⟨kl, hkl, hlast⟩⟩, hcells⟩ := h
  have hne : (allKeys ds).isEmpty = false := by
    cases hk : allKeys ds with
    | nil => rw [hk] at hkl; cases hkl
    | cons _ _ => rfl
  have hkeys : ∀ k ∈ allKeys ds, k.1 = 0 ∧ k.2 < m := by
    intro k hk
    obtain ⟨d, hd, e, he, rfl⟩ := (mem_allKeys ds k).mp hk
    exact (hds d hd).2 e he
  have hmaxR : maxL ((allKeys ds).map (·.1)) = 0 := by
    apply Nat.le_antisymm _ (Nat.zero_le _)
    apply maxL_le
    intro x hx
    rw [List.mem_map] at hx
    obtain ⟨k, hk, rfl⟩ := hx
    rw [(hkeys k hk).1]; exact Nat.le_refl _
  have hmaxC : maxL ((allKeys ds).map (·.2)) = m - 1 := by
    apply maxL_eq
    · intro x hx
      rw [List.mem_map] at hx
      obtain ⟨k, hk, rfl⟩ := hx
      have := (hkeys k hk).2; omega
    · rw [List.mem_map]; exact ⟨kl, hkl, by omega⟩
  have hguess : guessIsCol ds = false := by
    simp only [guessIsCol, hmaxR, hmaxC, decide_eq_false_iff_not]; omega
  simp only [listDictToSparse, hne, hguess, hmaxC, Bool.false_eq_true, if_false, hlen]
  have hm1 : m - 1 + 1 = m := by omega
  rw [hm1]
  apply cooDense_eq n m _ D hD
  · rw [inRange_iff]
    intro t ht
    have hmaj := enum_major false ds 0 t ht
    simp only [major, Bool.false_eq_true, if_false] at hmaj
    refine ⟨by omega, ?_⟩
    -- the column of an emitted triple is the column of some key
    have : ∀ (ds' : List Dict) (k : Nat), (∀ d ∈ ds', ∀ e ∈ d, e.1.2 < m) →
        ∀ t ∈ enumTriples false k ds', t.2.1 < m := by
      intro ds'
      induction ds' with
      | nil => intro k _ t ht; simp [enumTriples] at ht
      | cons d rest ih =>
        intro k hall t ht
        rw [enumTriples_cons, List.mem_append] at ht
        rcases ht with ht | ht
        · rw [List.mem_map] at ht
          obtain ⟨e, he, rfl⟩ := ht
          simpa [placeAt] using hall d (List.mem_cons_self) e he
        · exact ih (k + 1) (fun d' hd' => hall d' (List.mem_cons_of_mem _ hd')) t ht
    exact this ds 0 (fun d hd e he => ((hds d hd).2 e he).2) t ht
  · intro i j hi hj
    have h1 := enum_cellSum false ds 0 i j (by simp)
    simp only [Bool.false_eq_true, if_false, Nat.sub_zero] at h1
    rw [h1]
    have hcell := (allCells_iff n m _).mp hcells i j hi hj
    have hcell' : ((ds.getD i []).lookup (0, j)).getD 0 = cellD D i j := by simpa using hcell
    rw [← hcell']
    rcases getD_mem_or_nil ds i with hmem | hnil
    · apply cellSum_rowDict
      · simpa [nodupKeys] using (hds _ hmem).1
      · intro e he; exact ((hds _ hmem).2 e he).1
    · rw [hnil]; simp [cellSum_nil]

theorem decode_colDicts (ds : List Dict) (D : Grid) (n m : Nat) (hD : gridIs D n m = true)
    (h : colDicts ds D n m = true) : listDictToSparse ds = .ok ⟨n, m, D⟩ := by
  simp only [colDicts, Bool.and_eq_true, beq_iff_eq, List.all_eq_true, List.any_eq_true,
    decide_eq_true_eq] at h
  obtain ⟨⟨⟨⟨hn2, hlen⟩, hds⟩, ⟨kl, hkl, hlast⟩⟩, hcells⟩ := h
  have hne : (allKeys ds).isEmpty = false := by
    cases hk : allKeys ds with
    | nil => rw [hk] at hkl; cases hkl
    | cons _ _ => rfl
  have hkeys : ∀ k ∈ allKeys ds, k.2 = 0 ∧ k.1 < n := by
    intro k hk
    obtain ⟨d, hd, e, he, rfl⟩ := (mem_allKeys ds k).mp hk
    exact (hds d hd).2 e he
  have hmaxC : maxL ((allKeys ds).map (·.2)) = 0 := by
    apply Nat.le_antisymm _ (Nat.zero_le _)
    apply maxL_le
    intro x hx
    rw [List.mem_map] at hx
    obtain ⟨k, hk, rfl⟩ := hx
    rw [(hkeys k hk).1]; exact Nat.le_refl _
  have hmaxR : maxL ((allKeys ds).map (·.1)) = n - 1 := by
    apply maxL_eq
    · intro x hx
      rw [List.mem_map] at hx
      obtain ⟨k, hk, rfl⟩ := hx
      have := (hkeys k hk).2; omega
    · rw [List.mem_map]; exact ⟨kl, hkl, by omega⟩
  have hguess : guessIsCol ds = true := by
    simp only [guessIsCol, hmaxR, hmaxC, decide_eq_true_eq]; omega
  simp only [listDictToSparse, hne, hguess, hmaxR, if_true, hlen]
  have hn1 : n - 1 + 1 = n := by omega
  rw [hn1]
  apply cooDense_eq n m _ D hD
  · rw [inRange_iff]
    intro t ht
    have hmaj := enum_major true ds 0 t ht
    simp only [major, if_true] at hmaj
    refine ⟨?_, by omega⟩
    have : ∀ (ds' : List Dict) (k : Nat), (∀ d ∈ ds', ∀ e ∈ d, e.1.1 < n) →
        ∀ t ∈ enumTriples true k ds', t.1 < n := by
      intro ds'
      induction ds' with
      | nil => intro k _ t ht; simp [enumTriples] at ht
      | cons d rest ih =>
        intro k hall t ht
        rw [enumTriples_cons, List.mem_append] at ht
        rcases ht with ht | ht
        · rw [List.mem_map] at ht
          obtain ⟨e, he, rfl⟩ := ht
          simpa [placeAt] using hall d (List.mem_cons_self) e he
        · exact ih (k + 1) (fun d' hd' => hall d' (List.mem_cons_of_mem _ hd')) t ht
    exact this ds 0 (fun d hd e he => ((hds d hd).2 e he).2) t ht
  · intro i j hi hj
    have h1 := enum_cellSum true ds 0 i j (by simp)
    simp only [if_true, Nat.sub_zero] at h1
    rw [h1]
    have hcell := (allCells_iff n m _).mp hcells i j hi hj
    have hcell' : ((ds.getD j []).lookup (i, 0)).getD 0 = cellD D i j := by simpa using hcell
    rw [← hcell']
    rcases getD_mem_or_nil ds j with hmem | hnil
    · apply cellSum_colDict
      · simpa [nodupKeys] using (hds _ hmem).1
      · intro e he; exact ((hds _ hmem).2 e he).1
    · rw [hnil]; simp [cellSum_nil]

/-! ### `_to_sparse` on an accepted encoding -/

/-- forms whose matrix shape comes from the value itself and is kept by `_to_sparse` -/
def ownShape (d : Data) : Bool :=
  match d with
  | .dict _ => false
  | .emptyList => false
  | .listList _ => false
  | .unknown => false
  | _ => true

theorem toSparse_of_encodes (d : Data) (dense : Bool) (D : Grid) (n m : Nat) (shape : Nat × Nat)
    (h : encodes d dense D n m = true) (hs : ownShape d = true ∨ shape = (n, m)) :
    toSparse d dense shape = .ok ⟨n, m, D⟩ := by
  simp only [encodes, Bool.and_eq_true, decide_eq_true_eq] at h
  obtain ⟨⟨⟨hD, hn⟩, hm⟩, hform⟩ := h
  cases d with
  | vec v =>
    simp only [Bool.and_eq_true, beq_iff_eq] at hform
    simp only [toSparse, decode_vec v D n m hD hm hform.1 hform.2]
  | arr nR nC rows =>
    simp only [Bool.and_eq_true, beq_iff_eq] at hform
    obtain ⟨⟨rfl, rfl⟩, rfl⟩ := hform
    simp only [toSparse, decode_arr rows nR nC hn hm]
  | emptyList =>
    have hsh : shape = (n, m) := by simpa [ownShape] using hs
    subst hsh
    simp only [toSparse, decode_emptyList D n m hD hform]
  | listArr rows =>
    have : rows = D := by simpa using hform
    subst this
    simp only [toSparse, decode_listArr rows n m hD hn]
  | listDict ds =>
    simp only [Bool.or_eq_true] at hform
    rcases hform with hr | hc
    · simp only [toSparse, decode_rowDicts ds D n m hD hm hr]
    · simp only [toSparse, decode_colDicts ds D n m hD hc]
  | listSparse ms =>
    simp only [Bool.and_eq_true, beq_iff_eq] at hform
    simp only [toSparse, decode_listSparse ms D n m hD hn hform.1 hform.2]
  | dict kv =>
    have hsh : shape = (n, m) := by simpa [ownShape] using hs
    subst hsh
    simp only [Bool.and_eq_true] at hform
    simp only [toSparse, decode_dict kv D n m hD hform.1.1 hform.1.2 hform.2]
  | listList ls =>
    have hsh : shape = (n, m) := by simpa [ownShape] using hs
    subst hsh
    cases dense with
    | true =>
      have : ls = D := by simpa using hform
      subst this
      simp only [toSparse, if_true, cooOfLists_grid ls n m hD hn, bind, Except.bind, ne_eq,
        not_true_eq_false, if_false, decode_denseLists ls n m hD]
    | false =>
      simp only [Bool.false_eq_true, if_false] at hform
      cases ht : triplesOf? ls with
      | none => simp [ht] at hform
      | some ts =>
        simp only [ht, Bool.and_eq_true] at hform
        simp only [toSparse, Bool.false_eq_true, if_false, decode_triples ls ts D n m hD ht hform.1 hform.2]
  | sparse M =>
    simp only [Bool.and_eq_true, beq_iff_eq] at hform
    obtain ⟨⟨rfl, rfl⟩, rfl⟩ := hform
    simp only [toSparse]
  | unknown => simp at hform

/-- nested dense lists whose shape is not the one the ID counts announce are refused -/
theorem toSparse_dense_mismatch (ls : Grid) (D : Grid) (n m : Nat) (shape : Nat × Nat)
    (h : encodes (.listList ls) true D n m = true) (hs : shape ≠ (n, m)) :
    toSparse (.listList ls) true shape = .error .tableException := by
  simp only [encodes, Bool.and_eq_true, decide_eq_true_eq, if_true] at h
  obtain ⟨⟨⟨hD, hn⟩, _⟩, hform⟩ := h
  have : ls = D := by simpa using hform
  subst this
  have hne : ¬ ((n, m) = shape) := fun e => hs e.symm
  simp only [toSparse, if_true, cooOfLists_grid ls n m hD hn, bind, Except.bind, ne_eq, hne,
    not_false_eq_true]

/-! ### the checks of the constructor -/

theorem dedup_length_le (ids : List Id) : (dedup ids).length ≤ ids.length := by
  induction ids with
  | nil => simp [dedup]
  | cons x xs ih =>
    simp only [dedup]
    split <;> simp only [List.length_cons] <;> omega

theorem dedup_of_nodup (ids : List Id) (h : ids.Nodup) : dedup ids = ids := by
  induction ids with
  | nil => rfl
  | cons x xs ih =>
    rw [List.nodup_cons] at h
    simp only [dedup, h.1, if_false, ih h.2]

theorem dedup_length_lt (ids : List Id) (h : ¬ ids.Nodup) : (dedup ids).length < ids.length := by
  induction ids with
  | nil => exact absurd List.nodup_nil h
  | cons x xs ih =>
    simp only [dedup]
    by_cases hx : x ∈ xs
    · simp only [hx, if_true, List.length_cons]
      have := dedup_length_le xs; omega
    · simp only [hx, if_false, List.length_cons]
      have : ¬ xs.Nodup := fun hn => h (List.nodup_cons.mpr ⟨hx, hn⟩)
      have := ih this; omega

def mdFires (md : Option (List MdEntry)) (k : Nat) : Bool :=
  match md with
  | some l => k != l.length
  | none => false

/-- some test other than `empty` fires -/
def anyFires (M : Mat) (obs samp : List Id) (omd smd : Option (List MdEntry)) : Bool :=
  M.nR != (dedup obs).length || mdFires omd M.nR || M.nR != obs.length ||
  M.nC != (dedup samp).length || mdFires smd M.nC || M.nC != samp.length

theorem errcheck_nonempty (M : Mat) (obs samp : List Id) (omd smd : Option (List MdEntry))
    (ho : obs ≠ []) (hs : samp ≠ []) :
    errcheck defaultProfile M obs samp omd smd =
      if anyFires M obs samp omd smd then .error .tableException else .ok () := by
  have e0 : fires M obs samp omd smd "empty" = false := by
    cases obs with
    | nil => exact absurd rfl ho
    | cons _ _ => cases samp with
      | nil => exact absurd rfl hs
      | cons _ _ => simp [fires]
  have e1 : fires M obs samp omd smd "obsdup" = (M.nR != (dedup obs).length) := by simp [fires]
  have e2 : fires M obs samp omd smd "obsmdsize" = mdFires omd M.nR := by
    simp only [fires, mdFires]; rfl
  have e3 : fires M obs samp omd smd "obssize" = (M.nR != obs.length) := by simp [fires]
  have e4 : fires M obs samp omd smd "sampdup" = (M.nC != (dedup samp).length) := by simp [fires]
  have e5 : fires M obs samp omd smd "sampmdsize" = mdFires smd M.nC := by
    simp only [fires, mdFires]; rfl
  have e6 : fires M obs samp omd smd "sampsize" = (M.nC != samp.length) := by simp [fires]
  simp only [errcheck, kindsSorted, List.find?, e0, e1, e2, e3, e4, e5, e6, anyFires]
  by_cases h1 : (M.nR != (dedup obs).length) = true
  · simp [h1, defaultProfile]
  rw [Bool.not_eq_true] at h1
  by_cases h2 : mdFires omd M.nR = true
  · simp [h1, h2, defaultProfile]
  rw [Bool.not_eq_true] at h2
  by_cases h3 : (M.nR != obs.length) = true
  · simp [h1, h2, h3, defaultProfile]
  rw [Bool.not_eq_true] at h3
  by_cases h4 : (M.nC != (dedup samp).length) = true
  · simp [h1, h2, h3, h4, defaultProfile]
  rw [Bool.not_eq_true] at h4
  by_cases h5 : mdFires smd M.nC = true
  · simp [h1, h2, h3, h4, h5, defaultProfile]
  rw [Bool.not_eq_true] at h5
  by_cases h6 : (M.nC != samp.length) = true
  · simp [h1, h2, h3, h4, h5, h6, defaultProfile]
  rw [Bool.not_eq_true] at h6
  simp [h1, h2, h3, h4, h5, h6]

theorem castMd_cases (md : Option (List MdEntry)) :
    (∃ r, castMd md = .ok r) ∨ castMd md = .error .tableException := by
  cases md with
  | none => left; exact ⟨none, rfl⟩
  | some l =>
    simp only [castMd]
    split
    · left; exact ⟨_, rfl⟩
    · split
      · right; rfl
      · left; exact ⟨_, rfl⟩

theorem finish_of_errcheck_error (M : Mat) (obs samp : List Id) (omd smd : Option (List MdEntry)) (e : Err)
    (h : errcheck defaultProfile M obs samp (normMd omd obs) (normMd smd samp) = .error e) :
    finish defaultProfile M obs samp omd smd = .error e := by
  simp only [finish, h, bind, Except.bind]

theorem finish_of_errcheck_ok (M : Mat) (obs samp : List Id) (omd smd : Option (List MdEntry))
    (h : errcheck defaultProfile M obs samp (normMd omd obs) (normMd smd samp) = .ok ()) :
    finish defaultProfile M obs samp omd smd =
      (match castMd (normMd smd samp) with
       | .error e => .error e
       | .ok s => match castMd (normMd omd obs) with
         | .error e => .error e
         | .ok o => .ok { obs := obs, samp := samp, rows := M.rows, omd := o, smd := s }) := by
  simp only [finish, h, bind, Except.bind, pure, Except.pure]
  cases castMd (normMd smd samp) with
  | error e => rfl
  | ok s => cases castMd (normMd omd obs) with
    | error e => rfl
    | ok o => rfl

theorem other_not_blank (l : List MdEntry) (h : l.any MdEntry.isOther = true) : l.all MdEntry.blank = false := by
  rw [List.any_eq_true] at h
  obtain ⟨e, he, ho⟩ := h
  cases hb : l.all MdEntry.blank with
  | false => rfl
  | true =>
    have := (List.all_eq_true.mp hb) e he
    cases e <;> simp [MdEntry.isOther, MdEntry.blank] at ho this

theorem normMd_of_bad (l : List MdEntry) (ids : List Id) (h : mdBad (some l) ids = true) :
    normMd (some l) ids = some l := by
  simp only [mdBad, Bool.or_eq_true, bne_iff_ne, ne_eq] at h
  simp only [normMd]
  rcases h with h | h
  · have : (l.length == ids.length) = false := by simpa using h
    simp [this]
  · simp [other_not_blank l h]

theorem castMd_of_other (l : List MdEntry) (h : l.any MdEntry.isOther = true) :
    castMd (some l) = .error .tableException := by
  simp [castMd, other_not_blank l h, h]

/-- metadata that is not one mapping-or-null per ID stops the constructor, provided the table is
not empty: the size test fires, or the cast refuses the entry -/
theorem finish_reject_md (M : Mat) (obs samp : List Id) (omd smd : Option (List MdEntry))
    (ho : obs ≠ []) (hs : samp ≠ [])
    (h : mdBad omd obs = true ∨ mdBad smd samp = true) :
    finish defaultProfile M obs samp omd smd = .error .tableException := by
  cases hc : errcheck defaultProfile M obs samp (normMd omd obs) (normMd smd samp) with
  | error e =>
    rw [errcheck_nonempty M obs samp _ _ ho hs] at hc
    split at hc
    · cases hc; exact finish_of_errcheck_error M obs samp omd smd _ (by
        rw [errcheck_nonempty M obs samp _ _ ho hs]; simp [*])
    · cases hc
  | ok u =>
    rw [finish_of_errcheck_ok M obs samp omd smd hc]
    rw [errcheck_nonempty M obs samp _ _ ho hs] at hc
    have hnf : anyFires M obs samp (normMd omd obs) (normMd smd samp) = false := by
      cases hf : anyFires M obs samp (normMd omd obs) (normMd smd samp) with
      | false => rfl
      | true => rw [hf] at hc; simp at hc
    simp only [anyFires, Bool.or_eq_false_iff, bne_eq_false_iff_eq] at hnf
    obtain ⟨⟨⟨⟨⟨_, hmo⟩, hno⟩, _⟩, hms⟩, hns⟩ := hnf
    rcases h with h | h
    · cases omd with
      | none => simp [mdBad] at h
      | some l =>
        rw [normMd_of_bad l obs h] at hmo ⊢
        have hlen : M.nR = l.length := by simpa [mdFires] using hmo
        simp only [mdBad, Bool.or_eq_true, bne_iff_ne, ne_eq] at h
        have hother : l.any MdEntry.isOther = true := by
          rcases h with h | h
          · exact absurd (hlen.symm.trans hno) h
          · exact h
        rw [castMd_of_other l hother]
        rcases castMd_cases (normMd smd samp) with ⟨r, hr⟩ | hr <;> rw [hr]
    · cases smd with
      | none => simp [mdBad] at h
      | some l =>
        rw [normMd_of_bad l samp h] at hms ⊢
        have hlen : M.nC = l.length := by simpa [mdFires] using hms
        simp only [mdBad, Bool.or_eq_true, bne_iff_ne, ne_eq] at h
        have hother : l.any MdEntry.isOther = true := by
          rcases h with h | h
          · exact absurd (hlen.symm.trans hns) h
          · exact h
        rw [castMd_of_other l hother]

theorem finish_reject_ids (M : Mat) (obs samp : List Id) (omd smd : Option (List MdEntry))
    (ho : obs ≠ []) (hs : samp ≠ [])
    (h : ¬ obs.Nodup ∨ ¬ samp.Nodup ∨ obs.length ≠ M.nR ∨ samp.length ≠ M.nC) :
    finish defaultProfile M obs samp omd smd = .error .tableException := by
  apply finish_of_errcheck_error
  rw [errcheck_nonempty M obs samp _ _ ho hs]
  have : anyFires M obs samp (normMd omd obs) (normMd smd samp) = true := by
    simp only [anyFires, Bool.or_eq_true, bne_iff_ne, ne_eq]
    rcases h with h | h | h | h
    · have := dedup_length_lt obs h
      by_cases h1 : M.nR = (dedup obs).length
      · left; left; left; right; omega
      · left; left; left; left; left; exact h1
    · have := dedup_length_lt samp h
      by_cases h1 : M.nC = (dedup samp).length
      · right; omega
      · left; left; right; exact h1
    · left; left; left; right; exact fun e => h e.symm
    · right; exact fun e => h e.symm
  simp [this]

/-- what a well-formed metadata argument becomes -/
def mdOut (md : Option (List MdEntry)) : Option (List Md) :=
  match md with
  | none => none
  | some l => if l.all MdEntry.blank then none else some (l.map MdEntry.toMd)

theorem castMd_normMd_good (md : Option (List MdEntry)) (ids : List Id) (h : mdBad md ids = false) :
    castMd (normMd md ids) = .ok (mdOut md) := by
  cases md with
  | none => rfl
  | some l =>
    simp only [mdBad, Bool.or_eq_false_iff, bne_eq_false_iff_eq] at h
    obtain ⟨hlen, hno⟩ := h
    simp only [normMd, hlen, beq_self_eq_true, Bool.true_and, mdOut]
    cases hb : l.all MdEntry.blank with
    | true => simp [castMd]
    | false => simp [castMd, hb, hno]

theorem finish_accept (M : Mat) (obs samp : List Id) (omd smd : Option (List MdEntry))
    (ho : obs ≠ []) (hs : samp ≠ []) (hno : obs.Nodup) (hns : samp.Nodup)
    (hlo : obs.length = M.nR) (hls : samp.length = M.nC)
    (hmo : mdBad omd obs = false) (hms : mdBad smd samp = false) :
    finish defaultProfile M obs samp omd smd =
      .ok { obs := obs, samp := samp, rows := M.rows, omd := mdOut omd, smd := mdOut smd } := by
  have hmdo : mdFires (normMd omd obs) M.nR = false := by
    cases omd with
    | none => rfl
    | some l =>
      simp only [mdBad, Bool.or_eq_false_iff, bne_eq_false_iff_eq] at hmo
      simp only [normMd]
      split
      · rfl
      · simp [mdFires, hmo.1, hlo]
  have hmds : mdFires (normMd smd samp) M.nC = false := by
    cases smd with
    | none => rfl
    | some l =>
      simp only [mdBad, Bool.or_eq_false_iff, bne_eq_false_iff_eq] at hms
      simp only [normMd]
      split
      · rfl
      · simp [mdFires, hms.1, hls]
  have hc : errcheck defaultProfile M obs samp (normMd omd obs) (normMd smd samp) = .ok () := by
    rw [errcheck_nonempty M obs samp _ _ ho hs]
    have : anyFires M obs samp (normMd omd obs) (normMd smd samp) = false := by
      simp [anyFires, dedup_of_nodup obs hno, dedup_of_nodup samp hns, hlo, hls, hmdo, hmds]
    simp [this]
  rw [finish_of_errcheck_ok M obs samp omd smd hc, castMd_normMd_good smd samp hms,
    castMd_normMd_good omd obs hmo]

/-! ### adjacency: sorted ID sets, positions, cell sums -/

theorem mem_insertS (x y : String) (l : List String) : y ∈ insertS x l ↔ y = x ∨ y ∈ l := by
  induction l with
  | nil => simp [insertS]
  | cons z zs ih =>
    simp only [insertS]
    split
    · simp
    · split
      · rename_i h; subst h; simp
      · simp only [List.mem_cons, ih]
        constructor
        · rintro (h | h | h) <;> simp [h]
        · rintro (h | h | h) <;> simp [h]

theorem sorted_insertS (x : String) (l : List String) (h : l.Pairwise (· < ·)) :
    (insertS x l).Pairwise (· < ·) := by
  induction l with
  | nil => simp [insertS]
  | cons z zs ih =>
    rw [List.pairwise_cons] at h
    simp only [insertS]
    split
    · rename_i hxz
      rw [List.pairwise_cons]
      refine ⟨?_, List.pairwise_cons.mpr h⟩
      intro a ha
      rcases List.mem_cons.mp ha with rfl | ha'
      · exact hxz
      · exact String.lt_trans hxz (h.1 a ha')
    · split
      · exact List.pairwise_cons.mpr h
      · rename_i h1 h2
        have hzx : z < x := Std.lt_of_le_of_ne (String.not_lt.mp h1) (fun e => h2 e.symm)
        rw [List.pairwise_cons]
        refine ⟨?_, ih h.2⟩
        intro a ha
        rcases (mem_insertS x a zs).mp ha with rfl | ha'
        · exact hzx
        · exact h.1 a ha'

theorem mem_sortDedup (xs : List String) (y : String) : y ∈ sortDedup xs ↔ y ∈ xs := by
  induction xs with
  | nil => simp [sortDedup]
  | cons x xs ih =>
    simp only [sortDedup, List.foldr_cons] at ih ⊢
    rw [mem_insertS, ih]; simp

theorem sortDedup_sorted (xs : List String) : (sortDedup xs).Pairwise (· < ·) := by
  induction xs with
  | nil => simp [sortDedup]
  | cons x xs ih =>
    simp only [sortDedup, List.foldr_cons] at ih ⊢
    exact sorted_insertS x _ ih

theorem nodup_of_sorted (l : List String) (h : l.Pairwise (· < ·)) : l.Nodup := by
  unfold List.Nodup
  apply h.imp
  intro a b hab e
  rw [e] at hab
  exact String.lt_irrefl _ hab

theorem idxOf_inj (l : List String) (a b : String) (ha : a ∈ l) (h : l.idxOf a = l.idxOf b) : a = b := by
  have hla : l.idxOf a < l.length := List.idxOf_lt_length_iff.mpr ha
  have hlb : l.idxOf b < l.length := by rw [← h]; exact hla
  have e1 := List.getElem_idxOf hla
  have e2 := List.getElem_idxOf hlb
  simp only [h] at e1
  rw [← e1, e2]

theorem getD_idxOf (l : List String) (a : String) (ha : a ∈ l) : l.getD (l.idxOf a) "" = a := by
  have hla : l.idxOf a < l.length := List.idxOf_lt_length_iff.mpr ha
  rw [List.getD_eq_getElem?_getD, List.getElem?_eq_getElem hla]
  simp [List.getElem_idxOf hla]

/-- the values stored for the cell of (o, s) are those of the records naming that pair -/
theorem cellSum_adjTriples (oo so : List String) (recs : List (String × String × Rat)) (o s : String)
    (hr : ∀ r ∈ recs, r.1 ∈ oo ∧ r.2.1 ∈ so) :
    cellSum (adjTriples oo so recs) (oo.idxOf o) (so.idxOf s) = adjSum recs o s := by
  induction recs with
  | nil => simp [adjTriples, cellSum_nil, adjSum, sumL]
  | cons r rs ih =>
    have ih' := ih (fun r' hr' => hr r' (List.mem_cons_of_mem _ hr'))
    have hmem := hr r (List.mem_cons_self)
    simp only [adjTriples, List.map_cons] at ih' ⊢
    rw [cellSum_cons, ih']
    by_cases hm : r.1 = o ∧ r.2.1 = s
    · have : (r.1 == o && r.2.1 == s) = true := by simp [hm.1, hm.2]
      simp [adjSum, sumL, hm.1, hm.2]
    · have hne : ¬ (oo.idxOf r.1 = oo.idxOf o ∧ so.idxOf r.2.1 = so.idxOf s) := by
        intro hh
        exact hm ⟨idxOf_inj oo r.1 o hmem.1 hh.1, idxOf_inj so r.2.1 s hmem.2 hh.2⟩
      have : (r.1 == o && r.2.1 == s) = false := by
        simp only [Bool.and_eq_false_iff, beq_eq_false_iff_ne]
        by_cases h1 : r.1 = o
        · right; intro h2; exact hm ⟨h1, h2⟩
        · left; exact h1
      simp [adjSum, this, hne]

theorem sorted_last_max (l : List String) (h : l.Pairwise (· < ·)) (hne : l ≠ []) :
    ∃ x ∈ l, l.idxOf x = l.length - 1 := by
  have hn : l.Nodup := nodup_of_sorted l h
  have hpos : l.length - 1 < l.length := by
    cases l with
    | nil => exact absurd rfl hne
    | cons _ _ => simp
  refine ⟨l[l.length - 1], List.getElem_mem hpos, ?_⟩
  exact List.Nodup.idxOf_getElem hn _ hpos

/-! ### uc: interning identifiers, counting in an association list -/

def internList (ids : List String) (x : String) : List String := if x ∈ ids then ids else ids ++ [x]

theorem idxOf_append_new (ids : List String) (x : String) (h : x ∉ ids) : (ids ++ [x]).idxOf x = ids.length := by
  induction ids with
  | nil => simp
  | cons y ys ih =>
    simp only [List.mem_cons, not_or] at h
    have hne : (y == x) = false := by simpa using fun e => h.1 e.symm
    simp only [List.cons_append, List.idxOf_cons, hne, cond_false, List.length_cons, ih h.2]

theorem idxOf_append_old (ids : List String) (x y : String) (h : y ∈ ids) : (ids ++ [x]).idxOf y = ids.idxOf y := by
  induction ids with
  | nil => cases h
  | cons z zs ih =>
    simp only [List.cons_append, List.idxOf_cons]
    by_cases hz : z = y
    · simp [hz]
    · have : (z == y) = false := by simpa using hz
      have hy : y ∈ zs := by
        rcases List.mem_cons.mp h with e | e
        · exact absurd e.symm hz
        · exact e
      simp only [this, cond_false, ih hy]

theorem intern_eq (ids : List String) (x : String) :
    intern ids x = ((internList ids x).idxOf x, internList ids x) := by
  by_cases h : x ∈ ids
  · simp [intern, internList, h]
  · simp [intern, internList, h, idxOf_append_new ids x h]

theorem mem_internList (ids : List String) (x y : String) : y ∈ internList ids x ↔ y ∈ ids ∨ y = x := by
  by_cases h : x ∈ ids
  · simp only [internList, h, if_true]
    constructor
    · exact Or.inl
    · rintro (h' | rfl)
      · exact h'
      · exact h
  · simp [internList, h]

theorem internList_nodup (ids : List String) (x : String) (h : ids.Nodup) : (internList ids x).Nodup := by
  by_cases hx : x ∈ ids
  · simpa [internList, hx] using h
  · simp only [internList, hx, if_false]
    rw [List.nodup_append]
    refine ⟨h, by simp, ?_⟩
    intro a ha b hb
    simp at hb; subst hb
    exact fun e => hx (e ▸ ha)

theorem idxOf_internList (ids : List String) (x y : String) (h : y ∈ ids) :
    (internList ids x).idxOf y = ids.idxOf y := by
  by_cases hx : x ∈ ids
  · simp [internList, hx]
  · simp [internList, hx, idxOf_append_old ids x y h]

theorem internList_length (ids : List String) (x : String) : ids.length ≤ (internList ids x).length := by
  by_cases hx : x ∈ ids <;> simp [internList, hx]

theorem idxOf_internList_new (ids : List String) (x : String) (h : x ∉ ids) :
    (internList ids x).idxOf x = ids.length := by
  simp [internList, h, idxOf_append_new ids x h]

theorem lookup_bump (d : Dict) (k k' : Coord) :
    ((bump d k).lookup k').getD 0 = (d.lookup k').getD 0 + (if k' = k then 1 else 0) := by
  induction d with
  | nil =>
    simp only [bump, List.lookup_cons, List.lookup_nil]
    by_cases h : k' = k
    · simp [h, Rat.zero_add]
    · have : (k' == k) = false := by simpa using h
      simp [this, h, Rat.add_zero]
  | cons e rest ih =>
    obtain ⟨ek, ev⟩ := e
    simp only [bump]
    by_cases he : ek = k
    · subst he
      simp only [if_true, List.lookup_cons]
      by_cases h : k' = ek
      · simp [h]
      · have : (k' == ek) = false := by simpa using h
        simp [this, h, Rat.add_zero]
    · simp only [he, if_false, List.lookup_cons]
      by_cases h : k' = ek
      · have hk : ¬ k' = k := fun e => he (h.symm.trans e)
        simp [h, Rat.add_zero, he]
      · have : (k' == ek) = false := by simpa using h
        simp only [this]
        exact ih

theorem bump_keys (d : Dict) (k : Coord) :
    (bump d k).map (·.1) = if k ∈ d.map (·.1) then d.map (·.1) else d.map (·.1) ++ [k] := by
  induction d with
  | nil => simp [bump]
  | cons e rest ih =>
    obtain ⟨ek, ev⟩ := e
    simp only [bump]
    by_cases he : ek = k
    · subst he; simp
    · have hne : ¬ k = ek := fun e => he e.symm
      simp only [he, if_false, List.map_cons, ih, List.mem_cons, hne, false_or]
      split <;> simp

theorem bump_keys_nodup (d : Dict) (k : Coord) (h : (d.map (·.1)).Nodup) : ((bump d k).map (·.1)).Nodup := by
  rw [bump_keys]
  split
  · exact h
  · rename_i hk
    rw [List.nodup_append]
    refine ⟨h, by simp, ?_⟩
    intro a ha b hb
    simp at hb; subst hb
    exact fun e => hk (e ▸ ha)

theorem mem_bump_key (d : Dict) (k : Coord) (e : Coord × Rat) (he : e ∈ bump d k) :
    e.1 = k ∨ e.1 ∈ d.map (·.1) := by
  have : e.1 ∈ (bump d k).map (·.1) := List.mem_map_of_mem he
  rw [bump_keys] at this
  split at this
  · exact Or.inr this
  · rcases List.mem_append.mp this with h | h
    · exact Or.inr h
    · left; simpa using h

theorem lookup_none_of_range (d : Dict) (n m : Nat) (k : Coord)
    (hr : ∀ e ∈ d, e.1.1 < n ∧ e.1.2 < m) (hk : n ≤ k.1 ∨ m ≤ k.2) : d.lookup k = none := by
  apply lookup_eq_none_of_not_mem
  intro hmem
  rw [List.mem_map] at hmem
  obtain ⟨e, he, rfl⟩ := hmem
  have := hr e he
  omega

/-- number of H/S records with seed `o` whose query label belongs to sample `s` -/
def ucCnt (recs : List UcRec) (o s : String) : Nat :=
  (recs.filter (fun r => isHS r && r.seed == o && sampleOf r.query == some s)).length

theorem ucCnt_append_one (done : List UcRec) (r : UcRec) (o s : String) :
    ucCnt (done ++ [r]) o s =
      ucCnt done o s + (if isHS r = true ∧ r.seed = o ∧ sampleOf r.query = some s then 1 else 0) := by
  simp only [ucCnt, List.filter_append, List.length_append, List.filter_cons, List.filter_nil]
  by_cases h : isHS r = true ∧ r.seed = o ∧ sampleOf r.query = some s
  · simp [h.1, h.2.1, h.2.2]
  · rw [if_neg h]
    have : (isHS r && r.seed == o && sampleOf r.query == some s) = false := by
      cases hb : (isHS r && r.seed == o && sampleOf r.query == some s) with
      | false => rfl
      | true =>
        simp only [Bool.and_eq_true, beq_iff_eq] at hb
        exact absurd ⟨hb.1.1, hb.1.2, hb.2⟩ h
    simp [this]

theorem ucCnt_zero_of_seed (done : List UcRec) (o s : String) (h : ∀ r ∈ done, r.seed ≠ o) : ucCnt done o s = 0 := by
  simp only [ucCnt, List.length_eq_zero_iff, List.filter_eq_nil_iff]
  intro r hr
  simp [h r hr]

theorem ucCnt_zero_of_sample (done : List UcRec) (o s : String)
    (h : ∀ r ∈ done, isHS r = true → sampleOf r.query ≠ some s) : ucCnt done o s = 0 := by
  simp only [ucCnt, List.length_eq_zero_iff, List.filter_eq_nil_iff]
  intro r hr
  by_cases hh : isHS r = true
  · simp [h r hr hh]
  · simp [hh]

structure UcInv (st : UcState) (done : List UcRec) : Prop where
  nodupO : st.obsIds.Nodup
  nodupS : st.sampIds.Nodup
  seeds : ∀ o, o ∈ st.obsIds ↔ ∃ r ∈ done, r.seed = o
  samples : ∀ s, s ∈ st.sampIds ↔ ∃ r ∈ done, isHS r = true ∧ sampleOf r.query = some s
  keys : (st.data.map (·.1)).Nodup
  range : ∀ e ∈ st.data, e.1.1 < st.obsIds.length ∧ e.1.2 < st.sampIds.length
  count : ∀ o ∈ st.obsIds, ∀ s ∈ st.sampIds,
    (st.data.lookup (st.obsIds.idxOf o, st.sampIds.idxOf s)).getD 0 = (ucCnt done o s : Rat)

theorem ucInv_init : UcInv {} [] :=
  { nodupO := List.nodup_nil, nodupS := List.nodup_nil,
    seeds := (by intro o; simp), samples := (by intro s; simp),
    keys := List.nodup_nil, range := (by intro e he; cases he),
    count := (by intro o ho; cases ho) }

/-- the value looked up for (o, s) in the old dictionary, in the index space of the new lists -/
theorem lookup_stable (st : UcState) (done : List UcRec) (inv : UcInv st done) (x y o s : String)
    (ho : o ∈ internList st.obsIds x) (hs : s ∈ internList st.sampIds y) :
    (st.data.lookup ((internList st.obsIds x).idxOf o, (internList st.sampIds y).idxOf s)).getD 0
      = (ucCnt done o s : Rat) := by
  by_cases h1 : o ∈ st.obsIds
  · by_cases h2 : s ∈ st.sampIds
    · rw [idxOf_internList _ x o h1, idxOf_internList _ y s h2]
      exact inv.count o h1 s h2
    · have hsy : s = y := by
        rcases (mem_internList _ _ _).mp hs with h | h
        · exact absurd h h2
        · exact h
      subst hsy
      rw [idxOf_internList_new _ s h2]
      rw [lookup_none_of_range st.data _ _ _ inv.range (Or.inr (Nat.le_refl _))]
      rw [ucCnt_zero_of_sample done o s]
      · simp
      · intro r hr hh e
        exact h2 ((inv.samples s).mpr ⟨r, hr, hh, e⟩)
  · have hox : o = x := by
      rcases (mem_internList _ _ _).mp ho with h | h
      · exact absurd h h1
      · exact h
    subst hox
    rw [idxOf_internList_new _ o h1]
    rw [lookup_none_of_range st.data _ _ _ inv.range (Or.inl (Nat.le_refl _))]
    rw [ucCnt_zero_of_seed done o s]
    · simp
    · intro r hr e
      exact h1 ((inv.seeds o).mpr ⟨r, hr, e⟩)

theorem ucStep_inv (st : UcState) (done : List UcRec) (r : UcRec) (inv : UcInv st done)
    (hq : isHS r = true → (sampleOf r.query).isSome = true) :
    ∃ st', ucStep st r = .ok st' ∧ UcInv st' (done ++ [r]) := by
  simp only [ucStep, intern_eq]
  by_cases hh : isHS r = true
  · obtain ⟨s0, hs0⟩ := Option.isSome_iff_exists.mp (hq hh)
    simp only [hh, if_true, hs0]
    refine ⟨_, rfl, ?_⟩
    refine
      { nodupO := internList_nodup _ _ inv.nodupO, nodupS := internList_nodup _ _ inv.nodupS,
        seeds := ?_, samples := ?_, keys := bump_keys_nodup _ _ inv.keys, range := ?_, count := ?_ }
    · intro o
      rw [mem_internList, inv.seeds o]
      constructor
      · rintro (⟨r', hr', e⟩ | e)
        · exact ⟨r', List.mem_append_left _ hr', e⟩
        · exact ⟨r, by simp, e.symm⟩
      · rintro ⟨r', hr', e⟩
        rcases List.mem_append.mp hr' with h | h
        · exact Or.inl ⟨r', h, e⟩
        · simp at h; subst h; exact Or.inr e.symm
    · intro s
      rw [mem_internList, inv.samples s]
      constructor
      · rintro (⟨r', hr', e⟩ | e)
        · exact ⟨r', List.mem_append_left _ hr', e⟩
        · exact ⟨r, by simp, hh, by rw [hs0, e]⟩
      · rintro ⟨r', hr', e⟩
        rcases List.mem_append.mp hr' with h | h
        · exact Or.inl ⟨r', h, e⟩
        · simp at h; subst h
          right
          have := e.2; rw [hs0] at this
          exact (Option.some.inj this).symm
    · intro e he
      have hxo : r.seed ∈ internList st.obsIds r.seed := (mem_internList _ _ _).mpr (Or.inr rfl)
      have hxs : s0 ∈ internList st.sampIds s0 := (mem_internList _ _ _).mpr (Or.inr rfl)
      rcases mem_bump_key _ _ e he with h | h
      · rw [h]
        exact ⟨List.idxOf_lt_length_iff.mpr hxo, List.idxOf_lt_length_iff.mpr hxs⟩
      · rw [List.mem_map] at h
        obtain ⟨e', he', hk⟩ := h
        have := inv.range e' he'
        have l1 := internList_length st.obsIds r.seed
        have l2 := internList_length st.sampIds s0
        rw [← hk]; dsimp only; omega
    · intro o ho s hs
      have hxo : r.seed ∈ internList st.obsIds r.seed := (mem_internList _ _ _).mpr (Or.inr rfl)
      have hxs : s0 ∈ internList st.sampIds s0 := (mem_internList _ _ _).mpr (Or.inr rfl)
      rw [lookup_bump, lookup_stable st done inv r.seed s0 o s ho hs, ucCnt_append_one, Rat.natCast_add]
      congr 1
      by_cases hm : r.seed = o ∧ s0 = s
      · obtain ⟨rfl, rfl⟩ := hm
        simp [hh, hs0]
      · have h1 : ¬ (((internList st.obsIds r.seed).idxOf o, (internList st.sampIds s0).idxOf s) =
            ((internList st.obsIds r.seed).idxOf r.seed, (internList st.sampIds s0).idxOf s0)) := by
          intro e
          simp only [Prod.mk.injEq] at e
          exact hm ⟨(idxOf_inj _ o r.seed ho e.1).symm, (idxOf_inj _ s s0 hs e.2).symm⟩
        have h2 : ¬ (isHS r = true ∧ r.seed = o ∧ sampleOf r.query = some s) := by
          intro e
          apply hm
          refine ⟨e.2.1, ?_⟩
          have := e.2.2; rw [hs0] at this
          exact Option.some.inj this
        rw [if_neg h1, if_neg h2]; rfl
  · simp only [hh, Bool.false_eq_true, if_false]
    refine ⟨_, rfl, ?_⟩
    refine
      { nodupO := internList_nodup _ _ inv.nodupO, nodupS := inv.nodupS,
        seeds := ?_, samples := ?_, keys := inv.keys, range := ?_, count := ?_ }
    · intro o
      rw [mem_internList, inv.seeds o]
      constructor
      · rintro (⟨r', hr', e⟩ | e)
        · exact ⟨r', List.mem_append_left _ hr', e⟩
        · exact ⟨r, by simp, e.symm⟩
      · rintro ⟨r', hr', e⟩
        rcases List.mem_append.mp hr' with h | h
        · exact Or.inl ⟨r', h, e⟩
        · simp at h; subst h; exact Or.inr e.symm
    · intro s
      rw [inv.samples s]
      constructor
      · rintro ⟨r', hr', e⟩
        exact ⟨r', List.mem_append_left _ hr', e⟩
      · rintro ⟨r', hr', e⟩
        rcases List.mem_append.mp hr' with h | h
        · exact ⟨r', h, e⟩
        · simp at h; subst h; exact absurd e.1 hh
    · intro e he
      have := inv.range e he
      have l1 := internList_length st.obsIds r.seed
      exact ⟨by dsimp only; omega, this.2⟩
    · intro o ho s hs
      have hs' : s ∈ internList st.sampIds s := (mem_internList _ _ _).mpr (Or.inl hs)
      have := lookup_stable st done inv r.seed s o s ho hs'
      rw [idxOf_internList _ s s hs] at this
      rw [this, ucCnt_append_one]
      have h2 : ¬ (isHS r = true ∧ r.seed = o ∧ sampleOf r.query = some s) := fun e => hh e.1
      rw [if_neg h2]; rfl

theorem ucFold_inv (rs : List UcRec) : ∀ (st : UcState) (done : List UcRec), UcInv st done →
    (∀ r ∈ rs, isHS r = true → (sampleOf r.query).isSome = true) →
    ∃ st', ucFold st rs = .ok st' ∧ UcInv st' (done ++ rs) := by
  induction rs with
  | nil => intro st done inv _; exact ⟨st, rfl, by simpa using inv⟩
  | cons r rs ih =>
    intro st done inv hq
    obtain ⟨st1, h1, inv1⟩ := ucStep_inv st done r inv (hq r (List.mem_cons_self))
    obtain ⟨st2, h2, inv2⟩ := ih st1 (done ++ [r]) inv1 (fun r' hr' => hq r' (List.mem_cons_of_mem _ hr'))
    refine ⟨st2, ?_, by simpa using inv2⟩
    simp only [ucFold, h1, bind, Except.bind, h2]

/-! ### the empty-table path of the constructor -/

theorem errcheck_empty (M : Mat) (obs samp : List Id) (omd smd : Option (List MdEntry))
    (h : obs = [] ∨ samp = []) : errcheck defaultProfile M obs samp omd smd = .ok () := by
  have e0 : fires M obs samp omd smd "empty" = true := by
    rcases h with h | h <;> simp [fires, h]
  simp [errcheck, kindsSorted, e0, defaultProfile]

theorem finish_empty (M : Mat) (obs samp : List Id) (h : obs = [] ∨ samp = []) :
    finish defaultProfile M obs samp none none = .ok { obs := obs, samp := samp, rows := M.rows } := by
  have hc : errcheck defaultProfile M obs samp (normMd none obs) (normMd none samp) = .ok () :=
    errcheck_empty M obs samp _ _ h
  rw [finish_of_errcheck_ok M obs samp none none hc]
  rfl

/-! ### the text before the last underscore -/

theorem beforeLast_none (cs : List Char) : beforeLastUnderscore cs = none ↔ '_' ∉ cs := by
  induction cs with
  | nil => simp [beforeLastUnderscore]
  | cons c cs ih =>
    simp only [beforeLastUnderscore]
    cases h : beforeLastUnderscore cs with
    | some p =>
      have : ¬ ('_' ∉ cs) := fun hn => by rw [ih.mpr hn] at h; cases h
      simp only [List.mem_cons, not_or]
      constructor
      · intro e; cases e
      · intro e; exact absurd e.2 this
    | none =>
      have hn := ih.mp h
      by_cases hc : c = '_'
      · simp [hc]
      · simp only [hc, if_false, List.mem_cons, not_or, true_iff]
        exact ⟨fun e => hc e.symm, hn⟩

/-- `q[:q.rindex('_')]`: for `q = p ++ "_" ++ rest` with no underscore in `rest`, the prefix `p` -/
theorem beforeLast_spec (p rest : List Char) (h : '_' ∉ rest) :
    beforeLastUnderscore (p ++ '_' :: rest) = some p := by
  induction p with
  | nil => simp [beforeLastUnderscore, (beforeLast_none rest).mpr h]
  | cons c p ih => simp [beforeLastUnderscore, ih]

/-- conversely, whatever `beforeLastUnderscore` returns is followed by the last underscore -/
theorem beforeLast_some (cs p : List Char) (h : beforeLastUnderscore cs = some p) :
    ∃ rest, cs = p ++ '_' :: rest ∧ '_' ∉ rest := by
  induction cs generalizing p with
  | nil => simp [beforeLastUnderscore] at h
  | cons c cs ih =>
    simp only [beforeLastUnderscore] at h
    cases hr : beforeLastUnderscore cs with
    | some p' =>
      rw [hr] at h
      cases h
      obtain ⟨rest, e, hn⟩ := ih p' hr
      exact ⟨rest, by rw [e]; rfl, hn⟩
    | none =>
      rw [hr] at h
      by_cases hc : c = '_'
      · simp only [hc, if_true] at h
        cases h
        exact ⟨cs, by rw [hc]; rfl, (beforeLast_none cs).mp hr⟩
      · simp [hc] at h

/-! ### helpers of the property theorems: lookups through IDs, option/except folds, renaming -/

section
open Codec

theorem lookupBy_getD {β : Type} (ids : List Id) (xs : List β) (i : Nat) (hn : ids.Nodup) (hi : i < ids.length) :
    lookupBy ids xs (ids.getD i "") = xs[i]? := by
  induction ids generalizing xs i with
  | nil => simp at hi
  | cons a as ih =>
    rw [List.nodup_cons] at hn
    cases i with
    | zero =>
      cases xs with
      | nil => simp [lookupBy]
      | cons x xs' => simp [lookupBy]
    | succ i' =>
      have hi' : i' < as.length := by simpa using hi
      have hmem : as.getD i' "" ∈ as := by
        rw [List.getD_eq_getElem?_getD, List.getElem?_eq_getElem hi']; exact List.getElem_mem hi'
      have hne : a ≠ as.getD i' "" := fun e => hn.1 (e ▸ hmem)
      cases xs with
      | nil => simp [lookupBy]
      | cons x xs' =>
        simp only [List.getD_cons_succ, lookupBy, hne, if_false, List.getElem?_cons_succ]
        exact ih xs' i' hn.2 hi'

theorem cell_of_grid (t : Table Rat) (D : Grid) (n m : Nat) (hD : gridIs D n m = true) (hrows : t.rows = D)
    (hno : t.obs.Nodup) (hns : t.samp.Nodup) (hlo : t.obs.length = n) (hls : t.samp.length = m)
    (i j : Nat) (hi : i < n) (hj : j < m) :
    t.cell? (t.obs.getD i "") (t.samp.getD j "") = some (cellD D i j) := by
  have hl := (gridIs_iff D n m).mp hD
  have hiD : i < D.length := by omega
  have hrow : (D[i]).length = m := hl.2 _ (List.getElem_mem hiD)
  have hjr : j < (D[i]).length := by omega
  simp only [Table.cell?, Table.row?, hrows]
  rw [lookupBy_getD t.obs D i hno (by omega), List.getElem?_eq_getElem hiD]
  simp only [Option.bind_some]
  rw [lookupBy_getD t.samp (D[i]) j hns (by omega), List.getElem?_eq_getElem hjr]
  simp [cellD, List.getD_eq_getElem?_getD, hiD, hjr]

theorem encodes_dims (d : Data) (dense : Bool) (D : Grid) (n m : Nat) (h : encodes d dense D n m = true) :
    gridIs D n m = true ∧ 1 ≤ n ∧ 1 ≤ m := by
  simp only [encodes, Bool.and_eq_true, decide_eq_true_eq] at h
  exact ⟨h.1.1.1, h.1.1.2, h.1.2⟩

theorem mdOut_length (md : Option (List MdEntry)) (ids : List Id) (h : mdBad md ids = false) :
    ∀ l, mdOut md = some l → l.length = ids.length := by
  intro l hl
  cases md with
  | none => simp [mdOut] at hl
  | some e =>
    simp only [mdBad, Bool.or_eq_false_iff, bne_eq_false_iff_eq] at h
    simp only [mdOut] at hl
    split at hl
    · cases hl
    · cases hl; simp [h.1]

theorem mdOf_spec (ids : List Id) (md : Option (List MdEntry)) (hn : ids.Nodup) (i : Nat) (hi : i < ids.length) :
    (mdOut md).bind (fun l => lookupBy ids l (ids.getD i "")) = mdWant md i := by
  cases md with
  | none => rfl
  | some l =>
    simp only [mdOut, mdWant]
    split
    · rfl
    · simp only [Option.bind_some]
      rw [lookupBy_getD ids _ i hn hi]; simp

theorem isErr_tableException : isErr (.error .tableException) .tableException = true := by decide

theorem chk_true (c : String) : chk c true = none := rfl

theorem maxL_idxOf (ids : List String) (xs : List String) (hs : ids.Pairwise (· < ·)) (hne : ids ≠ [])
    (hsub : ∀ x ∈ xs, x ∈ ids) (hsup : ∀ y ∈ ids, y ∈ xs) :
    maxL (xs.map (fun x => ids.idxOf x)) + 1 = ids.length := by
  have hlen : 0 < ids.length := by
    cases ids with
    | nil => exact absurd rfl hne
    | cons _ _ => simp
  have : maxL (xs.map (fun x => ids.idxOf x)) = ids.length - 1 := by
    apply maxL_eq
    · intro k hk
      rw [List.mem_map] at hk
      obtain ⟨x, hx, rfl⟩ := hk
      have := List.idxOf_lt_length_iff.mpr (hsub x hx)
      omega
    · obtain ⟨y, hy, hidx⟩ := sorted_last_max ids hs hne
      rw [List.mem_map]
      exact ⟨y, hsup y hy, hidx⟩
  omega

theorem adjRecord_of_valid (l : AdjLine) (h : adjValid l = true) : adjRecord l = .ok (adjRecOf l) := by
  obtain ⟨fields, num⟩ := l
  simp only [adjValid, Bool.and_eq_true, beq_iff_eq] at h
  obtain ⟨hl, hn⟩ := h
  obtain ⟨v, rfl⟩ := Option.isSome_iff_exists.mp hn
  match fields, hl with
  | [o, s, x], _ => simp [adjRecord, adjRecOf]

theorem adjRecord_of_invalid (l : AdjLine) (h : adjValid l = false) : ∃ e, adjRecord l = .error e := by
  obtain ⟨fields, num⟩ := l
  match fields, num with
  | [], _ => exact ⟨_, rfl⟩
  | [_], _ => exact ⟨_, rfl⟩
  | [_, _], _ => exact ⟨_, rfl⟩
  | [_, _, _], none => exact ⟨_, rfl⟩
  | [_, _, _], some v => simp [adjValid] at h
  | _ :: _ :: _ :: _ :: _, _ => exact ⟨_, rfl⟩

theorem mapM_adjRecord_ok (body : List AdjLine) (h : body.all adjValid = true) :
    body.mapM adjRecord = .ok (body.map adjRecOf) := by
  induction body with
  | nil => rfl
  | cons l ls ih =>
    simp only [List.all_cons, Bool.and_eq_true] at h
    rw [List.mapM_cons, adjRecord_of_valid l h.1, ih h.2]
    rfl

theorem mapM_adjRecord_err (body : List AdjLine) (h : body.all adjValid = false) :
    ∃ e, body.mapM adjRecord = .error e := by
  induction body with
  | nil => simp at h
  | cons l ls ih =>
    rw [List.mapM_cons]
    cases hv : adjValid l with
    | false =>
      obtain ⟨e, he⟩ := adjRecord_of_invalid l hv
      exact ⟨e, by rw [he]; rfl⟩
    | true =>
      rw [adjRecord_of_valid l hv]
      simp only [List.all_cons, hv, Bool.true_and] at h
      obtain ⟨e, he⟩ := ih h
      exact ⟨e, by rw [he]; rfl⟩

theorem sortedB_of_pairwise (l : List String) (h : l.Pairwise (· < ·)) : sortedB l = true := by
  induction l with
  | nil => rfl
  | cons a as ih =>
    rw [List.pairwise_cons] at h
    cases as with
    | nil => rfl
    | cons b bs =>
      simp only [sortedB, Bool.and_eq_true, decide_eq_true_eq]
      exact ⟨h.1 b (List.mem_cons_self), ih h.2⟩

theorem sameMembers_of_iff (a b : List String) (h : ∀ x, x ∈ a ↔ x ∈ b) : sameMembers a b = true := by
  simp only [sameMembers, Bool.and_eq_true, List.all_eq_true, List.contains_iff_mem]
  exact ⟨fun x hx => (h x).mp hx, fun x hx => (h x).mpr hx⟩

theorem sampleOf_isSome_iff (q : String) : (sampleOf q).isSome = true ↔ '_' ∈ q.toList := by
  simp only [sampleOf, Option.isSome_map]
  cases h : beforeLastUnderscore q.toList with
  | none => simp [(beforeLast_none q.toList).mp h]
  | some p =>
    have : ¬ ('_' ∉ q.toList) := fun hn => by rw [(beforeLast_none q.toList).mpr hn] at h; cases h
    simp only [Option.isSome_some, true_iff]
    exact Decidable.not_not.mp this

theorem ucStep_err (st : UcState) (r : UcRec) (h1 : isHS r = true) (h2 : sampleOf r.query = none) :
    ucStep st r = .error .value := by
  simp [ucStep, h1, h2]

theorem ucFold_err (rs : List UcRec) : ∀ st : UcState,
    (∃ r ∈ rs, isHS r = true ∧ sampleOf r.query = none) → ∃ e, ucFold st rs = .error e := by
  induction rs with
  | nil => intro st h; obtain ⟨r, hr, _⟩ := h; cases hr
  | cons r rs ih =>
    intro st h
    simp only [ucFold]
    cases hs : ucStep st r with
    | error e => exact ⟨e, rfl⟩
    | ok st1 =>
      obtain ⟨r', hr', h1, h2⟩ := h
      rcases List.mem_cons.mp hr' with e | hmem
      · subst e
        rw [ucStep_err st r' h1 h2] at hs; cases hs
      · obtain ⟨e, he⟩ := ih st1 ⟨r', hmem, h1, h2⟩
        exact ⟨e, by simp only [bind, Except.bind, he]⟩

theorem mapM_option_none (f : String → Option String) (l : List String) (h : ∃ x ∈ l, f x = none) :
    l.mapM f = none := by
  induction l with
  | nil => obtain ⟨x, hx, _⟩ := h; cases hx
  | cons a as ih =>
    rw [List.mapM_cons]
    obtain ⟨x, hx, hn⟩ := h
    cases hfa : f a with
    | none => rfl
    | some y =>
      rcases List.mem_cons.mp hx with e | hmem
      · subst e; rw [hn] at hfa; cases hfa
      · rw [ih ⟨x, hmem, hn⟩]; rfl

theorem mapM_option_some (f : String → Option String) (l : List String) (h : ∀ x ∈ l, (f x).isSome = true) :
    l.mapM f = some (l.map (fun x => (f x).getD "")) := by
  induction l with
  | nil => rfl
  | cons a as ih =>
    rw [List.mapM_cons, ih (fun x hx => h x (List.mem_cons_of_mem _ hx))]
    obtain ⟨y, hy⟩ := Option.isSome_iff_exists.mp (h a (List.mem_cons_self))
    simp [hy]

theorem lookupBy_map_inj {β : Type} (g : String → String) (l : List String) (xs : List β) (a : String)
    (hinj : ∀ x ∈ l, ∀ y ∈ l, g x = g y → x = y) (ha : a ∈ l) :
    lookupBy (l.map g) xs (g a) = lookupBy l xs a := by
  induction l generalizing xs with
  | nil => cases ha
  | cons b bs ih =>
    cases xs with
    | nil => simp [lookupBy]
    | cons x xs' =>
      simp only [List.map_cons, lookupBy]
      by_cases hb : b = a
      · subst hb; simp
      · have hne : ¬ g b = g a := fun e => hb (hinj b (List.mem_cons_self) a ha e)
        have ha' : a ∈ bs := by
          rcases List.mem_cons.mp ha with e | e
          · exact absurd e.symm hb
          · exact e
        simp only [hb, hne, if_false]
        exact ih xs' (fun x hx y hy => hinj x (List.mem_cons_of_mem _ hx) y (List.mem_cons_of_mem _ hy)) ha'

theorem nodup_map_of_inj (g : String → String) (l : List String) (hn : l.Nodup)
    (hinj : ∀ x ∈ l, ∀ y ∈ l, g x = g y → x = y) : (l.map g).Nodup := by
  induction l with
  | nil => exact List.nodup_nil
  | cons b bs ih =>
    rw [List.nodup_cons] at hn
    rw [List.map_cons, List.nodup_cons]
    refine ⟨?_, ih hn.2 (fun x hx y hy => hinj x (List.mem_cons_of_mem _ hx) y (List.mem_cons_of_mem _ hy))⟩
    intro hmem
    rw [List.mem_map] at hmem
    obtain ⟨c, hc, e⟩ := hmem
    have := hinj c (List.mem_cons_of_mem _ hc) b (List.mem_cons_self) e
    exact hn.1 (this ▸ hc)

theorem inj_of_nodup_map (g : String → String) (l : List String) (hn : (l.map g).Nodup) :
    ∀ x ∈ l, ∀ y ∈ l, g x = g y → x = y := by
  induction l with
  | nil => intro x hx; cases hx
  | cons b bs ih =>
    rw [List.map_cons, List.nodup_cons] at hn
    intro x hx y hy e
    rcases List.mem_cons.mp hx with rfl | hx' <;> rcases List.mem_cons.mp hy with rfl | hy'
    · rfl
    · exact absurd (e ▸ List.mem_map_of_mem hy' : g x ∈ bs.map g) hn.1
    · exact absurd (e ▸ List.mem_map_of_mem hx' : g y ∈ bs.map g) hn.1
    · exact ih hn.2 x hx' y hy' e

theorem labelsOk_some (recs : List UcRec) : labelsOk (fun x => some x) recs = true := by
  simp only [labelsOk, Option.isSome_some, List.all_eq_true, Bool.and_eq_true, Bool.or_eq_true,
    bne_iff_ne, ne_eq, beq_iff_eq]
  refine ⟨fun _ _ => trivial, ?_⟩
  intro r1 _ r2 _
  by_cases h : r1.seed = r2.seed
  · exact Or.inr h
  · left; intro e; exact h (Option.some.inj e)

end

end Biom.C17
