import BiomModel.C05

namespace Biom.C05

/-! ### dedup / hasDup -/

theorem dedup_length_le (l : List Id) : (dedup l).length ≤ l.length := by
  induction l with
  | nil => simp [dedup]
  | cons a t ih =>
    unfold dedup
    split
    · simp only [List.length_cons]; omega
    · simp only [List.length_cons]; omega

theorem nodup_of_dedup_length (l : List Id) (h : (dedup l).length = l.length) : l.Nodup := by
  induction l with
  | nil => exact List.nodup_nil
  | cons a t ih =>
    unfold dedup at h
    split at h
    · have := dedup_length_le t
      simp only [List.length_cons] at h; omega
    · rename_i hn
      simp only [List.length_cons] at h
      exact List.nodup_cons.mpr ⟨hn, ih (by omega)⟩

theorem nodup_of_not_hasDup (l : List Id) (h : hasDup l = false) : l.Nodup := by
  unfold hasDup at h
  exact nodup_of_dedup_length l (by simpa using h)

/-! ### the id → position dict -/

theorem lookup_none_of_not_mem_keys {β : Type} (l : List (Id × β)) (k : Id)
    (h : k ∉ l.map (·.1)) : l.lookup k = none := by
  induction l with
  | nil => rfl
  | cons x xs ih =>
    obtain ⟨xk, xv⟩ := x
    simp only [List.map_cons, List.mem_cons, not_or] at h
    rw [List.lookup_cons]
    have : (k == xk) = false := by simpa using h.1
    rw [this]; exact ih h.2

theorem lookup_append' {β : Type} (l₁ l₂ : List (Id × β)) (k : Id) :
    (l₁ ++ l₂).lookup k = ((l₁.lookup k).or (l₂.lookup k)) := by
  induction l₁ with
  | nil => simp
  | cons x xs ih =>
    obtain ⟨xk, xv⟩ := x
    simp only [List.cons_append, List.lookup_cons]
    cases (k == xk) <;> simp [ih]

theorem zipIdx_keys (l : List Id) (k : Nat) : (l.zipIdx k).map (·.1) = l := by
  induction l generalizing k with
  | nil => rfl
  | cons a t ih => simp [List.zipIdx_cons, ih]

theorem indexOf?_cons_self (a : Id) (t : List Id) : indexOf? (a :: t) a = some 0 := by
  simp [indexOf?, List.idxOf_cons]

theorem indexOf?_cons_ne (a id : Id) (t : List Id) (h : id ≠ a) :
    indexOf? (a :: t) id = (indexOf? t id).map (· + 1) := by
  have hne : (a == id) = false := by simpa using (fun e => h e.symm)
  simp only [indexOf?, List.idxOf_cons, hne, List.length_cons]
  by_cases hlt : t.idxOf id < t.length
  · simp [hlt]
  · simp [hlt]

theorem indexOf?_none_of_not_mem (l : List Id) (id : Id) (h : id ∉ l) : indexOf? l id = none := by
  have : l.idxOf id = l.length := List.idxOf_eq_length h
  simp [indexOf?, this]

/-- `index_list` answers with the position of the id (for distinct ids), at any enumeration offset -/
theorem indexList_spec_aux (l : List Id) (hnd : l.Nodup) (k : Nat) (id : Id) :
    (l.zipIdx k).reverse.lookup id = (indexOf? l id).map (· + k) := by
  induction l generalizing k with
  | nil => simp [indexOf?]
  | cons a t ih =>
    have hnd' := List.nodup_cons.mp hnd
    rw [List.zipIdx_cons, List.reverse_cons, lookup_append', ih hnd'.2]
    by_cases hid : id = a
    · subst hid
      rw [indexOf?_none_of_not_mem t id hnd'.1, indexOf?_cons_self]
      simp [List.lookup_cons]
    · rw [indexOf?_cons_ne a id t hid]
      have hne : (id == a) = false := by simpa using hid
      cases h : indexOf? t id with
      | none => simp [List.lookup_cons, hne]
      | some i => simp [Nat.add_assoc, Nat.add_comm 1 k]

theorem indexList_spec (l : List Id) (hnd : l.Nodup) (id : Id) :
    dictGet (indexList l) id = indexOf? l id := by
  unfold dictGet indexList
  rw [indexList_spec_aux l hnd 0 id]
  cases indexOf? l id <;> simp

/-! ### filterMask -/

theorem filterMask_length_eq {β γ : Type} (l₁ : List β) (l₂ : List γ) (m : List Bool)
    (h : l₁.length = l₂.length) : (filterMask l₁ m).length = (filterMask l₂ m).length := by
  induction l₁ generalizing l₂ m with
  | nil =>
    cases l₂ with
    | nil => simp [filterMask]
    | cons _ _ => simp at h
  | cons a t ih =>
    cases l₂ with
    | nil => simp at h
    | cons b u =>
      cases m with
      | nil => simp [filterMask]
      | cons x xs =>
        have hl : t.length = u.length := by simpa using h
        cases x <;> simp [filterMask, ih u xs hl]

theorem filterMask_sublist {β : Type} (l : List β) (m : List Bool) : (filterMask l m).Sublist l := by
  induction l generalizing m with
  | nil => cases m <;> simp [filterMask]
  | cons a t ih =>
    cases m with
    | nil => simp [filterMask]
    | cons x xs =>
      cases x
      · simp only [filterMask]; exact (ih xs).cons a
      · simp only [filterMask, if_true]; exact (ih xs).cons₂ a

theorem filterMask_nodup (l : List Id) (m : List Bool) (h : l.Nodup) : (filterMask l m).Nodup :=
  (filterMask_sublist l m).nodup h

theorem mem_filterMask {β : Type} (l : List β) (m : List Bool) (x : β) (h : x ∈ filterMask l m) : x ∈ l :=
  (filterMask_sublist l m).subset h

end Biom.C05

namespace Biom.C05

/-! ### sums -/

theorem foldl_add_start (l : List Rat) (a : Rat) : l.foldl (· + ·) a = a + l.foldl (· + ·) 0 := by
  induction l generalizing a with
  | nil => simp [Rat.add_zero]
  | cons x xs ih =>
    simp only [List.foldl_cons]
    rw [ih (a + x), ih (0 + x), Rat.zero_add, Rat.add_assoc]

theorem sumRow_cons (x : Rat) (l : List Rat) : sumRow (x :: l) = x + sumRow l := by
  unfold sumRow
  rw [List.foldl_cons, foldl_add_start, Rat.zero_add]

theorem sumRow_nil : sumRow [] = 0 := rfl

theorem sumRow_append (a b : List Rat) : sumRow (a ++ b) = sumRow a + sumRow b := by
  induction a with
  | nil => simp [sumRow_nil, Rat.zero_add]
  | cons x xs ih => simp [sumRow_cons, ih, Rat.add_assoc]

/-- pointwise sum of two equally long vectors -/
def addVec : List Rat → List Rat → List Rat
  | a :: as, b :: bs => (a + b) :: addVec as bs
  | _, _ => []

theorem sumRow_addVec (a b : List Rat) (h : a.length = b.length) :
    sumRow (addVec a b) = sumRow a + sumRow b := by
  induction a generalizing b with
  | nil => cases b <;> simp_all [addVec, sumRow_nil, Rat.add_zero]
  | cons x xs ih =>
    cases b with
    | nil => simp at h
    | cons y ys =>
      simp only [addVec, sumRow_cons]
      rw [ih ys (by simpa using h)]
      rw [Rat.add_assoc, Rat.add_assoc]
      congr 1
      rw [← Rat.add_assoc, ← Rat.add_assoc, Rat.add_comm y]

theorem colAt_cons (r : List Rat) (rows : List (List Rat)) (j : Nat) (h : j < r.length) :
    colAt (r :: rows) j = r[j] :: colAt rows j := by
  simp [colAt, List.filterMap_cons, List.getElem?_eq_getElem h]

/-- column totals of a rectangular grid, as a vector -/
theorem colSums_cons (r : List Rat) (rows : List (List Rat)) (m : Nat) (hr : r.length = m) :
    (List.range m).map (fun j => sumRow (colAt (r :: rows) j)) =
      addVec r ((List.range m).map (fun j => sumRow (colAt rows j))) := by
  subst hr
  have key : ∀ (k : Nat) (r' : List Rat) (off : Nat), r'.length = k → (∀ i, i < k → r[off + i]? = r'[i]?) →
      (List.range' off k).map (fun j => sumRow (colAt (r :: rows) j)) =
        addVec r' ((List.range' off k).map (fun j => sumRow (colAt rows j))) := by
    intro k
    induction k with
    | zero => intro r' off h _; cases r' <;> simp_all [addVec]
    | succ n ih =>
      intro r' off h hget
      cases r' with
      | nil => simp at h
      | cons x xs =>
        rw [List.range'_succ, List.map_cons, List.map_cons]
        simp only [addVec]
        have h0 := hget 0 (by omega)
        simp only [Nat.add_zero, List.getElem?_cons_zero] at h0
        have hlt : off < r.length := by
          rcases List.getElem?_eq_some_iff.mp h0 with ⟨hh, _⟩; exact hh
        have hx : r[off] = x := by
          rcases List.getElem?_eq_some_iff.mp h0 with ⟨_, he⟩; exact he
        rw [colAt_cons r rows off hlt, sumRow_cons, hx]
        congr 1
        apply ih xs (off + 1) (by simpa using h)
        intro i hi
        have := hget (i + 1) (by omega)
        simpa [Nat.add_assoc, Nat.add_comm 1 i] using this
  have := key r.length r 0 rfl (by intro i _; simp)
  simpa [List.range_eq_range'] using this

theorem colAt_nil (j : Nat) : colAt ([] : List (List Rat)) j = [] := rfl

theorem sumRow_zeros (m : Nat) : sumRow ((List.range m).map (fun _ => (0 : Rat))) = 0 := by
  induction m with
  | zero => rfl
  | succ n ih =>
    rw [List.range_succ, List.map_append, sumRow_append, ih]
    simp [sumRow_cons, sumRow_nil, Rat.add_zero]

/-- exchanging the order of summation on a rectangular grid -/
theorem sum_cols_eq_sum_rows (rows : List (List Rat)) (m : Nat) (h : ∀ r ∈ rows, r.length = m) :
    sumRow ((List.range m).map (fun j => sumRow (colAt rows j))) = sumRow (rows.map sumRow) := by
  induction rows with
  | nil =>
    simp only [colAt_nil, sumRow_nil, List.map_nil]
    exact sumRow_zeros m
  | cons r rest ih =>
    rw [colSums_cons r rest m (h r (List.mem_cons_self ..)), sumRow_addVec, List.map_cons, sumRow_cons,
      ih (fun r' hr' => h r' (List.mem_cons_of_mem _ hr'))]
    simp [h r (List.mem_cons_self ..)]

end Biom.C05

namespace Biom.C05

/-! ### the CSR walk of `nonzero()` -/

theorem mapE_ok {α β : Type} (f : α → Except Err β) (g : α → β) :
    ∀ l : List α, (∀ a ∈ l, f a = .ok (g a)) → mapE f l = .ok (l.map g)
  | [], _ => rfl
  | a :: l, h => by
    have ha := h a (by simp)
    have ih := mapE_ok f g l (fun b hb => h b (by simp [hb]))
    simp [mapE, ha, ih]

theorem entryAt_cons' (k : Nat) (v : Rat) (ents : List (Nat × Rat)) (j : Nat) :
    CS.entryAt ((k, v) :: ents) j = if k = j then v else CS.entryAt ents j := by
  unfold CS.entryAt
  by_cases h : k = j
  · simp [h]
  · simp [h]

theorem entryAt_not_mem' (ents : List (Nat × Rat)) (j : Nat) (h : j ∉ ents.map (·.1)) :
    CS.entryAt ents j = 0 := by
  induction ents with
  | nil => rfl
  | cons e ents ih =>
    obtain ⟨k, v⟩ := e
    simp only [List.map_cons, List.mem_cons, not_or] at h
    rw [entryAt_cons', if_neg (fun hk => h.1 hk.symm)]
    exact ih h.2

theorem entryAt_of_mem' (ents : List (Nat × Rat)) (j : Nat) (x : Rat) (hnd : (ents.map (·.1)).Nodup)
    (h : (j, x) ∈ ents) : CS.entryAt ents j = x := by
  induction ents with
  | nil => simp at h
  | cons e ents ih =>
    obtain ⟨k, v⟩ := e
    simp only [List.map_cons, List.nodup_cons] at hnd
    rw [entryAt_cons']
    rcases List.mem_cons.mp h with heq | hmem
    · simp only [Prod.mk.injEq] at heq
      simp [heq.1, heq.2]
    · have hj : j ∈ ents.map (·.1) := List.mem_map.mpr ⟨(j, x), hmem, rfl⟩
      have hne : k ≠ j := fun hk => hnd.1 (hk ▸ hj)
      rw [if_neg hne]
      exact ih hnd.2 hmem

theorem slice_idx_in_indices (cs : CS Rat) (i : Nat) (e : Nat × Rat) (he : e ∈ cs.slice i) :
    e.1 ∈ cs.indices := by
  unfold CS.slice at he
  have h1 := (List.of_mem_zip he).1
  exact List.mem_of_mem_drop (List.mem_of_mem_take h1)

theorem slice_val_in_data (cs : CS Rat) (i : Nat) (e : Nat × Rat) (he : e ∈ cs.slice i) :
    e.2 ∈ cs.data := by
  unfold CS.slice at he
  have h2 := (List.of_mem_zip he).2
  exact List.mem_of_mem_drop (List.mem_of_mem_take h2)

theorem getE_ok {β : Type} (l : List β) (i : Nat) (h : i < l.length) : getE l i = .ok l[i] := by
  simp [getE, List.getElem?_eq_getElem h]

end Biom.C05

namespace Biom.C05

/-! ### helpers for the accessor clauses -/

theorem dedup_of_nodup (l : List Id) (h : l.Nodup) : dedup l = l := by
  induction l with
  | nil => rfl
  | cons a t ih =>
    have hc := List.nodup_cons.mp h
    unfold dedup
    rw [if_neg hc.1, ih hc.2]

theorem hasDup_false_of_nodup (l : List Id) (h : l.Nodup) : hasDup l = false := by
  unfold hasDup; rw [dedup_of_nodup l h]; simp

theorem map_eq_of_getElem {β γ : Type} (l : List β) (r : List γ) (f : β → γ) (hl : l.length = r.length)
    (h : ∀ k (hk : k < l.length), f l[k] = r[k]'(hl ▸ hk)) : l.map f = r := by
  apply List.ext_getElem
  · simp [hl]
  · intro k h1 h2
    simp only [List.getElem_map]
    exact h k (by simpa using h1)

theorem indexOf?_getElem (l : List Id) (h : l.Nodup) (k : Nat) (hk : k < l.length) : indexOf? l l[k] = some k := by
  have : l.idxOf l[k] = k := List.Nodup.idxOf_getElem h k hk
  simp [indexOf?, this, hk]

theorem map_indexOf?_self (l : List Id) (h : l.Nodup) : l.map (indexOf? l) = (List.range l.length).map some := by
  apply map_eq_of_getElem l _ _ (by simp)
  intro k hk
  simp [indexOf?_getElem l h k hk]

theorem lookupBy_getElem {β : Type} : ∀ (ids : List Id) (xs : List β), ids.Nodup → ids.length = xs.length →
    ∀ k (hk : k < ids.length) (hk' : k < xs.length), lookupBy ids xs ids[k] = some xs[k]
  | [], _, _, _, k, hk, _ => by simp at hk
  | i :: is, [], _, hl, _, _, _ => by simp at hl
  | i :: is, x :: xs, hnd, hl, k, hk, hk' => by
    have hc := List.nodup_cons.mp hnd
    cases k with
    | zero => simp [lookupBy]
    | succ k =>
      have hne : i ≠ is[k]'(by simpa using hk) := fun e => hc.1 (e ▸ List.getElem_mem _)
      simp only [List.getElem_cons_succ, lookupBy, if_neg hne]
      exact lookupBy_getElem is xs hc.2 (by simpa using hl) k (by simpa using hk) (by simpa using hk')

theorem all_contains_self {β : Type} [BEq β] [LawfulBEq β] (l : List β) : l.all (l.contains ·) = true := by
  rw [List.all_eq_true]
  intro x hx
  exact List.contains_iff_mem.mpr hx

theorem approxEq_self (a s : Rat) : approxEq a a s = true := by
  unfold approxEq; simp

end Biom.C05

namespace Biom.C05

theorem all_zip_map_map {ι β γ : Type} (l : List ι) (f : ι → β) (g : ι → γ) (P : β → γ → Bool)
    (h : ∀ k ∈ l, P (f k) (g k) = true) : ((l.map f).zip (l.map g)).all (fun p => P p.1 p.2) = true := by
  induction l with
  | nil => rfl
  | cons a t ih =>
    simp only [List.map_cons, List.zip_cons_cons, List.all_cons, Bool.and_eq_true]
    exact ⟨h a (List.mem_cons_self ..), ih (fun k hk => h k (List.mem_cons_of_mem _ hk))⟩

theorem natCast_ne_zero (n : Nat) (h : n ≠ 0) : ((n : Nat) : Rat) ≠ 0 := by
  intro h0
  have : ((n : Nat) : Rat) = ((0 : Nat) : Rat) := by simpa using h0
  exact h (Rat.natCast_inj.mp this)

end Biom.C05

namespace Biom.C05

theorem flatMap_congr' {β γ : Type} (l : List β) (f g : β → List γ) (h : ∀ a ∈ l, f a = g a) :
    l.flatMap f = l.flatMap g := by
  induction l with
  | nil => rfl
  | cons a t ih =>
    simp only [List.flatMap_cons]
    rw [h a (List.mem_cons_self ..), ih (fun b hb => h b (List.mem_cons_of_mem _ hb))]

theorem filterMap_congr' {β γ : Type} (l : List β) (f g : β → Option γ) (h : ∀ a ∈ l, f a = g a) :
    l.filterMap f = l.filterMap g := by
  induction l with
  | nil => rfl
  | cons a t ih =>
    simp only [List.filterMap_cons]
    rw [h a (List.mem_cons_self ..), ih (fun b hb => h b (List.mem_cons_of_mem _ hb))]

end Biom.C05
