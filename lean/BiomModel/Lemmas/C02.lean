/-
  C02 — helper lemmas: equality test, canonical emission, the token parser, the writer's loops,
  the triples of a grid.
-/
import BiomModel.C02

namespace Biom.C02

variable {ν : Type}

/-! ### the structural equality test is reflexive -/

mutual
theorem J.beq_refl [DecidableEq ν] : ∀ (a : J ν), J.beq a a = true
  | .null => by simp [J.beq]
  | .bool b => by simp [J.beq]
  | .int n => by simp [J.beq]
  | .num v => by simp [J.beq]
  | .str s => by simp [J.beq]
  | .arr xs => by simp only [J.beq]; exact J.beqL_refl xs
  | .obj kvs => by simp only [J.beq]; exact J.beqF_refl kvs
theorem J.beqL_refl [DecidableEq ν] : ∀ (xs : List (J ν)), J.beqL xs xs = true
  | [] => by simp [J.beqL]
  | x :: xs => by simp only [J.beqL, Bool.and_eq_true]; exact ⟨J.beq_refl x, J.beqL_refl xs⟩
theorem J.beqF_refl [DecidableEq ν] : ∀ (kvs : List (String × J ν)), J.beqF kvs kvs = true
  | [] => by simp [J.beqF]
  | (k, v) :: r => by
    simp only [J.beqF, Bool.and_eq_true, beq_self_eq_true, true_and]
    exact ⟨J.beq_refl v, J.beqF_refl r⟩
end

theorem J.eqv_refl [DecidableEq ν] (a : J ν) : J.eqv a a = true := J.beq_refl _

mutual
theorem J.eq_of_beq [DecidableEq ν] : ∀ (a b : J ν), J.beq a b = true → a = b
  | .null, b, h => by cases b <;> simp_all [J.beq]
  | .bool x, b, h => by cases b <;> simp_all [J.beq]
  | .int x, b, h => by cases b <;> simp_all [J.beq]
  | .num x, b, h => by cases b <;> simp_all [J.beq]
  | .str x, b, h => by cases b <;> simp_all [J.beq]
  | .arr xs, b, h => by
    cases b with
    | arr ys => simp only [J.beq] at h; rw [J.eq_of_beqL xs ys h]
    | _ => simp [J.beq] at h
  | .obj xs, b, h => by
    cases b with
    | obj ys => simp only [J.beq] at h; rw [J.eq_of_beqF xs ys h]
    | _ => simp [J.beq] at h
theorem J.eq_of_beqL [DecidableEq ν] : ∀ (xs ys : List (J ν)), J.beqL xs ys = true → xs = ys
  | [], ys, h => by cases ys <;> simp_all [J.beqL]
  | x :: xs, ys, h => by
    cases ys with
    | nil => simp [J.beqL] at h
    | cons y ys =>
      simp only [J.beqL, Bool.and_eq_true] at h
      rw [J.eq_of_beq x y h.1, J.eq_of_beqL xs ys h.2]
theorem J.eq_of_beqF [DecidableEq ν] : ∀ (xs ys : List (String × J ν)), J.beqF xs ys = true → xs = ys
  | [], ys, h => by cases ys <;> simp_all [J.beqF]
  | (k, x) :: xs, ys, h => by
    cases ys with
    | nil => simp [J.beqF] at h
    | cons y ys =>
      obtain ⟨l, y⟩ := y
      simp only [J.beqF, Bool.and_eq_true, beq_iff_eq] at h
      rw [h.1.1, J.eq_of_beq x y h.1.2, J.eq_of_beqF xs ys h.2]
end

/-- the equality test used by the predicate is equality -/
theorem J.beq_iff [DecidableEq ν] (a b : J ν) : J.beq a b = true ↔ a = b :=
  ⟨J.eq_of_beq a b, fun h => h ▸ J.beq_refl a⟩

/-- `eqv` is equality of canonical forms -/
theorem J.eqv_iff [DecidableEq ν] (a b : J ν) : J.eqv a b = true ↔ a.canon = b.canon :=
  J.beq_iff _ _

/-! ### the parser inverts the canonical emission -/

theorem emit_not_rbrack (x : J ν) (rest r' : List (Tok ν)) : emit x ++ rest ≠ .rbrack :: r' := by
  cases x with
  | arr xs => cases xs <;> simp [emit]
  | obj kvs =>
    cases kvs with
    | nil => simp [emit]
    | cons kv r => cases kv; simp [emit]
  | bool b => cases b <;> simp [emit]
  | _ => simp [emit]

theorem pVal_lbrack (f : Nat) (r : List (Tok ν)) (h : ∀ r', r ≠ .rbrack :: r') :
    pVal (f + 1) (.lbrack :: r) =
      (match pVal f r with
       | some (x, r1) =>
         (match pElems f r1 with
          | some (xs, r2) => some (.arr (x :: xs), r2)
          | none => none)
       | none => none) := by
  cases r with
  | nil => simp only [pVal]; rfl
  | cons t r'' =>
    cases t with
    | rbrack => exact absurd rfl (h r'')
    | _ => simp only [pVal] <;> rfl

mutual
theorem pVal_emit : ∀ (j : J ν) (f : Nat) (r : List (Tok ν)),
    (emit j).length ≤ f → pVal f (emit j ++ r) = some (j, r)
  | .null, f, r, h => by
    cases f with
    | zero => simp [emit] at h
    | succ f => simp [emit, pVal]
  | .bool b, f, r, h => by
    cases f with
    | zero => simp [emit] at h
    | succ f => cases b <;> simp [emit, pVal]
  | .int n, f, r, h => by
    cases f with
    | zero => simp [emit] at h
    | succ f => simp [emit, pVal]
  | .num v, f, r, h => by
    cases f with
    | zero => simp [emit] at h
    | succ f => simp [emit, pVal]
  | .str s, f, r, h => by
    cases f with
    | zero => simp [emit] at h
    | succ f => simp [emit, pVal]
  | .arr [], f, r, h => by
    cases f with
    | zero => simp [emit] at h
    | succ f => simp [emit, pVal]
  | .arr (x :: xs), f, r, h => by
    cases f with
    | zero => simp [emit] at h
    | succ f =>
      simp only [emit, List.length_cons, List.length_append] at h
      have h1 : (emit x).length ≤ f := by omega
      have h2 : (emitTail xs).length ≤ f := by omega
      simp only [emit, List.cons_append, List.append_assoc]
      rw [pVal_lbrack f _ (fun r' => emit_not_rbrack x _ r')]
      rw [pVal_emit x f _ h1]
      simp only
      rw [pElems_emitTail xs f r h2]
  | .obj [], f, r, h => by
    cases f with
    | zero => simp [emit] at h
    | succ f => simp [emit, pVal]
  | .obj ((k, v) :: kvs), f, r, h => by
    cases f with
    | zero => simp [emit] at h
    | succ f =>
      simp only [emit, List.length_cons, List.length_append] at h
      have h1 : (emit v).length ≤ f := by omega
      have h2 : (emitFTail kvs).length ≤ f := by omega
      simp only [emit, List.cons_append, List.append_assoc, pVal]
      rw [pVal_emit v f _ h1]
      simp only
      rw [pFields_emitFTail kvs f r h2]
theorem pElems_emitTail : ∀ (xs : List (J ν)) (f : Nat) (r : List (Tok ν)),
    (emitTail xs).length ≤ f → pElems f (emitTail xs ++ r) = some (xs, r)
  | [], f, r, h => by
    cases f with
    | zero => simp [emitTail] at h
    | succ f => simp [emitTail, pElems]
  | y :: ys, f, r, h => by
    cases f with
    | zero => simp [emitTail] at h
    | succ f =>
      simp only [emitTail, List.length_cons, List.length_append] at h
      have h1 : (emit y).length ≤ f := by omega
      have h2 : (emitTail ys).length ≤ f := by omega
      simp only [emitTail, List.cons_append, List.append_assoc, pElems]
      rw [pVal_emit y f _ h1]
      simp only
      rw [pElems_emitTail ys f r h2]
theorem pFields_emitFTail : ∀ (kvs : List (String × J ν)) (f : Nat) (r : List (Tok ν)),
    (emitFTail kvs).length ≤ f → pFields f (emitFTail kvs ++ r) = some (kvs, r)
  | [], f, r, h => by
    cases f with
    | zero => simp [emitFTail] at h
    | succ f => simp [emitFTail, pFields]
  | (k, v) :: kvs, f, r, h => by
    cases f with
    | zero => simp [emitFTail] at h
    | succ f =>
      simp only [emitFTail, List.length_cons, List.length_append] at h
      have h1 : (emit v).length ≤ f := by omega
      have h2 : (emitFTail kvs).length ≤ f := by omega
      simp only [emitFTail, List.cons_append, List.append_assoc, pFields]
      rw [pVal_emit v f _ h1]
      simp only
      rw [pFields_emitFTail kvs f r h2]
end

theorem parseToks_emit (j : J ν) : parseToks (emit j) = some j := by
  unfold parseToks
  have := pVal_emit j ((emit j).length + 1) [] (by omega)
  rw [List.append_nil] at this
  rw [this]

/-! ### canonical emission of arrays and objects as comma-joined pieces -/

/-- `, p` for every piece -/
def commaEach : List (List (Tok ν)) → List (Tok ν)
  | [] => []
  | p :: ps => .comma :: (p ++ commaEach ps)

theorem joinComma_cons (p : List (Tok ν)) (ps : List (List (Tok ν))) :
    joinComma (p :: ps) = p ++ commaEach ps := by
  induction ps generalizing p with
  | nil => simp [joinComma, commaEach]
  | cons q qs ih => simp only [joinComma, commaEach, ih]

theorem commaEach_append (a b : List (List (Tok ν))) :
    commaEach (a ++ b) = commaEach a ++ commaEach b := by
  induction a with
  | nil => rfl
  | cons p ps ih => simp [commaEach, ih]

theorem emitTail_eq (xs : List (J ν)) : emitTail xs = commaEach (xs.map emit) ++ [.rbrack] := by
  induction xs with
  | nil => simp [emitTail, commaEach]
  | cons y ys ih => simp [emitTail, commaEach, ih]

/-- an array is `[`, its elements joined by commas, `]` -/
theorem emit_arr (xs : List (J ν)) :
    emit (.arr xs) = .lbrack :: (joinComma (xs.map emit) ++ [.rbrack]) := by
  cases xs with
  | nil => simp [emit, joinComma]
  | cons x xs => simp [emit, emitTail_eq, joinComma_cons]

/-! ### the writer's loops -/

def tokTriple (t : Nat × Nat × ν) : List (Tok ν) :=
  [.lbrack, .int t.1, .comma, .int t.2.1, .comma, .num t.2.2, .rbrack]

theorem emit_tripleJ (t : Nat × Nat × ν) : emit (tripleJ t) = tokTriple t := by
  simp [tripleJ, emit, emitTail, tokTriple]

theorem axisPiece_eq (id : String) (md : J ν) : axisPiece id md = emit (axisObj id md) := by
  simp [axisPiece, axisObj, emit, emitFTail]

theorem builtRow_eq [DecidableEq ν] [Zero ν] (i : Nat) (row : List ν) (j : Nat) :
    builtRow i j row = (rowTriples i j row).map tokTriple := by
  induction row generalizing j with
  | nil => rfl
  | cons v vs ih =>
    simp only [builtRow, rowTriples]
    split
    · exact ih _
    · simp [ih, tokTriple]

/-- what the observation loop writes into the data block, given `have_written` on entry -/
def dataToks [DecidableEq ν] [Zero ν] : Bool → Nat → List (List ν) → List (Tok ν)
  | _, _, [] => []
  | hw, i, r :: rs =>
    if (builtRow i 0 r).isEmpty then dataToks hw (i + 1) rs
    else (if hw then [.comma] else []) ++ joinComma (builtRow i 0 r) ++ dataToks true (i + 1) rs

/-- the pieces appended to `rows` -/
def rowPieces (maxIdx : Int) : Nat → List (String × J ν) → List (List (Tok ν))
  | _, [] => []
  | i, e :: es =>
    (axisPiece e.1 e.2 ++ (if (i : Int) ≠ maxIdx then [.comma] else [.rbrack, .comma])) :: rowPieces maxIdx (i + 1) es

theorem obsLoop_spec [DecidableEq ν] [Zero ν] (direct : Bool) (mx : Int)
    (es : List (List ν × String × J ν)) (st : LoopSt ν) (i : Nat) :
    (obsLoop direct mx st i es).io = st.io ++ (if direct then dataToks st.hw i (es.map (·.1)) else []) ∧
    (obsLoop direct mx st i es).data.flatten =
      st.data.flatten ++ (if direct then [] else dataToks st.hw i (es.map (·.1))) ∧
    (obsLoop direct mx st i es).rows = st.rows ++ rowPieces mx i (es.map (·.2)) := by
  induction es generalizing st i with
  | nil => simp [obsLoop, dataToks, rowPieces]
  | cons e es ih =>
    simp only [obsLoop, List.map_cons, dataToks, rowPieces]
    obtain ⟨h1, h2, h3⟩ := ih (obsStep direct mx st i e) (i + 1)
    rw [h1, h2, h3]
    cases hb : (builtRow i 0 e.1).isEmpty
    · cases hh : st.hw <;> cases direct <;>
        simp [obsStep, hb, hh, List.append_assoc]
    · cases direct <;> simp [obsStep, hb, List.append_assoc]

theorem dataToks_eq [DecidableEq ν] [Zero ν] (rows : List (List ν)) (i : Nat) :
    dataToks true i rows = commaEach ((triplesFrom i rows).map tokTriple) ∧
    dataToks false i rows = joinComma ((triplesFrom i rows).map tokTriple) := by
  induction rows generalizing i with
  | nil => simp [dataToks, triplesFrom, commaEach, joinComma]
  | cons r rs ih =>
    obtain ⟨iht, ihf⟩ := ih (i + 1)
    simp only [dataToks, triplesFrom, builtRow_eq, List.map_append]
    cases hrt : rowTriples i 0 r with
    | nil => simp [iht, ihf]
    | cons t0 ts =>
      simp [iht, joinComma_cons, commaEach, commaEach_append, List.append_assoc]

theorem rowPieces_flatten (es : List (String × J ν)) (i : Nat) (mx : Int) (hne : es ≠ [])
    (hmx : mx = (i : Int) + es.length - 1) :
    (rowPieces mx i es).flatten =
      joinComma (es.map (fun e => emit (axisObj e.1 e.2))) ++ [.rbrack, .comma] := by
  induction es generalizing i with
  | nil => exact absurd rfl hne
  | cons e es ih =>
    cases es with
    | nil =>
      have : (i : Int) = mx := by simp at hmx; omega
      simp [rowPieces, this, joinComma, axisPiece_eq]
    | cons e' es' =>
      have hi : (i : Int) ≠ mx := by simp at hmx; omega
      have ih' := ih (i + 1) (by simp) (by simp at hmx ⊢; omega)
      rw [rowPieces, List.flatten_cons, ih']
      simp [hi, joinComma_cons, axisPiece_eq, commaEach]

/-- the pieces of `columns` after the header -/
def colPieces (maxIdx : Int) : Nat → List (String × J ν) → List (List (Tok ν))
  | _, [] => []
  | j, e :: es =>
    (axisPiece e.1 e.2 ++ (if (j : Int) ≠ maxIdx then [.comma] else [.rbrack])) :: colPieces maxIdx (j + 1) es

theorem sampLoop_spec (mx : Int) (es : List (String × J ν)) (cols : List (List (Tok ν))) (j : Nat) :
    sampLoop mx cols j es = cols ++ colPieces mx j es := by
  induction es generalizing cols j with
  | nil => simp [sampLoop, colPieces]
  | cons e es ih => simp [sampLoop, colPieces, ih]

theorem colPieces_flatten (es : List (String × J ν)) (j : Nat) (mx : Int) (hne : es ≠ [])
    (hmx : mx = (j : Int) + es.length - 1) :
    (colPieces mx j es).flatten =
      joinComma (es.map (fun e => emit (axisObj e.1 e.2))) ++ [.rbrack] := by
  induction es generalizing j with
  | nil => exact absurd rfl hne
  | cons e es ih =>
    cases es with
    | nil =>
      have : (j : Int) = mx := by simp at hmx; omega
      simp [colPieces, this, joinComma, axisPiece_eq]
    | cons e' es' =>
      have hi : (j : Int) ≠ mx := by simp at hmx; omega
      have ih' := ih (j + 1) (by simp) (by simp at hmx ⊢; omega)
      rw [colPieces, List.flatten_cons, ih']
      simp [hi, joinComma_cons, axisPiece_eq, commaEach]

theorem axisJ_eq_map (ids : List String) (mds : List (J ν)) :
    axisJ ids mds = (ids.zip mds).map (fun e => axisObj e.1 e.2) := by
  induction ids generalizing mds with
  | nil => simp [axisJ]
  | cons i is ih =>
    cases mds with
    | nil => simp [axisJ]
    | cons m ms => simp [axisJ, ih]

/-! ### well-formedness of the input table -/

/-- one row per observation, one value per sample, one metadata entry per ID -/
def JT.wfb (t : JT ν) : Bool :=
  t.rows.length == t.obs.length && t.rows.all (·.length == t.samp.length) &&
  t.omd.length == t.obs.length && t.smd.length == t.samp.length

/-- the property's domain: no axis is empty, or both are (the 0 x 0 table) -/
def JT.inDomain (t : JT ν) : Bool := t.obs.isEmpty == t.samp.isEmpty

theorem JT.wfb_iff (t : JT ν) : t.wfb = true ↔
    t.rows.length = t.obs.length ∧ (∀ r ∈ t.rows, r.length = t.samp.length) ∧
    t.omd.length = t.obs.length ∧ t.smd.length = t.samp.length := by
  simp [JT.wfb, and_assoc]

theorem obsIter_fst (t : JT ν) (h : t.wfb = true) : (obsIter t).map (·.1) = t.rows := by
  obtain ⟨h1, _, h3, _⟩ := (JT.wfb_iff t).1 h
  unfold obsIter
  apply List.map_fst_zip
  simp [List.length_zip]; omega

theorem obsIter_snd (t : JT ν) (h : t.wfb = true) : (obsIter t).map (·.2) = t.obs.zip t.omd := by
  obtain ⟨h1, _, h3, _⟩ := (JT.wfb_iff t).1 h
  unfold obsIter
  apply List.map_snd_zip
  simp [List.length_zip]; omega

/-! ### the writer emits the canonical emission of the document -/


theorem toJsonToks_nonempty [DecidableEq ν] [Zero ν] (direct : Bool) (t : JT ν) (g d : String)
    (hwf : t.wfb = true) (ho : t.obs ≠ []) (hs : t.samp ≠ []) :
    toJsonToks direct t g d = emit (if direct then docOfDirect t g d else docOf t g d) := by
  obtain ⟨h1, _, h3, h4⟩ := (JT.wfb_iff t).1 hwf
  have hes1 := obsIter_fst t hwf
  have hes2 := obsIter_snd t hwf
  have hzo : t.obs.zip t.omd ≠ [] := by
    cases ho' : t.obs with
    | nil => exact absurd ho' ho
    | cons o os =>
      cases hm : t.omd with
      | nil => rw [ho', hm] at h3; simp at h3
      | cons m ms => simp
  have hzs : t.samp.zip t.smd ≠ [] := by
    cases hs' : t.samp with
    | nil => exact absurd hs' hs
    | cons o os =>
      cases hm : t.smd with
      | nil => rw [hs', hm] at h4; simp at h4
      | cons m ms => simp
  have hrp := rowPieces_flatten (t.obs.zip t.omd) 0 ((t.obs.length : Int) - 1) hzo
    (by simp [List.length_zip]; omega)
  have hcp := colPieces_flatten (t.samp.zip t.smd) 0 ((t.samp.length : Int) - 1) hzs
    (by simp [List.length_zip]; omega)
  have hrne : rowPieces ((t.obs.length : Int) - 1) 0 (t.obs.zip t.omd) ≠ [] := by
    cases hz : t.obs.zip t.omd with
    | nil => exact absurd hz hzo
    | cons e es => simp [rowPieces]
  have hio := fun (st : LoopSt ν) => (obsLoop_spec true ((t.obs.length : Int) - 1) (obsIter t) st 0).1
  have hrw := fun (st : LoopSt ν) => (obsLoop_spec true ((t.obs.length : Int) - 1) (obsIter t) st 0).2.2
  have hdf := fun (st : LoopSt ν) => (obsLoop_spec false ((t.obs.length : Int) - 1) (obsIter t) st 0).2.1
  have hrf := fun (st : LoopSt ν) => (obsLoop_spec false ((t.obs.length : Int) - 1) (obsIter t) st 0).2.2
  simp only [hes1, hes2, if_true, Bool.false_eq_true, if_false] at hio hrw hdf hrf
  have hfun : (emit ∘ tripleJ : Nat × Nat × ν → List (Tok ν)) = tokTriple := by
    funext x; exact emit_tripleJ x
  cases direct
  · simp only [toJsonToks, Bool.false_eq_true, if_false, List.flatten_append, hdf, hrf, sampLoop_spec,
      sampIter, (dataToks_eq t.rows 0).2]
    cases htt : t.ttype <;>
      simp [docOf, dataJ, shapeJ, emit, emitFTail, emitTail, emit_arr, axisJ_eq_map, List.map_map, hfun,
        kvStr, shapeToks, typeToks, typeJ, htt, Function.comp_def, hrne, hrp, hcp]
  · simp only [toJsonToks, if_true, hio, hrw, sampLoop_spec,
      sampIter, (dataToks_eq t.rows 0).2]
    cases htt : t.ttype <;>
      simp [docOfDirect, dataJ, shapeJ, emit, emitFTail, emitTail, emit_arr, axisJ_eq_map, List.map_map, hfun,
        kvStr, shapeToks, typeToks, typeJ, htt, Function.comp_def, hrne, hrp, hcp]

theorem toJsonToks_empty [DecidableEq ν] [Zero ν] (direct : Bool) (t : JT ν) (g d : String)
    (hwf : t.wfb = true) (ho : t.obs = []) (hs : t.samp = []) :
    toJsonToks direct t g d = emit (if direct then docOfDirect t g d else docOf t g d) := by
  obtain ⟨h1, _, h3, h4⟩ := (JT.wfb_iff t).1 hwf
  obtain ⟨tid, tt, obs, samp, omd, smd, rows⟩ := t
  simp only at ho hs h1 h3 h4
  subst ho hs
  have hr : rows = [] := List.length_eq_zero_iff.1 h1
  have hom : omd = [] := List.length_eq_zero_iff.1 h3
  have hsm : smd = [] := List.length_eq_zero_iff.1 h4
  subst hr hom hsm
  cases direct <;> cases tt <;>
    simp [toJsonToks, obsIter, obsLoop, docOf, docOfDirect, dataJ, shapeJ, emit, emitFTail,
      emitTail, axisJ, triplesFrom, kvStr, shapeToks, typeToks, typeJ, elemType]

/-! ### the triples of a grid -/

/-- what the cell `(i, j)` of a grid contributes to the data block -/
def cellEntries [DecidableEq ν] [Zero ν] (c : Option ν) : List ν :=
  match c with
  | some v => if v = 0 then [] else [v]
  | none => []

theorem entriesAt_rowTriples [DecidableEq ν] [Zero ν] (i i' j' : Nat) (row : List ν) (j0 : Nat) :
    entriesAt (rowTriples i j0 row) i' j' =
      if i = i' ∧ j0 ≤ j' then cellEntries (row[j' - j0]?) else [] := by
  induction row generalizing j0 with
  | nil => simp [rowTriples, entriesAt, cellEntries]
  | cons v vs ih =>
    have ih' := ih (j0 + 1)
    unfold entriesAt at ih' ⊢
    by_cases hi : i = i'
    · subst hi
      rcases Nat.lt_trichotomy j' j0 with hlt | heq | hgt
      · have h1 : ¬ (j0 ≤ j') := by omega
        have h2 : ¬ (j0 + 1 ≤ j') := by omega
        have h3 : (j0 == j') = false := by simp; omega
        simp only [h1, h2, and_false, if_false] at ih' ⊢
        simp only [rowTriples]
        split <;> simp [h3, ih']
      · subst heq
        have h2 : ¬ (j' + 1 ≤ j') := by omega
        simp only [h2, and_false, if_false] at ih'
        simp only [rowTriples]
        split
        · rename_i hv; simp [ih', cellEntries, hv]
        · rename_i hv; simp [ih', cellEntries, hv]
      · have h1 : j0 ≤ j' := by omega
        have h2 : j0 + 1 ≤ j' := by omega
        have h3 : (j0 == j') = false := by simp; omega
        have h4 : j' - j0 = (j' - (j0 + 1)) + 1 := by omega
        simp only [h1, h2, and_self, if_true] at ih' ⊢
        rw [h4, List.getElem?_cons_succ]
        simp only [rowTriples]
        split <;> simp [h3, ih']
    · have h3 : (i == i') = false := by simp [hi]
      simp only [hi, false_and, if_false] at ih' ⊢
      simp only [rowTriples]
      split <;> simp [h3, ih']

theorem entriesAt_append (a b : List (Nat × Nat × ν)) (i j : Nat) :
    entriesAt (a ++ b) i j = entriesAt a i j ++ entriesAt b i j := by
  simp [entriesAt]

theorem entriesAt_triplesFrom [DecidableEq ν] [Zero ν] (rows : List (List ν)) (i0 i' j' : Nat) :
    entriesAt (triplesFrom i0 rows) i' j' =
      if i0 ≤ i' then cellEntries ((rows[i' - i0]?).bind (·[j']?)) else [] := by
  induction rows generalizing i0 with
  | nil => simp [triplesFrom, entriesAt, cellEntries]
  | cons r rs ih =>
    simp only [triplesFrom, entriesAt_append, entriesAt_rowTriples, ih (i0 + 1)]
    rcases Nat.lt_trichotomy i' i0 with hlt | heq | hgt
    · have h1 : ¬ (i0 ≤ i') := by omega
      have h2 : ¬ (i0 + 1 ≤ i') := by omega
      have h3 : ¬ (i0 = i') := by omega
      simp [h1, h2, h3]
    · subst heq
      have h2 : ¬ (i' + 1 ≤ i') := by omega
      simp [h2]
    · have h1 : i0 ≤ i' := by omega
      have h2 : i0 + 1 ≤ i' := by omega
      have h3 : ¬ (i0 = i') := by omega
      have h4 : i' - i0 = (i' - (i0 + 1)) + 1 := by omega
      simp only [h1, h2, h3, false_and, if_false, if_true, List.nil_append]
      rw [h4, List.getElem?_cons_succ]

/-- the entries that name a cell are exactly the cell's value when it is not zero -/
theorem entriesAt_triples [DecidableEq ν] [Zero ν] (rows : List (List ν)) (i j : Nat) :
    entriesAt (triplesFrom 0 rows) i j = cellEntries (cellAt rows i j) := by
  simp [entriesAt_triplesFrom, cellAt]

theorem rowTriples_mem [DecidableEq ν] [Zero ν] (i : Nat) (row : List ν) (j0 : Nat) :
    ∀ t ∈ rowTriples i j0 row, t.1 = i ∧ t.2.1 < j0 + row.length := by
  induction row generalizing j0 with
  | nil => simp [rowTriples]
  | cons v vs ih =>
    intro t ht
    simp only [rowTriples] at ht
    have hrec : ∀ t ∈ rowTriples i (j0 + 1) vs, t.1 = i ∧ t.2.1 < j0 + (v :: vs).length := by
      intro t ht; have := ih (j0 + 1) t ht; simp; omega
    split at ht
    · exact hrec t ht
    · rcases List.mem_cons.1 ht with h | h
      · subst h; simp
      · exact hrec t h

theorem triplesFrom_mem [DecidableEq ν] [Zero ν] (rows : List (List ν)) (m : Nat)
    (hw : ∀ r ∈ rows, r.length = m) (i0 : Nat) :
    ∀ t ∈ triplesFrom i0 rows, t.1 < i0 + rows.length ∧ t.2.1 < m := by
  induction rows generalizing i0 with
  | nil => simp [triplesFrom]
  | cons r rs ih =>
    intro t ht
    simp only [triplesFrom, List.mem_append] at ht
    rcases ht with h | h
    · have := rowTriples_mem i0 r 0 t h
      have hr := hw r (by simp)
      simp; omega
    · have := ih (fun r hr => hw r (by simp [hr])) (i0 + 1) t h
      simp; omega


theorem sumV_cellEntries [DecidableEq ν] [Zero ν] [Add ν] (hadd : ∀ v : ν, v + 0 = v) (c : Option ν) :
    sumV (cellEntries c) = c.getD 0 := by
  cases c with
  | none => simp [cellEntries, sumV]
  | some v =>
    simp only [cellEntries]
    split
    · rename_i hv; simp [sumV, hv]
    · simp [sumV, hadd]

/-- contract of the sparse constructor applied to the writer's triples: the grid comes back -/
theorem gridOf_triples [DecidableEq ν] [Zero ν] [Add ν] (hadd : ∀ v : ν, v + 0 = v)
    (rows : List (List ν)) (m : Nat) (hw : ∀ r ∈ rows, r.length = m) :
    gridOf rows.length m (triplesFrom 0 rows) = rows := by
  apply List.ext_getElem
  · simp [gridOf]
  · intro i h1 h2
    have hri : rows[i].length = m := hw _ (List.getElem_mem h2)
    simp only [gridOf, List.getElem_map, List.getElem_range]
    apply List.ext_getElem
    · simp [hri]
    · intro j h3 h4
      simp only [List.getElem_map, List.getElem_range, entriesAt_triples, sumV_cellEntries hadd]
      simp [cellAt, h2, h4]


/-! ### reading the document back -/

theorem axisEntries_axisJ (ids : List String) (mds : List (J ν)) :
    axisEntries (axisJ ids mds) = .ok (ids.zip mds) := by
  induction ids generalizing mds with
  | nil => simp [axisJ, axisEntries]
  | cons i is ih =>
    cases mds with
    | nil => simp [axisJ, axisEntries]
    | cons m ms =>
      simp [axisJ, axisEntries, ih, axisEntry, axisObj, J.get?, lookupLast, bind, Except.bind, pure, Except.pure]

theorem asTriples_tripleJ [IntCast ν] (ts : List (Nat × Nat × ν)) :
    asTriples (ts.map tripleJ) = .ok ts := by
  induction ts with
  | nil => simp [asTriples]
  | cons t ts ih =>
    simp [asTriples, ih, asTriple, tripleJ, asIdx, asVal, bind, Except.bind, pure, Except.pure]

/-- every metadata entry is `None` or a mapping -/
def mdOk (mds : List (J ν)) : Bool := mds.all (fun m => m.isNull || m.isObj)

theorem castMd_ok (mds : List (J ν)) (h : mdOk mds = true) : castMd mds = .ok (normMd mds) := by
  unfold castMd normMd
  unfold mdOk at h
  split
  · rfl
  · rfl


theorem zip_map_fst (a : List String) (b : List (J ν)) (h : b.length = a.length) :
    (a.zip b).map (·.1) = a := List.map_fst_zip (by omega)
theorem zip_map_snd (a : List String) (b : List (J ν)) (h : b.length = a.length) :
    (a.zip b).map (·.2) = b := List.map_snd_zip (by omega)

theorem docToTable_docOf_aux [DecidableEq ν] [Add ν] [Zero ν] [IntCast ν] (hadd : ∀ v : ν, v + 0 = v)
    (t : JT ν) (g d : String) (hwf : t.wfb = true)
    (hno : t.obs.Nodup) (hns : t.samp.Nodup) (hmo : mdOk t.omd = true) (hms : mdOk t.smd = true) :
    docToTable (docOf t g d) =
      .ok { obs := t.obs, samp := t.samp, omd := normMd t.omd, smd := normMd t.smd, ttype := t.ttype,
            genBy := some g, date := some d, rows := t.rows } := by
  obtain ⟨h1, h2, h3, h4⟩ := (JT.wfb_iff t).1 hwf
  have hgrid := gridOf_triples hadd t.rows t.samp.length h2
  rw [h1] at hgrid
  have hin : (triplesFrom 0 t.rows).all (fun x => decide (x.1 < t.obs.length) && decide (x.2.1 < t.samp.length)) = true := by
    rw [List.all_eq_true]
    intro x hx
    have := triplesFrom_mem t.rows t.samp.length h2 0 x hx
    simp; omega
  have hzl1 : (t.obs.zip t.omd).length = t.obs.length := by simp [List.length_zip]; omega
  have hzl2 : (t.samp.zip t.smd).length = t.samp.length := by simp [List.length_zip]; omega
  cases htt : t.ttype <;>
  simp [docToTable, docOf, dataJ, reqField, asArrE, J.get?, lookupLast, axisEntries_axisJ, asTriples_tripleJ,
    bind, Except.bind, pure, Except.pure, throw, throwThe, MonadExceptOf.throw, hzl1, hzl2,
    zip_map_fst _ _ h3, zip_map_snd _ _ h3, zip_map_fst _ _ h4, zip_map_snd _ _ h4, hno, hns,
    castMd_ok _ hmo, castMd_ok _ hms, typeJ, htt, hgrid, hin]
  all_goals
    have het : elemType t = "int" ∨ elemType t = "float" := by unfold elemType; split <;> simp
    rw [if_neg (by rcases het with h | h <;> simp [h])]
    split
    · rename_i hT; rw [hT] at hgrid; rw [hgrid]
    · rfl


/-! ### the predicate's clauses on the document the table denotes -/
open Codec (Verdict chk allV)

theorem and_none_left (b : Verdict) : Verdict.and none b = b := rfl

theorem allV_aux (vs : List Verdict) (h : ∀ v ∈ vs, v = none) (a : Verdict) :
    vs.foldl Verdict.and a = a := by
  induction vs generalizing a with
  | nil => rfl
  | cons v vs ih =>
    have hv : v = none := h v (by simp)
    subst hv
    simp only [List.foldl_cons]
    have : Verdict.and a none = a := by cases a <;> rfl
    rw [this]
    exact ih (fun v hv => h v (by simp [hv])) a

theorem allV_none (vs : List Verdict) (h : ∀ v ∈ vs, v = none) : allV vs = none :=
  allV_aux vs h none

theorem chk_true (c : String) (b : Bool) (h : b = true) : chk c b = none := by simp [chk, h]

theorem axisOk_axisJ [DecidableEq ν] (ids : List String) (mds : List (J ν)) (h : mds.length = ids.length) :
    axisOk ids mds (axisJ ids mds) = true := by
  induction ids generalizing mds with
  | nil =>
    cases mds with
    | nil => simp [axisJ, axisOk]
    | cons m ms => simp at h
  | cons i is ih =>
    cases mds with
    | nil => simp at h
    | cons m ms =>
      simp only [List.length_cons, Nat.add_right_cancel_iff] at h
      simp [axisJ, axisOk, axisObj, J.get?, lookupLast, J.eqv_refl, ih ms h]

theorem decodeTriples_tripleJ (ts : List (Nat × Nat × ν)) :
    decodeTriples (ts.map tripleJ) = some ts := by
  induction ts with
  | nil => simp [decodeTriples]
  | cons t ts ih => simp [decodeTriples, tripleJ, ih]

theorem dataOk_triples [DecidableEq ν] [Zero ν] (rows : List (List ν)) (m : Nat)
    (hw : ∀ r ∈ rows, r.length = m) :
    dataOk rows rows.length m (triplesFrom 0 rows) = true := by
  unfold dataOk
  simp only [Bool.and_eq_true, List.all_eq_true]
  constructor
  · intro x hx
    have := triplesFrom_mem rows m hw 0 x hx
    simp; omega
  · intro i _ j _
    have h : (List.filter (fun t => t.2.1 == j) (List.filter (fun t => t.1 == i) (triplesFrom 0 rows))).map (·.2.2) =
        entriesAt (triplesFrom 0 rows) i j := by
      unfold entriesAt
      rw [List.filter_filter]
      congr 2
      funext t
      exact Bool.and_comm _ _
    rw [h, entriesAt_triples]
    cases cellAt rows i j <;> simp [cellEntries]

theorem fieldIs_self [DecidableEq ν] (d : J ν) (k : String) (v : J ν) (h : d.get? k = some v) :
    fieldIs d k v = true := by
  simp [fieldIs, h, J.beq_refl]

theorem checkDoc_docOf [DecidableEq ν] [Zero ν] (inp : Input ν) (tag : String) (hwf : inp.t.wfb = true) :
    checkDoc inp tag (docOf inp.t inp.genBy inp.date) = none ∧
    checkDoc inp tag (docOfDirect inp.t inp.genBy inp.date) = none := by
  obtain ⟨h1, h2, h3, h4⟩ := (JT.wfb_iff inp.t).1 hwf
  have hrows := axisOk_axisJ inp.t.obs inp.t.omd h3
  have hcols := axisOk_axisJ inp.t.samp inp.t.smd h4
  have hdata := dataOk_triples inp.t.rows inp.t.samp.length h2
  rw [h1] at hdata
  have het : (elemType inp.t = "float") ∨ (elemType inp.t = "int" ∧ (inp.t.obs.isEmpty || inp.t.samp.isEmpty) = true) := by
    unfold elemType
    split
    · exact Or.inl rfl
    · rename_i h
      refine Or.inr ⟨rfl, ?_⟩
      cases ho : inp.t.obs <;> cases hs : inp.t.samp <;> simp_all
  constructor
  · apply allV_none
    intro v hv
    simp only [List.mem_cons, List.mem_nil_iff, or_false] at hv
    rcases het with het | ⟨het, hemp⟩
    · rcases hv with rfl | rfl | rfl | rfl | rfl | rfl | rfl | rfl | rfl | rfl | rfl | rfl | rfl <;>
        apply chk_true <;>
        simp [docOf, fieldIs, J.get?, lookupLast, J.beq_refl, hrows, hcols, dataJ, decodeTriples_tripleJ, hdata, het]
    · rcases hv with rfl | rfl | rfl | rfl | rfl | rfl | rfl | rfl | rfl | rfl | rfl | rfl | rfl <;>
        apply chk_true <;>
        simp [docOf, fieldIs, J.get?, lookupLast, J.beq_refl, hrows, hcols, dataJ, decodeTriples_tripleJ, hdata, het, hemp]
  · apply allV_none
    intro v hv
    simp only [List.mem_cons, List.mem_nil_iff, or_false] at hv
    rcases het with het | ⟨het, hemp⟩
    · rcases hv with rfl | rfl | rfl | rfl | rfl | rfl | rfl | rfl | rfl | rfl | rfl | rfl | rfl <;>
        apply chk_true <;>
        simp [docOfDirect, fieldIs, J.get?, lookupLast, J.beq_refl, hrows, hcols, dataJ, decodeTriples_tripleJ, hdata, het]
    · rcases hv with rfl | rfl | rfl | rfl | rfl | rfl | rfl | rfl | rfl | rfl | rfl | rfl | rfl <;>
        apply chk_true <;>
        simp [docOfDirect, fieldIs, J.get?, lookupLast, J.beq_refl, hrows, hcols, dataJ, decodeTriples_tripleJ, hdata, het, hemp]

theorem docOfDirect_canon [DecidableEq ν] [Zero ν] (t : JT ν) (g d : String) :
    (docOfDirect t g d).canon = (docOf t g d).canon := by
  simp [docOfDirect, docOf, J.canon, J.canonF, sortFields, insertField]

theorem mdSame_refl [DecidableEq ν] (mds : List (J ν)) : mdSame mds mds = true := by
  induction mds with
  | nil => rfl
  | cons m ms ih => simp [mdSame, J.eqv_refl, ih]

end Biom.C02
