/-
  C12 — lemmas.  Part 1: the kernel walk equals the histogram of the chosen positions over the
  entries' intervals (explicit loop invariant).  Part 2: scatter / filters of `Table.subsample`.
-/
import BiomModel.C12

namespace Biom.C12

/-! ### insertion sort -/

theorem ins_perm (x : Nat) (l : List Nat) : (ins x l).Perm (x :: l) := by
  induction l with
  | nil => exact List.Perm.refl _
  | cons y ys ih =>
    simp only [ins]
    split
    · exact List.Perm.refl _
    · exact ((List.perm_cons y).mpr ih).trans (List.Perm.swap x y ys)

theorem isort_perm (l : List Nat) : (isort l).Perm l := by
  induction l with
  | nil => exact List.Perm.refl _
  | cons x xs ih => exact (ins_perm x (isort xs)).trans ((List.perm_cons x).mpr ih)

theorem ins_sorted (x : Nat) (l : List Nat) (h : l.Pairwise (· ≤ ·)) : (ins x l).Pairwise (· ≤ ·) := by
  induction l with
  | nil => simp [ins]
  | cons y ys ih =>
    simp only [ins]
    rw [List.pairwise_cons] at h
    split
    · rename_i hxy
      rw [List.pairwise_cons]
      refine ⟨?_, List.pairwise_cons.mpr h⟩
      intro a ha
      rcases List.mem_cons.mp ha with rfl | ha
      · exact hxy
      · exact Nat.le_trans hxy (h.1 a ha)
    · rename_i hxy
      rw [List.pairwise_cons]
      refine ⟨?_, ih h.2⟩
      intro a ha
      rcases List.mem_cons.mp ((ins_perm x ys).mem_iff.mp ha) with rfl | ha
      · omega
      · exact h.1 a ha

theorem isort_sorted (l : List Nat) : (isort l).Pairwise (· ≤ ·) := by
  induction l with
  | nil => simp [isort]
  | cons x xs ih => exact ins_sorted x _ ih

/-! ### prefix sums -/

theorem prefixSum_zero (c : List Nat) : prefixSum c 0 = 0 := by simp [prefixSum]

theorem prefixSum_succ (c : List Nat) (j : Nat) : prefixSum c (j + 1) = prefixSum c j + c.getD j 0 := by
  induction c generalizing j with
  | nil => simp [prefixSum]
  | cons x xs ih =>
    cases j with
    | zero => simp [prefixSum]
    | succ j =>
      have := ih j
      simp only [prefixSum, List.take_succ_cons, List.sum_cons, List.getD_cons_succ] at this ⊢
      omega

theorem prefixSum_cons (x : Nat) (xs : List Nat) (j : Nat) :
    prefixSum (x :: xs) (j + 1) = x + prefixSum xs j := by
  simp [prefixSum, List.take_succ_cons]

theorem prefixSum_mono (c : List Nat) {i j : Nat} (h : i ≤ j) : prefixSum c i ≤ prefixSum c j := by
  induction j with
  | zero => have : i = 0 := by omega
            subst this; exact Nat.le_refl _
  | succ j ih =>
    by_cases hij : i = j + 1
    · subst hij; exact Nat.le_refl _
    · have := ih (by omega)
      rw [prefixSum_succ]; omega

theorem prefixSum_of_length_le (c : List Nat) {j : Nat} (h : c.length ≤ j) : prefixSum c j = c.sum := by
  simp [prefixSum, List.take_of_length_le h]

/-- position `p` lies in entry `i`'s interval -/
def inIv (c : List Nat) (i : Nat) (p : Nat) : Bool :=
  decide (prefixSum c i ≤ p) && decide (p < prefixSum c (i + 1))

theorem inIv_unique (c : List Nat) {i j p : Nat} (hi : inIv c i p = true) (hj : inIv c j p = true) : i = j := by
  simp only [inIv, Bool.and_eq_true, decide_eq_true_eq] at hi hj
  rcases Nat.lt_trichotomy i j with h | h | h
  · have := prefixSum_mono c (show i + 1 ≤ j by omega); omega
  · exact h
  · have := prefixSum_mono c (show j + 1 ≤ i by omega); omega

/-! ### the histogram -/

theorem histFrom_length (b : Nat) (cs ch : List Nat) : (histFrom b cs ch).length = cs.length := by
  induction cs generalizing b with
  | nil => rfl
  | cons c cs ih => simp [histFrom, ih]

theorem histFrom_getElem? (b : Nat) (cs ch : List Nat) (j : Nat) (hj : j < cs.length) :
    (histFrom b cs ch)[j]? =
      some (ch.countP (fun p => decide (b + prefixSum cs j ≤ p) && decide (p < b + prefixSum cs (j + 1)))) := by
  induction cs generalizing b j with
  | nil => simp at hj
  | cons c cs ih =>
    cases j with
    | zero =>
      simp only [histFrom, List.getElem?_cons_zero, prefixSum_zero, Nat.add_zero, Option.some.injEq]
      apply List.countP_congr
      intro p _
      have : prefixSum (c :: cs) (0 + 1) = c := by simp [prefixSum]
      simp [this]
    | succ j =>
      simp only [histFrom, List.getElem?_cons_succ]
      rw [ih (b + c) j (by simpa using hj)]
      simp only [Option.some.injEq]
      apply List.countP_congr
      intro p _
      rw [prefixSum_cons, prefixSum_cons]
      simp only [Bool.and_eq_true, decide_eq_true_eq]
      omega

theorem hist_getElem? (cs ch : List Nat) (j : Nat) (hj : j < cs.length) :
    (hist cs ch)[j]? = some (ch.countP (inIv cs j)) := by
  unfold hist
  rw [histFrom_getElem? 0 cs ch j hj]
  simp only [Option.some.injEq]
  apply List.countP_congr
  intro p _
  simp [inIv]

theorem hist_length (cs ch : List Nat) : (hist cs ch).length = cs.length := histFrom_length 0 cs ch

theorem histFrom_perm (b : Nat) (cs : List Nat) {ch ch' : List Nat} (h : ch.Perm ch') :
    histFrom b cs ch = histFrom b cs ch' := by
  induction cs generalizing b with
  | nil => rfl
  | cons c cs ih => simp only [histFrom]; rw [ih, h.countP_eq]

theorem countP_split (l : List Nat) {a b c : Nat} (hab : a ≤ b) (hbc : b ≤ c) :
    l.countP (fun p => decide (a ≤ p) && decide (p < b)) + l.countP (fun p => decide (b ≤ p) && decide (p < c))
      = l.countP (fun p => decide (a ≤ p) && decide (p < c)) := by
  induction l with
  | nil => rfl
  | cons x xs ih =>
    simp only [List.countP_cons, Bool.and_eq_true, decide_eq_true_eq]
    by_cases h1 : a ≤ x <;> by_cases h2 : x < b <;> by_cases h3 : b ≤ x <;> by_cases h4 : x < c <;>
      simp [h1, h2, h3, h4] <;> omega

theorem histFrom_sum (b : Nat) (cs ch : List Nat) :
    (histFrom b cs ch).sum = ch.countP (fun p => decide (b ≤ p) && decide (p < b + cs.sum)) := by
  induction cs generalizing b with
  | nil =>
    simp only [histFrom, List.sum_nil, Nat.add_zero]
    symm
    rw [List.countP_eq_zero]
    intro p _
    simp only [Bool.and_eq_true, decide_eq_true_eq]; omega
  | cons c cs ih =>
    simp only [histFrom, List.sum_cons]
    rw [ih (b + c), ← countP_split ch (show b ≤ b + c by omega) (show b + c ≤ b + (c + cs.sum) by omega)]
    simp [Nat.add_assoc]

theorem hist_sum (cs ch : List Nat) (h : ∀ p ∈ ch, p < cs.sum) : (hist cs ch).sum = ch.length := by
  unfold hist
  rw [histFrom_sum, List.countP_eq_length]
  intro p hp
  simp [h p hp]

/-- at most `b - a` members of a strictly increasing list lie in `[a, b)` -/
theorem countP_interval_le (l : List Nat) (hs : l.Pairwise (· < ·)) (a b : Nat) :
    l.countP (fun p => decide (a ≤ p) && decide (p < b)) ≤ b - a := by
  induction l generalizing a with
  | nil => simp
  | cons x xs ih =>
    rw [List.pairwise_cons] at hs
    simp only [List.countP_cons, Bool.and_eq_true, decide_eq_true_eq]
    by_cases hx : a ≤ x ∧ x < b
    · simp only [hx, and_self, if_true]
      -- the rest lies in [x+1, b)
      have h2 : xs.countP (fun p => decide (a ≤ p) && decide (p < b)) =
          xs.countP (fun p => decide (x + 1 ≤ p) && decide (p < b)) := by
        apply List.countP_congr
        intro p hp
        have := hs.1 p hp
        simp only [Bool.and_eq_true, decide_eq_true_eq]; omega
      rw [h2]
      have := ih hs.2 (x + 1)
      omega
    · simp only [hx, if_false, Nat.add_zero]
      exact ih hs.2 a

theorem hist_le (cs ch : List Nat) (hs : ch.Pairwise (· < ·)) (j : Nat) :
    (hist cs ch).getD j 0 ≤ cs.getD j 0 := by
  by_cases hj : j < cs.length
  · rw [List.getD_eq_getElem?_getD, hist_getElem? cs ch j hj]
    simp only [Option.getD_some, inIv]
    have := countP_interval_le ch hs (prefixSum cs j) (prefixSum cs (j + 1))
    rw [prefixSum_succ] at this
    rw [prefixSum_succ]
    omega
  · rw [List.getD_eq_getElem?_getD, List.getElem?_eq_none (by rw [hist_length]; omega)]
    simp

/-! ### the loop invariant -/

/-- what the vector will be if the loop stops now: written entries, the running count, zeros -/
def fin (w : W) (i : Nat) : Nat :=
  if i < w.el then w.out.getD i 0 else if i = w.el then w.elCnt else 0

/-- `el` in range, `data` keeps its length, `count_el + count_rem` is the end of entry `el`'s
interval and `count_el` is not before its start -/
structure Inv (c : List Nat) (w : W) : Prop where
  elLt : w.el < c.length
  outLen : w.out.length = c.length
  remEq : w.countEl + w.countRem = prefixSum c (w.el + 1)
  elLe : prefixSum c w.el ≤ w.countEl

theorem walkSkip_spec (c : List Nat) (p : Nat) (hp : p < c.sum) :
    ∀ (fuel : Nat) (w : W), Inv c w → w.countEl ≤ p → c.length - w.el ≤ fuel →
      ∃ w1, walkSkip c p fuel w = .ok w1 ∧ Inv c w1 ∧ (∀ i, fin w1 i = fin w i) ∧
        w1.countEl ≤ p ∧ p - w1.countEl < w1.countRem := by
  intro fuel
  induction fuel with
  | zero => intro w hI _ hf; have := hI.elLt; omega
  | succ fuel ih =>
    intro w hI hle hf
    unfold walkSkip
    by_cases hc : p - w.countEl ≥ w.countRem
    · simp only [hc, if_true]
      have hput : putE w.out w.el w.elCnt = .ok (w.out.set w.el w.elCnt) := by
        simp [putE, hI.outLen, hI.elLt]
      rw [hput]
      have hge : prefixSum c (w.el + 1) ≤ p := by have := hI.remEq; omega
      have hlt : w.el + 1 < c.length := by
        apply Classical.byContradiction
        intro hn
        have := prefixSum_of_length_le c (show c.length ≤ w.el + 1 by omega)
        omega
      have hget : getE c (w.el + 1) = .ok (c.getD (w.el + 1) 0) := by
        simp [getE, List.getD_eq_getElem?_getD, List.getElem?_eq_getElem hlt]
      rw [hget]
      simp only
      have hI' : Inv c { out := w.out.set w.el w.elCnt, el := w.el + 1, countEl := w.countEl + w.countRem,
                         countRem := c.getD (w.el + 1) 0, elCnt := 0 } := by
        refine ⟨hlt, by simp [hI.outLen], ?_, ?_⟩
        · simp only; rw [prefixSum_succ c (w.el + 1)]; have := hI.remEq; omega
        · simp only; have := hI.remEq; omega
      obtain ⟨w1, h1, h2, h3, h4, h5⟩ := ih _ hI' (by simp only; have := hI.remEq; omega) (by simp only; omega)
      refine ⟨w1, h1, h2, ?_, h4, h5⟩
      intro i
      rw [h3 i]
      simp only [fin]
      by_cases h : i < w.el
      · have : i < w.el + 1 := by omega
        simp [h, this, List.getD_eq_getElem?_getD, List.getElem?_set, show ¬ w.el = i by omega]
      · by_cases h' : i = w.el
        · subst h'
          simp [List.getD_eq_getElem?_getD, List.getElem?_set, hI.outLen, hI.elLt]
        · have h1 : ¬ i < w.el + 1 := by omega
          simp [h, h', h1]
    · simp only [hc, if_false]
      exact ⟨w, rfl, hI, fun _ => rfl, hle, by omega⟩

theorem walkStep_spec (c : List Nat) (p : Nat) (hp : p < c.sum) (w : W) (hI : Inv c w) (hle : w.countEl ≤ p) :
    ∃ w2, walkStep c w p = .ok w2 ∧ Inv c w2 ∧ w2.countEl = p ∧
      (∀ i, fin w2 i = fin w i + if inIv c i p then 1 else 0) := by
  obtain ⟨w1, h1, h2, h3, h4, h5⟩ := walkSkip_spec c p hp (c.length + 1) w hI hle (by omega)
  unfold walkStep
  rw [h1]
  refine ⟨_, rfl, ⟨h2.elLt, h2.outLen, ?_, ?_⟩, rfl, ?_⟩
  · simp only; have := h2.remEq; omega
  · simp only; have := h2.elLe; omega
  · intro i
    rw [← h3 i]
    have hin : inIv c w1.el p = true := by
      simp only [inIv, Bool.and_eq_true, decide_eq_true_eq]
      have := h2.remEq; have := h2.elLe
      constructor <;> omega
    simp only [fin]
    by_cases h : i = w1.el
    · subst h; simp [hin]
    · have hni : inIv c i p = false := by
        cases hv : inIv c i p with
        | false => rfl
        | true => exact absurd (inIv_unique c hv hin) h
      by_cases hlt : i < w1.el <;> simp [h, hlt, hni]

theorem walkLoop_spec (c : List Nat) (ch : List Nat) :
    ∀ (w : W), Inv c w → ch.Pairwise (· ≤ ·) → (∀ p ∈ ch, w.countEl ≤ p ∧ p < c.sum) →
      ∃ w', walkLoop c ch w = .ok w' ∧ Inv c w' ∧ (∀ i, fin w' i = fin w i + ch.countP (inIv c i)) := by
  induction ch with
  | nil => intro w hI _ _; exact ⟨w, rfl, hI, by simp⟩
  | cons p ps ih =>
    intro w hI hs hb
    rw [List.pairwise_cons] at hs
    obtain ⟨w2, h1, h2, h3, h4⟩ := walkStep_spec c p (hb p (by simp)).2 w hI (hb p (by simp)).1
    have hb' : ∀ q ∈ ps, w2.countEl ≤ q ∧ q < c.sum := by
      intro q hq
      exact ⟨by rw [h3]; exact hs.1 q hq, (hb q (by simp [hq])).2⟩
    obtain ⟨w', h5, h6, h7⟩ := ih w2 h2 hs.2 hb'
    refine ⟨w', ?_, h6, ?_⟩
    · simp only [walkLoop, h1, h5]
    · intro i
      rw [h7 i, h4 i, List.countP_cons]
      omega

theorem zeroTail_set_getElem? (w : W) (c : List Nat) (hI : Inv c w) (i : Nat) (hi : i < c.length) :
    (zeroTail (w.out.set w.el w.elCnt) (w.el + 1))[i]? = some (fin w i) := by
  have hl := hI.outLen
  have he := hI.elLt
  simp only [zeroTail, List.getElem?_append, List.length_take, List.length_set, fin]
  by_cases h : i < w.el
  · have h1 : i < min (w.el + 1) w.out.length := by omega
    have h2 : i < w.out.length := by omega
    simp [h1, h, List.getElem?_take, show i < w.el + 1 by omega, List.getElem?_set,
      show ¬ w.el = i by omega, List.getD_eq_getElem?_getD, List.getElem?_eq_getElem h2]
  · by_cases h' : i = w.el
    · subst h'
      have h1 : i < min (i + 1) w.out.length := by omega
      simp [h1, List.getElem?_take, List.getElem?_set, hl, he]
    · have h1 : ¬ i < min (w.el + 1) w.out.length := by omega
      simp only [h1, if_false, h, h']
      rw [List.getElem?_replicate]
      have : i - min (w.el + 1) w.out.length < w.out.length - (w.el + 1) := by omega
      simp [this]

/-- **The walk is the histogram**: for sorted positions all below the vector's total, the
running-offset loop with its four counters — every read and write bounds-checked — returns, for
each entry, the number of chosen positions in that entry's interval `[prefix j, prefix (j+1))`. -/
theorem walk_hist (counts chosen : List Nat) (hne : counts ≠ [])
    (hs : chosen.Pairwise (· ≤ ·)) (hb : ∀ p ∈ chosen, p < counts.sum) :
    walk counts chosen = .ok (hist counts chosen) := by
  have hlen : 0 < counts.length := List.length_pos_iff.mpr hne
  unfold walk
  have hget : getE counts 0 = .ok (counts.getD 0 0) := by
    simp [getE, List.getD_eq_getElem?_getD, List.getElem?_eq_getElem hlen]
  rw [hget]
  simp only
  have hI0 : Inv counts { out := counts, el := 0, countEl := 0, countRem := counts.getD 0 0, elCnt := 0 } := by
    refine ⟨hlen, rfl, ?_, ?_⟩
    · simp only; rw [prefixSum_succ, prefixSum_zero]
    · simp [prefixSum_zero]
  obtain ⟨w', h1, h2, h3⟩ := walkLoop_spec counts chosen _ hI0 hs (fun p hp => ⟨Nat.zero_le _, hb p hp⟩)
  rw [h1]
  simp only
  have hput : putE w'.out w'.el w'.elCnt = .ok (w'.out.set w'.el w'.elCnt) := by
    simp [putE, h2.outLen, h2.elLt]
  rw [hput]
  simp only
  congr 1
  apply List.ext_getElem?
  intro i
  by_cases hi : i < counts.length
  · rw [zeroTail_set_getElem? w' counts h2 i hi, hist_getElem? counts chosen i hi, h3 i]
    simp [fin]
  · rw [List.getElem?_eq_none, List.getElem?_eq_none]
    · rw [hist_length]; omega
    · simp only [zeroTail, List.length_append, List.length_take, List.length_set, List.length_replicate]
      have := h2.outLen; omega

end Biom.C12
