/-
  C12 — lemmas.  Part 1: the kernel walk equals the histogram of the chosen positions over the
  entries' intervals (explicit loop invariant).  Part 2: scatter / filters of `Table.subsample`.
-/
import BiomModel.C12

namespace Biom.C12

/-! ### insertion sort -/

theorem ins_perm (x : Nat) (l : List Nat) : (ins x l).Perm (x :: l) := by
  induction l with
  | nil => exact List.Perm.refl _
  | cons y ys ih =>
    simp only [ins]
    split
    · exact List.Perm.refl _
    · exact ((List.perm_cons y).mpr ih).trans (List.Perm.swap x y ys)

theorem isort_perm (l : List Nat) : (isort l).Perm l := by
  induction l with
  | nil => exact List.Perm.refl _
  | cons x xs ih => exact (ins_perm x (isort xs)).trans ((List.perm_cons x).mpr ih)

theorem ins_sorted (x : Nat) (l : List Nat) (h : l.Pairwise (· ≤ ·)) : (ins x l).Pairwise (· ≤ ·) := by
  induction l with
  | nil => simp [ins]
  | cons y ys ih =>
    simp only [ins]
    rw [List.pairwise_cons] at h
    split
    · rename_i hxy
      rw [List.pairwise_cons]
      refine ⟨?_, List.pairwise_cons.mpr h⟩
      intro a ha
      rcases List.mem_cons.mp ha with rfl | ha
      · exact hxy
      · exact Nat.le_trans hxy (h.1 a ha)
    · rename_i hxy
      rw [List.pairwise_cons]
      refine ⟨?_, ih h.2⟩
      intro a ha
      rcases List.mem_cons.mp ((ins_perm x ys).mem_iff.mp ha) with rfl | ha
      · omega
      · exact h.1 a ha

theorem isort_sorted (l : List Nat) : (isort l).Pairwise (· ≤ ·) := by
  induction l with
  | nil => simp [isort]
  | cons x xs ih => exact ins_sorted x _ ih

/-! ### prefix sums -/

theorem prefixSum_zero (c : List Nat) : prefixSum c 0 = 0 := by simp [prefixSum]

theorem prefixSum_succ (c : List Nat) (j : Nat) : prefixSum c (j + 1) = prefixSum c j + c.getD j 0 := by
  induction c generalizing j with
  | nil => simp [prefixSum]
  | cons x xs ih =>
    cases j with
    | zero => simp [prefixSum]
    | succ j =>
      have := ih j
      simp only [prefixSum, List.take_succ_cons, List.sum_cons, List.getD_cons_succ] at this ⊢
      omega

theorem prefixSum_cons (x : Nat) (xs : List Nat) (j : Nat) :
    prefixSum (x :: xs) (j + 1) = x + prefixSum xs j := by
  simp [prefixSum, List.take_succ_cons]

theorem prefixSum_mono (c : List Nat) {i j : Nat} (h : i ≤ j) : prefixSum c i ≤ prefixSum c j := by
  induction j with
  | zero => have : i = 0 := by omega
            subst this; exact Nat.le_refl _
  | succ j ih =>
    by_cases hij : i = j + 1
    · subst hij; exact Nat.le_refl _
    · have := ih (by omega)
      rw [prefixSum_succ]; omega

theorem prefixSum_of_length_le (c : List Nat) {j : Nat} (h : c.length ≤ j) : prefixSum c j = c.sum := by
  simp [prefixSum, List.take_of_length_le h]

/-- position `p` lies in entry `i`'s interval -/
def inIv (c : List Nat) (i : Nat) (p : Nat) : Bool :=
  decide (prefixSum c i ≤ p) && decide (p < prefixSum c (i + 1))

theorem inIv_unique (c : List Nat) {i j p : Nat} (hi : inIv c i p = true) (hj : inIv c j p = true) : i = j := by
  simp only [inIv, Bool.and_eq_true, decide_eq_true_eq] at hi hj
  rcases Nat.lt_trichotomy i j with h | h | h
  · have := prefixSum_mono c (show i + 1 ≤ j by omega); omega
  · exact h
  · have := prefixSum_mono c (show j + 1 ≤ i by omega); omega

/-! ### the histogram -/

theorem histFrom_length (b : Nat) (cs ch : List Nat) : (histFrom b cs ch).length = cs.length := by
  induction cs generalizing b with
  | nil => rfl
  | cons c cs ih => simp [histFrom, ih]

theorem histFrom_getElem? (b : Nat) (cs ch : List Nat) (j : Nat) (hj : j < cs.length) :
    (histFrom b cs ch)[j]? =
      some (ch.countP (fun p => decide (b + prefixSum cs j ≤ p) && decide (p < b + prefixSum cs (j + 1)))) := by
  induction cs generalizing b j with
  | nil => simp at hj
  | cons c cs ih =>
    cases j with
    | zero =>
      simp only [histFrom, List.getElem?_cons_zero, prefixSum_zero, Nat.add_zero, Option.some.injEq]
      apply List.countP_congr
      intro p _
      have : prefixSum (c :: cs) (0 + 1) = c := by simp [prefixSum]
      simp [this]
    | succ j =>
      simp only [histFrom, List.getElem?_cons_succ]
      rw [ih (b + c) j (by simpa using hj)]
      simp only [Option.some.injEq]
      apply List.countP_congr
      intro p _
      rw [prefixSum_cons, prefixSum_cons]
      simp only [Bool.and_eq_true, decide_eq_true_eq]
      omega

theorem hist_getElem? (cs ch : List Nat) (j : Nat) (hj : j < cs.length) :
    (hist cs ch)[j]? = some (ch.countP (inIv cs j)) := by
  unfold hist
  rw [histFrom_getElem? 0 cs ch j hj]
  simp only [Option.some.injEq]
  apply List.countP_congr
  intro p _
  simp [inIv]

theorem hist_length (cs ch : List Nat) : (hist cs ch).length = cs.length := histFrom_length 0 cs ch

theorem histFrom_perm (b : Nat) (cs : List Nat) {ch ch' : List Nat} (h : ch.Perm ch') :
    histFrom b cs ch = histFrom b cs ch' := by
  induction cs generalizing b with
  | nil => rfl
  | cons c cs ih => simp only [histFrom]; rw [ih, h.countP_eq]

theorem countP_split (l : List Nat) {a b c : Nat} (hab : a ≤ b) (hbc : b ≤ c) :
    l.countP (fun p => decide (a ≤ p) && decide (p < b)) + l.countP (fun p => decide (b ≤ p) && decide (p < c))
      = l.countP (fun p => decide (a ≤ p) && decide (p < c)) := by
  induction l with
  | nil => rfl
  | cons x xs ih =>
    simp only [List.countP_cons, Bool.and_eq_true, decide_eq_true_eq]
    by_cases h1 : a ≤ x <;> by_cases h2 : x < b <;> by_cases h3 : b ≤ x <;> by_cases h4 : x < c <;>
      simp [h1, h2, h3, h4] <;> omega

theorem histFrom_sum_aux (b : Nat) (cs ch : List Nat) (s : Nat) (hs : s = cs.sum) :
    (histFrom b cs ch).sum = ch.countP (fun p => decide (b ≤ p) && decide (p < b + s)) := by
  induction cs generalizing b s with
  | nil =>
    have h0 : s = 0 := by simpa using hs
    have : ch.countP (fun p => decide (b ≤ p) && decide (p < b + s)) = 0 := by
      rw [List.countP_eq_zero]
      intro p _
      simp only [Bool.and_eq_true, decide_eq_true_eq]
      omega
    rw [this]; rfl
  | cons c cs ih =>
    have hs' : s = c + cs.sum := by simpa using hs
    simp only [histFrom, List.sum_cons]
    rw [ih (b + c) cs.sum rfl, countP_split ch (show b ≤ b + c by omega) (show b + c ≤ b + c + cs.sum by omega)]
    apply List.countP_congr
    intro p _
    simp only [Bool.and_eq_true, decide_eq_true_eq]
    omega

theorem histFrom_sum (b : Nat) (cs ch : List Nat) :
    (histFrom b cs ch).sum = ch.countP (fun p => decide (b ≤ p) && decide (p < b + cs.sum)) :=
  histFrom_sum_aux b cs ch cs.sum rfl

theorem hist_sum (cs ch : List Nat) (h : ∀ p ∈ ch, p < cs.sum) : (hist cs ch).sum = ch.length := by
  unfold hist
  rw [histFrom_sum, List.countP_eq_length]
  intro p hp
  simp [h p hp]

/-- at most `b - a` members of a strictly increasing list lie in `[a, b)` -/
theorem countP_interval_le (l : List Nat) (hs : l.Pairwise (· < ·)) (a b : Nat) :
    l.countP (fun p => decide (a ≤ p) && decide (p < b)) ≤ b - a := by
  induction l generalizing a with
  | nil => simp
  | cons x xs ih =>
    rw [List.pairwise_cons] at hs
    simp only [List.countP_cons, Bool.and_eq_true, decide_eq_true_eq]
    by_cases hx : a ≤ x ∧ x < b
    · simp only [hx, and_self, if_true]
      -- the rest lies in [x+1, b)
      have h2 : xs.countP (fun p => decide (a ≤ p) && decide (p < b)) =
          xs.countP (fun p => decide (x + 1 ≤ p) && decide (p < b)) := by
        apply List.countP_congr
        intro p hp
        have := hs.1 p hp
        simp only [Bool.and_eq_true, decide_eq_true_eq]; omega
      rw [h2]
      have := ih hs.2 (x + 1)
      omega
    · simp only [hx, if_false, Nat.add_zero]
      exact ih hs.2 a

theorem hist_le (cs ch : List Nat) (hs : ch.Pairwise (· < ·)) (j : Nat) :
    (hist cs ch).getD j 0 ≤ cs.getD j 0 := by
  by_cases hj : j < cs.length
  · rw [List.getD_eq_getElem?_getD, hist_getElem? cs ch j hj]
    simp only [Option.getD_some]
    have := countP_interval_le ch hs (prefixSum cs j) (prefixSum cs (j + 1))
    have e := prefixSum_succ cs j
    change List.countP (fun p => decide (prefixSum cs j ≤ p) && decide (p < prefixSum cs (j + 1))) ch ≤ _
    omega
  · rw [List.getD_eq_getElem?_getD, List.getElem?_eq_none (by rw [hist_length]; omega)]
    simp

/-! ### the loop invariant -/

/-- what the vector will be if the loop stops now: written entries, the running count, zeros -/
def fin (w : W) (i : Nat) : Nat :=
  if i < w.el then w.out.getD i 0 else if i = w.el then w.elCnt else 0

/-- `el` in range, `data` keeps its length, `count_el + count_rem` is the end of entry `el`'s
interval and `count_el` is not before its start -/
structure Inv (c : List Nat) (w : W) : Prop where
  elLt : w.el < c.length
  outLen : w.out.length = c.length
  remEq : w.countEl + w.countRem = prefixSum c (w.el + 1)
  elLe : prefixSum c w.el ≤ w.countEl

theorem walkSkip_spec (c : List Nat) (p : Nat) (hp : p < c.sum) :
    ∀ (fuel : Nat) (w : W), Inv c w → w.countEl ≤ p → c.length - w.el ≤ fuel →
      ∃ w1, walkSkip c p fuel w = .ok w1 ∧ Inv c w1 ∧ (∀ i, fin w1 i = fin w i) ∧
        w1.countEl ≤ p ∧ p - w1.countEl < w1.countRem := by
  intro fuel
  induction fuel with
  | zero => intro w hI _ hf; have := hI.elLt; omega
  | succ fuel ih =>
    intro w hI hle hf
    unfold walkSkip
    by_cases hc : p - w.countEl ≥ w.countRem
    · simp only [hc, if_true]
      have hput : putE w.out w.el w.elCnt = .ok (w.out.set w.el w.elCnt) := by
        simp [putE, hI.outLen, hI.elLt]
      rw [hput]
      have hge : prefixSum c (w.el + 1) ≤ p := by have := hI.remEq; omega
      have hlt : w.el + 1 < c.length := by
        apply Classical.byContradiction
        intro hn
        have := prefixSum_of_length_le c (show c.length ≤ w.el + 1 by omega)
        omega
      have hget : getE c (w.el + 1) = .ok (c.getD (w.el + 1) 0) := by
        simp [getE, List.getD_eq_getElem?_getD, List.getElem?_eq_getElem hlt]
      rw [hget]
      simp only
      have hI' : Inv c { out := w.out.set w.el w.elCnt, el := w.el + 1, countEl := w.countEl + w.countRem,
                         countRem := c.getD (w.el + 1) 0, elCnt := 0 } := by
        refine ⟨hlt, by simp [hI.outLen], ?_, ?_⟩
        · simp only; rw [prefixSum_succ c (w.el + 1)]; have := hI.remEq; omega
        · simp only; have := hI.remEq; omega
      obtain ⟨w1, h1, h2, h3, h4, h5⟩ := ih _ hI' (by simp only; have := hI.remEq; omega) (by simp only; omega)
      refine ⟨w1, h1, h2, ?_, h4, h5⟩
      intro i
      rw [h3 i]
      simp only [fin]
      by_cases h : i < w.el
      · have : i < w.el + 1 := by omega
        simp [h, this, List.getD_eq_getElem?_getD, List.getElem?_set, show ¬ w.el = i by omega]
      · by_cases h' : i = w.el
        · subst h'
          simp [List.getD_eq_getElem?_getD, List.getElem?_set, hI.outLen, hI.elLt]
        · have h1 : ¬ i < w.el + 1 := by omega
          simp [h, h', h1]
    · simp only [hc, if_false]
      exact ⟨w, rfl, hI, fun _ => rfl, hle, by omega⟩

theorem walkStep_spec (c : List Nat) (p : Nat) (hp : p < c.sum) (w : W) (hI : Inv c w) (hle : w.countEl ≤ p) :
    ∃ w2, walkStep c w p = .ok w2 ∧ Inv c w2 ∧ w2.countEl = p ∧
      (∀ i, fin w2 i = fin w i + if inIv c i p then 1 else 0) := by
  obtain ⟨w1, h1, h2, h3, h4, h5⟩ := walkSkip_spec c p hp (c.length + 1) w hI hle (by omega)
  unfold walkStep
  rw [h1]
  refine ⟨_, rfl, ⟨h2.elLt, h2.outLen, ?_, ?_⟩, rfl, ?_⟩
  · simp only; have := h2.remEq; omega
  · simp only; have := h2.elLe; omega
  · intro i
    rw [← h3 i]
    have hin : inIv c w1.el p = true := by
      simp only [inIv, Bool.and_eq_true, decide_eq_true_eq]
      have := h2.remEq; have := h2.elLe
      constructor <;> omega
    simp only [fin]
    by_cases h : i = w1.el
    · subst h; simp [hin]
    · have hni : inIv c i p = false := by
        cases hv : inIv c i p with
        | false => rfl
        | true => exact absurd (inIv_unique c hv hin) h
      by_cases hlt : i < w1.el <;> simp [h, hlt, hni]

theorem walkLoop_spec (c : List Nat) (ch : List Nat) :
    ∀ (w : W), Inv c w → ch.Pairwise (· ≤ ·) → (∀ p ∈ ch, w.countEl ≤ p ∧ p < c.sum) →
      ∃ w', walkLoop c ch w = .ok w' ∧ Inv c w' ∧ (∀ i, fin w' i = fin w i + ch.countP (inIv c i)) := by
  induction ch with
  | nil => intro w hI _ _; exact ⟨w, rfl, hI, by simp⟩
  | cons p ps ih =>
    intro w hI hs hb
    rw [List.pairwise_cons] at hs
    obtain ⟨w2, h1, h2, h3, h4⟩ := walkStep_spec c p (hb p (by simp)).2 w hI (hb p (by simp)).1
    have hb' : ∀ q ∈ ps, w2.countEl ≤ q ∧ q < c.sum := by
      intro q hq
      exact ⟨by rw [h3]; exact hs.1 q hq, (hb q (by simp [hq])).2⟩
    obtain ⟨w', h5, h6, h7⟩ := ih w2 h2 hs.2 hb'
    refine ⟨w', ?_, h6, ?_⟩
    · simp only [walkLoop, h1, h5]
    · intro i
      rw [h7 i, h4 i, List.countP_cons]
      omega

theorem zeroTail_set_getElem? (w : W) (c : List Nat) (hI : Inv c w) (i : Nat) (hi : i < c.length) :
    (zeroTail (w.out.set w.el w.elCnt) (w.el + 1))[i]? = some (fin w i) := by
  have hl := hI.outLen
  have he := hI.elLt
  simp only [zeroTail, List.getElem?_append, List.length_take, List.length_set, fin]
  by_cases h : i < w.el
  · have h1 : i < min (w.el + 1) w.out.length := by omega
    have h2 : i < w.out.length := by omega
    simp [h1, h, List.getElem?_take, show i < w.el + 1 by omega, List.getElem?_set,
      show ¬ w.el = i by omega, List.getD_eq_getElem?_getD, List.getElem?_eq_getElem h2]
  · by_cases h' : i = w.el
    · subst h'
      have h1 : w.el < min (w.el + 1) w.out.length := by omega
      rw [if_pos h1]
      simp [List.getElem?_take, List.getElem?_set, hl, he]
    · have h1 : ¬ i < min (w.el + 1) w.out.length := by omega
      simp only [h1, if_false, h, h']
      rw [List.getElem?_replicate]
      have : i - min (w.el + 1) w.out.length < w.out.length - (w.el + 1) := by omega
      simp [this]

/-- **The walk is the histogram**: for sorted positions all below the vector's total, the
running-offset loop with its four counters — every read and write bounds-checked — returns, for
each entry, the number of chosen positions in that entry's interval `[prefix j, prefix (j+1))`. -/
theorem walk_hist (counts chosen : List Nat) (hne : counts ≠ [])
    (hs : chosen.Pairwise (· ≤ ·)) (hb : ∀ p ∈ chosen, p < counts.sum) :
    walk counts chosen = .ok (hist counts chosen) := by
  have hlen : 0 < counts.length := List.length_pos_iff.mpr hne
  unfold walk
  have hget : getE counts 0 = .ok (counts.getD 0 0) := by
    simp [getE, List.getD_eq_getElem?_getD, List.getElem?_eq_getElem hlen]
  rw [hget]
  simp only
  have hI0 : Inv counts { out := counts, el := 0, countEl := 0, countRem := counts.getD 0 0, elCnt := 0 } := by
    refine ⟨hlen, rfl, ?_, ?_⟩
    · simp only; rw [prefixSum_succ, prefixSum_zero]
    · simp [prefixSum_zero]
  obtain ⟨w', h1, h2, h3⟩ := walkLoop_spec counts chosen _ hI0 hs (fun p hp => ⟨Nat.zero_le _, hb p hp⟩)
  rw [h1]
  simp only
  have hput : putE w'.out w'.el w'.elCnt = .ok (w'.out.set w'.el w'.elCnt) := by
    simp [putE, h2.outLen, h2.elLt]
  rw [hput]
  simp only
  congr 1
  apply List.ext_getElem?
  intro i
  by_cases hi : i < counts.length
  · rw [zeroTail_set_getElem? w' counts h2 i hi, hist_getElem? counts chosen i hi, h3 i]
    simp [fin]
  · rw [List.getElem?_eq_none, List.getElem?_eq_none]
    · rw [hist_length]; omega
    · simp only [zeroTail, List.length_append, List.length_take, List.length_set, List.length_replicate]
      have := h2.outLen; omega

end Biom.C12

namespace Biom.C12

/-! ## Part 2 — lists, masks, lookups -/

section Lists
variable {β γ : Type}

theorem filterMask_nil_left (k : List Bool) : filterMask ([] : List β) k = [] := by
  cases k <;> rfl

theorem filterMask_nil_right (xs : List β) : filterMask xs [] = [] := by
  cases xs <;> rfl

theorem filterMask_cons (x : β) (xs : List β) (b : Bool) (bs : List Bool) :
    filterMask (x :: xs) (b :: bs) = if b then x :: filterMask xs bs else filterMask xs bs := rfl

theorem filterMask_sublist (xs : List β) (k : List Bool) : (filterMask xs k).Sublist xs := by
  induction xs generalizing k with
  | nil => rw [filterMask_nil_left]; exact List.Sublist.refl _
  | cons x xs ih =>
    cases k with
    | nil => rw [filterMask_nil_right]; exact List.nil_sublist _
    | cons b bs =>
      rw [filterMask_cons]
      cases b
      · exact (ih bs).cons x
      · exact (ih bs).cons₂ x

theorem mem_of_mem_filterMask {x : β} {xs : List β} {k : List Bool} (h : x ∈ filterMask xs k) : x ∈ xs :=
  (filterMask_sublist xs k).subset h

theorem filterMask_length_eq (xs : List β) (ys : List γ) (k : List Bool) (h : xs.length = ys.length) :
    (filterMask xs k).length = (filterMask ys k).length := by
  induction xs generalizing ys k with
  | nil =>
    cases ys with
    | nil => simp [filterMask_nil_left]
    | cons y ys => simp at h
  | cons x xs ih =>
    cases ys with
    | nil => simp at h
    | cons y ys =>
      cases k with
      | nil => simp [filterMask_nil_right]
      | cons b bs =>
        have := ih ys bs (by simpa using h)
        cases b <;> simp [filterMask_cons, this]

theorem filterMask_map (f : β → γ) (xs : List β) (k : List Bool) :
    filterMask (xs.map f) k = (filterMask xs k).map f := by
  induction xs generalizing k with
  | nil => simp [filterMask_nil_left]
  | cons x xs ih =>
    cases k with
    | nil => simp [filterMask_nil_right]
    | cons b bs => cases b <;> simp [filterMask_cons, ih]

/-- `compress` by a mask computed from the elements is `filter` -/
theorem filterMask_map_self (p : β → Bool) (xs : List β) : filterMask xs (xs.map p) = xs.filter p := by
  induction xs with
  | nil => rfl
  | cons x xs ih =>
    simp only [List.map_cons, filterMask_cons, List.filter_cons, ih]

theorem filterMask_zipWith (f : Nat → Nat → Nat) (a b : List Nat) (k : List Bool) :
    filterMask (List.zipWith f a b) k = List.zipWith f (filterMask a k) (filterMask b k) := by
  induction a generalizing b k with
  | nil => simp [filterMask_nil_left]
  | cons x a ih =>
    cases b with
    | nil => simp [filterMask_nil_left]
    | cons y b =>
      cases k with
      | nil => simp [filterMask_nil_right]
      | cons c cs => cases c <;> simp [filterMask_cons, ih]

theorem lookupBy_nil_right (ids : List Id) (id : Id) : lookupBy ids ([] : List β) id = none := by
  cases ids <;> rfl

theorem lookupBy_cons (i : Id) (ids : List Id) (x : β) (xs : List β) (id : Id) :
    lookupBy (i :: ids) (x :: xs) id = if i = id then some x else lookupBy ids xs id := rfl

theorem lookupBy_map (f : β → γ) (ids : List Id) (xs : List β) (id : Id) :
    lookupBy ids (xs.map f) id = (lookupBy ids xs id).map f := by
  induction ids generalizing xs with
  | nil => rfl
  | cons i ids ih =>
    cases xs with
    | nil => rfl
    | cons x xs =>
      simp only [List.map_cons, lookupBy_cons]
      split
      · rfl
      · exact ih xs

/-- a lookup by ID is a positional read at the ID's (first) position -/
theorem lookupBy_eq_getElem? (ids : List Id) (id : Id) (h : id ∈ ids) :
    ∃ i, i < ids.length ∧ ids[i]? = some id ∧ ∀ (xs : List β), lookupBy ids xs id = xs[i]? := by
  induction ids with
  | nil => simp at h
  | cons j ids ih =>
    by_cases hj : j = id
    · refine ⟨0, by simp, by simp [hj], ?_⟩
      intro xs
      cases xs with
      | nil => rfl
      | cons x xs => simp [lookupBy_cons, hj]
    · have hm : id ∈ ids := by
        rcases List.mem_cons.mp h with h | h
        · exact absurd h.symm hj
        · exact h
      obtain ⟨i, h1, h2, h3⟩ := ih hm
      refine ⟨i + 1, by simp; omega, by simpa using h2, ?_⟩
      intro xs
      cases xs with
      | nil => rfl
      | cons x xs => simp [lookupBy_cons, hj, h3 xs]

/-- compressing IDs and values by the same mask does not change what a surviving ID looks up -/
theorem lookupBy_filterMask (ids : List Id) (xs : List β) (k : List Bool) (id : Id) (hn : ids.Nodup)
    (h : id ∈ filterMask ids k) :
    lookupBy (filterMask ids k) (filterMask xs k) id = lookupBy ids xs id := by
  induction ids generalizing xs k with
  | nil => rw [filterMask_nil_left] at h; simp at h
  | cons i ids ih =>
    rw [List.nodup_cons] at hn
    cases k with
    | nil => rw [filterMask_nil_right] at h; simp at h
    | cons b bs =>
      cases xs with
      | nil => rw [filterMask_nil_left, lookupBy_nil_right, lookupBy_nil_right]
      | cons x xs =>
        rw [filterMask_cons] at h
        rw [filterMask_cons, filterMask_cons, lookupBy_cons]
        cases b
        · simp only [Bool.false_eq_true, if_false] at h ⊢
          have hne : ¬ i = id := by
            intro he; subst he; exact hn.1 (mem_of_mem_filterMask h)
          simp only [hne, if_false]
          exact ih xs bs hn.2 h
        · simp only [if_true] at h ⊢
          rw [lookupBy_cons]
          by_cases he : i = id
          · simp [he]
          · simp only [he, if_false]
            rcases List.mem_cons.mp h with h | h
            · exact absurd h.symm he
            · exact ih xs bs hn.2 h

/-- the values of the surviving IDs, looked up in the uncompressed table, are the compressed values -/
theorem map_lookupBy_filterMask (ids : List Id) (xs : List β) (k : List Bool) (d : β) (hn : ids.Nodup)
    (hl : ids.length = xs.length) :
    (filterMask ids k).map (fun id => (lookupBy ids xs id).getD d) = filterMask xs k := by
  induction ids generalizing xs k with
  | nil =>
    cases xs with
    | nil => simp [filterMask_nil_left]
    | cons x xs => simp at hl
  | cons i ids ih =>
    rw [List.nodup_cons] at hn
    cases xs with
    | nil => simp at hl
    | cons x xs =>
      cases k with
      | nil => simp [filterMask_nil_right]
      | cons b bs =>
        have htail : (filterMask ids bs).map (fun id => (lookupBy (i :: ids) (x :: xs) id).getD d) = filterMask xs bs := by
          rw [← ih xs bs hn.2 (by simpa using hl)]
          apply List.map_congr_left
          intro a ha
          have : ¬ i = a := by intro he; subst he; exact hn.1 (mem_of_mem_filterMask ha)
          simp [lookupBy_cons, this]
        cases b
        · simpa [filterMask_cons] using htail
        · rw [filterMask_cons, filterMask_cons]
          simp only [if_true, List.map_cons]
          rw [htail]
          simp [lookupBy_cons]

/-- `compress` by a mask computed from the values is `filter` by the value looked up by ID -/
theorem filterMask_ids_by_value (p : β → Bool) (ids : List Id) (xs : List β) (d : β) (hn : ids.Nodup)
    (hl : ids.length = xs.length) :
    filterMask ids (xs.map p) = ids.filter (fun id => p ((lookupBy ids xs id).getD d)) := by
  induction ids generalizing xs with
  | nil => simp [filterMask_nil_left]
  | cons i ids ih =>
    rw [List.nodup_cons] at hn
    cases xs with
    | nil => simp at hl
    | cons x xs =>
      have htail : ids.filter (fun id => p ((lookupBy (i :: ids) (x :: xs) id).getD d)) =
          ids.filter (fun id => p ((lookupBy ids xs id).getD d)) := by
        apply List.filter_congr
        intro a ha
        have : ¬ i = a := by intro he; subst he; exact hn.1 ha
        simp [lookupBy_cons, this]
      rw [List.map_cons, filterMask_cons, List.filter_cons, htail, ih xs hn.2 (by simpa using hl)]
      simp [lookupBy_cons]

end Lists

end Biom.C12

namespace Biom.C12

/-! ### stored entries → dense vector -/

theorem lookupN_nil_left (vals : List Nat) (j : Nat) : lookupN [] vals j = 0 := by cases vals <;> rfl

theorem lookupN_nil_right (idx : List Nat) (j : Nat) : lookupN idx [] j = 0 := by cases idx <;> rfl

theorem lookupN_cons (i : Nat) (is : List Nat) (v : Nat) (vs : List Nat) (j : Nat) :
    lookupN (i :: is) (v :: vs) j = if i = j then v else lookupN is vs j := rfl

theorem lookupN_not_mem (idx vals : List Nat) (j : Nat) (h : j ∉ idx) : lookupN idx vals j = 0 := by
  induction idx generalizing vals with
  | nil => exact lookupN_nil_left _ _
  | cons i is ih =>
    cases vals with
    | nil => rfl
    | cons v vs =>
      rw [lookupN_cons]
      have : ¬ i = j := by intro he; subst he; exact h (by simp)
      simp only [this, if_false]
      exact ih vs (fun hm => h (by simp [hm]))

theorem elimZeros_cons (i : Nat) (is : List Nat) (v : Nat) (vs : List Nat) :
    elimZeros (i :: is) (v :: vs) =
      if v = 0 then elimZeros is vs else (i :: (elimZeros is vs).1, v :: (elimZeros is vs).2) := rfl

/-- `eliminate_zeros` does not change the dense content (indices distinct) -/
theorem lookupN_elimZeros (idx vals : List Nat) (j : Nat) (hn : idx.Nodup) :
    lookupN (elimZeros idx vals).1 (elimZeros idx vals).2 j = lookupN idx vals j := by
  induction idx generalizing vals with
  | nil => cases vals <;> rfl
  | cons i is ih =>
    rw [List.nodup_cons] at hn
    cases vals with
    | nil => rfl
    | cons v vs =>
      rw [elimZeros_cons, lookupN_cons]
      by_cases hv : v = 0
      · simp only [hv, if_true]
        rw [ih vs hn.2]
        by_cases hij : i = j
        · subst hij; simp [lookupN_not_mem is vs i hn.1]
        · simp [hij]
      · simp only [hv, if_false, lookupN_cons, ih vs hn.2]

theorem scatter_elimZeros (m : Nat) (idx vals : List Nat) (hn : idx.Nodup) :
    scatter m (elimZeros idx vals).1 (elimZeros idx vals).2 = scatter m idx vals := by
  unfold scatter
  apply List.map_congr_left
  intro j _
  exact lookupN_elimZeros idx vals j hn

theorem scatter_length (m : Nat) (idx vals : List Nat) : (scatter m idx vals).length = m := by
  simp [scatter]

theorem scatter_getD (m : Nat) (idx vals : List Nat) (j : Nat) :
    (scatter m idx vals).getD j 0 = if j < m then lookupN idx vals j else 0 := by
  unfold scatter
  rw [List.getD_eq_getElem?_getD, List.getElem?_map]
  by_cases h : j < m
  · simp [h, List.getElem?_range h]
  · simp [h, List.getElem?_eq_none (show (List.range m).length ≤ j by simp; omega)]

theorem sum_map_range_point (m i v : Nat) (f : Nat → Nat) (hi : i < m) (hf : f i = 0) :
    ((List.range m).map (fun j => if i = j then v else f j)).sum = v + ((List.range m).map f).sum := by
  induction m with
  | zero => omega
  | succ m ih =>
    rw [List.range_succ, List.map_append, List.map_append, List.sum_append_nat, List.sum_append_nat]
    by_cases him : i = m
    · subst him
      have : (List.range i).map (fun j => if i = j then v else f j) = (List.range i).map f := by
        apply List.map_congr_left
        intro j hj
        have : ¬ i = j := by have := List.mem_range.mp hj; omega
        simp [this]
      rw [this]
      simp [hf]
      omega
    · have := ih (by omega)
      rw [this]
      simp [him]
      omega

theorem sum_map_range_zero (m : Nat) : ((List.range m).map (fun _ => 0)).sum = 0 := by
  induction m with
  | zero => rfl
  | succ m ih => rw [List.range_succ, List.map_append, List.sum_append_nat, ih]; rfl

/-- the dense vector's total is the total of the stored values (distinct in-range indices) -/
theorem scatter_sum (m : Nat) (idx vals : List Nat) (hn : idx.Nodup) (hr : ∀ i ∈ idx, i < m)
    (hl : idx.length = vals.length) : (scatter m idx vals).sum = vals.sum := by
  induction idx generalizing vals with
  | nil =>
    cases vals with
    | nil =>
      have : scatter m [] [] = (List.range m).map (fun _ => 0) := by
        unfold scatter; apply List.map_congr_left; intro j _; rfl
      rw [this, sum_map_range_zero]; rfl
    | cons v vs => simp at hl
  | cons i is ih =>
    rw [List.nodup_cons] at hn
    cases vals with
    | nil => simp at hl
    | cons v vs =>
      have hfun : lookupN (i :: is) (v :: vs) = fun j => if i = j then v else lookupN is vs j :=
        funext (fun j => rfl)
      unfold scatter
      rw [hfun, sum_map_range_point m i v _ (hr i (by simp)) (lookupN_not_mem is vs i hn.1)]
      have := ih vs hn.2 (fun a ha => hr a (by simp [ha])) (by simpa using hl)
      unfold scatter at this
      rw [this, List.sum_cons]

/-- a relation between stored values (that holds of 0 and 0) carries over to the dense entries -/
theorem lookupN_rel (R : Nat → Nat → Prop) (h0 : R 0 0) (idx a b : List Nat) (hl : a.length = b.length)
    (h : ∀ k, R (a.getD k 0) (b.getD k 0)) (j : Nat) : R (lookupN idx a j) (lookupN idx b j) := by
  induction idx generalizing a b with
  | nil => rw [lookupN_nil_left, lookupN_nil_left]; exact h0
  | cons i is ih =>
    cases a with
    | nil =>
      cases b with
      | nil => exact h0
      | cons y b => simp at hl
    | cons x a =>
      cases b with
      | nil => simp at hl
      | cons y b =>
        rw [lookupN_cons, lookupN_cons]
        by_cases hij : i = j
        · simp only [hij, if_true]; exact h 0
        · simp only [hij, if_false]
          exact ih a b (by simpa using hl) (fun k => h (k + 1))

/-! ### totals along the other axis -/

theorem colSums_nil (m : Nat) : colSums m [] = List.replicate m 0 := rfl
theorem colSums_cons (m : Nat) (v : List Nat) (d : List (List Nat)) :
    colSums m (v :: d) = addV v (colSums m d) := rfl

theorem colSums_length (m : Nat) (d : List (List Nat)) (h : ∀ v ∈ d, v.length = m) : (colSums m d).length = m := by
  induction d with
  | nil => simp [colSums_nil]
  | cons v d ih =>
    rw [colSums_cons, addV, List.length_zipWith, ih (fun u hu => h u (by simp [hu])), h v (by simp)]
    omega

theorem addV_getD (a b : List Nat) (h : a.length = b.length) (j : Nat) :
    (addV a b).getD j 0 = a.getD j 0 + b.getD j 0 := by
  induction a generalizing b j with
  | nil =>
    cases b with
    | nil => simp [addV]
    | cons y b => simp at h
  | cons x a ih =>
    cases b with
    | nil => simp at h
    | cons y b =>
      cases j with
      | zero => simp [addV]
      | succ j =>
        have := ih b (by simpa using h) j
        simpa [addV] using this

theorem row_le_colSums (m : Nat) (d : List (List Nat)) (h : ∀ u ∈ d, u.length = m) (v : List Nat) (hv : v ∈ d)
    (j : Nat) : v.getD j 0 ≤ (colSums m d).getD j 0 := by
  induction d with
  | nil => simp at hv
  | cons u d ih =>
    have hd : ∀ w ∈ d, w.length = m := fun w hw => h w (by simp [hw])
    rw [colSums_cons, addV_getD u (colSums m d) (by rw [colSums_length m d hd, h u (by simp)])]
    rcases List.mem_cons.mp hv with rfl | hv
    · omega
    · have := ih hd hv; omega

/-- dropping the positions whose total is zero does not change a vector's sum -/
theorem sum_filterMask_of_le (v c : List Nat) (hl : v.length = c.length) (h : ∀ j, v.getD j 0 ≤ c.getD j 0) :
    (filterMask v (c.map (fun s => decide (0 < s)))).sum = v.sum := by
  induction v generalizing c with
  | nil => simp [filterMask_nil_left]
  | cons x v ih =>
    cases c with
    | nil => simp at hl
    | cons y c =>
      have h0 := h 0
      have ht := ih c (by simpa using hl) (fun j => h (j + 1))
      simp only [List.getD_cons_zero] at h0
      rw [List.map_cons, filterMask_cons]
      by_cases hy : 0 < y
      · simp [hy, ht]
      · have : x = 0 := by omega
        simp [hy, ht, this]

theorem filterMask_replicate (m : Nat) (x : Nat) (k : List Bool) :
    filterMask (List.replicate m x) k = List.replicate (filterMask (List.replicate m x) k).length x := by
  rw [List.eq_replicate_iff]
  refine ⟨rfl, ?_⟩
  intro b hb
  exact (List.mem_replicate.mp (mem_of_mem_filterMask hb)).2

/-- compressing every vector by a mask compresses the totals by that mask -/
theorem colSums_filterMask (m m' : Nat) (d : List (List Nat)) (k : List Bool)
    (hm' : (filterMask (List.replicate m 0) k).length = m') :
    colSums m' (d.map (fun v => filterMask v k)) = filterMask (colSums m d) k := by
  induction d with
  | nil => rw [List.map_nil, colSums_nil, colSums_nil, filterMask_replicate, hm']
  | cons v d ih =>
    rw [List.map_cons, colSums_cons, colSums_cons, ih, addV, addV, filterMask_zipWith]

theorem all_pos_filterMask_self (xs : List Nat) :
    (filterMask xs (xs.map (fun s => decide (0 < s)))).all (fun s => decide (0 < s)) = true := by
  rw [filterMask_map_self, List.all_eq_true]
  intro x hx
  exact (List.mem_filter.mp hx).2

end Biom.C12

namespace Biom.C12

/-! ### the kernel over all vectors -/

theorem nodupB_iff {β : Type} [DecidableEq β] (l : List β) : nodupB l = true ↔ l.Nodup := by
  induction l with
  | nil => simp [nodupB]
  | cons x xs ih => simp [nodupB, ih, List.nodup_cons]

theorem isort_strict (c : List Nat) (hn : c.Nodup) : (isort c).Pairwise (· < ·) := by
  have h1 := isort_sorted c
  have h2 : (isort c).Nodup := (isort_perm c).nodup_iff.mpr hn
  exact (h1.and h2).imp (fun h => by omega)

/-- what the kernel does with a generator answer that keeps numpy's contract -/
theorem subsampleVec_hist (n : Nat) (counts chosen : List Nat) (hne : counts ≠ []) (hl : chosen.length = n)
    (hb : ∀ p ∈ chosen, p < counts.sum) : subsampleVec n counts chosen = .ok (hist counts chosen) := by
  unfold subsampleVec
  have hlen : (isort chosen).length = n := by rw [(isort_perm chosen).length_eq, hl]
  simp only [hlen, Nat.lt_irrefl, if_false]
  rw [← hlen, List.take_length]
  rw [walk_hist counts (isort chosen) hne (isort_sorted chosen)
    (fun p hp => hb p ((isort_perm chosen).mem_iff.mp hp))]
  unfold hist
  rw [histFrom_perm 0 counts (isort_perm chosen)]

/-- one vector, without replacement -/
def WithoutOK (n : Nat) (v o : List Nat) : Prop :=
  o.length = v.length ∧ (v.sum < n → o.sum = 0) ∧ (n ≤ v.sum → o.sum = n) ∧ ∀ k, o.getD k 0 ≤ v.getD k 0

theorem sum_map_zero (v : List Nat) : (v.map (fun _ => 0)).sum = 0 := by
  induction v with
  | nil => rfl
  | cons x xs ih => simp [ih]

theorem getD_map_zero (v : List Nat) (k : Nat) : (v.map (fun _ => 0)).getD k 0 = 0 := by
  rw [List.getD_eq_getElem?_getD, List.getElem?_map]
  cases v[k]? <;> rfl

theorem kernelWithout_spec (n : Nat) (hn : 1 ≤ n) :
    ∀ (vecs ch : List (List Nat)), choicesOK n vecs ch = true →
      ∃ outs, kernelWithout n vecs ch = .ok outs ∧ outs.length = vecs.length ∧
        ∀ (i : Nat) (v o : List Nat), vecs[i]? = some v → outs[i]? = some o → WithoutOK n v o := by
  intro vecs
  induction vecs with
  | nil => intro ch _; exact ⟨[], rfl, rfl, by simp⟩
  | cons v vs ih =>
    intro ch hch
    unfold choicesOK at hch
    unfold kernelWithout
    by_cases hv : v.sum < n
    · simp only [hv, if_true] at hch ⊢
      obtain ⟨outs, h1, h2, h3⟩ := ih ch hch
      rw [h1]
      refine ⟨_, rfl, by simp [h2], ?_⟩
      intro i w o hw ho
      cases i with
      | zero =>
        simp only [List.getElem?_cons_zero, Option.some.injEq] at hw ho
        subst hw; subst ho
        exact ⟨by simp, fun _ => sum_map_zero _, fun h => by omega, fun k => by rw [getD_map_zero]; omega⟩
      | succ i =>
        simp only [List.getElem?_cons_succ] at hw ho
        exact h3 i w o hw ho
    · simp only [hv, if_false] at hch ⊢
      cases ch with
      | nil => simp at hch
      | cons c cs =>
        simp only [Bool.and_eq_true, beq_iff_eq, List.all_eq_true, decide_eq_true_eq] at hch
        obtain ⟨⟨⟨hnd, hlen⟩, hb⟩, hrest⟩ := hch
        have hne : v ≠ [] := by intro he; subst he; simp at hv; omega
        simp only []
        rw [subsampleVec_hist n v c hne hlen hb]
        obtain ⟨outs, h1, h2, h3⟩ := ih cs hrest
        rw [h1]
        refine ⟨_, rfl, by simp [h2], ?_⟩
        intro i w o hw ho
        cases i with
        | zero =>
          simp only [List.getElem?_cons_zero, Option.some.injEq] at hw ho
          subst hw; subst ho
          refine ⟨hist_length _ _, fun h => absurd h hv, fun _ => by rw [hist_sum v c hb, hlen], ?_⟩
          intro k
          have : hist v c = hist v (isort c) := by
            unfold hist; rw [histFrom_perm 0 v (isort_perm c)]
          rw [this]
          exact hist_le v (isort c) (isort_strict c ((nodupB_iff c).mp hnd)) k
        | succ i =>
          simp only [List.getElem?_cons_succ] at hw ho
          exact h3 i w o hw ho

/-- one vector, with replacement -/
def WithOK (n : Nat) (v o : List Nat) : Prop :=
  o.length = v.length ∧ o.sum = n ∧ ∀ k, v.getD k 0 = 0 → o.getD k 0 = 0

theorem zip_all_support (v m : List Nat) (hl : m.length = v.length)
    (h : (v.zip m).all (fun vm => vm.1 != 0 || vm.2 == 0) = true) (k : Nat) (hk : v.getD k 0 = 0) :
    m.getD k 0 = 0 := by
  induction v generalizing m k with
  | nil =>
    cases m with
    | nil => rfl
    | cons y m => simp at hl
  | cons x v ih =>
    cases m with
    | nil => rfl
    | cons y m =>
      simp only [List.zip_cons_cons, List.all_cons, Bool.and_eq_true, Bool.or_eq_true, bne_iff_ne, ne_eq,
        beq_iff_eq] at h
      cases k with
      | zero =>
        simp only [List.getD_cons_zero] at hk ⊢
        rcases h.1 with h1 | h1
        · exact absurd hk h1
        · exact h1
      | succ k =>
        simp only [List.getD_cons_succ] at hk ⊢
        exact ih m (by simpa using hl) h.2 k hk

theorem kernelWith_spec (n : Nat) :
    ∀ (vecs ms : List (List Nat)), multisOK n vecs ms = true → (∀ v ∈ vecs, 0 < v.sum) →
      ∃ outs, kernelWith vecs ms = .ok outs ∧ outs.length = vecs.length ∧
        ∀ (i : Nat) (v o : List Nat), vecs[i]? = some v → outs[i]? = some o → WithOK n v o := by
  intro vecs
  induction vecs with
  | nil => intro ms _ _; exact ⟨[], rfl, rfl, by simp⟩
  | cons v vs ih =>
    intro ms hms hpos
    unfold multisOK at hms
    unfold kernelWith
    have hvl : ¬ v.length = 0 := by
      intro he
      have : v = [] := List.length_eq_zero_iff.mp he
      have := hpos v (by simp)
      subst v; simp at this
    cases ms with
    | nil => simp at hms
    | cons m ms' =>
      simp only [Bool.and_eq_true, beq_iff_eq] at hms
      obtain ⟨⟨⟨hl, hs⟩, hsup⟩, hrest⟩ := hms
      obtain ⟨outs, h1, h2, h3⟩ := ih ms' hrest (fun w hw => hpos w (by simp [hw]))
      simp only [hvl, if_false, hl, ne_eq, not_true_eq_false, h1]
      refine ⟨_, rfl, by simp [h2], ?_⟩
      intro i w o hw ho
      cases i with
      | zero =>
        simp only [List.getElem?_cons_zero, Option.some.injEq] at hw ho
        subst hw; subst ho
        exact ⟨hl, hs, fun k hk => zip_all_support v m hl hsup k hk⟩
      | succ i =>
        simp only [List.getElem?_cons_succ] at hw ho
        exact h3 i w o hw ho

end Biom.C12

namespace Biom.C12

/-! ### from the kernel's values to the dense vectors, then through the two filters -/

theorem dense_vec (m : Nat) (v : List Nat) (l : LVec) (o : List Nat) (hl : lvecOK m v l = true)
    (ho : o.length = l.2.length) :
    (scatter m (elimZeros l.1 o).1 (elimZeros l.1 o).2).length = m ∧
    (scatter m (elimZeros l.1 o).1 (elimZeros l.1 o).2).sum = o.sum ∧ v.sum = l.2.sum ∧
      ∀ (R : Nat → Nat → Prop), R 0 0 → (∀ k, R (o.getD k 0) (l.2.getD k 0)) →
        ∀ j, R ((scatter m (elimZeros l.1 o).1 (elimZeros l.1 o).2).getD j 0) (v.getD j 0) := by
  simp only [lvecOK, Bool.and_eq_true, beq_iff_eq, List.all_eq_true, decide_eq_true_eq] at hl
  obtain ⟨⟨⟨h1, h2⟩, h3⟩, h4⟩ := hl
  have hnd := (nodupB_iff l.1).mp h1
  rw [scatter_elimZeros m l.1 o hnd]
  refine ⟨scatter_length _ _ _, scatter_sum m l.1 o hnd h2 (by omega), ?_, ?_⟩
  · rw [← h4, scatter_sum m l.1 l.2 hnd h2 h3]
  · intro R h0 hR j
    rw [← h4, scatter_getD, scatter_getD]
    by_cases hj : j < m
    · simp only [hj, if_true]
      exact lookupN_rel R h0 l.1 o l.2 ho hR j
    · simp only [hj, if_false]; exact h0

theorem stage1_of (t : View) (lay : Lay) (outs : List (List Nat)) (P : List Nat → List Nat → Prop)
    (hlay : layOK t lay = true) (hlen : outs.length = lay.length)
    (h : ∀ (i : Nat) (v : List Nat) (l : LVec) (o : List Nat), t.vecs[i]? = some v → lay[i]? = some l →
      outs[i]? = some o → lvecOK t.oids.length v l = true →
      P v (scatter t.oids.length (elimZeros l.1 o).1 (elimZeros l.1 o).2)) :
    (denseAfter t.oids.length lay outs).length = t.vecs.length ∧
      ∀ (i : Nat) (v d : List Nat), t.vecs[i]? = some v → (denseAfter t.oids.length lay outs)[i]? = some d → P v d := by
  simp only [layOK, Bool.and_eq_true, beq_iff_eq, List.all_eq_true] at hlay
  obtain ⟨hl1, hl2⟩ := hlay
  refine ⟨by simp [denseAfter, hlen, hl1], ?_⟩
  intro i v d hv hd
  simp only [denseAfter, List.getElem?_map, Option.map_eq_some_iff] at hd
  obtain ⟨⟨l, o⟩, hz, rfl⟩ := hd
  rw [List.getElem?_zip_eq_some] at hz
  have hvl : (t.vecs.zip lay)[i]? = some (v, l) := List.getElem?_zip_eq_some.mpr ⟨hv, hz.1⟩
  exact h i v l o hv hz.1 hz.2 (hl2 (v, l) (List.mem_of_getElem? hvl))

theorem otherFilter_ids (ids oids : List Id) (d : List (List Nat)) : (otherFilter ids oids d).ids = ids := rfl
theorem otherFilter_oids (ids oids : List Id) (d : List (List Nat)) :
    (otherFilter ids oids d).oids = filterMask oids ((colSums oids.length d).map (fun s => decide (0 < s))) := rfl
theorem otherFilter_vecs (ids oids : List Id) (d : List (List Nat)) :
    (otherFilter ids oids d).vecs =
      d.map (fun v => filterMask v ((colSums oids.length d).map (fun s => decide (0 < s)))) := rfl

theorem viewWF_iff (t : View) : viewWF t = true ↔
    (t.vecs.length = t.ids.length ∧ (∀ v ∈ t.vecs, v.length = t.oids.length)) ∧ t.ids.Nodup ∧ t.oids.Nodup := by
  simp [viewWF, View.wfb, nodupB_iff, and_assoc]

/-- shape of what the other-axis filter returns -/
theorem otherFilter_wfb (ids oids : List Id) (d : List (List Nat)) (h1 : d.length = ids.length)
    (h2 : ∀ v ∈ d, v.length = oids.length) : (otherFilter ids oids d).wfb = true := by
  simp only [View.wfb, otherFilter_ids, otherFilter_oids, otherFilter_vecs, Bool.and_eq_true, beq_iff_eq,
    List.length_map, List.all_eq_true, List.mem_map]
  refine ⟨h1, ?_⟩
  rintro _ ⟨v, hv, rfl⟩
  exact filterMask_length_eq v oids _ (h2 v hv)

theorem otherFilter_sublist (ids oids : List Id) (d : List (List Nat)) :
    (otherFilter ids oids d).oids.isSublist oids = true := by
  rw [otherFilter_oids, List.isSublist_iff_sublist]
  exact filterMask_sublist _ _

/-- no vector of the other axis is left all-zero -/
theorem otherFilter_nonzero (ids oids : List Id) (d : List (List Nat)) (h2 : ∀ v ∈ d, v.length = oids.length) :
    (colSums (otherFilter ids oids d).oids.length (otherFilter ids oids d).vecs).all (fun s => decide (0 < s)) = true := by
  rw [otherFilter_oids, otherFilter_vecs]
  rw [colSums_filterMask oids.length _ d _
    (filterMask_length_eq _ oids _ (by simp))]
  exact all_pos_filterMask_self _

/-- the other-axis filter only drops zeros: sums along the axis are unchanged -/
theorem otherFilter_sums (ids oids : List Id) (d : List (List Nat)) (h2 : ∀ v ∈ d, v.length = oids.length)
    (n : Nat) (hs : ∀ v ∈ d, v.sum = n) : (otherFilter ids oids d).vecs.all (fun v => v.sum == n) = true := by
  rw [otherFilter_vecs, List.all_eq_true]
  intro w hw
  obtain ⟨v, hv, rfl⟩ := List.mem_map.mp hw
  rw [sum_filterMask_of_le v _ (by rw [colSums_length _ d h2, h2 v hv]) (row_le_colSums _ d h2 v hv)]
  simp [hs v hv]

/-- cells of the result, looked up by ID, are the cells of the dense grid before the filters -/
theorem cellsRel_filters (rel : Nat → Nat → Bool) (t : View) (dense : List (List Nat)) (keep : List Bool)
    (hwf : viewWF t = true) (hlen : dense.length = t.vecs.length)
    (hrow : ∀ v ∈ dense, v.length = t.oids.length)
    (hrel : ∀ (i : Nat) (v d : List Nat), t.vecs[i]? = some v → dense[i]? = some d →
      ∀ j, rel (d.getD j 0) (v.getD j 0) = true) :
    cellsRel rel t (otherFilter (filterMask t.ids keep) t.oids (filterMask dense keep)) = true := by
  obtain ⟨⟨hvl, hvr⟩, hnid, hnoid⟩ := (viewWF_iff t).mp hwf
  simp only [cellsRel, List.all_eq_true, otherFilter_ids]
  intro id hid o ho
  have hid' : id ∈ t.ids := mem_of_mem_filterMask hid
  rw [otherFilter_oids] at ho
  have ho' : o ∈ t.oids := mem_of_mem_filterMask ho
  obtain ⟨i, hi, _, hli⟩ := lookupBy_eq_getElem? (β := List Nat) t.ids id hid'
  obtain ⟨j, hj, _, hlj⟩ := lookupBy_eq_getElem? (β := Nat) t.oids o ho'
  have hd : ∃ d, dense[i]? = some d := ⟨dense[i]'(by omega), List.getElem?_eq_getElem (by omega)⟩
  have hv : ∃ v, t.vecs[i]? = some v := ⟨t.vecs[i]'(by omega), List.getElem?_eq_getElem (by omega)⟩
  obtain ⟨d, hd⟩ := hd
  obtain ⟨v, hv⟩ := hv
  have hdl : d.length = t.oids.length := hrow d (List.mem_of_getElem? hd)
  have hvl' : v.length = t.oids.length := hvr v (List.mem_of_getElem? hv)
  -- the result's cell
  have hr : (otherFilter (filterMask t.ids keep) t.oids (filterMask dense keep)).cell? id o = some (d.getD j 0) := by
    simp only [View.cell?, View.vec?, otherFilter_ids, otherFilter_vecs, otherFilter_oids]
    rw [lookupBy_map, lookupBy_filterMask t.ids dense keep id hnid hid, hli dense, hd]
    simp only [Option.map_some, Option.bind_some]
    rw [lookupBy_filterMask t.oids d _ o hnoid ho, hlj d, List.getD_eq_getElem?_getD,
      List.getElem?_eq_getElem (show j < d.length by omega)]
    rfl
  have ht : t.cell? id o = some (v.getD j 0) := by
    simp only [View.cell?, View.vec?]
    rw [hli t.vecs, hv]
    simp only [Option.bind_some]
    rw [hlj v, List.getD_eq_getElem?_getD, List.getElem?_eq_getElem (show j < v.length by omega)]
    rfl
  rw [hr, ht]
  exact hrel i v d hv hd j

end Biom.C12
