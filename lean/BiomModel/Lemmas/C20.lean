import BiomModel.C20

namespace Biom.C20

/-- registry well-formedness: kinds are distinct (register refuses duplicates), none is called
"all", and every current reaction is a valid one. -/
structure StateWF (s : State) : Prop where
  nodup : (kinds s).Nodup
  noAll : "all" ∉ kinds s
  valid : ∀ kr ∈ s, kr.2 ∈ validReactions

/-- keyword arguments form a dict: keys are distinct -/
def KwWF (kw : Kw) : Prop := (kw.map (·.1)).Nodup

def ProgWF : Prog → Prop
  | .seterr kw => KwWF kw
  | .seterrcall _ _ => True
  | .check _ => True
  | .raise => True
  | .seq a b => ProgWF a ∧ ProgWF b
  | .errstate kw body => KwWF kw ∧ ProgWF body

theorem lookup_none_of_not_mem {β : Type} (l : List (String × β)) (k : String)
    (h : k ∉ l.map (·.1)) : l.lookup k = none := by
  induction l with
  | nil => rfl
  | cons x xs ih =>
    simp only [List.map_cons, List.mem_cons, not_or] at h
    rw [List.lookup_cons]
    have : (k == x.1) = false := by simpa using h.1
    rw [this]; exact ih h.2

theorem lookup_of_mem_nodup {β : Type} (l : List (String × β)) (h : (l.map (·.1)).Nodup)
    (kr : String × β) (hm : kr ∈ l) : l.lookup kr.1 = some kr.2 := by
  induction l with
  | nil => cases hm
  | cons x xs ih =>
    simp only [List.map_cons, List.nodup_cons] at h
    rw [List.lookup_cons]
    rcases List.mem_cons.mp hm with rfl | hm'
    · simp
    · have hne : (kr.1 == x.1) = false := by
        have : kr.1 ∈ xs.map (·.1) := List.mem_map_of_mem hm'
        have : kr.1 ≠ x.1 := fun e => h.1 (e ▸ this)
        simpa using this
      rw [hne]; exact ih h.2 hm'

/-- one step of the apply loop, as a pointwise update -/
def upd (kw : Kw) (kr : Kind × String) : Kind × String := (kr.1, (kw.lookup kr.1).getD kr.2)

theorem foldl_set1 (kw : Kw) (h : KwWF kw) (s : State) :
    kw.foldl (fun s kr => set1 s kr.1 kr.2) s = s.map (upd kw) := by
  induction kw generalizing s with
  | nil =>
    have : upd [] = id := by funext kr; simp [upd, List.lookup]
    simp [this]
  | cons x rest ih =>
    obtain ⟨xk, xr⟩ := x
    have hnd : xk ∉ rest.map (·.1) ∧ (rest.map (·.1)).Nodup := by
      simpa [KwWF] using h
    rw [List.foldl_cons, ih hnd.2, set1, List.map_map]
    apply List.map_congr_left
    intro kr _
    simp only [Function.comp, upd]
    by_cases hk : kr.1 = xk
    · simp [hk, List.lookup_cons, lookup_none_of_not_mem rest xk hnd.1]
    · have : (kr.1 == xk) = false := by simpa using hk
      simp [hk, List.lookup_cons, this]

theorem applyKw_eq_expected (s : State) (kw : Kw) (h : KwWF kw) :
    applyKw s kw = expectedAfter s kw := by
  unfold applyKw expectedAfter
  cases hall : kw.lookup "all" with
  | some r => simp
  | none => simp [foldl_set1 kw h, upd]

theorem kinds_expectedAfter (s : State) (kw : Kw) : kinds (expectedAfter s kw) = kinds s := by
  unfold kinds expectedAfter
  rw [List.map_map]
  apply List.map_congr_left
  intro kr _
  simp only [Function.comp]
  split <;> rfl

theorem mem_of_lookup {β : Type} (l : List (String × β)) (k : String) (v : β)
    (h : l.lookup k = some v) : (k, v) ∈ l := by
  induction l with
  | nil => simp at h
  | cons x xs ih =>
    rw [List.lookup_cons] at h
    by_cases hk : (k == x.1) = true
    · rw [hk] at h
      have hv : x.2 = v := by simpa using h
      have hk' : k = x.1 := by simpa using hk
      exact List.mem_cons.mpr (Or.inl (by rw [hk', ← hv]))
    · have hk' : (k == x.1) = false := by simpa using hk
      rw [hk'] at h
      exact List.mem_cons_of_mem _ (ih h)

theorem validKw_reaction (s : State) (kw : Kw) (hv : validKw s kw = true) (k r : String)
    (hm : (k, r) ∈ kw) : r ∈ validReactions := by
  unfold validKw at hv
  rw [List.all_eq_true] at hv
  have := hv (k, r) hm
  simp only [Bool.and_eq_true] at this
  exact List.contains_iff_mem.mp (by simpa using this.1)

theorem stateWF_expectedAfter (s : State) (kw : Kw) (hs : StateWF s) (hv : validKw s kw = true) :
    StateWF (expectedAfter s kw) := by
  refine ⟨?_, ?_, ?_⟩
  · rw [kinds_expectedAfter]; exact hs.nodup
  · rw [kinds_expectedAfter]; exact hs.noAll
  · intro kr hkr
    unfold expectedAfter at hkr
    rw [List.mem_map] at hkr
    obtain ⟨kr0, hkr0, rfl⟩ := hkr
    cases hall : kw.lookup "all" with
    | some r =>
      simp only []
      exact validKw_reaction s kw hv "all" r (mem_of_lookup kw "all" r hall)
    | none =>
      simp only []
      cases hk : kw.lookup kr0.1 with
      | some r' => exact validKw_reaction s kw hv kr0.1 r' (mem_of_lookup kw kr0.1 r' hk)
      | none => exact hs.valid kr0 hkr0

/-- `seterr(**old_state)` puts exactly the old state back, whatever reactions are in force now -/
theorem restore (s0 s1 : State) (h0 : StateWF s0) (hk : kinds s1 = kinds s0) :
    seterr s1 s0 = some s0 := by
  have hkw : KwWF s0 := h0.nodup
  have hvalid : validKw s1 s0 = true := by
    unfold validKw
    rw [List.all_eq_true]
    intro kr hkr
    have h1 : validReactions.contains kr.2 = true := List.contains_iff_mem.mpr (h0.valid kr hkr)
    have h2 : (kinds s1).contains kr.1 = true := by
      rw [hk]; exact List.contains_iff_mem.mpr (List.mem_map_of_mem hkr)
    rw [h1, h2]; simp
  unfold seterr
  rw [hvalid, if_pos rfl, applyKw_eq_expected s1 s0 hkw]
  congr 1
  unfold expectedAfter
  have hnoall : s0.lookup "all" = none := lookup_none_of_not_mem s0 "all" h0.noAll
  rw [hnoall]
  simp only []
  -- every key of s1 is a key of s0, so the update is a function of the key alone
  have step : ∀ kr ∈ s1, (kr.1, (s0.lookup kr.1).getD kr.2) = (kr.1, (s0.lookup kr.1).getD "") := by
    intro kr hkr
    have : kr.1 ∈ kinds s0 := by rw [← hk]; exact List.mem_map_of_mem hkr
    unfold kinds at this
    rw [List.mem_map] at this
    obtain ⟨kr0, hkr0, he⟩ := this
    have := lookup_of_mem_nodup s0 h0.nodup kr0 hkr0
    rw [he] at this
    rw [this]; rfl
  rw [List.map_congr_left step]
  have : s1.map (fun kr => (kr.1, (s0.lookup kr.1).getD "")) =
      (kinds s1).map (fun k => (k, (s0.lookup k).getD "")) := by
    unfold kinds; rw [List.map_map]; rfl
  rw [this, hk]
  unfold kinds
  rw [List.map_map]
  conv => rhs; rw [← List.map_id s0]
  apply List.map_congr_left
  intro kr hkr
  simp only [Function.comp, id]
  rw [lookup_of_mem_nodup s0 h0.nodup kr hkr]
  rfl

end Biom.C20
