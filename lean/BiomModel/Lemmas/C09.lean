/-
  C09 — helper lemmas: ID orders, positional lookups, the general path, the fast path, totals,
  the pairwise fold.  Values live in an arbitrary `AddCommMonoid`.
-/
import Mathlib.Algebra.BigOperators.Group.Finset.Basic
import Mathlib.Algebra.BigOperators.Group.List.Basic
import Mathlib.Data.List.Nodup
import BiomModel.C09

set_option linter.unusedSectionVars false
set_option linter.unusedSimpArgs false

namespace Biom.C09

variable {α : Type}

/-! ### ID orders -/

theorem unionAux_cons_mem {seen : List Id} {y : Id} (ys : List Id) (h : y ∈ seen) :
    unionAux seen (y :: ys) = unionAux seen ys := by
  rw [unionAux]; simp [h]

theorem unionAux_cons_not_mem {seen : List Id} {y : Id} (ys : List Id) (h : y ∉ seen) :
    unionAux seen (y :: ys) = y :: unionAux (y :: seen) ys := by
  rw [unionAux]; simp [h]

theorem mem_unionAux (seen l : List Id) (x : Id) : x ∈ unionAux seen l ↔ x ∈ l ∧ x ∉ seen := by
  induction l generalizing seen with
  | nil => simp [unionAux]
  | cons y ys ih =>
    unfold unionAux
    by_cases hy : y ∈ seen
    · simp only [hy, if_true, ih, List.mem_cons]
      constructor
      · rintro ⟨h1, h2⟩; exact ⟨Or.inr h1, h2⟩
      · rintro ⟨h1 | h1, h2⟩
        · exact absurd (h1 ▸ hy) h2
        · exact ⟨h1, h2⟩
    · simp only [hy, if_false, List.mem_cons, ih]
      constructor
      · rintro (h | ⟨h1, h2⟩)
        · exact ⟨Or.inl h, h ▸ hy⟩
        · exact ⟨Or.inr h1, fun h => h2 (Or.inr h)⟩
      · rintro ⟨h1 | h1, h2⟩
        · exact Or.inl h1
        · by_cases hxy : x = y
          · exact Or.inl hxy
          · exact Or.inr ⟨h1, fun h => h.elim hxy h2⟩

theorem nodup_unionAux (seen l : List Id) : (unionAux seen l).Nodup := by
  induction l generalizing seen with
  | nil => simp [unionAux]
  | cons y ys ih =>
    unfold unionAux
    by_cases hy : y ∈ seen
    · simp only [hy, if_true]; exact ih seen
    · simp only [hy, if_false, List.nodup_cons]
      refine ⟨?_, ih _⟩
      rw [mem_unionAux]
      simp

theorem mem_unionOrder (a b : List Id) (x : Id) : x ∈ unionOrder a b ↔ x ∈ a ∨ x ∈ b := by
  simp [unionOrder, mem_unionAux]

theorem nodup_unionOrder (a b : List Id) : (unionOrder a b).Nodup := nodup_unionAux _ _

theorem mem_interOrder (a b : List Id) (x : Id) : x ∈ interOrder a b ↔ x ∈ a ∧ x ∈ b := by
  simp [interOrder]

theorem nodup_interOrder (a b : List Id) (h : a.Nodup) : (interOrder a b).Nodup :=
  h.filter _

theorem nodup_newOrder (m : Mode) (a b : List Id) (h : a.Nodup) : (newOrder m a b).Nodup := by
  cases m
  · exact nodup_unionOrder a b
  · exact nodup_interOrder a b h

theorem mem_newOrder (m : Mode) (a b : List Id) (x : Id) :
    x ∈ newOrder m a b ↔ (match m with | .union => x ∈ a ∨ x ∈ b | .inter => x ∈ a ∧ x ∈ b) := by
  cases m
  · exact mem_unionOrder a b x
  · exact mem_interOrder a b x

theorem unionAux_of_disjoint (seen l : List Id) (hl : l.Nodup) (hd : ∀ x ∈ l, x ∉ seen) :
    unionAux seen l = l := by
  induction l generalizing seen with
  | nil => rfl
  | cons y ys ih =>
    unfold unionAux
    have hy : y ∉ seen := hd y (by simp)
    simp only [hy, if_false]
    rw [ih (y :: seen) (List.nodup_cons.mp hl).2]
    intro x hx
    simp only [List.mem_cons, not_or]
    exact ⟨fun h => (List.nodup_cons.mp hl).1 (h ▸ hx), hd x (by simp [hx])⟩

theorem unionAux_congr (s1 s2 l : List Id) (h : ∀ x, x ∈ s1 ↔ x ∈ s2) : unionAux s1 l = unionAux s2 l := by
  induction l generalizing s1 s2 with
  | nil => rfl
  | cons y ys ih =>
    unfold unionAux
    by_cases hy : y ∈ s1
    · have hy2 : y ∈ s2 := (h y).mp hy
      simp only [hy, hy2, if_true]; exact ih s1 s2 h
    · have hy2 : y ∉ s2 := fun h2 => hy ((h y).mpr h2)
      simp only [hy, hy2, if_false]
      rw [ih (y :: s1) (y :: s2) (by intro x; simp [h x])]

theorem unionAux_append (seen l1 l2 : List Id) :
    unionAux seen (l1 ++ l2) = unionAux seen l1 ++ unionAux (l1 ++ seen) l2 := by
  induction l1 generalizing seen with
  | nil => simp [unionAux]
  | cons y ys ih =>
    simp only [List.cons_append]
    by_cases hy : y ∈ seen
    · rw [unionAux_cons_mem _ hy, unionAux_cons_mem _ hy, ih seen]
      congr 1
      apply unionAux_congr
      intro x; simp only [List.mem_append, List.mem_cons]
      constructor
      · intro h; exact Or.inr h
      · rintro (h | h)
        · exact Or.inr (h ▸ hy)
        · exact h
    · rw [unionAux_cons_not_mem _ hy, unionAux_cons_not_mem _ hy, ih (y :: seen), List.cons_append]
      congr 2
      apply unionAux_congr
      intro x; simp only [List.mem_append, List.mem_cons]
      tauto

theorem unionAux_nodup_eq_filter (seen l : List Id) (hl : l.Nodup) :
    unionAux seen l = l.filter (fun x => decide (x ∉ seen)) := by
  induction l generalizing seen with
  | nil => rfl
  | cons y ys ih =>
    unfold unionAux
    have hn := List.nodup_cons.mp hl
    by_cases hy : y ∈ seen
    · simp only [hy, if_true, List.filter_cons, not_true_eq_false, decide_false]
      exact ih seen hn.2
    · simp only [hy, if_false, List.filter_cons, not_false_eq_true, decide_true, if_true]
      rw [ih (y :: seen) hn.2]
      congr 1
      apply List.filter_congr
      intro x hx
      have : x ≠ y := fun h => hn.1 (h ▸ hx)
      simp [this]

/-- "union order = the receiver's IDs, then the other's new ones" -/
theorem unionOrder_eq (a b : List Id) (ha : a.Nodup) (hb : b.Nodup) :
    unionOrder a b = a ++ b.filter (fun x => decide (x ∉ a)) := by
  unfold unionOrder
  rw [unionAux_append, unionAux_of_disjoint [] a ha (by simp), unionAux_nodup_eq_filter _ b hb]
  simp

/-! ### positional lookups -/

theorem lookupBy_cons {β : Type} (i : Id) (is : List Id) (x : β) (xs : List β) (id : Id) :
    lookupBy (i :: is) (x :: xs) id = if i = id then some x else lookupBy is xs id := rfl

theorem lookupBy_eq_none {β : Type} (ids : List Id) (xs : List β) (id : Id) (h : id ∉ ids) :
    lookupBy ids xs id = none := by
  induction ids generalizing xs with
  | nil => simp [lookupBy]
  | cons i is ih =>
    cases xs with
    | nil => simp [lookupBy]
    | cons x xs =>
      simp only [List.mem_cons, not_or] at h
      rw [lookupBy_cons, if_neg (fun e => h.1 e.symm)]
      exact ih xs h.2

theorem lookupBy_map {β : Type} (ids : List Id) (g : Id → β) (id : Id) :
    lookupBy ids (ids.map g) id = if id ∈ ids then some (g id) else none := by
  induction ids with
  | nil => simp [lookupBy]
  | cons i is ih =>
    rw [List.map_cons, lookupBy_cons]
    by_cases h : i = id
    · subst h; simp
    · rw [if_neg h, ih]
      have : id ≠ i := fun e => h e.symm
      simp [this]

theorem lookupBy_isSome {β : Type} (ids : List Id) (xs : List β) (id : Id) (h : id ∈ ids)
    (hl : ids.length = xs.length) : ∃ x, lookupBy ids xs id = some x := by
  induction ids generalizing xs with
  | nil => cases h
  | cons i is ih =>
    cases xs with
    | nil => simp at hl
    | cons x xs =>
      rw [lookupBy_cons]
      by_cases e : i = id
      · exact ⟨x, by simp [e]⟩
      · rw [if_neg e]
        rcases List.mem_cons.mp h with h | h
        · exact absurd h.symm e
        · exact ih xs h (by simpa using hl)

theorem map_lookupBy_self {β : Type} (ids : List Id) (xs : List β) (hn : ids.Nodup)
    (hl : ids.length = xs.length) : ids.map (fun s => lookupBy ids xs s) = xs.map some := by
  induction ids generalizing xs with
  | nil => cases xs with
    | nil => rfl
    | cons x xs => simp at hl
  | cons i is ih =>
    cases xs with
    | nil => simp at hl
    | cons x xs =>
      have hn' := List.nodup_cons.mp hn
      simp only [List.map_cons, lookupBy_cons, if_true]
      congr 1
      rw [← ih xs hn'.2 (by simpa using hl)]
      apply List.map_congr_left
      intro s hs
      have : i ≠ s := fun e => hn'.1 (e ▸ hs)
      simp [this]

theorem lookupBy_range_map {β : Type} (ids : List Id) (F : Nat → β) (id : Id) (h : id ∈ ids) :
    lookupBy ids ((List.range ids.length).map F) id = some (F (ids.idxOf id)) := by
  induction ids generalizing F with
  | nil => cases h
  | cons i is ih =>
    rw [List.length_cons, List.range_succ_eq_map, List.map_cons, lookupBy_cons, List.map_map]
    by_cases e : i = id
    · subst e; simp
    · rw [if_neg e]
      rcases List.mem_cons.mp h with h | h
      · exact absurd h.symm e
      · rw [ih (F ∘ Nat.succ) h]
        simp [e]

/-! ### the general path -/

/-- the metadata function / the mode that belongs to an axis -/
def fOf (fs fo : MdF) : Axis → MdF
  | .obs => fo
  | .samp => fs

def mOf (ms mo : Mode) : Axis → Mode
  | .obs => mo
  | .samp => ms


section general
variable [AddCommMonoid α]

theorem sumL_eq_sum (l : List α) : sumL l = l.sum := rfl

theorem cellOr0_eq (t : Table α) (o s : Id) :
    cellOr0 t o s = match t.row? o with
      | some v => valOr0 t.samp v s
      | none => 0 := by
  unfold cellOr0 Table.cell?
  cases t.row? o <;> rfl

theorem cellOr0_of_not_obs (t : Table α) (o s : Id) (h : o ∉ t.obs) : cellOr0 t o s = 0 := by
  rw [cellOr0_eq]
  have : t.row? o = none := lookupBy_eq_none _ _ _ h
  rw [this]

theorem cellOr0_of_not_samp (t : Table α) (o s : Id) (h : s ∉ t.samp) : cellOr0 t o s = 0 := by
  rw [cellOr0_eq]
  cases t.row? o with
  | none => rfl
  | some v => simp only [valOr0, lookupBy_eq_none _ _ _ h, Option.getD_none]

theorem mergeRow_spec (a b : Table α) (ns : List Id) (o : Id) :
    mergeRow a b ns o = ns.map (fun s => cellOr0 a o s + cellOr0 b o s) := by
  unfold mergeRow
  apply List.ext_getElem?
  intro n
  simp only [cellOr0_eq]
  cases a.row? o <;> cases b.row? o <;> simp

/-- the table the general path builds once both new orders are non-empty -/
def generalTable (fs fo : MdF) (ms mo : Mode) (a b : Table α) : Table α :=
  let ns := newOrder ms a.samp b.samp
  let no := newOrder mo a.obs b.obs
  { obs := no, samp := ns, rows := no.map (mergeRow a b ns),
    omd := castMd (mdList (applyF fo) a b .obs no),
    smd := castMd (mdList (applyF fs) a b .samp ns), ttype := none }

theorem generalMerge_eq (fs fo : MdF) (ms mo : Mode) (a b : Table α) :
    generalMerge fs fo ms mo a b =
      if (newOrder ms a.samp b.samp).isEmpty then .error .tableException
      else if (newOrder mo a.obs b.obs).isEmpty then .error .tableException
      else .ok (generalTable fs fo ms mo a b) := rfl

theorem general_cell (fs fo : MdF) (ms mo : Mode) (a b : Table α) (o s : Id)
    (ho : o ∈ (generalTable fs fo ms mo a b).obs) (hs : s ∈ (generalTable fs fo ms mo a b).samp) :
    (generalTable fs fo ms mo a b).cell? o s = some (cellOr0 a o s + cellOr0 b o s) := by
  unfold generalTable at ho hs ⊢
  simp only at ho hs
  simp only [Table.cell?, Table.row?, lookupBy_map, if_pos ho, Option.bind_some, mergeRow_spec, if_pos hs]

theorem castMd_length (l : List (Option Md)) (m : List Md) (h : castMd l = some m) : m.length = l.length := by
  unfold castMd at h
  split at h
  · cases h
  · cases h; simp

theorem mdOf_castMd (ids : List Id) (g : Id → Option Md) (id : Id) :
    (castMd (ids.map g)).bind (fun m => lookupBy ids m id) =
      if ids.all (fun i => (canon (g i)).isEmpty) then none
      else if id ∈ ids then some (canon (g id)) else none := by
  unfold castMd
  rw [List.all_map]
  by_cases h : ids.all ((fun m => (canon m).isEmpty) ∘ g) = true
  · have h' : ids.all (fun i => (canon (g i)).isEmpty) = true := h
    rw [if_pos h, if_pos h']; rfl
  · have h' : ¬ ids.all (fun i => (canon (g i)).isEmpty) = true := h
    rw [if_neg h, if_neg h', Option.bind_some, List.map_map, lookupBy_map]
    rfl

/-- what the result's metadata is, ID by ID, on the general path -/
theorem general_md (fs fo : MdF) (ms mo : Mode) (a b : Table α) (ax : Axis) (id : Id) :
    (generalTable fs fo ms mo a b).mdOf? ax id =
      let f := applyF (fOf fs fo ax)
      let ids := (generalTable fs fo ms mo a b).ids ax
      if ids.all (fun i => (canon (f (a.mdOf? ax i) (b.mdOf? ax i))).isEmpty) then none
      else if id ∈ ids then some (canon (f (a.mdOf? ax id) (b.mdOf? ax id))) else none := by
  cases ax <;>
    simp only [Table.mdOf?, Table.md, Table.ids, generalTable, mdList, fOf] <;>
    exact mdOf_castMd _ _ _

theorem general_wf (fs fo : MdF) (ms mo : Mode) (a b : Table α) :
    (generalTable fs fo ms mo a b).WF := by
  refine ⟨by simp [generalTable], ?_, ?_, ?_⟩
  · intro r hr
    simp only [generalTable, List.mem_map] at hr
    obtain ⟨o, _, rfl⟩ := hr
    simp [generalTable, mergeRow_spec]
  · intro m hm
    have := castMd_length _ _ hm
    simpa [generalTable, mdList] using this
  · intro m hm
    have := castMd_length _ _ hm
    simpa [generalTable, mdList] using this

end general

/-! ### the fast path -/

section fast
variable [AddCommMonoid α] [DecidableEq α]

theorem insertId_perm (x : Id) (l : List Id) : (insertId x l).Perm (x :: l) := by
  induction l with
  | nil => exact List.Perm.refl _
  | cons y ys ih =>
    unfold insertId
    split
    · exact List.Perm.refl _
    · exact (List.Perm.cons y ih).trans (List.Perm.swap x y ys)

theorem sortIds_perm (l : List Id) : (sortIds l).Perm l := by
  induction l with
  | nil => exact List.Perm.refl _
  | cons x xs ih =>
    unfold sortIds
    exact (insertId_perm x _).trans (List.Perm.cons x ih)

theorem mem_globalIds (ts : List (Table α)) (ax : Axis) (id : Id) :
    id ∈ globalIds ts ax ↔ ∃ t ∈ ts, id ∈ t.ids ax := by
  unfold globalIds
  rw [(sortIds_perm _).mem_iff, mem_unionAux]
  simp

theorem nodup_globalIds (ts : List (Table α)) (ax : Axis) : (globalIds ts ax).Nodup := by
  unfold globalIds
  rw [(sortIds_perm _).nodup_iff]
  exact nodup_unionAux _ _

theorem cellSum_nil (i j : Nat) : cellSum ([] : List (Nat × Nat × α)) i j = 0 := rfl

theorem cellSum_cons (t : Nat × Nat × α) (l : List (Nat × Nat × α)) (i j : Nat) :
    cellSum (t :: l) i j = (if t.1 = i ∧ t.2.1 = j then t.2.2 else 0) + cellSum l i j := by
  unfold cellSum
  by_cases h : t.1 = i ∧ t.2.1 = j
  · simp [List.filterMap_cons, h, sumL]
  · simp [List.filterMap_cons, h, sumL]

theorem cellSum_append (l1 l2 : List (Nat × Nat × α)) (i j : Nat) :
    cellSum (l1 ++ l2) i j = cellSum l1 i j + cellSum l2 i j := by
  induction l1 with
  | nil => simp [cellSum_nil]
  | cons t l ih => rw [List.cons_append, cellSum_cons, cellSum_cons, ih, add_assoc]

theorem cellSum_flatMap {β : Type} (ts : List β) (F : β → List (Nat × Nat × α)) (i j : Nat) :
    cellSum (ts.flatMap F) i j = (ts.map (fun t => cellSum (F t) i j)).sum := by
  induction ts with
  | nil => simp [cellSum_nil]
  | cons t ts ih => simp [List.flatMap_cons, cellSum_append, ih]

theorem valOr0_cons (s' : Id) (ss : List Id) (v : α) (vs : List α) (s : Id) :
    valOr0 (s' :: ss) (v :: vs) s = if s' = s then v else valOr0 ss vs s := by
  unfold valOr0
  rw [lookupBy_cons]
  split <;> rfl

theorem valOr0_of_not_mem (ss : List Id) (vs : List α) (s : Id) (h : s ∉ ss) : valOr0 ss vs s = 0 := by
  unfold valOr0; rw [lookupBy_eq_none _ _ _ h]; rfl

theorem cellSum_rowTriples (gs : List Id) (i i' : Nat) (ss : List Id) (vs : List α) (s : Id)
    (hs : s ∈ gs) (hss : ∀ x ∈ ss, x ∈ gs) (hn : ss.Nodup) :
    cellSum (rowTriples gs i' ss vs) i (gs.idxOf s) = if i' = i then valOr0 ss vs s else 0 := by
  induction ss generalizing vs with
  | nil => simp [rowTriples, cellSum_nil, valOr0, lookupBy]
  | cons s' ss ih =>
    cases vs with
    | nil => simp [rowTriples, cellSum_nil, valOr0, lookupBy]
    | cons v vs =>
      have hn' := List.nodup_cons.mp hn
      have ih' := ih vs (fun x hx => hss x (List.mem_cons_of_mem _ hx)) hn'.2
      rw [valOr0_cons]
      unfold rowTriples
      by_cases hs' : s' = s
      · subst hs'
        have hz : valOr0 ss vs s' = 0 := valOr0_of_not_mem _ _ _ hn'.1
        rw [hz] at ih'
        simp only [if_true]
        have ih0 : cellSum (rowTriples gs i' ss vs) i (List.idxOf s' gs) = 0 := by
          rw [ih']; split <;> rfl
        by_cases hv : v = 0
        · simp [hv, ih0]
        · simp only [hv, if_false, cellSum_cons, ih0, add_zero, and_true]
      · have hidx : ¬ (List.idxOf s' gs = List.idxOf s gs) := by
          intro e
          exact hs' ((List.idxOf_inj (hss s' (by simp))).mp e)
        simp only [if_neg hs']
        by_cases hv : v = 0
        · simp only [hv, if_true]; exact ih'
        · simp only [hv, if_false, cellSum_cons, hidx, and_false, if_false, zero_add]; exact ih'

theorem cellSum_gridTriples (go gs samp : List Id) (os : List Id) (rs : List (List α)) (o s : Id)
    (ho : o ∈ go) (hs : s ∈ gs) (hos : ∀ x ∈ os, x ∈ go) (hsamp : ∀ x ∈ samp, x ∈ gs)
    (hn : os.Nodup) (hns : samp.Nodup) :
    cellSum (gridTriples go gs samp os rs) (go.idxOf o) (gs.idxOf s) =
      match lookupBy os rs o with
      | some v => valOr0 samp v s
      | none => 0 := by
  induction os generalizing rs with
  | nil => simp [gridTriples, cellSum_nil, lookupBy]
  | cons o' os ih =>
    cases rs with
    | nil => simp [gridTriples, cellSum_nil, lookupBy]
    | cons r rs =>
      have hn' := List.nodup_cons.mp hn
      have ih' := ih rs (fun x hx => hos x (List.mem_cons_of_mem _ hx)) hn'.2
      unfold gridTriples
      rw [cellSum_append, cellSum_rowTriples gs _ _ samp r s hs hsamp hns, ih', lookupBy_cons]
      by_cases e : o' = o
      · subst e
        rw [lookupBy_eq_none _ _ _ hn'.1]
        simp
      · have hidx : ¬ (List.idxOf o' go = List.idxOf o go) := by
          intro h
          exact e ((List.idxOf_inj (hos o' (by simp))).mp h)
        simp [hidx, e]

theorem cellSum_triples (go gs : List Id) (t : Table α) (o s : Id) (ho : o ∈ go) (hs : s ∈ gs)
    (hos : ∀ x ∈ t.obs, x ∈ go) (hss : ∀ x ∈ t.samp, x ∈ gs) (hn : t.obs.Nodup) (hns : t.samp.Nodup) :
    cellSum (triples go gs t) (go.idxOf o) (gs.idxOf s) = cellOr0 t o s := by
  unfold triples
  rw [cellSum_gridTriples go gs t.samp t.obs t.rows o s ho hs hos hss hn hns, cellOr0_eq]
  rfl

/-- every cell of the fast-path result is the sum over the operands (absent = 0) -/
theorem fast_cell (ts : List (Table α)) (hn : ∀ t ∈ ts, t.obs.Nodup ∧ t.samp.Nodup) (o s : Id)
    (ho : o ∈ (fastMerge ts).obs) (hs : s ∈ (fastMerge ts).samp) :
    (fastMerge ts).cell? o s = some ((ts.map (fun t => cellOr0 t o s)).sum) := by
  unfold fastMerge at ho hs ⊢
  simp only at ho hs
  simp only [Table.cell?, Table.row?]
  rw [lookupBy_range_map _ _ _ ho, Option.bind_some, lookupBy_range_map _ _ _ hs, cellSum_flatMap]
  congr 2
  apply List.map_congr_left
  intro t ht
  exact cellSum_triples _ _ t o s ho hs
    (fun x hx => (mem_globalIds ts .obs x).mpr ⟨t, ht, hx⟩)
    (fun x hx => (mem_globalIds ts .samp x).mpr ⟨t, ht, hx⟩) (hn t ht).1 (hn t ht).2

theorem fast_wf (ts : List (Table α)) : (fastMerge ts).WF := by
  refine ⟨by simp [fastMerge], ?_, by simp [fastMerge], by simp [fastMerge]⟩
  intro r hr
  simp only [fastMerge, List.mem_map] at hr
  obtain ⟨i, _, rfl⟩ := hr
  simp [fastMerge]

end fast

/-! ### totals -/

section totals
variable [AddCommMonoid α]

/-- operand well-formedness: rectangular grid, metadata one entry per ID, distinct IDs on both axes -/
def OpWF (t : Table α) : Prop := t.WF ∧ t.obs.Nodup ∧ t.samp.Nodup

theorem total_eq (t : Table α) : total t = (t.rows.map List.sum).sum := rfl

theorem row_sum_eq (samp : List Id) (row : List α) (hn : samp.Nodup) (hl : samp.length = row.length) :
    (samp.map (fun s => valOr0 samp row s)).sum = row.sum := by
  have h := map_lookupBy_self samp row hn hl
  have h2 : samp.map (fun s => valOr0 samp row s) = row := by
    have := congrArg (List.map (fun x : Option α => x.getD 0)) h
    simpa [List.map_map, valOr0, Function.comp_def] using this
  rw [h2]

theorem total_as_sum (t : Table α) (h : OpWF t) :
    total t = (t.obs.map (fun o => (t.samp.map (fun s => cellOr0 t o s)).sum)).sum := by
  obtain ⟨⟨hlen, hrows, _, _⟩, hno, hns⟩ := h
  let G : Option (List α) → α := fun r? =>
    (t.samp.map (fun s => match r? with | some v => valOr0 t.samp v s | none => 0)).sum
  have h1 : (fun o => (t.samp.map (fun s => cellOr0 t o s)).sum) = fun o => G (lookupBy t.obs t.rows o) := by
    funext o
    simp only [G, cellOr0_eq, Table.row?]
  have h2 : t.obs.map (fun o => G (lookupBy t.obs t.rows o)) =
      (t.obs.map (fun o => lookupBy t.obs t.rows o)).map G := by
    rw [List.map_map]; rfl
  rw [h1, h2, map_lookupBy_self t.obs t.rows hno hlen.symm, List.map_map, total_eq]
  congr 1
  apply List.map_congr_left
  intro r hr
  simp only [Function.comp, G]
  exact (row_sum_eq t.samp r hns (hrows r hr).symm).symm

theorem total_finset (t : Table α) (h : OpWF t) (So Ss : Finset Id)
    (ho : ∀ x ∈ t.obs, x ∈ So) (hs : ∀ x ∈ t.samp, x ∈ Ss) :
    total t = ∑ o ∈ So, ∑ s ∈ Ss, cellOr0 t o s := by
  rw [total_as_sum t h, ← List.sum_toFinset _ h.2.1]
  rw [← Finset.sum_subset (s₁ := t.obs.toFinset) (s₂ := So)]
  · apply Finset.sum_congr rfl
    intro o _
    rw [← List.sum_toFinset _ h.2.2]
    apply Finset.sum_subset
    · intro x hx; exact hs x (List.mem_toFinset.mp hx)
    · intro x _ hx
      exact cellOr0_of_not_samp t o x (fun hm => hx (List.mem_toFinset.mpr hm))
  · intro x hx; exact ho x (List.mem_toFinset.mp hx)
  · intro o _ hno
    apply Finset.sum_eq_zero
    intro s _
    exact cellOr0_of_not_obs t o s (fun hm => hno (List.mem_toFinset.mpr hm))

theorem sum_sum_listsum {β : Type} (ts : List β) (f : β → Id → Id → α) (So Ss : Finset Id) :
    ∑ o ∈ So, ∑ s ∈ Ss, (ts.map (fun t => f t o s)).sum =
      (ts.map (fun t => ∑ o ∈ So, ∑ s ∈ Ss, f t o s)).sum := by
  induction ts with
  | nil => simp
  | cons t ts ih =>
    simp only [List.map_cons, List.sum_cons, Finset.sum_add_distrib, ih]

/-- if every cell of `r` is the sum of the operands' values and `r`'s IDs cover theirs, the grand
total is the sum of the operands' totals -/
theorem total_of_cells (ts : List (Table α)) (r : Table α) (hr : OpWF r)
    (hts : ∀ t ∈ ts, OpWF t ∧ (∀ x ∈ t.obs, x ∈ r.obs) ∧ (∀ x ∈ t.samp, x ∈ r.samp))
    (hc : ∀ o ∈ r.obs, ∀ s ∈ r.samp, r.cell? o s = some ((ts.map (fun t => cellOr0 t o s)).sum)) :
    total r = (ts.map total).sum := by
  rw [total_finset r hr r.obs.toFinset r.samp.toFinset (fun x hx => List.mem_toFinset.mpr hx)
    (fun x hx => List.mem_toFinset.mpr hx)]
  have h1 : ∑ o ∈ r.obs.toFinset, ∑ s ∈ r.samp.toFinset, cellOr0 r o s =
      ∑ o ∈ r.obs.toFinset, ∑ s ∈ r.samp.toFinset, (ts.map (fun t => cellOr0 t o s)).sum := by
    apply Finset.sum_congr rfl
    intro o ho
    apply Finset.sum_congr rfl
    intro s hs
    unfold cellOr0
    rw [hc o (List.mem_toFinset.mp ho) s (List.mem_toFinset.mp hs)]
    rfl
  rw [h1, sum_sum_listsum]
  congr 1
  apply List.map_congr_left
  intro t ht
  obtain ⟨hw, ho, hs⟩ := hts t ht
  exact (total_finset t hw _ _ (fun x hx => List.mem_toFinset.mpr (ho x hx))
    (fun x hx => List.mem_toFinset.mpr (hs x hx))).symm

end totals

/-! ### the specification of a k-operand merge, by ID -/

section good
variable [AddCommMonoid α] [DecidableEq α]

theorem expMem_union_iff (ax : Axis) (ts : List (Table α)) (id : Id) :
    expMem .union ax ts id = true ↔ ∃ t ∈ ts, id ∈ t.ids ax := by
  simp [expMem, hasId]

theorem expMem_inter_iff (ax : Axis) (ts : List (Table α)) (id : Id) :
    expMem .inter ax ts id = true ↔ ∀ t ∈ ts, id ∈ t.ids ax := by
  simp [expMem, hasId]

theorem lookupBy_mem {β : Type} (ids : List Id) (xs : List β) (id : Id) (x : β)
    (h : lookupBy ids xs id = some x) : x ∈ xs := by
  induction ids generalizing xs with
  | nil => simp [lookupBy] at h
  | cons i is ih =>
    cases xs with
    | nil => simp [lookupBy] at h
    | cons y ys =>
      rw [lookupBy_cons] at h
      by_cases e : i = id
      · rw [if_pos e] at h; cases h; simp
      · rw [if_neg e] at h; exact List.mem_cons_of_mem _ (ih ys h)

theorem cell_some (t : Table α) (h : t.WF) (o s : Id) (ho : o ∈ t.obs) (hs : s ∈ t.samp) :
    t.cell? o s = some (cellOr0 t o s) := by
  obtain ⟨row, hrow⟩ := lookupBy_isSome t.obs t.rows o ho h.1.symm
  have hlen := h.2.1 row (lookupBy_mem _ _ _ _ hrow)
  obtain ⟨x, hx⟩ := lookupBy_isSome t.samp row s hs hlen.symm
  simp [cellOr0, Table.cell?, Table.row?, hrow, hx]

/-- `r` is a correct merge of the operands `ts` (IDs per axis, every cell), with distinct IDs -/
structure Good (ms mo : Mode) (ts : List (Table α)) (r : Table α) : Prop where
  wf : OpWF r
  memO : ∀ id, id ∈ r.obs ↔ expMem mo .obs ts id = true
  memS : ∀ id, id ∈ r.samp ↔ expMem ms .samp ts id = true
  cell : ∀ o ∈ r.obs, ∀ s ∈ r.samp, r.cell? o s = some ((ts.map (fun t => cellOr0 t o s)).sum)

theorem good_single (ms mo : Mode) (a : Table α) (h : OpWF a) : Good ms mo [a] a where
  wf := h
  memO := by intro id; cases mo <;> simp [expMem_union_iff, expMem_inter_iff, Table.ids]
  memS := by intro id; cases ms <;> simp [expMem_union_iff, expMem_inter_iff, Table.ids]
  cell := by
    intro o ho s hs
    rw [cell_some a h.1 o s ho hs]
    simp

theorem good_general (fs fo : MdF) (ms mo : Mode) (a b : Table α) (ha : OpWF a) :
    Good ms mo [a, b] (generalTable fs fo ms mo a b) where
  wf := ⟨general_wf fs fo ms mo a b, nodup_newOrder mo _ _ ha.2.1, nodup_newOrder ms _ _ ha.2.2⟩
  memO := by
    intro id
    show id ∈ newOrder mo a.obs b.obs ↔ _
    rw [mem_newOrder]
    cases mo <;> simp [expMem_union_iff, expMem_inter_iff, Table.ids]
  memS := by
    intro id
    show id ∈ newOrder ms a.samp b.samp ↔ _
    rw [mem_newOrder]
    cases ms <;> simp [expMem_union_iff, expMem_inter_iff, Table.ids]
  cell := by
    intro o ho s hs
    rw [general_cell fs fo ms mo a b o s ho hs]
    simp

theorem good_fast (ts : List (Table α)) (h : ∀ t ∈ ts, OpWF t) :
    Good .union .union ts (fastMerge ts) where
  wf := ⟨fast_wf ts, nodup_globalIds ts .obs, nodup_globalIds ts .samp⟩
  memO := by
    intro id
    show id ∈ globalIds ts .obs ↔ _
    rw [mem_globalIds, expMem_union_iff]
  memS := by
    intro id
    show id ∈ globalIds ts .samp ↔ _
    rw [mem_globalIds, expMem_union_iff]
  cell := by
    intro o ho s hs
    exact fast_cell ts (fun t ht => (h t ht).2) o s ho hs

theorem sum_zero_of_forall {β : Type} (ts : List β) (f : β → α) (h : ∀ t ∈ ts, f t = 0) :
    (ts.map f).sum = 0 := by
  induction ts with
  | nil => rfl
  | cons t ts ih =>
    rw [List.map_cons, List.sum_cons, h t (by simp), ih (fun x hx => h x (List.mem_cons_of_mem _ hx)), add_zero]

/-- the accumulated table stands for the sum of its operands also where it has no cell, provided
an ID missing from it is missing because the axis is a union axis -/
theorem good_cellOr0 (ms mo : Mode) (ts : List (Table α)) (acc : Table α) (hg : Good ms mo ts acc)
    (o s : Id) (ho : mo = .inter → o ∈ acc.obs) (hs : ms = .inter → s ∈ acc.samp) :
    cellOr0 acc o s = (ts.map (fun t => cellOr0 t o s)).sum := by
  by_cases h1 : o ∈ acc.obs
  · by_cases h2 : s ∈ acc.samp
    · have := hg.cell o h1 s h2
      unfold cellOr0 at this ⊢
      rw [this]; rfl
    · rw [cellOr0_of_not_samp acc o s h2]
      symm
      apply sum_zero_of_forall
      intro t ht
      apply cellOr0_of_not_samp
      intro hm
      cases ms with
      | inter => exact h2 (hs rfl)
      | union => exact h2 ((hg.memS s).mpr ((expMem_union_iff _ _ _).mpr ⟨t, ht, hm⟩))
  · rw [cellOr0_of_not_obs acc o s h1]
    symm
    apply sum_zero_of_forall
    intro t ht
    apply cellOr0_of_not_obs
    intro hm
    cases mo with
    | inter => exact h1 (ho rfl)
    | union => exact h1 ((hg.memO o).mpr ((expMem_union_iff _ _ _).mpr ⟨t, ht, hm⟩))

theorem expMem_append_single (m : Mode) (ax : Axis) (ts : List (Table α)) (acc t : Table α) (id : Id)
    (hacc : id ∈ acc.ids ax ↔ expMem m ax ts id = true) :
    expMem m ax [acc, t] id = expMem m ax (ts ++ [t]) id := by
  rw [Bool.eq_iff_iff]
  cases m
  · rw [expMem_union_iff, expMem_union_iff]
    rw [expMem_union_iff] at hacc
    constructor
    · rintro ⟨x, hx, hid⟩
      simp only [List.mem_cons, List.not_mem_nil, or_false] at hx
      rcases hx with rfl | rfl
      · obtain ⟨y, hy, hy2⟩ := hacc.mp hid
        exact ⟨y, List.mem_append_left _ hy, hy2⟩
      · exact ⟨x, by simp, hid⟩
    · rintro ⟨x, hx, hid⟩
      rcases List.mem_append.mp hx with hx | hx
      · exact ⟨acc, by simp, hacc.mpr ⟨x, hx, hid⟩⟩
      · simp only [List.mem_cons, List.not_mem_nil, or_false] at hx
        subst hx
        exact ⟨x, by simp, hid⟩
  · rw [expMem_inter_iff, expMem_inter_iff]
    rw [expMem_inter_iff] at hacc
    constructor
    · intro h x hx
      rcases List.mem_append.mp hx with hx | hx
      · exact hacc.mp (h acc (by simp)) x hx
      · simp only [List.mem_cons, List.not_mem_nil, or_false] at hx
        subst hx
        exact h x (by simp)
    · intro h x hx
      simp only [List.mem_cons, List.not_mem_nil, or_false] at hx
      rcases hx with rfl | rfl
      · exact hacc.mpr (fun y hy => h y (List.mem_append_left _ hy))
      · exact h x (by simp)

/-- one more operand merged into a correct accumulated table gives a correct merge of all -/
theorem good_combine (ms mo : Mode) (ts : List (Table α)) (acc t r : Table α)
    (hg : Good ms mo ts acc) (hr : Good ms mo [acc, t] r) : Good ms mo (ts ++ [t]) r where
  wf := hr.wf
  memO := by
    intro id
    rw [hr.memO, expMem_append_single mo .obs ts acc t id (hg.memO id)]
  memS := by
    intro id
    rw [hr.memS, expMem_append_single ms .samp ts acc t id (hg.memS id)]
  cell := by
    intro o ho s hs
    rw [hr.cell o ho s hs]
    have ho' : mo = .inter → o ∈ acc.obs := by
      intro e
      have := (hr.memO o).mp ho
      rw [e, expMem_inter_iff] at this
      exact this acc (by simp)
    have hs' : ms = .inter → s ∈ acc.samp := by
      intro e
      have := (hr.memS s).mp hs
      rw [e, expMem_inter_iff] at this
      exact this acc (by simp)
    simp [good_cellOr0 ms mo ts acc hg o s ho' hs']

end good

/-! ### path selection and the pairwise fold -/

section fold
variable [AddCommMonoid α] [DecidableEq α]

theorem fastOk_modes {fs fo : MdF} {ms mo : Mode} {ts : List (Table α)}
    (h : fastOk fs fo ms mo ts = true) : ms = .union ∧ mo = .union := by
  unfold fastOk at h
  simp only [Bool.and_eq_true, beq_iff_eq] at h
  exact h.2

theorem merge2_ok_cases {fs fo : MdF} {ms mo : Mode} {a b r : Table α}
    (h : merge2 fs fo ms mo a b = .ok r) :
    (fastOk fs fo ms mo [a, b] = true ∧ r = fastMerge [a, b]) ∨
    (fastOk fs fo ms mo [a, b] = false ∧ newOrder ms a.samp b.samp ≠ [] ∧
      newOrder mo a.obs b.obs ≠ [] ∧ r = generalTable fs fo ms mo a b) := by
  unfold merge2 at h
  by_cases hf : fastOk fs fo ms mo [a, b] = true
  · rw [if_pos hf] at h
    exact Or.inl ⟨hf, (Except.ok.inj h).symm⟩
  · rw [if_neg hf, generalMerge_eq] at h
    right
    refine ⟨by simpa using hf, ?_⟩
    by_cases h1 : (newOrder ms a.samp b.samp).isEmpty = true
    · rw [if_pos h1] at h; cases h
    · rw [if_neg h1] at h
      by_cases h2 : (newOrder mo a.obs b.obs).isEmpty = true
      · rw [if_pos h2] at h; cases h
      · rw [if_neg h2] at h
        exact ⟨by simpa using h1, by simpa using h2, (Except.ok.inj h).symm⟩

theorem merge2_error_cases {fs fo : MdF} {ms mo : Mode} {a b : Table α} {e : Err}
    (h : merge2 fs fo ms mo a b = .error e) :
    e = .tableException ∧ (newOrder ms a.samp b.samp = [] ∨ newOrder mo a.obs b.obs = []) := by
  unfold merge2 at h
  by_cases hf : fastOk fs fo ms mo [a, b] = true
  · rw [if_pos hf] at h; cases h
  · rw [if_neg hf, generalMerge_eq] at h
    by_cases h1 : (newOrder ms a.samp b.samp).isEmpty = true
    · rw [if_pos h1] at h
      exact ⟨(Except.error.inj h).symm, Or.inl (by simpa using h1)⟩
    · rw [if_neg h1] at h
      by_cases h2 : (newOrder mo a.obs b.obs).isEmpty = true
      · rw [if_pos h2] at h
        exact ⟨(Except.error.inj h).symm, Or.inr (by simpa using h2)⟩
      · rw [if_neg h2] at h; cases h

/-- one pairwise step is a correct merge of its two operands; an intersection axis is not empty -/
theorem merge2_good {fs fo : MdF} {ms mo : Mode} {a b r : Table α} (ha : OpWF a) (hb : OpWF b)
    (h : merge2 fs fo ms mo a b = .ok r) :
    Good ms mo [a, b] r ∧ (ms = .inter → r.samp ≠ []) ∧ (mo = .inter → r.obs ≠ []) := by
  rcases merge2_ok_cases h with ⟨hf, rfl⟩ | ⟨_, h1, h2, rfl⟩
  · obtain ⟨rfl, rfl⟩ := fastOk_modes hf
    refine ⟨good_fast [a, b] ?_, ⟨fun e => (by cases e), fun e => (by cases e)⟩⟩
    intro t ht
    simp only [List.mem_cons, List.not_mem_nil, or_false] at ht
    rcases ht with rfl | rfl <;> assumption
  · exact ⟨good_general fs fo ms mo a b ha, fun _ => h1, fun _ => h2⟩

theorem fold_good (fs fo : MdF) (ms mo : Mode) :
    ∀ (rest ts : List (Table α)) (acc r : Table α), Good ms mo ts acc → (∀ t ∈ rest, OpWF t) →
      foldMerge fs fo ms mo acc rest = .ok r →
      Good ms mo (ts ++ rest) r ∧
        (rest ≠ [] → (ms = .inter → r.samp ≠ []) ∧ (mo = .inter → r.obs ≠ [])) := by
  intro rest
  induction rest with
  | nil =>
    intro ts acc r hg _ h
    simp only [foldMerge] at h
    cases h
    exact ⟨by simpa using hg, fun h => absurd rfl h⟩
  | cons t rest ih =>
    intro ts acc r hg hwf h
    simp only [foldMerge] at h
    cases hm : merge2 fs fo ms mo acc t with
    | error e => rw [hm] at h; cases h
    | ok r1 =>
      rw [hm] at h
      obtain ⟨hg1, hne1⟩ := merge2_good hg.wf (hwf t (by simp)) hm
      have hg2 := good_combine ms mo ts acc t r1 hg hg1
      obtain ⟨hg3, hne3⟩ := ih (ts ++ [t]) r1 r hg2 (fun x hx => hwf x (List.mem_cons_of_mem _ hx)) h
      refine ⟨by simpa using hg3, fun _ => ?_⟩
      by_cases hr : rest = []
      · subst hr
        simp only [foldMerge] at h
        cases h
        exact hne1
      · exact hne3 hr

/-- when the fold refuses, it is a `TableException` raised by a step whose axis came out empty -/
theorem fold_error (fs fo : MdF) (ms mo : Mode) :
    ∀ (rest ts : List (Table α)) (acc : Table α) (e : Err), Good ms mo ts acc → (∀ t ∈ rest, OpWF t) →
      foldMerge fs fo ms mo acc rest = .error e →
      e = .tableException ∧ ∃ (pre : List (Table α)) (t : Table α) (post : List (Table α)) (acc' : Table α),
        rest = pre ++ t :: post ∧ Good ms mo (ts ++ pre) acc' ∧
        (newOrder ms acc'.samp t.samp = [] ∨ newOrder mo acc'.obs t.obs = []) := by
  intro rest
  induction rest with
  | nil => intro ts acc e _ _ h; simp only [foldMerge] at h; cases h
  | cons t rest ih =>
    intro ts acc e hg hwf h
    simp only [foldMerge] at h
    cases hm : merge2 fs fo ms mo acc t with
    | error e1 =>
      rw [hm] at h
      cases h
      obtain ⟨he, hemp⟩ := merge2_error_cases hm
      exact ⟨he, [], t, rest, acc, rfl, by simpa using hg, hemp⟩
    | ok r1 =>
      rw [hm] at h
      obtain ⟨hg1, _⟩ := merge2_good hg.wf (hwf t (by simp)) hm
      have hg2 := good_combine ms mo ts acc t r1 hg hg1
      obtain ⟨he, pre, t', post, acc', hrest, hg', hemp⟩ :=
        ih (ts ++ [t]) r1 e hg2 (fun x hx => hwf x (List.mem_cons_of_mem _ hx)) h
      exact ⟨he, t :: pre, t', post, acc', by simp [hrest], by simpa using hg', hemp⟩

end fold

/-! ### metadata along the fold -/

section md
variable [AddCommMonoid α] [DecidableEq α]

/-- domain hypothesis on a metadata function: "no metadata, no metadata" gives no metadata
(`None` or an empty mapping); `None` passed as the function satisfies it -/
def Neutral (f : MdF) : Prop := canon (applyF f none none) = []

theorem neutral_none : Neutral none := rfl
theorem neutral_preferSelf : Neutral (some preferSelf) := rfl

/-- the accumulated table and the specification's per-axis view agree, ID by ID -/
def MdRel (ax : Axis) (acc : Table α) (v : AxV) : Prop :=
  (∀ id, id ∈ acc.ids ax ↔ id ∈ v.ids) ∧ (∀ id, acc.mdOf? ax id = v.md id)

theorem mdRel_ofTable (ax : Axis) (a : Table α) : MdRel ax a (AxV.ofTable a ax) :=
  ⟨fun _ => Iff.rfl, fun _ => rfl⟩

theorem all_congr_mem {l1 l2 : List Id} (p : Id → Bool) (h : ∀ x, x ∈ l1 ↔ x ∈ l2) :
    l1.all p = l2.all p := by
  rw [Bool.eq_iff_iff, List.all_eq_true, List.all_eq_true]
  exact ⟨fun hp x hx => hp x ((h x).mpr hx), fun hp x hx => hp x ((h x).mp hx)⟩

theorem newOrder_mem_congr (m : Mode) {a a' b : List Id} (h : ∀ x, x ∈ a ↔ x ∈ a') (x : Id) :
    x ∈ newOrder m a b ↔ x ∈ newOrder m a' b := by
  rw [mem_newOrder, mem_newOrder]
  cases m <;> simp [h x]

theorem generalTable_ids (fs fo : MdF) (ms mo : Mode) (a b : Table α) (ax : Axis) :
    (generalTable fs fo ms mo a b).ids ax = newOrder (mOf ms mo ax) (a.ids ax) (b.ids ax) := by
  cases ax <;> rfl

/-- what a step of the specification says about one ID (the entries are computed once per step) -/
theorem AxV.step_md (f : MdFun) (m : Mode) (ax : Axis) (v : AxV) (t : Table α) (id : Id) :
    (AxV.step f m ax v t).md id =
      if (newOrder m v.ids (t.ids ax)).all (fun i => (canon (f (v.md i) (t.mdOf? ax i))).isEmpty) then none
      else if id ∈ newOrder m v.ids (t.ids ax) then some (canon (f (v.md id) (t.mdOf? ax id))) else none := by
  simp only [AxV.step, List.all_map, lookupBy_map]
  have hc : ((fun e => (canon e).isEmpty) ∘ fun i => f (v.md i) (t.mdOf? ax i)) =
      fun i => (canon (f (v.md i) (t.mdOf? ax i))).isEmpty := rfl
  rw [hc]
  split
  · rfl
  · split <;> rfl

theorem AxV.step_ids (f : MdFun) (m : Mode) (ax : Axis) (v : AxV) (t : Table α) :
    (AxV.step f m ax v t).ids = newOrder m v.ids (t.ids ax) := rfl

theorem mdRel_general (fs fo : MdF) (ms mo : Mode) (ax : Axis) (acc t : Table α) (v : AxV)
    (h : MdRel ax acc v) :
    MdRel ax (generalTable fs fo ms mo acc t)
      (AxV.step (applyF (fOf fs fo ax)) (mOf ms mo ax) ax v t) := by
  have hids : ∀ x, x ∈ (generalTable fs fo ms mo acc t).ids ax ↔
      x ∈ newOrder (mOf ms mo ax) v.ids (t.ids ax) := by
    intro x
    rw [generalTable_ids]
    exact newOrder_mem_congr _ h.1 x
  refine ⟨hids, ?_⟩
  intro id
  rw [general_md]
  simp only [AxV.step_md, h.2]
  rw [all_congr_mem _ hids]
  by_cases hall : (newOrder (mOf ms mo ax) v.ids (t.ids ax)).all
      (fun i => (canon (applyF (fOf fs fo ax) (v.md i) (t.mdOf? ax i))).isEmpty) = true
  · rw [if_pos hall, if_pos hall]
  · rw [if_neg hall, if_neg hall]
    by_cases hm : id ∈ newOrder (mOf ms mo ax) v.ids (t.ids ax)
    · rw [if_pos hm, if_pos ((hids id).mpr hm)]
    · rw [if_neg hm, if_neg (fun h' => hm ((hids id).mp h'))]

theorem mdOf_of_noMd (t : Table α) (h : hasNoMd t = true) (ax : Axis) (id : Id) : t.mdOf? ax id = none := by
  unfold hasNoMd at h
  simp only [Bool.and_eq_true, Option.isNone_iff_eq_none] at h
  cases ax <;> simp [Table.mdOf?, Table.md, h.1, h.2]

theorem fastMerge_mdOf (ts : List (Table α)) (ax : Axis) (id : Id) : (fastMerge ts).mdOf? ax id = none := by
  cases ax <;> rfl

theorem fastMerge_ids_mem (ts : List (Table α)) (ax : Axis) (id : Id) :
    id ∈ (fastMerge ts).ids ax ↔ ∃ t ∈ ts, id ∈ t.ids ax := by
  cases ax <;> exact mem_globalIds ts _ id

/-- whenever the fast path is chosen, the merged entry of every ID is "no metadata" -/
theorem fast_entries_empty (fs fo : MdF) (ts : List (Table α)) (hf : fastOk fs fo .union .union ts = true)
    (ax : Axis) (hn : Neutral (fOf fs fo ax)) (x y : Option Md)
    (hx : (ts.all hasNoMd = true) → x = none) (hy : (ts.all hasNoMd = true) → y = none) :
    canon (applyF (fOf fs fo ax) x y) = [] := by
  unfold fastOk at hf
  simp only [Bool.and_eq_true, Bool.or_eq_true] at hf
  rcases hf.1 with h | h
  · rw [hx h, hy h]; exact hn
  · simp only [Option.isNone_iff_eq_none] at h
    cases ax <;> simp [fOf, h.1, h.2, applyF, canon]

theorem mdRel_fast (fs fo : MdF) (ax : Axis) (acc t : Table α) (v : AxV) (h : MdRel ax acc v)
    (hf : fastOk fs fo .union .union [acc, t] = true) (hn : Neutral (fOf fs fo ax)) :
    MdRel ax (fastMerge [acc, t]) (AxV.step (applyF (fOf fs fo ax)) .union ax v t) := by
  have hids : ∀ x, x ∈ (fastMerge [acc, t]).ids ax ↔ x ∈ newOrder .union v.ids (t.ids ax) := by
    intro x
    rw [fastMerge_ids_mem, mem_newOrder]
    simp [h.1 x]
  refine ⟨hids, ?_⟩
  intro id
  rw [fastMerge_mdOf]
  simp only [AxV.step_md]
  have hall : (newOrder .union v.ids (t.ids ax)).all
      (fun i => (canon (applyF (fOf fs fo ax) (v.md i) (t.mdOf? ax i))).isEmpty) = true := by
    rw [List.all_eq_true]
    intro i _
    rw [fast_entries_empty fs fo [acc, t] hf ax hn]
    · rfl
    · intro hno
      rw [← h.2 i]
      exact mdOf_of_noMd acc (by simp at hno; exact hno.1) ax i
    · intro hno
      exact mdOf_of_noMd t (by simp at hno; exact hno.2) ax i
  rw [if_pos hall]

theorem fold_md (fs fo : MdF) (ms mo : Mode) (ax : Axis) (hn : Neutral (fOf fs fo ax)) :
    ∀ (rest : List (Table α)) (acc r : Table α) (v : AxV), MdRel ax acc v →
      foldMerge fs fo ms mo acc rest = .ok r →
      MdRel ax r (rest.foldl (AxV.step (applyF (fOf fs fo ax)) (mOf ms mo ax) ax) v) := by
  intro rest
  induction rest with
  | nil =>
    intro acc r v h hm
    simp only [foldMerge] at hm
    cases hm
    exact h
  | cons t rest ih =>
    intro acc r v h hm
    simp only [foldMerge] at hm
    cases h2 : merge2 fs fo ms mo acc t with
    | error e => rw [h2] at hm; cases hm
    | ok r1 =>
      rw [h2] at hm
      rw [List.foldl_cons]
      apply ih r1 r _ _ hm
      rcases merge2_ok_cases h2 with ⟨hf, rfl⟩ | ⟨_, _, _, rfl⟩
      · obtain ⟨rfl, rfl⟩ := fastOk_modes hf
        have : mOf Mode.union Mode.union ax = .union := by cases ax <;> rfl
        rw [this]
        exact mdRel_fast fs fo ax acc t v h hf hn
      · exact mdRel_general fs fo ms mo ax acc t v h

/-- the specification's view stays "no metadata" when every merged entry is empty -/
theorem specFold_none (f : MdFun) (m : Mode) (ax : Axis) :
    ∀ (others : List (Table α)) (v : AxV), (∀ id, v.md id = none) →
      (∀ t ∈ others, ∀ id, canon (f none (t.mdOf? ax id)) = []) →
      ∀ id, (others.foldl (AxV.step f m ax) v).md id = none := by
  intro others
  induction others with
  | nil => intro v hv _ id; exact hv id
  | cons t rest ih =>
    intro v hv hf id
    rw [List.foldl_cons]
    apply ih
    · intro id'
      simp only [AxV.step_md]
      rw [if_pos]
      rw [List.all_eq_true]
      intro i _
      rw [hv i, hf t (by simp) i]
      rfl
    · intro t' ht'; exact hf t' (List.mem_cons_of_mem _ ht')

end md

/-! ### from the by-ID specification to the Boolean predicate -/

section verdict
variable [AddCommMonoid α] [DecidableEq α]

theorem wf_iff_wfb (t : Table α) : t.WF ↔ t.wfb = true := by
  unfold Table.WF Table.wfb
  cases t.omd <;> cases t.smd <;> simp [and_assoc]

/-- decidable form of operand well-formedness -/
def opWFb (t : Table α) : Bool := t.wfb && decide t.obs.Nodup && decide t.samp.Nodup

theorem opWF_of_b (t : Table α) (h : opWFb t = true) : OpWF t := by
  unfold opWFb at h
  simp only [Bool.and_eq_true, decide_eq_true_eq] at h
  exact ⟨(wf_iff_wfb t).mpr h.1.1, h.1.2, h.2⟩

theorem Good.mem {ms mo : Mode} {ts : List (Table α)} {r : Table α} (hg : Good ms mo ts r) (ax : Axis)
    (id : Id) : id ∈ r.ids ax ↔ expMem (mOf ms mo ax) ax ts id = true := by
  cases ax
  · exact hg.memO id
  · exact hg.memS id

theorem idsOk_of_mem (m : Mode) (ax : Axis) (ts : List (Table α)) (r : List Id) (hn : r.Nodup)
    (hm : ∀ id, id ∈ r ↔ expMem m ax ts id = true) : idsOk m ax ts r = true := by
  unfold idsOk
  simp only [Bool.and_eq_true, decide_eq_true_eq, List.all_eq_true, Bool.or_eq_true, Bool.not_eq_true']
  refine ⟨⟨hn, fun id hid => (hm id).mp hid⟩, ?_⟩
  intro id _
  by_cases h : expMem m ax ts id = true
  · exact Or.inr ((hm id).mpr h)
  · exact Or.inl (by simpa using h)

theorem cellsOk_of_good {ms mo : Mode} {ts : List (Table α)} {r : Table α} (hg : Good ms mo ts r) :
    cellsOk ts r = true := by
  unfold cellsOk
  simp only [List.all_eq_true, decide_eq_true_eq]
  intro o ho s hs
  exact hg.cell o ho s hs

theorem total_of_good {ts : List (Table α)} {r : Table α} (hg : Good .union .union ts r)
    (hts : ∀ t ∈ ts, OpWF t) : total r = sumL (ts.map total) := by
  rw [sumL_eq_sum]
  apply total_of_cells ts r hg.wf _ hg.cell
  intro t ht
  refine ⟨hts t ht, ?_, ?_⟩
  · intro x hx
    exact (hg.memO x).mpr ((expMem_union_iff _ _ _).mpr ⟨t, ht, hx⟩)
  · intro x hx
    exact (hg.memS x).mpr ((expMem_union_iff _ _ _).mpr ⟨t, ht, hx⟩)

theorem expEmpty_false_of_mem (ax : Axis) (a : Table α) (rest : List (Table α)) (id : Id)
    (h : expMem .inter ax (a :: rest) id = true) : expEmpty .inter ax (a :: rest) = false := by
  rw [← Bool.not_eq_true]
  intro he
  unfold expEmpty at he
  rw [List.all_eq_true] at he
  have hid : id ∈ (a :: rest).flatMap (fun t => t.ids ax) := by
    rw [List.mem_flatMap]
    exact ⟨a, by simp, (expMem_inter_iff _ _ _).mp h a (by simp)⟩
  have := he id hid
  simp [h] at this

/-- the outcome clause for a result: no intersection axis is empty -/
theorem emptyInter_false (m : Mode) (ax : Axis) (a : Table α) (rest : List (Table α)) (ids : List Id)
    (hm : ∀ id, id ∈ ids ↔ expMem m ax (a :: rest) id = true) (hne : m = .inter → ids ≠ []) :
    (m == .inter && expEmpty .inter ax (a :: rest)) = false := by
  cases m with
  | union => rfl
  | inter =>
    obtain ⟨id, hid⟩ := List.exists_mem_of_ne_nil _ (hne rfl)
    rw [expEmpty_false_of_mem ax a rest id ((hm id).mp hid)]
    rfl

theorem take2_mem (a : Table α) (pre post : List (Table α)) (t x : Table α)
    (hx : x ∈ (a :: (pre ++ t :: post)).take 2) : x ∈ a :: pre ∨ x = t := by
  cases pre with
  | nil =>
    simp only [List.nil_append, List.take_succ_cons, List.take_zero, List.mem_cons, List.not_mem_nil, or_false] at hx
    rcases hx with rfl | rfl
    · exact Or.inl (by simp)
    · exact Or.inr rfl
  | cons p pre =>
    simp only [List.cons_append, List.take_succ_cons, List.take_zero, List.mem_cons, List.not_mem_nil, or_false] at hx
    rcases hx with rfl | rfl
    · exact Or.inl (by simp)
    · exact Or.inl (by simp)

/-- a step whose axis comes out empty is either an empty intersection of all operands or a union
of operands none of which has an ID on that axis -/
theorem axis_empty (m : Mode) (ax : Axis) (a : Table α) (pre post : List (Table α)) (t acc : Table α)
    (hmem : ∀ id, id ∈ acc.ids ax ↔ expMem m ax (a :: pre) id = true)
    (hemp : newOrder m (acc.ids ax) (t.ids ax) = []) :
    ((m == .inter && expEmpty .inter ax (a :: (pre ++ t :: post))) ||
      emptyUnionStart m ax (a :: (pre ++ t :: post))) = true := by
  have hnone : ∀ id, ¬ id ∈ newOrder m (acc.ids ax) (t.ids ax) := by rw [hemp]; simp
  cases m with
  | inter =>
    have : expEmpty .inter ax (a :: (pre ++ t :: post)) = true := by
      unfold expEmpty
      rw [List.all_eq_true]
      intro id _
      rw [Bool.not_eq_true', ← Bool.not_eq_true]
      intro h
      rw [expMem_inter_iff] at h
      apply hnone id
      rw [mem_newOrder]
      refine ⟨(hmem id).mpr ((expMem_inter_iff _ _ _).mpr ?_), h t (by simp)⟩
      intro x hx
      apply h x
      rcases List.mem_cons.mp hx with rfl | hx
      · simp
      · simp [hx]
    simp [this]
  | union =>
    have hacc : ∀ x ∈ a :: pre, x.ids ax = [] := by
      intro x hx
      apply List.eq_nil_iff_forall_not_mem.mpr
      intro id hid
      apply hnone id
      rw [mem_newOrder]
      exact Or.inl ((hmem id).mpr ((expMem_union_iff _ _ _).mpr ⟨x, hx, hid⟩))
    have ht : t.ids ax = [] := by
      apply List.eq_nil_iff_forall_not_mem.mpr
      intro id hid
      apply hnone id
      rw [mem_newOrder]
      exact Or.inr hid
    have : emptyUnionStart .union ax (a :: (pre ++ t :: post)) = true := by
      unfold emptyUnionStart
      simp only [beq_self_eq_true, Bool.true_and, List.all_eq_true, List.isEmpty_iff]
      intro x hx
      rcases take2_mem a pre post t x hx with h | rfl
      · exact hacc x h
      · exact ht
    simp [this]

theorem allV_none8 (c1 c2 c3 c4 c5 c6 c7 c8 : String) (b1 b2 b3 b4 b5 b6 b7 b8 : Bool)
    (h1 : b1 = true) (h2 : b2 = true) (h3 : b3 = true) (h4 : b4 = true) (h5 : b5 = true)
    (h6 : b6 = true) (h7 : b7 = true) (h8 : b8 = true) :
    Codec.allV [Codec.chk c1 b1, Codec.chk c2 b2, Codec.chk c3 b3, Codec.chk c4 b4, Codec.chk c5 b5,
      Codec.chk c6 b6, Codec.chk c7 b7, Codec.chk c8 b8] = none := by
  subst h1 h2 h3 h4 h5 h6 h7 h8
  rfl

end verdict

end Biom.C09
