/-
  C19 — helper lemmas: grids and their transposition, compressed vectors versus dense vectors,
  minima, sorting, the insertion-ordered dict, lookups by ID.
-/
import BiomModel.C19

namespace Biom.C19

/-! ### sums -/

theorem sum_zero_of_all_zero_rat (l : List Rat) (h : ∀ x ∈ l, x = 0) : l.sum = 0 := by
  induction l with
  | nil => rfl
  | cons a l ih =>
    have ha : a = 0 := h a (by simp)
    have hl := ih (fun x hx => h x (by simp [hx]))
    simp only [List.sum_cons, ha, hl]; grind

theorem sum_zero_of_all_zero_nat (l : List Nat) (h : ∀ x ∈ l, x = 0) : l.sum = 0 := by
  induction l with
  | nil => rfl
  | cons a l ih =>
    have ha : a = 0 := h a (by simp)
    have hl := ih (fun x hx => h x (by simp [hx]))
    simp only [List.sum_cons, ha, hl]

theorem cntNZ_nil : cntNZ [] = 0 := rfl

theorem cntNZ_cons (x : Rat) (v : List Rat) : cntNZ (x :: v) = (if x = 0 then 0 else 1) + cntNZ v := by
  unfold cntNZ nzVals
  by_cases h : x = 0
  · simp [h]
  · simp [h]; omega

/-! ### grids -/

def Rect (m : Nat) (g : Grid) : Prop := ∀ r ∈ g, r.length = m

theorem colAt_nil (j : Nat) : colAt ([] : Grid) j = [] := rfl

theorem colAt_cons (r : List Rat) (g : Grid) (j : Nat) (h : j < r.length) :
    colAt (r :: g) j = r[j] :: colAt g j := by
  simp [colAt, List.getElem?_eq_getElem h]

theorem transposeGrid_nil (m : Nat) : transposeGrid m ([] : Grid) = (List.range m).map (fun _ => []) := rfl

theorem transposeGrid_length (m : Nat) (g : Grid) : (transposeGrid m g).length = m := by
  simp [transposeGrid]

theorem transposeGrid_cons (r : List Rat) (g : Grid) :
    transposeGrid r.length (r :: g) = List.zipWith (fun x c => x :: c) r (transposeGrid r.length g) := by
  apply List.ext_getElem
  · simp [transposeGrid]
  · intro i h1 h2
    simp only [transposeGrid, List.length_map, List.length_range] at h1
    simp [transposeGrid, colAt_cons r g i h1]

/-- every value of a column is a value of some row -/
theorem mem_colAt {g : Grid} {j : Nat} {x : Rat} (h : x ∈ colAt g j) : ∃ r ∈ g, x ∈ r := by
  simp only [colAt, List.mem_filterMap] at h
  obtain ⟨r, hr, hx⟩ := h
  exact ⟨r, hr, List.mem_of_getElem? hx⟩

theorem colAt_zipWith_zero : ∀ (r : List Rat) (t : Grid), r.length = t.length →
    colAt (List.zipWith (fun x c => x :: c) r t) 0 = r
  | [], [], _ => rfl
  | x :: r, c :: t, h => by
    have ih := colAt_zipWith_zero r t (by simpa using h)
    simp only [colAt] at ih
    simp [colAt, ih]
  | [], _ :: _, h => by simp at h
  | _ :: _, [], h => by simp at h

theorem colAt_zipWith_succ : ∀ (r : List Rat) (t : Grid) (i : Nat), r.length = t.length →
    colAt (List.zipWith (fun x c => x :: c) r t) (i + 1) = colAt t i
  | [], [], _, _ => rfl
  | x :: r, c :: t, i, h => by
    have ih := colAt_zipWith_succ r t i (by simpa using h)
    simp only [colAt] at ih
    simp only [colAt, List.zipWith_cons_cons, List.filterMap_cons, List.getElem?_cons_succ]
    rw [ih]
  | [], _ :: _, _, h => by simp at h
  | _ :: _, [], _, h => by simp at h

theorem transposeGrid_zipWith (r : List Rat) (t : Grid) (n : Nat) (h : r.length = t.length) :
    transposeGrid (n + 1) (List.zipWith (fun x c => x :: c) r t) = r :: transposeGrid n t := by
  simp only [transposeGrid, List.range_succ_eq_map, List.map_cons, List.map_map]
  rw [colAt_zipWith_zero r t h]
  congr 1
  apply List.map_congr_left
  intro i _
  exact colAt_zipWith_succ r t i h

/-- transposing twice gives the grid back (rectangular grids) -/
theorem transposeGrid_involutive (m : Nat) : ∀ (g : Grid), Rect m g →
    transposeGrid g.length (transposeGrid m g) = g
  | [], _ => by simp [transposeGrid]
  | r :: g, h => by
    have hr : r.length = m := h r (by simp)
    have hg : Rect m g := fun x hx => h x (by simp [hx])
    subst hr
    rw [transposeGrid_cons, List.length_cons,
      transposeGrid_zipWith r _ g.length (by simp [transposeGrid_length])]
    rw [transposeGrid_involutive r.length g hg]

theorem rect_transposeGrid (m : Nat) (g : Grid) (h : Rect m g) : Rect g.length (transposeGrid m g) := by
  intro c hc
  simp only [transposeGrid, List.mem_map, List.mem_range] at hc
  obtain ⟨j, hj, rfl⟩ := hc
  simp only [colAt]
  induction g with
  | nil => rfl
  | cons r g ih =>
    have hr : r.length = m := h r (by simp)
    have hg : Rect m g := fun x hx => h x (by simp [hx])
    have hjr : j < r.length := by omega
    simp [List.getElem?_eq_getElem hjr, ih hg]

/-! ### Fubini on a rectangular grid: column figures add up to the row figures -/

theorem sum_zipWith_rat : ∀ (r : List Rat) (t : Grid), r.length = t.length →
    ((List.zipWith (fun x c => x :: c) r t).map List.sum).sum = r.sum + (t.map List.sum).sum
  | [], [], _ => by simp only [List.zipWith_nil_left, List.map_nil, List.sum_nil]; grind
  | x :: r, c :: t, h => by
    have ih := sum_zipWith_rat r t (by simpa using h)
    simp only [List.zipWith_cons_cons, List.map_cons, List.sum_cons, ih]
    grind
  | [], _ :: _, h => by simp at h
  | _ :: _, [], h => by simp at h

theorem sum_zipWith_nat : ∀ (r : List Rat) (t : Grid), r.length = t.length →
    ((List.zipWith (fun x c => x :: c) r t).map cntNZ).sum = cntNZ r + (t.map cntNZ).sum
  | [], [], _ => by simp [cntNZ_nil]
  | x :: r, c :: t, h => by
    have ih := sum_zipWith_nat r t (by simpa using h)
    simp only [List.zipWith_cons_cons, List.map_cons, List.sum_cons, ih, cntNZ_cons]
    omega
  | [], _ :: _, h => by simp at h
  | _ :: _, [], h => by simp at h

/-- Σ of the column sums = Σ of the row sums -/
theorem total_transpose (m : Nat) : ∀ (g : Grid), Rect m g → total (transposeGrid m g) = total g
  | [], _ => by
    simp only [total, transposeGrid_nil, List.map_map]
    exact sum_zero_of_all_zero_rat _ (by simp)
  | r :: g, h => by
    have hr : r.length = m := h r (by simp)
    have hg : Rect m g := fun x hx => h x (by simp [hx])
    subst hr
    have ih := total_transpose r.length g hg
    simp only [total] at ih ⊢
    rw [transposeGrid_cons, sum_zipWith_rat r _ (by simp [transposeGrid_length]), ih]
    simp

/-- the columns hold as many non-zero cells as the rows -/
theorem nnzCells_transpose (m : Nat) : ∀ (g : Grid), Rect m g → nnzCells (transposeGrid m g) = nnzCells g
  | [], _ => by
    simp only [nnzCells, transposeGrid_nil, List.map_map]
    exact sum_zero_of_all_zero_nat _ (by simp [cntNZ_nil])
  | r :: g, h => by
    have hr : r.length = m := h r (by simp)
    have hg : Rect m g := fun x hx => h x (by simp [hx])
    subst hr
    have ih := nnzCells_transpose r.length g hg
    simp only [nnzCells] at ih ⊢
    rw [transposeGrid_cons, sum_zipWith_nat r _ (by simp [transposeGrid_length]), ih]
    simp

/-! ### selection folds (min / max) -/

structure Sel (op : Rat → Rat → Rat) (le : Rat → Rat → Prop) : Prop where
  pick : ∀ a b, op a b = a ∨ op a b = b
  left : ∀ a b, le (op a b) a
  right : ∀ a b, le (op a b) b
  trans : ∀ a b c, le a b → le b c → le a c
  antisymm : ∀ a b, le a b → le b a → a = b
  refl : ∀ a, le a a

theorem sel_min : Sel min (fun a b => a ≤ b) where
  pick := by intro a b; simp only [Rat.min_def]; split <;> simp
  left := by intro a b; simp only [Rat.min_def]; split <;> grind
  right := by intro a b; simp only [Rat.min_def]; split <;> grind
  trans := by intro a b c h1 h2; exact Rat.le_trans h1 h2
  antisymm := by intro a b h1 h2; exact Rat.le_antisymm h1 h2
  refl := by intro a; exact Rat.le_refl

theorem sel_max : Sel max (fun a b => b ≤ a) where
  pick := by intro a b; simp only [Rat.max_def]; split <;> simp
  left := by intro a b; simp only [Rat.max_def]; split <;> grind
  right := by intro a b; simp only [Rat.max_def]; split <;> grind
  trans := by intro a b c h1 h2; exact Rat.le_trans h2 h1
  antisymm := by intro a b h1 h2; exact Rat.le_antisymm h2 h1
  refl := by intro a; exact Rat.le_refl

def selL? (op : Rat → Rat → Rat) : List Rat → Option Rat
  | [] => none
  | x :: xs => some (xs.foldl op x)

theorem minL?_eq_selL? (xs : List Rat) : minL? xs = selL? min xs := by cases xs <;> rfl
theorem maxL?_eq_selL? (xs : List Rat) : maxL? xs = selL? max xs := by cases xs <;> rfl

/-- `m` is an element of `xs` that is `le` every element -/
def IsSel (le : Rat → Rat → Prop) (m : Rat) (xs : List Rat) : Prop := m ∈ xs ∧ ∀ x ∈ xs, le m x

section
variable {op : Rat → Rat → Rat} {le : Rat → Rat → Prop} (S : Sel op le)
include S

theorem foldl_sel_le_init (xs : List Rat) (a : Rat) : le (xs.foldl op a) a := by
  induction xs generalizing a with
  | nil => exact S.refl a
  | cons x xs ih => exact S.trans _ _ _ (ih (op a x)) (S.left a x)

theorem foldl_sel_le_mem (xs : List Rat) (a x : Rat) (hx : x ∈ xs) : le (xs.foldl op a) x := by
  induction xs generalizing a with
  | nil => simp at hx
  | cons y xs ih =>
    rcases List.mem_cons.mp hx with rfl | h
    · exact S.trans _ _ _ (foldl_sel_le_init S xs (op a x)) (S.right a x)
    · exact ih (op a y) h

theorem foldl_sel_mem (xs : List Rat) (a : Rat) : xs.foldl op a = a ∨ xs.foldl op a ∈ xs := by
  induction xs generalizing a with
  | nil => exact Or.inl rfl
  | cons y xs ih =>
    simp only [List.foldl_cons, List.mem_cons]
    rcases ih (op a y) with h | h
    · rcases S.pick a y with h2 | h2
      · left; rw [h, h2]
      · right; left; rw [h, h2]
    · right; right; exact h

theorem selL?_isSel (xs : List Rat) (m : Rat) (h : selL? op xs = some m) : IsSel le m xs := by
  cases xs with
  | nil => simp [selL?] at h
  | cons x xs =>
    simp only [selL?, Option.some.injEq] at h
    subst h
    constructor
    · rcases foldl_sel_mem S xs x with h | h
      · rw [h]; simp
      · exact List.mem_cons_of_mem _ h
    · intro y hy
      rcases List.mem_cons.mp hy with rfl | hy
      · exact foldl_sel_le_init S xs y
      · exact foldl_sel_le_mem S xs x y hy

theorem isSel_unique (xs : List Rat) (m m' : Rat) (h : IsSel le m xs) (h' : IsSel le m' xs) : m = m' :=
  S.antisymm _ _ (h.2 m' h'.1) (h'.2 m h.1)

theorem selL?_of_isSel (xs : List Rat) (m : Rat) (h : IsSel le m xs) : selL? op xs = some m := by
  cases hx : selL? op xs with
  | none => cases xs with
    | nil => exact absurd h.1 (by simp)
    | cons x xs => simp [selL?] at hx
  | some m' => rw [isSel_unique S xs m' m (selL?_isSel S xs m' hx) h]

theorem selL?_congr (xs ys : List Rat) (h : ∀ x, x ∈ xs ↔ x ∈ ys) : selL? op xs = selL? op ys := by
  cases hx : selL? op xs with
  | none =>
    cases xs with
    | nil =>
      cases ys with
      | nil => rfl
      | cons y ys => exact absurd ((h y).mpr (by simp)) (by simp)
    | cons x xs => simp [selL?] at hx
  | some m =>
    have hs := selL?_isSel S xs m hx
    exact (selL?_of_isSel S ys m ⟨(h m).mp hs.1, fun y hy => hs.2 y ((h y).mpr hy)⟩).symm

end

theorem npMin_eq (xs : List Rat) : npMin xs = match minL? xs with | some m => .ok m | none => .error .value := by
  cases xs <;> rfl
theorem npMax_eq (xs : List Rat) : npMax xs = match maxL? xs with | some m => .ok m | none => .error .value := by
  cases xs <;> rfl

/-! ### compressed vectors versus dense vectors -/
open CS

theorem entryAt_cons (k : Nat) (v : Rat) (ents : List (Nat × Rat)) (j : Nat) :
    entryAt ((k, v) :: ents) j = if k = j then v else entryAt ents j := by
  unfold entryAt
  by_cases h : k = j
  · simp [h]
  · simp [h]

theorem entryAt_not_mem (ents : List (Nat × Rat)) (j : Nat) (h : j ∉ ents.map (·.1)) : entryAt ents j = 0 := by
  induction ents with
  | nil => rfl
  | cons e ents ih =>
    obtain ⟨k, v⟩ := e
    simp only [List.map_cons, List.mem_cons, not_or] at h
    rw [entryAt_cons, if_neg (fun hk => h.1 hk.symm)]
    exact ih h.2

theorem entryAt_of_mem (ents : List (Nat × Rat)) (j : Nat) (x : Rat) (hnd : (ents.map (·.1)).Nodup)
    (h : (j, x) ∈ ents) : entryAt ents j = x := by
  induction ents with
  | nil => simp at h
  | cons e ents ih =>
    obtain ⟨k, v⟩ := e
    simp only [List.map_cons, List.nodup_cons] at hnd
    rw [entryAt_cons]
    rcases List.mem_cons.mp h with heq | hmem
    · simp only [Prod.mk.injEq] at heq
      simp [heq.1, heq.2]
    · have hj : j ∈ ents.map (·.1) := List.mem_map.mpr ⟨(j, x), hmem, rfl⟩
      have hne : k ≠ j := fun hk => hnd.1 (hk ▸ hj)
      rw [if_neg hne]
      exact ih hnd.2 hmem

/-- a non-zero value of the dense vector is a stored value -/
theorem mem_denseVec_nz (n : Nat) (ents : List (Nat × Rat)) (x : Rat) (hx : x ∈ denseVec n ents) (h0 : x ≠ 0) :
    x ∈ ents.map (·.2) := by
  simp only [denseVec, List.mem_map, List.mem_range] at hx
  obtain ⟨j, _, hj⟩ := hx
  unfold entryAt at hj
  split at hj
  · next e he => exact List.mem_map.mpr ⟨e, List.mem_of_find?_eq_some he, hj⟩
  · exact absurd hj.symm h0

/-- a stored value is a value of the dense vector (distinct in-range indices) -/
theorem mem_denseVec_of_stored (n : Nat) (ents : List (Nat × Rat)) (x : Rat) (hnd : (ents.map (·.1)).Nodup)
    (hlt : ∀ e ∈ ents, e.1 < n) (hx : x ∈ ents.map (·.2)) : x ∈ denseVec n ents := by
  obtain ⟨e, he, rfl⟩ := List.mem_map.mp hx
  simp only [denseVec, List.mem_map, List.mem_range]
  exact ⟨e.1, hlt e he, entryAt_of_mem ents e.1 e.2 hnd he⟩

theorem stored_iff_nz (n : Nat) (ents : List (Nat × Rat)) (hnd : (ents.map (·.1)).Nodup)
    (hlt : ∀ e ∈ ents, e.1 < n) (hnz : ∀ e ∈ ents, e.2 ≠ 0) (x : Rat) :
    x ∈ ents.map (·.2) ↔ x ∈ nzVals (denseVec n ents) := by
  simp only [nzVals, List.mem_filter, decide_eq_true_eq]
  constructor
  · intro hx
    refine ⟨mem_denseVec_of_stored n ents x hnd hlt hx, ?_⟩
    obtain ⟨e, he, rfl⟩ := List.mem_map.mp hx
    exact hnz e he
  · intro ⟨hx, h0⟩
    exact mem_denseVec_nz n ents x hx h0

theorem cntNZ_append_single (l : List Rat) (a : Rat) : cntNZ (l ++ [a]) = cntNZ l + (if a = 0 then 0 else 1) := by
  unfold cntNZ nzVals
  by_cases h : a = 0
  · simp [h]
  · simp [h]

theorem cnt_update (f g : Nat → Rat) (k : Nat) (hfg : ∀ j, j ≠ k → f j = g j) (hg : g k = 0) (hf : f k ≠ 0) :
    ∀ n, cntNZ ((List.range n).map f) = cntNZ ((List.range n).map g) + (if k < n then 1 else 0)
  | 0 => by simp [cntNZ_nil]
  | n + 1 => by
    have ih := cnt_update f g k hfg hg hf n
    simp only [List.range_succ, List.map_append, List.map_cons, List.map_nil, cntNZ_append_single, ih]
    by_cases hk : k = n
    · subst hk
      simp [hg, hf]
    · rw [hfg n (fun h => hk h.symm)]
      by_cases h1 : k < n
      · have : k < n + 1 := by omega
        simp [h1, this]; omega
      · have : ¬ k < n + 1 := by omega
        simp [h1, this]

/-- the dense vector has exactly as many non-zero cells as there are stored entries -/
theorem cntNZ_denseVec (n : Nat) (ents : List (Nat × Rat)) (hnd : (ents.map (·.1)).Nodup)
    (hlt : ∀ e ∈ ents, e.1 < n) (hnz : ∀ e ∈ ents, e.2 ≠ 0) : cntNZ (denseVec n ents) = ents.length := by
  induction ents with
  | nil =>
    have : denseVec n [] = (List.range n).map (fun _ => (0 : Rat)) := rfl
    rw [this]
    unfold cntNZ nzVals
    simp
  | cons e ents ih =>
    obtain ⟨k, v⟩ := e
    simp only [List.map_cons, List.nodup_cons] at hnd
    have ih' := ih hnd.2 (fun e he => hlt e (by simp [he])) (fun e he => hnz e (by simp [he]))
    have hk : k < n := hlt (k, v) (by simp)
    have hv : v ≠ 0 := hnz (k, v) (by simp)
    have hupd := cnt_update (entryAt ((k, v) :: ents)) (entryAt ents) k
      (fun j hj => by rw [entryAt_cons, if_neg (fun h => hj h.symm)])
      (entryAt_not_mem ents k hnd.1) (by rw [entryAt_cons, if_pos rfl]; exact hv) n
    simp only [denseVec] at ih' ⊢
    rw [hupd, ih']
    simp [hk]

/-! ### the vectors of a well-formed compressed matrix -/

theorem slice_idx_mem (cs : CS Rat) (i : Nat) (e : Nat × Rat) (he : e ∈ cs.slice i) :
    e.1 ∈ cs.indices ∧ e.2 ∈ cs.data := by
  obtain ⟨a, b⟩ := e
  simp only [CS.slice] at he
  have h := List.of_mem_zip he
  exact ⟨List.mem_of_mem_drop (List.mem_of_mem_take h.1), List.mem_of_mem_drop (List.mem_of_mem_take h.2)⟩

theorem indptr_le_last (cs : CS Rat) (hwf : cs.WF) :
    ∀ d i, i + d = cs.nMajor → cs.indptr.getD i 0 ≤ cs.indptr.getD cs.nMajor 0
  | 0, i, h => by simp at h; subst h; exact Nat.le_refl _
  | d + 1, i, h => by
    have h1 := hwf.ptrMono i (by omega)
    have h2 := indptr_le_last cs hwf d (i + 1) (by omega)
    omega

theorem slice_length (cs : CS Rat) (hwf : cs.WF) (i : Nat) (hi : i < cs.nMajor) :
    (cs.slice i).length = cs.indptr.getD (i + 1) 0 - cs.indptr.getD i 0 := by
  have hmono := hwf.ptrMono i hi
  have hlast := indptr_le_last cs hwf (cs.nMajor - (i + 1)) (i + 1) (by omega)
  have hl := hwf.ptrLast
  have hs := hwf.sameLen
  simp only [CS.slice, List.length_zip, List.length_take, List.length_drop]
  omega

theorem telescope (p : Nat → Nat) : ∀ n, (∀ i, i < n → p i ≤ p (i + 1)) →
    ((List.range n).map (fun i => p (i + 1) - p i)).sum = p n - p 0
  | 0, _ => by simp
  | n + 1, h => by
    have ih := telescope p n (fun i hi => h i (by omega))
    have hmono : ∀ k, k ≤ n → p 0 ≤ p k := by
      intro k hk
      induction k with
      | zero => exact Nat.le_refl _
      | succ k ihk => have := h k (by omega); have := ihk (by omega); omega
    have h0 := hmono n (Nat.le_refl _)
    have hn := h n (by omega)
    simp only [List.range_succ, List.map_append, List.map_cons, List.map_nil, List.sum_append, ih,
      List.sum_cons, List.sum_nil]
    omega

theorem toDense_getElem (cs : CS Rat) : cs.toDense = (List.range cs.nMajor).map (fun i => denseVec cs.nMinor (cs.slice i)) := rfl

/-- `nnz` (last `indptr` entry) is the number of non-zero cells of the content -/
theorem nnzM_eq_nnzCells (cs : CS Rat) (hwf : cs.WF) (hnsz : cs.NoStoredZeros) :
    nnzM cs = nnzCells cs.toDense := by
  have hcnt : ∀ i, i < cs.nMajor → cntNZ (denseVec cs.nMinor (cs.slice i)) = (cs.slice i).length := by
    intro i hi
    apply cntNZ_denseVec
    · exact hwf.distinct i hi
    · intro e he; exact hwf.inRange _ (slice_idx_mem cs i e he).1
    · intro e he; exact hnsz _ (slice_idx_mem cs i e he).2
  have h1 : nnzCells cs.toDense =
      ((List.range cs.nMajor).map (fun i => cs.indptr.getD (i + 1) 0 - cs.indptr.getD i 0)).sum := by
    simp only [nnzCells, toDense_getElem, List.map_map]
    congr 1
    apply List.map_congr_left
    intro i hi
    have hi' : i < cs.nMajor := List.mem_range.mp hi
    simp only [Function.comp, hcnt i hi', slice_length cs hwf i hi']
  rw [h1, telescope (fun i => cs.indptr.getD i 0) cs.nMajor hwf.ptrMono]
  have h0 : cs.indptr.getD 0 0 = 0 := by
    have := hwf.ptrZero
    simp [List.getD, this]
  show cs.indptr.getD cs.nMajor 0 = cs.indptr.getD cs.nMajor 0 - cs.indptr.getD 0 0
  rw [h0]; omega

/-! ### lookups by ID -/

theorem lookupBy_self_map {β : Type} : ∀ (ids : List Id) (xs : List β), ids.Nodup → ids.length = xs.length →
    ids.map (lookupBy ids xs) = xs.map some
  | [], [], _, _ => rfl
  | i :: is, x :: xs, hnd, hl => by
    simp only [List.nodup_cons] at hnd
    have ih := lookupBy_self_map is xs hnd.2 (by simpa using hl)
    simp only [List.map_cons, lookupBy, if_true]
    congr 1
    rw [← ih]
    apply List.map_congr_left
    intro id hid
    have : i ≠ id := fun h => hnd.1 (h ▸ hid)
    simp [this]
  | [], _ :: _, _, h => by simp at h
  | _ :: _, [], _, h => by simp at h

theorem lookupBy_take {β : Type} : ∀ (ids : List Id) (xs : List β) (n : Nat) (id : Id), id ∈ ids.take n →
    lookupBy (ids.take n) (xs.take n) id = lookupBy ids xs id
  | [], _, _, _, h => by simp at h
  | _ :: _, [], n, _, _ => by cases n <;> simp [lookupBy]
  | i :: is, x :: xs, 0, _, h => by simp at h
  | i :: is, x :: xs, n + 1, id, h => by
    simp only [List.take_succ_cons, lookupBy]
    by_cases hi : i = id
    · simp [hi]
    · simp only [hi, if_false]
      simp only [List.take_succ_cons, List.mem_cons] at h
      rcases h with h | h
      · exact absurd h.symm hi
      · exact lookupBy_take is xs n id h

/-! ### mapE -/

theorem mapE_ok {α β : Type} (f : α → Except Err β) (g : α → β) :
    ∀ l : List α, (∀ a ∈ l, f a = .ok (g a)) → mapE f l = .ok (l.map g)
  | [], _ => rfl
  | a :: l, h => by
    have ha := h a (by simp)
    have ih := mapE_ok f g l (fun b hb => h b (by simp [hb]))
    simp [mapE, ha, ih]

/-! ### the insertion-ordered dict -/

theorem dictSet_fresh (d : List (Id × Rat)) (k : Id) (v : Rat) (h : k ∉ d.map (·.1)) :
    dictSet d k v = d ++ [(k, v)] := by
  unfold dictSet
  have : d.any (fun e => e.1 == k) = false := by
    simp only [List.any_eq_false, beq_iff_eq]
    intro e he hk
    exact h (List.mem_map.mpr ⟨e, he, hk⟩)
  simp [this]

theorem foldl_dictSet (kvs : List (Id × Rat)) : ∀ acc : List (Id × Rat), ((acc ++ kvs).map (·.1)).Nodup →
    kvs.foldl (fun d kv => dictSet d kv.1 kv.2) acc = acc ++ kvs := by
  induction kvs with
  | nil => intro acc _; simp
  | cons kv kvs ih =>
    intro acc h
    have hk : kv.1 ∉ acc.map (·.1) := by
      simp only [List.map_append, List.map_cons, List.nodup_append, List.nodup_cons] at h
      intro hmem
      exact h.2.2 _ hmem _ (by simp) rfl
    simp only [List.foldl_cons, dictSet_fresh acc kv.1 kv.2 hk]
    rw [ih (acc ++ [(kv.1, kv.2)]) (by simpa using h)]
    simp

/-- with distinct keys the dict is the list of its assignments, in order -/
theorem buildDict_nodup (kvs : List (Id × Rat)) (h : (kvs.map (·.1)).Nodup) : buildDict kvs = kvs := by
  unfold buildDict
  rw [foldl_dictSet kvs [] (by simpa using h)]
  simp

/-! ### insertion sort by a rational key -/

def insBy {α : Type} (key : α → Rat) (e : α) : List α → List α
  | [] => [e]
  | y :: ys => if key e ≤ key y then e :: y :: ys else y :: insBy key e ys

def sortBy {α : Type} (key : α → Rat) (l : List α) : List α := l.foldr (insBy key) []

theorem insertR_eq (x : Rat) (l : List Rat) : insertR x l = insBy id x l := by
  induction l with
  | nil => rfl
  | cons y ys ih => simp only [insertR, insBy, ih, id]

theorem insertKV_eq (e : Id × Rat) (l : List (Id × Rat)) : insertKV e l = insBy (·.2) e l := by
  induction l with
  | nil => rfl
  | cons y ys ih => simp only [insertKV, insBy, ih]

theorem isort_eq (l : List Rat) : isort l = sortBy id l := by
  unfold isort sortBy
  induction l with
  | nil => rfl
  | cons x xs ih => simp only [List.foldr_cons, ih, insertR_eq]

theorem sortKV_eq (l : List (Id × Rat)) : sortKV l = sortBy (·.2) l := by
  unfold sortKV sortBy
  induction l with
  | nil => rfl
  | cons x xs ih => simp only [List.foldr_cons, ih, insertKV_eq]

section
variable {α : Type} (key : α → Rat)

theorem insBy_perm (e : α) (l : List α) : (insBy key e l).Perm (e :: l) := by
  induction l with
  | nil => exact List.Perm.refl _
  | cons y ys ih =>
    simp only [insBy]
    split
    · exact List.Perm.refl _
    · exact (List.Perm.cons y ih).trans (List.Perm.swap e y ys)

theorem sortBy_perm (l : List α) : (sortBy key l).Perm l := by
  induction l with
  | nil => exact List.Perm.refl _
  | cons x xs ih =>
    simp only [sortBy, List.foldr_cons]
    exact (insBy_perm key x _).trans (List.Perm.cons x ih)

theorem insBy_sorted (e : α) (l : List α) (h : l.Pairwise (fun a b => key a ≤ key b)) :
    (insBy key e l).Pairwise (fun a b => key a ≤ key b) := by
  induction l with
  | nil => simp [insBy]
  | cons y ys ih =>
    simp only [insBy]
    rw [List.pairwise_cons] at h
    split
    · next hle =>
      rw [List.pairwise_cons]
      refine ⟨?_, List.pairwise_cons.mpr h⟩
      intro z hz
      rcases List.mem_cons.mp hz with rfl | hz
      · exact hle
      · exact Rat.le_trans hle (h.1 z hz)
    · next hnle =>
      rw [List.pairwise_cons]
      refine ⟨?_, ih h.2⟩
      intro z hz
      have hz' := (insBy_perm key e ys).mem_iff.mp hz
      rcases List.mem_cons.mp hz' with rfl | hz'
      · rcases @Rat.le_total (key z) (key y) with h1 | h1
        · exact absurd h1 hnle
        · exact h1
      · exact h.1 z hz'

theorem sortBy_sorted (l : List α) : (sortBy key l).Pairwise (fun a b => key a ≤ key b) := by
  induction l with
  | nil => simp [sortBy]
  | cons x xs ih =>
    simp only [sortBy, List.foldr_cons]
    exact insBy_sorted key x _ ih

end

/-- a sorted list is determined by its elements -/
theorem sorted_perm_unique : ∀ (s t : List Rat), s.Perm t → s.Pairwise (· ≤ ·) → t.Pairwise (· ≤ ·) → s = t
  | [], t, hp, _, _ => by simpa using hp.symm.eq_nil
  | a :: s, [], hp, _, _ => by simpa using hp.eq_nil
  | a :: s, b :: t, hp, hs, ht => by
    rw [List.pairwise_cons] at hs ht
    have hab : a = b := by
      have ha : a ∈ b :: t := hp.mem_iff.mp (by simp)
      have hb : b ∈ a :: s := hp.mem_iff.mpr (by simp)
      rcases List.mem_cons.mp ha with h | h
      · exact h
      · rcases List.mem_cons.mp hb with h' | h'
        · exact h'.symm
        · exact Rat.le_antisymm (hs.1 b h') (ht.1 a h)
    subst hab
    rw [sorted_perm_unique s t (List.Perm.cons_inv hp) hs.2 ht.2]

/-! ### further helpers of the property theorems -/

theorem foldl_add_eq_sum (l : List Rat) (a : Rat) : l.foldl (· + ·) a = a + l.sum := by
  induction l generalizing a with
  | nil => simp only [List.foldl_nil, List.sum_nil]; grind
  | cons x xs ih => simp only [List.foldl_cons, List.sum_cons, ih]; grind

theorem cast_sum_cntNZ (g : Grid) : ((nnzCells g : Nat) : Rat) = (g.map (fun v => (cntNZ v : Rat))).sum := by
  induction g with
  | nil => simp [nnzCells]
  | cons r g ih =>
    simp only [nnzCells, List.map_cons, List.sum_cons] at ih ⊢
    rw [← ih]; simp

theorem mapE_map {α β γ : Type} (f : β → Except Err γ) (h : α → β) (l : List α) :
    mapE f (l.map h) = mapE (fun a => f (h a)) l := by
  induction l with
  | nil => rfl
  | cons a l ih => simp only [List.map_cons, mapE, ih]

theorem selL?_ne_nil (op : Rat → Rat → Rat) (xs : List Rat) (h : xs ≠ []) : ∃ m, selL? op xs = some m := by
  cases xs with
  | nil => exact absurd rfl h
  | cons x xs => exact ⟨_, rfl⟩

section
variable {op : Rat → Rat → Rat} {le : Rat → Rat → Prop} (S : Sel op le)
include S

/-- selecting over the stored values of a vector = selecting over the non-zero values of the dense vector -/
theorem sel_stored (cs : CS Rat) (hwf : cs.WF) (hnsz : cs.NoStoredZeros) (i : Nat) (hi : i < cs.nMajor) :
    selL? op ((cs.slice i).map (·.2)) = selL? op (nzVals (denseVec cs.nMinor (cs.slice i))) := by
  apply selL?_congr S
  apply stored_iff_nz
  · exact hwf.distinct i hi
  · intro e he; exact hwf.inRange _ (slice_idx_mem cs i e he).1
  · intro e he; exact hnsz _ (slice_idx_mem cs i e he).2

theorem extreme_axis (red : List Rat → Except Err Rat)
    (hred : ∀ xs, red xs = match selL? op xs with | some m => .ok m | none => .error .value)
    (cs : CS Rat) (hwf : cs.WF) (hnsz : cs.NoStoredZeros) (hall : ∀ v ∈ cs.toDense, nzVals v ≠ []) :
    mapE red (storedVals cs) = .ok (cs.toDense.map (fun v => (selL? op (nzVals v)).getD 0)) := by
  simp only [storedVals, toDense_getElem, mapE_map, List.map_map, Function.comp_def]
  apply mapE_ok
  intro i hi
  have hi' : i < cs.nMajor := List.mem_range.mp hi
  have hv : denseVec cs.nMinor (cs.slice i) ∈ cs.toDense := by
    rw [toDense_getElem]; exact List.mem_map.mpr ⟨i, hi, rfl⟩
  obtain ⟨m, hm⟩ := selL?_ne_nil op _ (hall _ hv)
  rw [hred, sel_stored S cs hwf hnsz i hi', hm]
  rfl

theorem extreme_whole (cols g : Grid) (m0 : Rat) (ms : List Rat)
    (hall : ∀ v ∈ cols, nzVals v ≠ [])
    (hL : cols.map (fun v => (selL? op (nzVals v)).getD 0) = m0 :: ms)
    (hsub : ∀ c ∈ cols, ∀ x ∈ c, x ∈ g.flatten) (hsup : ∀ x ∈ g.flatten, ∃ c ∈ cols, x ∈ c) :
    selL? op (nzVals g.flatten) = some (ms.foldl op m0) := by
  have hsel : selL? op (m0 :: ms) = some (ms.foldl op m0) := rfl
  have hs := selL?_isSel S _ _ hsel
  rw [← hL] at hs
  apply selL?_of_isSel S
  have hcol : ∀ c ∈ cols, IsSel le ((selL? op (nzVals c)).getD 0) (nzVals c) := by
    intro c hc
    obtain ⟨m, hm⟩ := selL?_ne_nil op _ (hall c hc)
    rw [hm]; exact selL?_isSel S _ _ hm
  constructor
  · obtain ⟨c, hc, hcm⟩ := List.mem_map.mp hs.1
    have h1 := (hcol c hc).1
    rw [hcm] at h1
    simp only [nzVals, List.mem_filter, decide_eq_true_eq] at h1 ⊢
    exact ⟨hsub c hc _ h1.1, h1.2⟩
  · intro x hx
    simp only [nzVals, List.mem_filter, decide_eq_true_eq] at hx
    obtain ⟨c, hc, hxc⟩ := hsup x hx.1
    have h1 := (hcol c hc).2 x (by simp only [nzVals, List.mem_filter, decide_eq_true_eq]; exact ⟨hxc, hx.2⟩)
    have h2 := hs.2 _ (List.mem_map.mpr ⟨c, hc, rfl⟩)
    exact S.trans _ _ _ h2 h1

end

theorem npMin_sel (xs : List Rat) :
    npMin xs = match selL? min xs with | some m => .ok m | none => .error .value := by cases xs <;> rfl
theorem npMax_sel (xs : List Rat) :
    npMax xs = match selL? max xs with | some m => .ok m | none => .error .value := by cases xs <;> rfl
theorem minNZ_eq : minNZ = fun v => selL? min (nzVals v) := by funext v; simp [minNZ, minL?_eq_selL?]
theorem maxNZ_eq : maxNZ = fun v => selL? max (nzVals v) := by funext v; simp [maxNZ, maxL?_eq_selL?]

theorem approx_refl (x : Rat) : approx x x = true := by
  have h0 : (x - x).abs = 0 := by
    have : x - x = 0 := by grind
    rw [this]; rfl
  have h1 : (0 : Rat) ≤ x.abs := Rat.abs_nonneg
  simp only [approx, h0, decide_eq_true_eq]
  have : (0 : Rat) ≤ x.abs / 1099511627776 := by grind
  exact this

theorem lookupBy_map {β γ : Type} (g : β → γ) : ∀ (ids : List Id) (xs : List β) (id : Id),
    lookupBy ids (xs.map g) id = (lookupBy ids xs id).map g
  | [], _, _ => by simp [lookupBy]
  | _ :: _, [], _ => by simp [lookupBy]
  | i :: is, x :: xs, id => by
    simp only [List.map_cons, lookupBy]
    split
    · rfl
    · exact lookupBy_map g is xs id

theorem colAt_toDense (cs : CS Rat) (i : Nat) (hi : i < cs.nMinor) :
    colAt cs.toDense i = (List.range cs.nMajor).map (fun j => entryAt (cs.slice j) i) := by
  simp only [colAt, toDense_getElem, List.filterMap_map, Function.comp_def, denseVec, List.getElem?_map,
    List.getElem?_range hi, Option.map_some]
  exact congrFun (List.filterMap_eq_map (f := fun j => entryAt (cs.slice j) i)) _

theorem printsAs3_refl (x : Rat) : printsAs3 x x = true := by
  have h0 : (x - x).abs = 0 := by
    have : x - x = 0 := by grind
    rw [this]; rfl
  simp only [printsAs3, h0, decide_eq_true_eq, tol3]
  grind

theorem mem_zip_map_self {α β : Type} (g : α → β) : ∀ (l : List α) (a : α) (b : β), (a, b) ∈ l.zip (l.map g) → b = g a
  | [], _, _, h => by simp at h
  | x :: l, a, b, h => by
    simp only [List.map_cons, List.zip_cons_cons, List.mem_cons, Prod.mk.injEq] at h
    rcases h with ⟨rfl, rfl⟩ | h
    · rfl
    · exact mem_zip_map_self g l a b h

theorem pairwiseLe_of_pairwise : ∀ (l : List Rat), l.Pairwise (· ≤ ·) → pairwiseLe l = true
  | [], _ => rfl
  | [_], _ => rfl
  | a :: b :: rest, h => by
    rw [List.pairwise_cons] at h
    simp only [pairwiseLe, Bool.and_eq_true, decide_eq_true_eq]
    exact ⟨h.1 b (by simp), pairwiseLe_of_pairwise (b :: rest) h.2⟩

theorem lookupBy_zip_mem {β : Type} : ∀ (ids : List Id) (xs : List β) (a : Id) (b : β), ids.Nodup →
    (a, b) ∈ ids.zip xs → lookupBy ids xs a = some b
  | [], _, _, _, _, h => by simp at h
  | _ :: _, [], _, _, _, h => by simp at h
  | i :: is, x :: xs, a, b, hnd, h => by
    simp only [List.nodup_cons] at hnd
    simp only [List.zip_cons_cons, List.mem_cons, Prod.mk.injEq] at h
    simp only [lookupBy]
    rcases h with ⟨rfl, rfl⟩ | h
    · simp
    · have : i ≠ a := fun e => hnd.1 (e ▸ (List.of_mem_zip h).1)
      simp only [this, if_false]
      exact lookupBy_zip_mem is xs a b hnd.2 h

theorem entryRow_length (m : MdE) : (entryRow m).length = (entryColumns m).length := by
  induction m with
  | nil => rfl
  | cons kv m ih =>
    simp only [entryRow, entryColumns, List.flatMap_cons, List.length_append] at ih ⊢
    rw [ih]
    congr 1
    cases kv.2 <;> simp

theorem mcols_homog (cols : List String) : ∀ (es : List MdE), (∀ m ∈ es, entryColumns m = cols) → es ≠ [] →
    es.foldl (fun acc m => let c := entryColumns m; if c.length > acc.length then c else acc) [] = cols := by
  have stay : ∀ (es : List MdE), (∀ m ∈ es, entryColumns m = cols) →
      es.foldl (fun acc m => let c := entryColumns m; if c.length > acc.length then c else acc) cols = cols := by
    intro es
    induction es with
    | nil => intro _; rfl
    | cons m es ih =>
      intro h
      simp only [List.foldl_cons, h m (by simp), Nat.lt_irrefl, if_false, gt_iff_lt]
      exact ih (fun m' hm' => h m' (by simp [hm']))
  intro es h hne
  cases es with
  | nil => exact absurd rfl hne
  | cons m es =>
    simp only [List.foldl_cons, h m (by simp), List.length_nil, gt_iff_lt]
    by_cases hc : 0 < cols.length
    · simp only [hc, if_true]; exact stay es (fun m' hm' => h m' (by simp [hm']))
    · have : cols = [] := List.length_eq_zero_iff.mp (by omega)
      subst this
      simp only [List.length_nil, Nat.lt_irrefl, if_false]
      exact stay es (fun m' hm' => h m' (by simp [hm']))

theorem getE_lt {β : Type} (a : List β) (i : Nat) (d : β) (h : i < a.length) : getE a i = .ok (a.getD i d) := by
  simp [getE, List.getD, List.getElem?_eq_getElem h]

theorem lookupBy_getElem {β : Type} (ids : List Id) (xs : List β) (hnd : ids.Nodup) (hl : ids.length = xs.length)
    (i : Nat) (hi : i < ids.length) : lookupBy ids xs ids[i] = xs[i]? := by
  have h := congrArg (fun l => l[i]?) (lookupBy_self_map ids xs hnd hl)
  simp only [List.getElem?_map, List.getElem?_eq_getElem hi, Option.map_some] at h
  have hx : i < xs.length := by omega
  rw [List.getElem?_eq_getElem hx] at h ⊢
  simpa using h

theorem entryAt_ne_zero_iff (ents : List (Nat × Rat)) (j : Nat) (hnz : ∀ e ∈ ents, e.2 ≠ 0) :
    entryAt ents j ≠ 0 ↔ ∃ e ∈ ents, e.1 = j := by
  unfold entryAt
  cases hf : ents.find? (fun e => e.1 == j) with
  | none =>
    simp only [ne_eq, not_true_eq_false, false_iff, not_exists, not_and]
    intro e he hej
    have := List.find?_eq_none.mp hf e he
    simp [hej] at this
  | some e =>
    have hmem := List.mem_of_find?_eq_some hf
    have hp := List.find?_some hf
    simp only [beq_iff_eq] at hp
    constructor
    · intro _; exact ⟨e, hmem, hp⟩
    · intro _; exact hnz e hmem

theorem wf_of_wfb (cs : CS Rat) (h : cs.wfb = true) : cs.WF := by
  simp only [CS.wfb, Bool.and_eq_true, beq_iff_eq, List.all_eq_true, decide_eq_true_eq, List.mem_range] at h
  obtain ⟨⟨⟨⟨⟨⟨h1, h2⟩, h3⟩, h4⟩, h5⟩, h6⟩, h7⟩ := h
  exact ⟨h1, h2, h3, h4, h5, h6, h7⟩

theorem viewOK_of_b (cs : CS Rat) (n m : Nat) (g : Grid) (h : viewOKb cs n m g = true) : ViewOK cs n m g := by
  simp only [viewOKb, Bool.and_eq_true, beq_iff_eq] at h
  obtain ⟨⟨⟨⟨h1, h2⟩, h3⟩, h4⟩, h5⟩ := h
  refine ⟨wf_of_wfb cs h1, h2, h3, h4, ?_⟩
  intro v hv
  simp only [nszb, List.all_eq_true, bne_iff_ne, ne_eq] at h5
  exact h5 v hv

end Biom.C19
