/-
  C14 — helper lemmas: masks and positions, bounds-checked reads, the `cumsum`/`hstack`
  extraction of index ranges, lookups by ID through masks.
-/
import BiomModel.C14

namespace Biom.C14

variable {α β γ : Type}

/-! ### filterMask -/

theorem filterMask_nil_left (m : List Bool) : filterMask ([] : List β) m = [] := by
  cases m <;> rfl

theorem filterMask_nil_right (l : List β) : filterMask l [] = [] := by
  cases l <;> rfl

theorem filterMask_cons (a : β) (as : List β) (b : Bool) (bs : List Bool) :
    filterMask (a :: as) (b :: bs) = if b then a :: filterMask as bs else filterMask as bs := rfl

theorem filterMask_map_pred (l : List β) (p : β → Bool) : filterMask l (l.map p) = l.filter p := by
  induction l with
  | nil => rfl
  | cons a as ih =>
    simp only [List.map_cons, filterMask_cons, List.filter_cons, ih]

theorem filterMask_length_eq {xs : List β} {ys : List γ} (m : List Bool) (h : xs.length = ys.length) :
    (filterMask xs m).length = (filterMask ys m).length := by
  induction m generalizing xs ys with
  | nil => simp [filterMask_nil_right]
  | cons b bs ih =>
    cases xs with
    | nil => cases ys with
      | nil => rfl
      | cons _ _ => simp at h
    | cons x xs => cases ys with
      | nil => simp at h
      | cons y ys =>
        have h' : xs.length = ys.length := by simpa using h
        simp only [filterMask_cons]
        cases b <;> simp [ih h']

theorem filterMask_all_true (l : List β) (m : List γ) (h : m.length = l.length) :
    filterMask l (m.map (fun _ => true)) = l := by
  induction l generalizing m with
  | nil => exact filterMask_nil_left _
  | cons a as ih =>
    cases m with
    | nil => simp at h
    | cons c cs =>
      have h' : cs.length = as.length := by simpa using h
      simp only [List.map_cons, filterMask_cons, if_true, ih cs h']

theorem filterMask_map (f : β → γ) (l : List β) (m : List Bool) :
    filterMask (l.map f) m = (filterMask l m).map f := by
  induction l generalizing m with
  | nil => simp [filterMask_nil_left]
  | cons a as ih =>
    cases m with
    | nil => simp [filterMask_nil_right]
    | cons b bs => cases b <;> simp [filterMask_cons, ih]

theorem mem_filterMask {l : List β} {m : List Bool} {x : β} (h : x ∈ filterMask l m) : x ∈ l := by
  induction l generalizing m with
  | nil => simp [filterMask_nil_left] at h
  | cons a as ih =>
    cases m with
    | nil => simp [filterMask_nil_right] at h
    | cons b bs =>
      cases b
      · simp only [filterMask_cons] at h
        exact List.mem_cons_of_mem _ (ih h)
      · simp only [filterMask_cons, if_true, List.mem_cons] at h
        rcases h with rfl | h
        · exact List.mem_cons_self
        · exact List.mem_cons_of_mem _ (ih h)

theorem filterMask_sublist (l : List β) (m : List Bool) : (filterMask l m).Sublist l := by
  induction l generalizing m with
  | nil => simp [filterMask_nil_left]
  | cons a as ih =>
    cases m with
    | nil => simp [filterMask_nil_right]
    | cons b bs =>
      cases b
      · simp only [filterMask_cons]; exact (ih bs).cons _
      · simp only [filterMask_cons, if_true]; exact (ih bs).cons_cons _

theorem nodup_filterMask {l : List β} (m : List Bool) (h : l.Nodup) : (filterMask l m).Nodup :=
  List.Nodup.sublist (filterMask_sublist l m) h

/-! ### positions of the set bits -/

theorem mem_posFrom {k i : Nat} {m : List Bool} (h : i ∈ posFrom k m) : k ≤ i ∧ i < k + m.length := by
  induction m generalizing k with
  | nil => simp [posFrom] at h
  | cons b bs ih =>
    simp only [posFrom] at h
    cases b
    · have := ih h; simp only [List.length_cons]; omega
    · simp only [if_true, List.mem_cons] at h
      rcases h with rfl | h
      · simp
      · have := ih h; simp only [List.length_cons]; omega

theorem posFrom_map (g : Nat → γ) (k : Nat) (m : List Bool) :
    (posFrom k m).map g = filterMask ((List.range' k m.length).map g) m := by
  induction m generalizing k with
  | nil => simp [posFrom, filterMask_nil_right]
  | cons b bs ih =>
    simp only [posFrom, List.length_cons, List.range'_succ, List.map_cons, filterMask_cons]
    cases b <;> simp [ih]

theorem posFrom_pairwise (k : Nat) (m : List Bool) : (posFrom k m).Pairwise (· < ·) := by
  induction m generalizing k with
  | nil => simp [posFrom]
  | cons b bs ih =>
    simp only [posFrom]
    cases b
    · exact ih (k + 1)
    · simp only [if_true, List.pairwise_cons]
      refine ⟨fun i hi => ?_, ih (k + 1)⟩
      have := mem_posFrom hi; omega

theorem posFrom_length (k : Nat) (l : List β) (m : List Bool) (h : l.length = m.length) :
    (posFrom k m).length = (filterMask l m).length := by
  induction m generalizing k l with
  | nil => simp [posFrom, filterMask_nil_right]
  | cons b bs ih =>
    cases l with
    | nil => simp at h
    | cons a as =>
      have h' : as.length = bs.length := by simpa using h
      simp only [posFrom, filterMask_cons]
      cases b <;> simp [ih (k + 1) as h']

/-! ### bounds-checked reads -/

theorem mapE_ok {f : β → Except Err γ} {g : β → γ} (l : List β) (h : ∀ x ∈ l, f x = .ok (g x)) :
    mapE f l = .ok (l.map g) := by
  induction l with
  | nil => rfl
  | cons a as ih =>
    have ha := h a List.mem_cons_self
    have ht := ih (fun x hx => h x (List.mem_cons_of_mem _ hx))
    simp only [mapE, ha, ht, List.map_cons]

theorem getE_ok (a : List β) (i : Nat) (d : β) (h : i < a.length) : getE a i = .ok (a.getD i d) := by
  unfold getE
  simp [List.getD, List.getElem?_eq_getElem h]

theorem readRange_ok (indptr : List Nat) (i : Nat) (h : i + 1 < indptr.length) :
    readRange indptr i = .ok (indptr.getD i 0, indptr.getD (i + 1) 0) := by
  unfold readRange
  rw [getE_ok indptr i 0 (by omega), getE_ok indptr (i + 1) 0 h]


/-! ### the `indptr` ranges of increasing positions are already sorted -/

theorem indptr_mono (cs : CS α) (h : cs.WF) (i j : Nat) (hij : i ≤ j) (hj : j ≤ cs.nMajor) :
    cs.indptr.getD i 0 ≤ cs.indptr.getD j 0 := by
  induction j with
  | zero => have : i = 0 := by omega
            subst this; exact Nat.le_refl _
  | succ n ih =>
    by_cases hin : i = n + 1
    · subst hin; exact Nat.le_refl _
    · have h1 := ih (by omega) (by omega)
      have h2 := h.ptrMono n (by omega)
      omega

theorem ranges_sorted (cs : CS α) (h : cs.WF) (keep : List Nat) (hk : keep.Pairwise (· < ·))
    (hb : ∀ i ∈ keep, i < cs.nMajor) :
    (keep.map (fun i => (cs.indptr.getD i 0, cs.indptr.getD (i + 1) 0))).Pairwise
      (fun a b => pairLe a b = true) := by
  rw [List.pairwise_map]
  refine List.Pairwise.imp_of_mem ?_ hk
  intro i j hi hj hij
  have h1 := indptr_mono cs h i j (by omega) (by have := hb j hj; omega)
  have h2 := indptr_mono cs h (i + 1) (j + 1) (by omega) (by have := hb j hj; omega)
  simp only [pairLe, Bool.or_eq_true, decide_eq_true_eq, Bool.and_eq_true, beq_iff_eq]
  omega

theorem sortRanges_id (cs : CS α) (h : cs.WF) (keep : List Nat) (hk : keep.Pairwise (· < ·))
    (hb : ∀ i ∈ keep, i < cs.nMajor) :
    sortRanges (keep.map (fun i => (cs.indptr.getD i 0, cs.indptr.getD (i + 1) 0))) =
      keep.map (fun i => (cs.indptr.getD i 0, cs.indptr.getD (i + 1) 0)) :=
  List.mergeSort_of_pairwise (ranges_sorted cs h keep hk hb)

/-! ### `cumsum` / `hstack` -/

theorem cumsum_getD (acc : Nat) (lens : List Nat) (k : Nat) (hk : k ≤ lens.length) :
    (acc :: cumsum acc lens).getD k 0 = acc + (lens.take k).sum := by
  induction lens generalizing acc k with
  | nil => have : k = 0 := by simpa using hk
           subst this; simp
  | cons x xs ih =>
    cases k with
    | zero => simp
    | succ n =>
      have := ih (acc + x) n (by simpa using hk)
      simp only [cumsum, List.getD_cons_succ, List.take_succ_cons, List.sum_cons]
      rw [this]; omega

theorem flatten_slice (segs : List (List β)) (k : Nat) (hk : k < segs.length) :
    (segs.flatten.drop ((segs.take k).map List.length).sum).take (segs[k].length) = segs[k] := by
  induction segs generalizing k with
  | nil => simp at hk
  | cons s rest ih =>
    cases k with
    | zero => simp
    | succ n =>
      have hn : n < rest.length := by simpa using hk
      simp only [List.flatten_cons, List.take_succ_cons, List.map_cons, List.sum_cons,
        List.getElem_cons_succ]
      rw [List.drop_append]
      have : List.drop (s.length + ((rest.take n).map List.length).sum) s = [] := by
        apply List.drop_eq_nil_of_le; omega
      rw [this, List.nil_append]
      have : s.length + ((rest.take n).map List.length).sum - s.length =
          ((rest.take n).map List.length).sum := by omega
      rw [this]
      exact ih n hn

theorem sliceL_length (xs : List β) (se : Nat × Nat) (h : se.2 ≤ xs.length) :
    (sliceL xs se).length = se.2 - se.1 := by
  unfold sliceL
  simp only [List.length_take, List.length_drop]
  omega

/-- slice `k` of the extracted matrix is the slice of the `k`-th kept range -/
theorem subCS_slice (g : AxisGrp α) (ranges : List (Nat × Nat)) (nMajor nMinor k : Nat)
    (hlen : g.indices.length = g.data.length)
    (hr : ∀ se ∈ ranges, se.2 ≤ g.data.length) (hk : k < ranges.length) :
    (subCS g ranges nMajor nMinor).slice k =
      (sliceL g.indices ranges[k]).zip (sliceL g.data ranges[k]) := by
  have hlensI : ranges.map (fun se => se.2 - se.1) = (ranges.map (sliceL g.indices)).map List.length := by
    rw [List.map_map]
    apply List.map_congr_left
    intro se hse
    exact (sliceL_length g.indices se (by rw [hlen]; exact hr se hse)).symm
  have hlensD : ranges.map (fun se => se.2 - se.1) = (ranges.map (sliceL g.data)).map List.length := by
    rw [List.map_map]
    apply List.map_congr_left
    intro se hse
    exact (sliceL_length g.data se (hr se hse)).symm
  have hkl : k + 1 ≤ (ranges.map (fun se => se.2 - se.1)).length := by simp; omega
  unfold CS.slice
  simp only [subCS]
  rw [cumsum_getD 0 _ k (by omega), cumsum_getD 0 _ (k + 1) hkl]
  have hdiff : 0 + ((ranges.map (fun se => se.2 - se.1)).take (k + 1)).sum -
      (0 + ((ranges.map (fun se => se.2 - se.1)).take k).sum) = ranges[k].2 - ranges[k].1 := by
    rw [List.take_add_one]
    simp [List.getElem?_map, List.getElem?_eq_getElem hk]
  rw [hdiff]
  congr 1
  · have := flatten_slice (ranges.map (sliceL g.indices)) k (by simpa using hk)
    simp only [List.getElem_map] at this
    rw [sliceL_length g.indices _ (by rw [hlen]; exact hr _ (List.getElem_mem hk))] at this
    rw [hlensI, ← List.map_take]
    simpa using this
  · have := flatten_slice (ranges.map (sliceL g.data)) k (by simpa using hk)
    simp only [List.getElem_map] at this
    rw [sliceL_length g.data _ (hr _ (List.getElem_mem hk))] at this
    rw [hlensD, ← List.map_take]
    simpa using this


/-- the `(start, end)` pairs of the kept positions, as read from the file -/
def rangesOf (indptr : List Nat) (keep : List Nat) : List (Nat × Nat) :=
  keep.map (fun i => (indptr.getD i 0, indptr.getD (i + 1) 0))

theorem range_map_getElem (l : List β) (g : β → γ) (f : Nat → γ)
    (h : ∀ k (hk : k < l.length), f k = g l[k]) : (List.range l.length).map f = l.map g := by
  apply List.ext_getElem
  · simp
  · intro i h1 h2
    simp only [List.getElem_map, List.getElem_range]
    exact h i (by simpa using h2)

/-- dense content of the extracted matrix = the kept major vectors of the file's matrix -/
theorem subCS_toDense [Zero α] (g : AxisGrp α) (cs : CS α) (hcs : cs.WF)
    (hi : cs.indptr = g.indptr) (hx : cs.indices = g.indices) (hd : cs.data = g.data)
    (mask : List Bool) (hm : mask.length = cs.nMajor) :
    (subCS g (rangesOf g.indptr (posFrom 0 mask)) (posFrom 0 mask).length cs.nMinor).toDense =
      filterMask cs.toDense mask := by
  have hkeep : ∀ i ∈ posFrom 0 mask, i < cs.nMajor := by
    intro i hi'; have := mem_posFrom hi'; omega
  have hr : ∀ se ∈ rangesOf g.indptr (posFrom 0 mask), se.2 ≤ g.data.length := by
    intro se hse
    simp only [rangesOf, List.mem_map] at hse
    obtain ⟨i, hi', rfl⟩ := hse
    have h1 := indptr_mono cs hcs (i + 1) cs.nMajor (by have := hkeep i hi'; omega) (Nat.le_refl _)
    rw [hcs.ptrLast, hi, hd] at h1
    exact h1
  have hlen : g.indices.length = g.data.length := by rw [← hx, ← hd]; exact hcs.sameLen
  have hrl : (rangesOf g.indptr (posFrom 0 mask)).length = (posFrom 0 mask).length := by
    simp [rangesOf]
  unfold CS.toDense
  simp only [subCS]
  rw [show (List.range cs.nMajor) = List.range' 0 mask.length by rw [hm, List.range_eq_range']]
  rw [← posFrom_map]
  apply range_map_getElem
  intro k hk
  have hk' : k < (rangesOf g.indptr (posFrom 0 mask)).length := by rw [hrl]; exact hk
  have := subCS_slice g (rangesOf g.indptr (posFrom 0 mask)) (posFrom 0 mask).length cs.nMinor k hlen hr hk'
  simp only [subCS] at this
  rw [this]
  congr 1
  simp only [rangesOf, List.getElem_map, sliceL, CS.slice, hi, hx, hd]


/-! ### transposition commutes with masking the major vectors -/

theorem colAt_filterMask (rows : List (List β)) (m : List Bool) (j : Nat)
    (h : ∀ r ∈ rows, j < r.length) : colAt (filterMask rows m) j = filterMask (colAt rows j) m := by
  induction rows generalizing m with
  | nil => simp [colAt, filterMask_nil_left]
  | cons r rs ih =>
    cases m with
    | nil => simp [colAt, filterMask_nil_right]
    | cons b bs =>
      have hr : j < r.length := h r List.mem_cons_self
      have ih' := ih bs (fun r' hr' => h r' (List.mem_cons_of_mem _ hr'))
      unfold colAt at ih' ⊢
      cases b
      · simp only [filterMask_cons, List.filterMap_cons, List.getElem?_eq_getElem hr]
        simpa using ih'
      · simp only [filterMask_cons, List.filterMap_cons, List.getElem?_eq_getElem hr, if_true]
        rw [ih']

theorem transposeGrid_filterMask (n : Nat) (rows : List (List β)) (m : List Bool)
    (h : ∀ r ∈ rows, r.length = n) :
    transposeGrid n (filterMask rows m) = (transposeGrid n rows).map (fun c => filterMask c m) := by
  unfold transposeGrid
  rw [List.map_map]
  apply List.map_congr_left
  intro j hj
  have hj' : j < n := by simpa using hj
  exact colAt_filterMask rows m j (fun r hr => by rw [h r hr]; exact hj')

theorem toDense_row_length [Zero α] (cs : CS α) : ∀ r ∈ cs.toDense, r.length = cs.nMinor := by
  intro r hr
  simp only [CS.toDense, List.mem_map] at hr
  obtain ⟨i, _, rfl⟩ := hr
  simp [CS.denseVec]

/-! ### counting the requested IDs found in the file -/

theorem nodup_length_le_of_subset [BEq β] [LawfulBEq β] (l₁ l₂ : List β) (h1 : l₁.Nodup)
    (hs : ∀ x ∈ l₁, x ∈ l₂) : l₁.length ≤ l₂.length := by
  induction l₁ generalizing l₂ with
  | nil => simp
  | cons a t ih =>
    have ha : a ∈ l₂ := hs a List.mem_cons_self
    have hnd := List.nodup_cons.mp h1
    have ht : ∀ x ∈ t, x ∈ l₂.erase a := by
      intro x hx
      have hxa : x ≠ a := fun e => hnd.1 (e ▸ hx)
      exact (List.mem_erase_of_ne hxa).mpr (hs x (List.mem_cons_of_mem _ hx))
    have := ih (l₂.erase a) hnd.2 ht
    rw [List.length_erase_of_mem ha] at this
    have hpos : 0 < l₂.length := List.length_pos_of_mem ha
    simp only [List.length_cons]; omega

theorem kept_length (src req : List Id) (hs : src.Nodup) (hr : req.Nodup) (hsub : ∀ x ∈ req, x ∈ src) :
    (src.filter (fun i => req.contains i)).length = req.length := by
  apply List.Perm.length_eq
  rw [List.perm_ext_iff_of_nodup (List.Nodup.sublist List.filter_sublist hs) hr]
  intro a
  simp only [List.mem_filter, List.contains_iff_mem]
  exact ⟨fun h => h.2, fun h => ⟨hsub a h, h⟩⟩

theorem kept_length_lt_of_unknown (src req : List Id) (hs : src.Nodup) (x : Id) (hx : x ∈ req)
    (hxs : x ∉ src) : (src.filter (fun i => req.contains i)).length < req.length := by
  have hle := nodup_length_le_of_subset (src.filter (fun i => req.contains i)) (req.erase x)
    (List.Nodup.sublist List.filter_sublist hs) (by
      intro a ha
      simp only [List.mem_filter, List.contains_iff_mem] at ha
      have : a ≠ x := fun e => hxs (e ▸ ha.1)
      exact (List.mem_erase_of_ne this).mpr ha.2)
  rw [List.length_erase_of_mem hx] at hle
  have : 0 < req.length := List.length_pos_of_mem hx
  omega

/-- a repeated requested ID: strictly fewer distinct IDs can be found than were asked for -/
theorem kept_length_lt_of_repeated (src req : List Id) (hs : src.Nodup) (hr : ¬ req.Nodup) :
    (src.filter (fun i => req.contains i)).length < req.length := by
  induction req generalizing src with
  | nil => exact absurd List.nodup_nil hr
  | cons a t ih =>
    by_cases hat : a ∈ t
    · -- `a` is repeated: the found IDs all lie in `t`
      have hle := nodup_length_le_of_subset (src.filter (fun i => (a :: t).contains i)) t
        (List.Nodup.sublist List.filter_sublist hs) (by
          intro x hx
          simp only [List.mem_filter, List.contains_iff_mem, List.mem_cons] at hx
          rcases hx.2 with rfl | h
          · exact hat
          · exact h)
      simp only [List.length_cons]; omega
    · have hnt : ¬ t.Nodup := fun h => hr (List.nodup_cons.mpr ⟨hat, h⟩)
      -- remove `a` from the file side and use the tail
      have h1 := ih (src.filter (fun i => i != a)) (List.Nodup.sublist List.filter_sublist hs) hnt
      have hle := nodup_length_le_of_subset (src.filter (fun i => (a :: t).contains i))
        (a :: (src.filter (fun i => i != a)).filter (fun i => t.contains i))
        (List.Nodup.sublist List.filter_sublist hs) (by
          intro x hx
          simp only [List.mem_filter, List.contains_iff_mem, List.mem_cons] at hx
          simp only [List.mem_cons, List.mem_filter, List.contains_iff_mem, bne_iff_ne, ne_eq]
          by_cases hxa : x = a
          · exact Or.inl hxa
          · rcases hx.2 with h | h
            · exact absurd h hxa
            · exact Or.inr ⟨⟨hx.1, hxa⟩, h⟩)
      simp only [List.length_cons] at hle ⊢
      omega


/-! ### `set(...)` of the requested IDs -/

theorem nodup_eraseDups [BEq β] [LawfulBEq β] (l : List β) : l.eraseDups.Nodup := by
  generalize hn : l.length = n
  induction n using Nat.strongRecOn generalizing l with
  | _ n ih =>
    cases l with
    | nil => simp
    | cons a as =>
      rw [List.eraseDups_cons, List.nodup_cons]
      constructor
      · intro h
        rw [List.mem_eraseDups, List.mem_filter] at h
        simp at h
      · have hlen : (as.filter (fun b => !b == a)).length < n := by
          have := List.length_filter_le (fun b => !b == a) as
          simp only [List.length_cons] at hn; omega
        exact ih _ hlen _ rfl

theorem eraseDups_of_nodup [BEq β] [LawfulBEq β] (l : List β) (h : l.Nodup) : l.eraseDups = l := by
  induction l with
  | nil => rfl
  | cons a as ih =>
    have hnd := List.nodup_cons.mp h
    rw [List.eraseDups_cons]
    have : as.filter (fun b => !b == a) = as := by
      apply List.filter_eq_self.mpr
      intro x hx
      have : x ≠ a := fun e => hnd.1 (e ▸ hx)
      simpa using this
    rw [this, ih hnd.2]

theorem kept_length_set (src req : List Id) (hs : src.Nodup) (hsub : ∀ x ∈ req, x ∈ src) :
    (src.filter (fun i => req.contains i)).length = req.eraseDups.length := by
  have := kept_length src req.eraseDups hs (nodup_eraseDups req)
    (fun x hx => hsub x (List.mem_eraseDups.mp hx))
  rw [← this]
  congr 1
  apply List.filter_congr
  intro x _
  by_cases hx : x ∈ req
  · have h1 : req.contains x = true := List.contains_iff_mem.mpr hx
    have h2 : req.eraseDups.contains x = true := List.contains_iff_mem.mpr (List.mem_eraseDups.mpr hx)
    rw [h1, h2]
  · have h1 : req.contains x = false := by
      rw [Bool.eq_false_iff]; exact fun h => hx (List.contains_iff_mem.mp h)
    have h2 : req.eraseDups.contains x = false := by
      rw [Bool.eq_false_iff]; exact fun h => hx (List.mem_eraseDups.mp (List.contains_iff_mem.mp h))
    rw [h1, h2]


/-! ### the triple-level slicer -/

theorem posFrom_nodup (k : Nat) (m : List Bool) : (posFrom k m).Nodup := by
  rw [List.nodup_iff_pairwise_ne]
  exact List.Pairwise.imp (fun h => Nat.ne_of_lt h) (posFrom_pairwise k m)

theorem sortedSet_posFrom (k : Nat) (m : List Bool) : sortedSet (posFrom k m) = posFrom k m := by
  unfold sortedSet
  rw [eraseDups_of_nodup _ (posFrom_nodup k m)]
  apply List.mergeSort_of_pairwise
  exact List.Pairwise.imp (fun h => by simpa using Nat.le_of_lt h) (posFrom_pairwise k m)

theorem idxOf_eq_iff (keep : List Nat) (hnd : keep.Nodup) (k : Nat) (hk : k < keep.length) (x : Nat)
    (hx : x ∈ keep) : keep.idxOf x = k ↔ x = keep[k] := by
  constructor
  · intro h
    have hlt : keep.idxOf x < keep.length := List.idxOf_lt_length_iff.mpr hx
    have := List.getElem_idxOf hlt
    subst h
    exact this.symm
  · intro h
    subst h
    exact List.Nodup.idxOf_getElem hnd k hk

theorem filter_map_filter_values {T T' V : Type} (data : List T) (P : T → Bool) (f : T → T')
    (Q : T' → Bool) (Q' : T → Bool) (v' : T' → V) (v : T → V)
    (h1 : ∀ t, P t = true → Q (f t) = Q' t) (h2 : ∀ t, P t = false → Q' t = false)
    (h3 : ∀ t, v' (f t) = v t) :
    (((data.filter P).map f).filter Q).map v' = (data.filter Q').map v := by
  induction data with
  | nil => rfl
  | cons t ts ih =>
    cases hp : P t
    · have := h2 t hp
      simp only [List.filter_cons, hp, this, Bool.false_eq_true, ↓reduceIte]
      exact ih
    · have := h1 t hp
      simp only [List.filter_cons, hp, ↓reduceIte, List.map_cons, this]
      cases Q' t
      · simp only [Bool.false_eq_true, ↓reduceIte]; exact ih
      · simp only [↓reduceIte, List.map_cons, h3, ih]

/-- values found at `(k, j)` after slicing rows = values found at `(keep[k], j)` before -/
theorem slice_obs_values (data : List (Triple α)) (keep : List Nat) (hnd : keep.Nodup)
    (k j : Nat) (hk : k < keep.length) :
    ((((data.filter (fun t => keep.contains t.r)).map (fun t => { t with r := keep.idxOf t.r })).filter
        (fun t => t.r == k && t.c == j)).map (·.v)) =
      ((data.filter (fun t => t.r == keep[k] && t.c == j)).map (·.v)) := by
  apply filter_map_filter_values
  · intro t hp
    have hc : t.r ∈ keep := List.contains_iff_mem.mp hp
    have hiff := idxOf_eq_iff keep hnd k hk t.r hc
    by_cases hq : t.r = keep[k]
    · have h1 : (keep.idxOf t.r == k) = true := by simpa using hiff.mpr hq
      have h2 : (t.r == keep[k]) = true := by simpa using hq
      simp only [h1, h2]
    · have h1 : ¬ keep.idxOf t.r = k := fun h => hq (hiff.mp h)
      have h1b : (keep.idxOf t.r == k) = false := by simpa using h1
      have h2b : (t.r == keep[k]) = false := by simpa using hq
      simp only [h1b, h2b, Bool.false_and]
  · intro t hp
    have hc : ¬ t.r ∈ keep := fun h => by
      have := List.contains_iff_mem.mpr h; rw [hp] at this; cases this
    have hq : ¬ t.r = keep[k] := fun h => hc (h ▸ List.getElem_mem hk)
    have h2b : (t.r == keep[k]) = false := by simpa using hq
    simp only [h2b, Bool.false_and]
  · intro t; rfl

theorem slice_samp_values (data : List (Triple α)) (keep : List Nat) (hnd : keep.Nodup)
    (i k : Nat) (hk : k < keep.length) :
    ((((data.filter (fun t => keep.contains t.c)).map (fun t => { t with c := keep.idxOf t.c })).filter
        (fun t => t.r == i && t.c == k)).map (·.v)) =
      ((data.filter (fun t => t.r == i && t.c == keep[k])).map (·.v)) := by
  apply filter_map_filter_values
  · intro t hp
    have hc : t.c ∈ keep := List.contains_iff_mem.mp hp
    have hiff := idxOf_eq_iff keep hnd k hk t.c hc
    by_cases hq : t.c = keep[k]
    · have h1 : (keep.idxOf t.c == k) = true := by simpa using hiff.mpr hq
      have h2 : (t.c == keep[k]) = true := by simpa using hq
      simp only [h1, h2]
    · have h1 : ¬ keep.idxOf t.c = k := fun h => hq (hiff.mp h)
      have h1b : (keep.idxOf t.c == k) = false := by simpa using h1
      have h2b : (t.c == keep[k]) = false := by simpa using hq
      simp only [h1b, h2b, Bool.and_false]
  · intro t hp
    have hc : ¬ t.c ∈ keep := fun h => by
      have := List.contains_iff_mem.mpr h; rw [hp] at this; cases this
    have hq : ¬ t.c = keep[k] := fun h => hc (h ▸ List.getElem_mem hk)
    have h2b : (t.c == keep[k]) = false := by simpa using hq
    simp only [h2b, Bool.and_false]
  · intro t; rfl


/-! ### `get_axis_indices`: the records standing at the kept positions -/

theorem filterMap_congr' {f g : β → Option γ} (l : List β) (h : ∀ x ∈ l, f x = g x) :
    l.filterMap f = l.filterMap g := by
  induction l with
  | nil => rfl
  | cons a as ih =>
    simp only [List.filterMap_cons, h a List.mem_cons_self,
      ih (fun x hx => h x (List.mem_cons_of_mem _ hx))]

theorem not_mem_posFrom_succ (k : Nat) (m : List Bool) : k ∉ posFrom (k + 1) m := by
  intro h; have := mem_posFrom h; omega

theorem recs_at_positions_aux (recs : List β) (mask : List Bool) (k : Nat)
    (hm : mask.length = recs.length) :
    (List.range' k recs.length).filterMap
        (fun i => if (posFrom k mask).contains i then recs[i - k]? else none) =
      filterMask recs mask := by
  induction recs generalizing mask k with
  | nil => simp [filterMask_nil_left]
  | cons a as ih =>
    cases mask with
    | nil => simp at hm
    | cons b bs =>
      have hm' : bs.length = as.length := by simpa using hm
      have hrest : (List.range' (k + 1) as.length).filterMap
          (fun i => if (posFrom k (b :: bs)).contains i then (a :: as)[i - k]? else none) =
          filterMask as bs := by
        rw [← ih bs (k + 1) hm']
        apply filterMap_congr'
        intro i hi
        have hik : k + 1 ≤ i := by
          have := List.mem_range'_1.mp hi; omega
        have hc : (posFrom k (b :: bs)).contains i = (posFrom (k + 1) bs).contains i := by
          cases b
          · simp only [posFrom, Bool.false_eq_true, ↓reduceIte]
          · simp only [posFrom, ↓reduceIte, List.contains_cons]
            have : (i == k) = false := by simp; omega
            rw [this, Bool.false_or]
        have hg : (a :: as)[i - k]? = as[i - (k + 1)]? := by
          have : i - k = (i - (k + 1)) + 1 := by omega
          rw [this, List.getElem?_cons_succ]
        rw [hc, hg]
      simp only [List.length_cons, List.range'_succ, List.filterMap_cons]
      rw [hrest]
      cases b
      · have : (posFrom k (false :: bs)).contains k = false := by
          simp only [posFrom, Bool.false_eq_true, ↓reduceIte]
          rw [Bool.eq_false_iff]
          exact fun h => not_mem_posFrom_succ k bs (List.contains_iff_mem.mp h)
        simp only [this, Bool.false_eq_true, ↓reduceIte, filterMask_cons]
      · have : (posFrom k (true :: bs)).contains k = true := by
          simp [posFrom]
        simp only [this, ↓reduceIte, Nat.sub_self, List.getElem?_cons_zero, filterMask_cons]

theorem recs_at_positions (recs : List β) (mask : List Bool) (hm : mask.length = recs.length) :
    (List.range recs.length).filterMap
        (fun i => if (posFrom 0 mask).contains i then recs[i]? else none) =
      filterMask recs mask := by
  have := recs_at_positions_aux recs mask 0 hm
  simpa [List.range_eq_range'] using this

theorem listMax_lt (l : List Nat) (n : Nat) (hn : 0 < n) (h : ∀ i ∈ l, i < n) : listMax l < n := by
  unfold listMax
  suffices ∀ acc, acc < n → l.foldl max acc < n from this 0 hn
  induction l with
  | nil => intro acc ha; simpa using ha
  | cons a as ih =>
    intro acc ha
    simp only [List.foldl_cons]
    apply ih (fun i hi => h i (List.mem_cons_of_mem _ hi))
    have := h a List.mem_cons_self
    omega


/-! ### lookups by ID through masks -/

theorem lookupBy_nil_right (ids : List Id) (id : Id) : lookupBy ids ([] : List β) id = none := by
  cases ids <;> rfl

theorem lookupBy_cons (i : Id) (is : List Id) (x : β) (xs : List β) (id : Id) :
    lookupBy (i :: is) (x :: xs) id = if i = id then some x else lookupBy is xs id := rfl

theorem lookupBy_map (f : β → γ) (ids : List Id) (xs : List β) (id : Id) :
    lookupBy ids (xs.map f) id = (lookupBy ids xs id).map f := by
  induction ids generalizing xs with
  | nil => cases xs <;> rfl
  | cons i is ih =>
    cases xs with
    | nil => rfl
    | cons x xs =>
      simp only [List.map_cons, lookupBy_cons]
      split
      · rfl
      · exact ih xs

theorem lookupBy_none_of_not_mem (ids : List Id) (xs : List β) (id : Id) (h : id ∉ ids) :
    lookupBy ids xs id = none := by
  induction ids generalizing xs with
  | nil => cases xs <;> rfl
  | cons i is ih =>
    cases xs with
    | nil => rfl
    | cons x xs =>
      have hne : ¬ i = id := fun e => h (e ▸ List.mem_cons_self)
      simp only [lookupBy_cons, hne, ↓reduceIte]
      exact ih xs (fun hm => h (List.mem_cons_of_mem _ hm))

theorem lookupBy_some_of_mem (ids : List Id) (xs : List β) (id : Id) (h : id ∈ ids)
    (hl : ids.length ≤ xs.length) : ∃ x, lookupBy ids xs id = some x ∧ x ∈ xs := by
  induction ids generalizing xs with
  | nil => cases h
  | cons i is ih =>
    cases xs with
    | nil => simp at hl
    | cons x xs =>
      by_cases hi : i = id
      · exact ⟨x, by simp [lookupBy_cons, hi], List.mem_cons_self⟩
      · have hm : id ∈ is := by
          rcases List.mem_cons.mp h with e | hm
          · exact absurd e.symm hi
          · exact hm
        obtain ⟨y, hy, hyx⟩ := ih xs hm (by simpa using hl)
        exact ⟨y, by simp [lookupBy_cons, hi, hy], List.mem_cons_of_mem _ hyx⟩

/-- masking IDs and values together does not disturb the lookup of a kept ID -/
theorem lookupBy_filterMask (ids : List Id) (xs : List β) (m : List Bool) (id : Id)
    (hnd : ids.Nodup) (hin : id ∈ filterMask ids m) :
    lookupBy (filterMask ids m) (filterMask xs m) id = lookupBy ids xs id := by
  induction ids generalizing xs m with
  | nil => simp [filterMask_nil_left] at hin
  | cons i is ih =>
    have hnd' := List.nodup_cons.mp hnd
    cases m with
    | nil => simp [filterMask_nil_right] at hin
    | cons b bs =>
      cases xs with
      | nil => simp [filterMask_nil_left, lookupBy_nil_right]
      | cons x xs =>
        cases b
        · simp only [filterMask_cons, Bool.false_eq_true, ↓reduceIte] at hin ⊢
          have hne : ¬ i = id := fun e => hnd'.1 (e ▸ mem_filterMask hin)
          simp only [lookupBy_cons, hne, ↓reduceIte]
          exact ih xs bs hnd'.2 hin
        · simp only [filterMask_cons, ↓reduceIte] at hin ⊢
          simp only [lookupBy_cons]
          by_cases hi : i = id
          · simp [hi]
          · simp only [hi, ↓reduceIte]
            rcases List.mem_cons.mp hin with e | hm
            · exact absurd e.symm hi
            · exact ih xs bs hnd'.2 hm

theorem any_congr_mem {f g : β → Bool} (l : List β) (h : ∀ x ∈ l, f x = g x) : l.any f = l.any g := by
  induction l with
  | nil => rfl
  | cons a as ih =>
    simp only [List.any_cons, h a List.mem_cons_self,
      ih (fun x hx => h x (List.mem_cons_of_mem _ hx))]

def optAny (q : β → Bool) : Option β → Bool
  | some x => q x
  | none => false

/-- `any` over the kept entries of a vector, told by ID -/
theorem any_filterMask_byId (ids : List Id) (r : List β) (p : Id → Bool) (q : β → Bool)
    (hnd : ids.Nodup) :
    (filterMask r (ids.map p)).any q = (ids.filter p).any (fun k => optAny q (lookupBy ids r k)) := by
  induction ids generalizing r with
  | nil => simp [filterMask_nil_right]
  | cons s ss ih =>
    have hnd' := List.nodup_cons.mp hnd
    cases r with
    | nil =>
      simp only [filterMask_nil_left, List.any_nil, lookupBy_nil_right, optAny]
      symm; rw [List.any_eq_false]; intro _ _; simp
    | cons x xs =>
      have htail : (ss.filter p).any (fun k => optAny q (lookupBy (s :: ss) (x :: xs) k)) =
          (ss.filter p).any (fun k => optAny q (lookupBy ss xs k)) := by
        apply any_congr_mem
        intro k hk
        have hks : k ∈ ss := (List.mem_filter.mp hk).1
        have hne : ¬ s = k := fun e => hnd'.1 (e ▸ hks)
        simp only [lookupBy_cons, hne, ↓reduceIte]
      simp only [List.map_cons, filterMask_cons, List.filter_cons]
      cases hp : p s
      · simp only [Bool.false_eq_true, ↓reduceIte]
        rw [htail]; exact ih xs hnd'.2
      · simp only [↓reduceIte, List.any_cons]
        rw [htail, ih xs hnd'.2]
        simp only [lookupBy_cons, ↓reduceIte, optAny]

/-- masking by a content predicate = filtering the IDs by that predicate told by ID -/
theorem filterMask_map_byId (ids : List Id) (xs : List β) (f : β → Bool) (hnd : ids.Nodup)
    (hl : ids.length = xs.length) :
    filterMask ids (xs.map f) = ids.filter (fun i => optAny f (lookupBy ids xs i)) := by
  induction ids generalizing xs with
  | nil => simp [filterMask_nil_left]
  | cons i is ih =>
    have hnd' := List.nodup_cons.mp hnd
    cases xs with
    | nil => simp at hl
    | cons x xs =>
      have hl' : is.length = xs.length := by simpa using hl
      have htail : is.filter (fun k => optAny f (lookupBy (i :: is) (x :: xs) k)) =
          is.filter (fun k => optAny f (lookupBy is xs k)) := by
        apply List.filter_congr
        intro k hk
        have hne : ¬ i = k := fun e => hnd'.1 (e ▸ hk)
        simp only [lookupBy_cons, hne, ↓reduceIte]
      simp only [List.map_cons, filterMask_cons, List.filter_cons]
      rw [htail, ih xs hnd'.2 hl']
      simp only [lookupBy_cons, ↓reduceIte, optAny]

theorem lookupBy_eq_getElem (ids : List Id) (xs : List β) (id : Id) (h : id ∈ ids) :
    lookupBy ids xs id = xs[ids.idxOf id]? := by
  induction ids generalizing xs with
  | nil => cases h
  | cons i is ih =>
    cases xs with
    | nil => simp [lookupBy_nil_right]
    | cons x xs =>
      by_cases hi : i = id
      · subst hi; simp [lookupBy_cons]
      · have hm : id ∈ is := by
          rcases List.mem_cons.mp h with e | hm
          · exact absurd e.symm hi
          · exact hm
        have hb : (i == id) = false := by simpa using hi
        simp only [lookupBy_cons, hi, ↓reduceIte, List.idxOf_cons, hb, cond_false,
          List.getElem?_cons_succ]
        exact ih xs hm

theorem colAt_length (rows : List (List β)) (j : Nat) (h : ∀ r ∈ rows, j < r.length) :
    (colAt rows j).length = rows.length := by
  induction rows with
  | nil => rfl
  | cons r rs ih =>
    have hr := h r List.mem_cons_self
    unfold colAt at ih ⊢
    simp only [List.filterMap_cons, List.getElem?_eq_getElem hr, List.length_cons]
    rw [ih (fun r' hr' => h r' (List.mem_cons_of_mem _ hr'))]

theorem lookupBy_colAt (ids : List Id) (rows : List (List β)) (j : Nat) (id : Id)
    (h : ∀ r ∈ rows, j < r.length) :
    lookupBy ids (colAt rows j) id = (lookupBy ids rows id).bind (fun r => r[j]?) := by
  induction ids generalizing rows with
  | nil => cases rows <;> simp [lookupBy]
  | cons i is ih =>
    cases rows with
    | nil => simp [colAt, lookupBy_nil_right]
    | cons r rs =>
      have hr := h r List.mem_cons_self
      have ih' := ih rs (fun r' hr' => h r' (List.mem_cons_of_mem _ hr'))
      unfold colAt at ih' ⊢
      simp only [List.filterMap_cons, List.getElem?_eq_getElem hr, lookupBy_cons]
      split
      · simp [List.getElem?_eq_getElem hr]
      · exact ih'


/-! ### `maskTable` seen through lookups by ID -/

theorem other_other (ax : Axis) : ax.other.other = ax := by cases ax <;> rfl

theorem maskTable_ids_same (t : Table α) (ax : Axis) (m : List Bool) :
    (maskTable t ax m).ids ax = filterMask (t.ids ax) m := by cases ax <;> rfl

theorem maskTable_ids_other (t : Table α) (ax : Axis) (m : List Bool) :
    (maskTable t ax m).ids ax.other = t.ids ax.other := by cases ax <;> rfl

theorem maskTable_ids_other' (t : Table α) (ax : Axis) (m : List Bool) :
    (maskTable t ax.other m).ids ax = t.ids ax := by cases ax <;> rfl

theorem maskTable_ttype (t : Table α) (ax : Axis) (m : List Bool) :
    (maskTable t ax m).ttype = t.ttype := by cases ax <;> rfl

theorem cellA_swap (t : Table α) (ax : Axis) (k o : Id) : cellA t ax k o = cellA t ax.other o k := by
  cases ax <;> rfl

theorem cellA_maskTable_same (t : Table α) (ax : Axis) (m : List Bool) (k o : Id)
    (hnd : (t.ids ax).Nodup) (hk : k ∈ filterMask (t.ids ax) m) :
    cellA (maskTable t ax m) ax k o = cellA t ax k o := by
  cases ax with
  | obs =>
    simp only [cellA, Table.cell?, Table.row?, maskTable]
    rw [lookupBy_filterMask t.obs t.rows m k hnd hk]
  | samp =>
    simp only [cellA, Table.cell?, Table.row?, maskTable, lookupBy_map]
    cases lookupBy t.obs t.rows o with
    | none => rfl
    | some r =>
      simp only [Option.map_some, Option.bind_some]
      exact lookupBy_filterMask t.samp r m k hnd hk

theorem cellA_maskTable_other (t : Table α) (ax : Axis) (m : List Bool) (k o : Id)
    (hnd : (t.ids ax.other).Nodup) (ho : o ∈ filterMask (t.ids ax.other) m) :
    cellA (maskTable t ax.other m) ax k o = cellA t ax k o := by
  rw [cellA_swap, cellA_maskTable_same t ax.other m o k hnd ho, ← cellA_swap]

theorem mdOf_maskTable_same (t : Table α) (ax : Axis) (m : List Bool) (k : Id)
    (hnd : (t.ids ax).Nodup) (hk : k ∈ filterMask (t.ids ax) m) :
    (maskTable t ax m).mdOf? ax k = t.mdOf? ax k := by
  cases ax with
  | obs =>
    simp only [Table.mdOf?, Table.md, Table.ids, maskTable]
    cases t.omd with
    | none => rfl
    | some l => simp only [Option.map_some, Option.bind_some]; exact lookupBy_filterMask t.obs l m k hnd hk
  | samp =>
    simp only [Table.mdOf?, Table.md, Table.ids, maskTable]
    cases t.smd with
    | none => rfl
    | some l => simp only [Option.map_some, Option.bind_some]; exact lookupBy_filterMask t.samp l m k hnd hk

theorem mdOf_maskTable_other (t : Table α) (ax : Axis) (m : List Bool) (o : Id) :
    (maskTable t ax m).mdOf? ax.other o = t.mdOf? ax.other o := by cases ax <;> rfl

theorem mdOf_maskTable_other' (t : Table α) (ax : Axis) (m : List Bool) (k : Id) :
    (maskTable t ax.other m).mdOf? ax k = t.mdOf? ax k := by cases ax <;> rfl

theorem maskTable_WF (t : Table α) (ax : Axis) (m : List Bool) (h : t.WF) : (maskTable t ax m).WF := by
  obtain ⟨h1, h2, h3, h4⟩ := h
  cases ax with
  | obs =>
    refine ⟨filterMask_length_eq m h1, fun r hr => h2 r (mem_filterMask hr), ?_, h4⟩
    intro l hl
    simp only [maskTable] at hl
    cases ho : t.omd with
    | none => rw [ho] at hl; cases hl
    | some l0 =>
      rw [ho] at hl
      simp only [Option.map_some, Option.some.injEq] at hl
      subst hl
      exact filterMask_length_eq m (h3 l0 ho)
  | samp =>
    refine ⟨by simpa [maskTable] using h1, ?_, h3, ?_⟩
    · intro r hr
      simp only [maskTable, List.mem_map] at hr
      obtain ⟨r0, hr0, rfl⟩ := hr
      exact filterMask_length_eq m (h2 r0 hr0)
    · intro l hl
      simp only [maskTable] at hl
      cases ho : t.smd with
      | none => rw [ho] at hl; cases hl
      | some l0 =>
        rw [ho] at hl
        simp only [Option.map_some, Option.some.injEq] at hl
        subst hl
        exact filterMask_length_eq m (h4 l0 ho)

theorem wfb_of_WF (t : Table α) (h : t.WF) : t.wfb = true := by
  obtain ⟨h1, h2, h3, h4⟩ := h
  have a : (t.rows.all fun x => x.length == t.samp.length) = true := by
    rw [List.all_eq_true]; intro r hr; simpa using h2 r hr
  unfold Table.wfb
  cases ho : t.omd with
  | none =>
    cases hs : t.smd with
    | none => simp [a, h1]
    | some m => simp [a, h1, h4 m hs]
  | some l =>
    cases hs : t.smd with
    | none => simp [a, h1, h3 l ho]
    | some m => simp [a, h1, h3 l ho, h4 m hs]

theorem cell_isSome (t : Table α) (h : t.WF) (k s : Id) (hk : k ∈ t.obs) (hs : s ∈ t.samp) :
    (t.cell? k s).isSome = true := by
  obtain ⟨h1, h2, _, _⟩ := h
  obtain ⟨r, hr, hrin⟩ := lookupBy_some_of_mem t.obs t.rows k hk (by omega)
  obtain ⟨x, hx, _⟩ := lookupBy_some_of_mem t.samp r s hs (by rw [h2 r hrin]; exact Nat.le_refl _)
  simp [Table.cell?, Table.row?, hr, hx]

theorem cellA_isSome (t : Table α) (h : t.WF) (ax : Axis) (k o : Id) (hk : k ∈ t.ids ax)
    (ho : o ∈ t.ids ax.other) : (cellA t ax k o).isSome = true := by
  cases ax with
  | obs => exact cell_isSome t h k o hk ho
  | samp => exact cell_isSome t h o k ho hk

theorem nzCell_eq [Zero α] [DecidableEq α] (t : Table α) (ax : Axis) (k o : Id) :
    nzCell t ax k o = optAny (fun v => decide (v ≠ 0)) (cellA t ax k o) := by
  unfold nzCell optAny
  cases cellA t ax k o <;> rfl

/-- which other-axis IDs survive the emptiness filter, told by ID and cell -/
theorem dropEmpty_ids [Zero α] [DecidableEq α] (t : Table α) (h : t.WF) (hno : t.obs.Nodup)
    (hns : t.samp.Nodup) (req : List Id) (ax : Axis) :
    (dropEmpty (filterAxis t req ax) ax.other).ids ax.other =
      (t.ids ax.other).filter (fun o =>
        ((t.ids ax).filter (fun i => req.contains i)).any (fun k => nzCell t ax k o)) := by
  obtain ⟨h1, h2, _, _⟩ := h
  unfold dropEmpty
  rw [maskTable_ids_same]
  cases ax with
  | samp =>
    simp only [Axis.other, filterAxis, maskTable, vecs, Table.ids, idMask]
    rw [filterMask_map_byId t.obs _ anyNZ hno (by simp [h1])]
    apply List.filter_congr
    intro o ho
    obtain ⟨r, hr, hrin⟩ := lookupBy_some_of_mem t.obs t.rows o ho (by omega)
    rw [lookupBy_map, hr]
    simp only [Option.map_some, optAny, anyNZ]
    rw [any_filterMask_byId t.samp r _ _ hns]
    apply any_congr_mem
    intro k _
    rw [nzCell_eq]
    simp only [cellA, Table.cell?, Table.row?, hr, Option.bind_some]
  | obs =>
    simp only [Axis.other, filterAxis, maskTable, vecs, Table.ids, idMask]
    rw [transposeGrid_filterMask _ _ _ h2]
    have hlen : t.samp.length = (List.map (fun c => filterMask c (List.map (fun i => req.contains i) t.obs))
        (transposeGrid t.samp.length t.rows)).length := by simp [transposeGrid]
    rw [filterMask_map_byId t.samp _ anyNZ hns hlen]
    apply List.filter_congr
    intro s hs
    have hj : t.samp.idxOf s < t.samp.length := List.idxOf_lt_length_iff.mpr hs
    have hcol : ∀ r ∈ t.rows, t.samp.idxOf s < r.length := fun r hr => by rw [h2 r hr]; exact hj
    rw [lookupBy_map, lookupBy_eq_getElem t.samp _ s hs]
    simp only [transposeGrid, List.getElem?_map, List.getElem?_range hj, Option.map_some, optAny, anyNZ]
    rw [any_filterMask_byId t.obs _ _ _ hno]
    apply any_congr_mem
    intro k _
    rw [nzCell_eq, lookupBy_colAt t.obs t.rows _ k hcol]
    simp only [cellA, Table.cell?, Table.row?]
    congr 1
    cases lookupBy t.obs t.rows k with
    | none => rfl
    | some r => simp only [Option.bind_some]; exact (lookupBy_eq_getElem t.samp r s hs).symm

end Biom.C14
