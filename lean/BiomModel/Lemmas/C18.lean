/-
  C18 — helper lemmas: dict operations, positional lookups, casting.
-/
import BiomModel.C18

namespace Biom.C18

section Dict
variable {κ β : Type} [DecidableEq κ]

theorem dget_dictSet (d : List (κ × β)) (k k' : κ) (v : β) :
    dget (dictSet d k v) k' = if k = k' then some v else dget d k' := by
  induction d with
  | nil => simp [dictSet, dget]
  | cons kv r ih =>
    obtain ⟨k0, v0⟩ := kv
    simp only [dictSet]
    by_cases h : k0 = k
    · subst h
      by_cases h2 : k0 = k' <;> simp [dget, h2]
    · simp only [h, if_false, dget]
      by_cases h2 : k0 = k'
      · have : ¬ k = k' := fun e => h (h2.trans e.symm)
        simp [h2, this]
      · simp [h2, ih]

theorem dget_foldl_dictSet (e d : List (κ × β)) (k : κ) :
    dget (e.foldl (fun d kv => dictSet d kv.1 kv.2) d) k =
      match dgetLast e k with
      | some v => some v
      | none => dget d k := by
  induction e generalizing d with
  | nil => simp [dgetLast]
  | cons kv r ih =>
    obtain ⟨k0, v0⟩ := kv
    simp only [List.foldl_cons, ih, dgetLast]
    cases hr : dgetLast r k with
    | some w => simp
    | none =>
      simp only [dget_dictSet]
      by_cases h : k0 = k <;> simp [h]

theorem dget_dictUpdate (d e : List (κ × β)) (k : κ) :
    dget (dictUpdate d e) k = match dgetLast e k with
      | some v => some v
      | none => dget d k := dget_foldl_dictSet e d k

theorem dget_none_of_not_mem (e : List (κ × β)) (k : κ) (h : k ∉ dkeys e) : dget e k = none := by
  induction e with
  | nil => rfl
  | cons kv r ih =>
    obtain ⟨k0, v0⟩ := kv
    simp only [dkeys, List.map_cons, List.mem_cons, not_or] at h
    have h1 : ¬ k0 = k := fun e => h.1 e.symm
    simp only [dget, h1, if_false]
    exact ih h.2

theorem dgetLast_eq_dget (e : List (κ × β)) (k : κ) (h : (dkeys e).Nodup) : dgetLast e k = dget e k := by
  induction e with
  | nil => rfl
  | cons kv r ih =>
    obtain ⟨k0, v0⟩ := kv
    simp only [dkeys, List.map_cons, List.nodup_cons] at h
    simp only [dgetLast, dget, ih h.2]
    by_cases hk : k0 = k
    · subst hk
      simp [dget_none_of_not_mem r k0 h.1]
    · simp only [hk, if_false]
      cases dget r k <;> rfl

/-- with distinct keys in `e`: the update gives `e`'s value where `e` has the key, else the old one -/
theorem dget_dictUpdate_nodup (d e : List (κ × β)) (k : κ) (h : (dkeys e).Nodup) :
    dget (dictUpdate d e) k = match dget e k with
      | some v => some v
      | none => dget d k := by
  rw [dget_dictUpdate, dgetLast_eq_dget e k h]

theorem dget_dictDel (d : List (κ × β)) (k k' : κ) :
    dget (dictDel d k) k' = if k = k' then none else dget d k' := by
  induction d with
  | nil => simp [dictDel, dget]
  | cons kv r ih =>
    obtain ⟨k0, v0⟩ := kv
    simp only [dictDel] at ih ⊢
    by_cases h0 : k0 = k
    · subst h0
      simp only [List.filter_cons, ne_eq, not_true_eq_false, decide_false, Bool.false_eq_true, if_false, ih, dget]
      by_cases h2 : k0 = k' <;> simp [h2]
    · simp only [List.filter_cons, ne_eq, h0, not_false_eq_true, decide_true, if_true, dget, ih]
      by_cases h2 : k0 = k'
      · have : ¬ k = k' := fun e => h0 (h2.trans e.symm)
        simp [h2, this]
      · simp [h2]

theorem dget_foldl_dictDel (ks : List κ) (d : List (κ × β)) (k : κ) :
    dget (ks.foldl dictDel d) k = if k ∈ ks then none else dget d k := by
  induction ks generalizing d with
  | nil => simp
  | cons k0 r ih =>
    simp only [List.foldl_cons, ih, dget_dictDel, List.mem_cons]
    by_cases h1 : k ∈ r
    · simp [h1]
    · by_cases h2 : k0 = k
      · simp [h2]
      · have : ¬ k = k0 := fun e => h2 e.symm
        simp [h1, h2, this]

end Dict


/-! ### positional lookups -/
section Pos
variable {β : Type}

theorem lookupBy_nil_right (ids : List Id) (t : Id) : lookupBy ids ([] : List β) t = none := by
  cases ids <;> rfl

theorem lookupBy_none_of_not_mem (ids : List Id) (xs : List β) (t : Id) (h : t ∉ ids) :
    lookupBy ids xs t = none := by
  induction ids generalizing xs with
  | nil => cases xs <;> rfl
  | cons i is ih =>
    cases xs with
    | nil => rfl
    | cons x xs =>
      simp only [List.mem_cons, not_or] at h
      have : ¬ i = t := fun e => h.1 e.symm
      simp only [lookupBy, this, if_false]
      exact ih xs h.2

theorem lookupBy_mem (ids : List Id) (xs : List β) (t : Id) (x : β) (h : lookupBy ids xs t = some x) : x ∈ xs := by
  induction ids generalizing xs with
  | nil => cases xs <;> simp [lookupBy] at h
  | cons i is ih =>
    cases xs with
    | nil => simp [lookupBy] at h
    | cons y ys =>
      simp only [lookupBy] at h
      by_cases e : i = t
      · simp only [e, if_true, Option.some.injEq] at h
        simp [h]
      · simp only [e, if_false] at h
        exact List.mem_cons_of_mem _ (ih ys h)

theorem lookupBy_map {γ : Type} (g : β → γ) (ids : List Id) (xs : List β) (t : Id) :
    lookupBy ids (xs.map g) t = (lookupBy ids xs t).map g := by
  induction ids generalizing xs with
  | nil => cases xs <;> rfl
  | cons i is ih =>
    cases xs with
    | nil => rfl
    | cons y ys =>
      simp only [List.map_cons, lookupBy]
      by_cases e : i = t
      · simp [e]
      · simp only [e, if_false]; exact ih ys

/-- looking an ID up in a list computed from the IDs themselves -/
theorem lookupBy_map_self (g : Id → β) (ids : List Id) (t : Id) (h : t ∈ ids) :
    lookupBy ids (ids.map g) t = some (g t) := by
  induction ids with
  | nil => cases h
  | cons i is ih =>
    simp only [List.map_cons, lookupBy]
    by_cases e : i = t
    · simp [e]
    · simp only [e, if_false]
      rcases List.mem_cons.mp h with h1 | h1
      · exact absurd h1.symm e
      · exact ih h1

theorem modifyAt_length (f : β → β) (n : Nat) (xs : List β) : (modifyAt f n xs).length = xs.length := by
  induction xs generalizing n with
  | nil => cases n <;> rfl
  | cons x xs ih => cases n <;> simp [modifyAt, ih]

theorem lookupBy_modifyAt_idxOf (f : β → β) (ids : List Id) (xs : List β) (id t : Id) :
    lookupBy ids (modifyAt f (ids.idxOf id) xs) t =
      if t = id then (lookupBy ids xs t).map f else lookupBy ids xs t := by
  induction ids generalizing xs with
  | nil => cases xs <;> simp [lookupBy, modifyAt]
  | cons i is ih =>
    cases xs with
    | nil => simp [modifyAt, lookupBy]
    | cons x xs =>
      rw [List.idxOf_cons]
      by_cases e : i = id
      · subst e
        simp only [beq_self_eq_true, cond_true, modifyAt, lookupBy]
        by_cases e2 : i = t
        · subst e2; simp
        · have : ¬ t = i := fun h => e2 h.symm
          simp [e2, this]
      · have hb : (i == id) = false := by simpa using e
        simp only [hb, cond_false, modifyAt, lookupBy]
        by_cases e2 : i = t
        · subst e2
          simp [e]
        · simp only [e2, if_false]
          exact ih xs

end Pos

/-! ### add_metadata -/
section Add
variable {α : Type}

theorem updStep_length (ids : List Id) (mds : List Md) (ie : Id × Md) :
    (updStep ids mds ie).length = mds.length := by
  unfold updStep
  cases indexOf? ids ie.1 <;> simp [modifyAt_length]

theorem fold_updStep_length (ids : List Id) (m : List (Id × Md)) (mds : List Md) :
    (m.foldl (updStep ids) mds).length = mds.length := by
  induction m generalizing mds with
  | nil => rfl
  | cons ie r ih => simp [List.foldl_cons, ih, updStep_length]

theorem lookupBy_updStep (ids : List Id) (mds : List Md) (ie : Id × Md) (t : Id) :
    lookupBy ids (updStep ids mds ie) t =
      if t = ie.1 then (lookupBy ids mds t).map (fun old => dictUpdate old ie.2) else lookupBy ids mds t := by
  unfold updStep indexOf?
  by_cases h : ids.idxOf ie.1 < ids.length
  · simp only [h, if_true]
    exact lookupBy_modifyAt_idxOf _ ids mds ie.1 t
  · simp only [h, if_false]
    by_cases e : t = ie.1
    · have hn : t ∉ ids := by
        intro hm
        apply h
        rw [← e]
        exact List.idxOf_lt_length_of_mem hm
      simp [e ▸ lookupBy_none_of_not_mem ids mds t hn, lookupBy_none_of_not_mem ids mds t hn, e]
    · simp [e]

/-- the update loop, ID by ID: the entry of `t` is updated with the mapping's entry for `t`, if any -/
theorem lookupBy_fold_updStep (ids : List Id) (m : List (Id × Md)) (mds : List Md) (t : Id)
    (hm : (dkeys m).Nodup) :
    lookupBy ids (m.foldl (updStep ids) mds) t =
      (lookupBy ids mds t).map (fun old => match dget m t with
                                           | some e => dictUpdate old e
                                           | none => old) := by
  induction m generalizing mds with
  | nil => simp [dget]
  | cons ie r ih =>
    obtain ⟨id, e⟩ := ie
    simp only [dkeys, List.map_cons, List.nodup_cons] at hm
    simp only [List.foldl_cons]
    rw [ih _ hm.2, lookupBy_updStep]
    by_cases h : t = id
    · subst h
      have hr : dget r t = none := dget_none_of_not_mem r t hm.1
      simp only [if_true, dget, hr]
      cases lookupBy ids mds t <;> simp
    · have h' : ¬ id = t := fun e => h e.symm
      simp only [h, if_false, dget, h']

theorem castMd_map_some (mds : List Md) :
    castMd (some (mds.map some)) = if mds.all (·.isEmpty) then none else some mds := by
  simp [castMd, List.all_map, Function.comp_def]

/-- by (ID, key) lookups the collapse of an all-empty tuple is invisible -/
theorem lookup_collapsed (ids : List Id) (L : List Md) (id : Id) (k : String) :
    (((if L.all (·.isEmpty) then none else some L : Option (List Md)).bind (fun md => lookupBy ids md id)).bind
        (fun e => dget e k)) = (lookupBy ids L id).bind (fun e => dget e k) := by
  by_cases h : L.all (·.isEmpty) = true
  · simp only [h, if_true, Option.bind_none]
    cases hl : lookupBy ids L id with
    | none => rfl
    | some e =>
      have he := List.all_eq_true.mp h e (lookupBy_mem _ _ _ _ hl)
      rw [List.isEmpty_iff.mp he]; rfl
  · simp [h]

theorem md_setMd_same (t : Table α) (ax : Axis) (m : Option (List Md)) : (setMd t ax m).md ax = m := by
  cases ax <;> rfl

theorem md_setMd_other (t : Table α) (ax : Axis) (m : Option (List Md)) : (setMd t ax m).md ax.other = t.md ax.other := by
  cases ax <;> rfl

theorem md_setMd_other' (t : Table α) (ax : Axis) (m : Option (List Md)) : (setMd t ax.other m).md ax = t.md ax := by
  cases ax <;> rfl

theorem ids_setMd (t : Table α) (ax ax' : Axis) (m : Option (List Md)) : (setMd t ax m).ids ax' = t.ids ax' := by
  cases ax <;> cases ax' <;> rfl

theorem md_addMetadata_same (t : Table α) (m : List (Id × Md)) (ax : Axis) :
    (addMetadata t m ax).md ax = castMd (some (addPre t m ax)) := by
  unfold addMetadata
  simp only [md_setMd_other', md_setMd_same]

theorem md_addMetadata_other (t : Table α) (m : List (Id × Md)) (ax : Axis) :
    (addMetadata t m ax).md ax.other = castMd ((t.md ax.other).map (·.map some)) := by
  unfold addMetadata
  cases ax <;> rfl

theorem frame_addMetadata (t : Table α) (m : List (Id × Md)) (ax : Axis) :
    (addMetadata t m ax).obs = t.obs ∧ (addMetadata t m ax).samp = t.samp ∧
    (addMetadata t m ax).rows = t.rows ∧ (addMetadata t m ax).ttype = t.ttype := by
  cases ax <;> exact ⟨rfl, rfl, rfl, rfl⟩

theorem ids_addMetadata (t : Table α) (m : List (Id × Md)) (ax ax' : Axis) :
    (addMetadata t m ax).ids ax' = t.ids ax' := by
  cases ax <;> cases ax' <;> rfl

end Add


/-! ### characters: strip, unquote, split, join -/
section Chars

def hasNonWs (s : Str) : Bool := s.any (fun c => !isWs c)

theorem lstrip_append_allWs (a b : Str) (h : a.all isWs = true) : lstrip (a ++ b) = lstrip b := by
  induction a with
  | nil => rfl
  | cons c r ih =>
    simp only [List.all_cons, Bool.and_eq_true] at h
    simp only [lstrip, List.cons_append, List.dropWhile_cons, h.1, if_true]
    exact ih h.2

theorem lstrip_append_of_nonws (a b : Str) (h : hasNonWs a = true) : lstrip (a ++ b) = lstrip a ++ b := by
  induction a with
  | nil => simp [hasNonWs] at h
  | cons c r ih =>
    simp only [lstrip, List.cons_append, List.dropWhile_cons]
    by_cases hc : isWs c = true
    · simp only [hc, if_true]
      have : hasNonWs r = true := by simpa [hasNonWs, hc] using h
      exact ih this
    · simp [hc]

theorem lstrip_cons_nonws (c : Char) (r : Str) (h : isWs c = false) : lstrip (c :: r) = c :: r := by
  simp [lstrip, List.dropWhile_cons, h]

theorem lstrip_allWs (s : Str) (h : s.all isWs = true) : lstrip s = [] := by
  have := lstrip_append_allWs s [] h
  simpa [lstrip] using this

theorem lstrip_head_nonws (s : Str) (c : Char) (r : Str) (h : lstrip s = c :: r) : isWs c = false := by
  induction s with
  | nil => simp [lstrip] at h
  | cons x xs ih =>
    simp only [lstrip, List.dropWhile_cons] at h
    by_cases hx : isWs x = true
    · simp only [hx, if_true] at h; exact ih h
    · simp only [hx, Bool.false_eq_true, if_false, List.cons.injEq] at h
      rw [← h.1]; simpa using hx

theorem lstrip_idem (s : Str) : lstrip (lstrip s) = lstrip s := by
  cases h : lstrip s with
  | nil => rfl
  | cons c r => exact lstrip_cons_nonws c r (lstrip_head_nonws s c r h)

theorem hasNonWs_lstrip (s : Str) : hasNonWs (lstrip s) = hasNonWs s := by
  induction s with
  | nil => rfl
  | cons c r ih =>
    simp only [lstrip, List.dropWhile_cons]
    by_cases hc : isWs c = true
    · simp only [hc, if_true]
      simp only [lstrip] at ih
      simp [hasNonWs, hc, ih] at ih ⊢
      exact ih
    · simp [hc]

theorem mem_lstrip (s : Str) (x : Char) (h : x ∈ lstrip s) : x ∈ s :=
  (List.dropWhile_sublist isWs).subset h

theorem lstrip_ne_nil_of_nonws (s : Str) (h : hasNonWs s = true) : lstrip s ≠ [] := by
  intro e
  have := hasNonWs_lstrip s
  rw [e, h] at this
  simp [hasNonWs] at this

theorem rstrip_eq_nil_iff (s : Str) : rstrip s = [] ↔ s.all isWs = true := by
  induction s with
  | nil => simp [rstrip]
  | cons c r ih =>
    simp only [rstrip, List.all_cons, Bool.and_eq_true]
    by_cases h1 : (rstrip r).isEmpty = true
    · have hr : rstrip r = [] := List.isEmpty_iff.mp h1
      by_cases h2 : isWs c = true
      · simp [h1, h2, ih.mp hr]
      · simp [h1, h2]
    · have hr : ¬ rstrip r = [] := fun e => h1 (by simp [e])
      have : ¬ r.all isWs = true := fun e => hr (ih.mpr e)
      simp [h1, this]

theorem rstrip_allWs (s : Str) (h : s.all isWs = true) : rstrip s = [] := (rstrip_eq_nil_iff s).mpr h

theorem allWs_iff_not_hasNonWs (s : Str) : s.all isWs = true ↔ hasNonWs s = false := by
  induction s with
  | nil => simp [hasNonWs]
  | cons c r ih =>
    simp only [List.all_cons, Bool.and_eq_true, hasNonWs, List.any_cons, Bool.or_eq_false_iff,
      Bool.not_eq_eq_eq_not, Bool.not_false]
    simp only [hasNonWs] at ih
    rw [ih]

theorem rstrip_ne_nil_of_nonws (s : Str) (h : hasNonWs s = true) : rstrip s ≠ [] := by
  intro e
  have := (allWs_iff_not_hasNonWs s).mp ((rstrip_eq_nil_iff s).mp e)
  rw [h] at this
  cases this

theorem rstrip_cons_of_ne_nil (c : Char) (r : Str) (h : rstrip r ≠ []) : rstrip (c :: r) = c :: rstrip r := by
  simp only [rstrip]
  have : (rstrip r).isEmpty = false := by
    cases hr : rstrip r with
    | nil => exact absurd hr h
    | cons _ _ => rfl
  simp [this]

theorem rstrip_cons_nonws (c : Char) (r : Str) (h : isWs c = false) : rstrip (c :: r) = c :: rstrip r := by
  simp [rstrip, h]

theorem rstrip_append_of_nonws (a b : Str) (h : hasNonWs b = true) : rstrip (a ++ b) = a ++ rstrip b := by
  induction a with
  | nil => rfl
  | cons c r ih =>
    have hne : rstrip (r ++ b) ≠ [] := by
      rw [ih]
      intro e
      exact rstrip_ne_nil_of_nonws b h (List.append_eq_nil_iff.mp e).2
    rw [List.cons_append, rstrip_cons_of_ne_nil c (r ++ b) hne, ih, List.cons_append]

theorem rstrip_append_allWs (a b : Str) (h : b.all isWs = true) : rstrip (a ++ b) = rstrip a := by
  induction a with
  | nil => simpa [rstrip] using rstrip_allWs b h
  | cons c r ih => simp only [List.cons_append, rstrip, ih]

theorem rstrip_of_last_nonws (s : Str) (c : Char) (h : s.getLast? = some c) (hc : isWs c = false) : rstrip s = s := by
  induction s with
  | nil => rfl
  | cons x xs ih =>
    cases xs with
    | nil =>
      simp only [List.getLast?_singleton, Option.some.injEq] at h
      subst h
      simp [rstrip, hc]
    | cons y ys =>
      rw [List.getLast?_cons_cons] at h
      have := ih h
      have hne : rstrip (y :: ys) ≠ [] := by rw [this]; simp
      rw [rstrip_cons_of_ne_nil x (y :: ys) hne, this]

theorem mem_rstrip (s : Str) (x : Char) (h : x ∈ rstrip s) : x ∈ s := by
  induction s with
  | nil => simp [rstrip] at h
  | cons c r ih =>
    simp only [rstrip] at h
    split at h
    · cases h
    · rcases List.mem_cons.mp h with h1 | h1
      · simp [h1]
      · exact List.mem_cons_of_mem _ (ih h1)

theorem rstrip_idem (s : Str) : rstrip (rstrip s) = rstrip s := by
  induction s with
  | nil => rfl
  | cons c r ih =>
    by_cases hr : rstrip r = []
    · by_cases hc : isWs c = true
      · simp [rstrip, hr, hc]
      · have hc' : isWs c = false := by simpa using hc
        have : rstrip (c :: r) = [c] := by simp [rstrip, hr, hc']
        rw [this]; simp [rstrip, hc']
    · rw [rstrip_cons_of_ne_nil c r hr]
      have : rstrip (rstrip r) ≠ [] := by rw [ih]; exact hr
      rw [rstrip_cons_of_ne_nil c (rstrip r) this, ih]

theorem lstrip_rstrip_comm (s : Str) : lstrip (rstrip s) = rstrip (lstrip s) := by
  induction s with
  | nil => rfl
  | cons c r ih =>
    by_cases hc : isWs c = true
    · have hl : lstrip (c :: r) = lstrip r := by simp [lstrip, List.dropWhile_cons, hc]
      rw [hl]
      by_cases hr : rstrip r = []
      · have hall := (rstrip_eq_nil_iff r).mp hr
        have : rstrip (c :: r) = [] := by simp [rstrip, hr, hc]
        rw [this, lstrip_allWs r hall]; rfl
      · rw [rstrip_cons_of_ne_nil c r hr]
        have : lstrip (c :: rstrip r) = lstrip (rstrip r) := by simp [lstrip, List.dropWhile_cons, hc]
        rw [this, ih]
    · have hc' : isWs c = false := by simpa using hc
      rw [lstrip_cons_nonws c r hc', rstrip_cons_nonws c r hc', lstrip_cons_nonws c _ hc']

theorem strip_lstrip (s : Str) : strip (lstrip s) = strip s := by simp [strip, lstrip_idem]

theorem strip_rstrip (s : Str) : strip (rstrip s) = strip s := by
  simp only [strip, lstrip_rstrip_comm, rstrip_idem]

theorem strip_idem (s : Str) : strip (strip s) = strip s := by
  simp only [strip]
  rw [lstrip_rstrip_comm (lstrip s), rstrip_idem, lstrip_idem]

theorem strip_ne_nil_of_nonws (s : Str) (h : hasNonWs s = true) : strip s ≠ [] := by
  unfold strip
  apply rstrip_ne_nil_of_nonws
  rw [hasNonWs_lstrip]; exact h

/-- blanks around a content whose ends are not blank are removed, nothing else -/
theorem strip_decorated (pre core post : Str) (hpre : pre.all isWs = true) (hpost : post.all isWs = true)
    (hh : ∀ c, core.head? = some c → isWs c = false) (hl : ∀ c, core.getLast? = some c → isWs c = false) :
    strip (pre ++ (core ++ post)) = core := by
  unfold strip
  rw [lstrip_append_allWs pre _ hpre]
  cases core with
  | nil => simp [lstrip_allWs post hpost, rstrip]
  | cons c r =>
    have hc := hh c rfl
    rw [List.cons_append, lstrip_cons_nonws c _ hc, ← List.cons_append, rstrip_append_allWs _ _ hpost]
    cases hlast : (c :: r).getLast? with
    | none => simp at hlast
    | some z => exact rstrip_of_last_nonws _ z hlast (hl z hlast)

theorem head?_strip (s : Str) : (strip s).head? = (lstrip s).head? := by
  unfold strip
  cases h : lstrip s with
  | nil => rfl
  | cons c r => rw [rstrip_cons_nonws c r (lstrip_head_nonws s c r h)]; rfl

/-! unquote -/

theorem unquote_append (a b : Str) : unquote (a ++ b) = unquote a ++ unquote b := by simp [unquote]

theorem unquote_id (s : Str) (h : '"' ∉ s) : unquote s = s := by
  unfold unquote
  apply List.filter_eq_self.mpr
  intro c hc
  have : c ≠ '"' := fun e => h (e ▸ hc)
  simpa using this

theorem not_mem_unquote (s : Str) : '"' ∉ unquote s := by
  simp [unquote]

theorem unquote_idem (s : Str) : unquote (unquote s) = unquote s := unquote_id _ (not_mem_unquote s)

theorem mem_unquote (s : Str) (x : Char) (h : x ∈ unquote s) : x ∈ s := by
  simp only [unquote, List.mem_filter] at h; exact h.1

/-! split / join -/

theorem splitOnC_ne_nil (c : Char) (s : Str) : splitOnC c s ≠ [] := by
  cases s with
  | nil => simp [splitOnC]
  | cons x xs => simp only [splitOnC]; split <;> simp

theorem splitOnC_of_not_mem (c : Char) (w : Str) (h : c ∉ w) : splitOnC c w = [w] := by
  induction w with
  | nil => rfl
  | cons x xs ih =>
    simp only [List.mem_cons, not_or] at h
    have hx : ¬ x = c := fun e => h.1 e.symm
    simp [splitOnC, hx, ih h.2]

theorem splitOnC_append_sep (c : Char) (w rest : Str) (h : c ∉ w) :
    splitOnC c (w ++ c :: rest) = w :: splitOnC c rest := by
  induction w with
  | nil => simp [splitOnC]
  | cons x xs ih =>
    simp only [List.mem_cons, not_or] at h
    have hx : ¬ x = c := fun e => h.1 e.symm
    simp [splitOnC, hx, ih h.2]

theorem splitOnC_joinTab (ws : List Str) (hne : ws ≠ []) (h : ∀ w ∈ ws, '\t' ∉ w) :
    splitOnC '\t' (joinTab ws) = ws := by
  induction ws with
  | nil => exact absurd rfl hne
  | cons w r ih =>
    cases r with
    | nil => simpa [joinTab] using splitOnC_of_not_mem '\t' w (h w (by simp))
    | cons w' r' =>
      simp only [joinTab]
      rw [splitOnC_append_sep _ _ _ (h w (by simp)), ih (by simp) (fun x hx => h x (List.mem_cons_of_mem _ hx))]

theorem unquote_joinTab (ws : List Str) : unquote (joinTab ws) = joinTab (ws.map unquote) := by
  induction ws with
  | nil => rfl
  | cons w r ih =>
    cases r with
    | nil => rfl
    | cons w' r' =>
      simp only [joinTab, List.map_cons] at ih ⊢
      rw [unquote_append, ← ih]
      simp [unquote]


/-! lines of tab-joined fields -/

def mapHead (g : Str → Str) : List Str → List Str
  | [] => []
  | x :: xs => g x :: xs

def mapLast (g : Str → Str) : List Str → List Str
  | [] => []
  | [x] => [g x]
  | x :: y :: r => x :: mapLast g (y :: r)

/-- the last field has a non-blank character -/
def lastOk : List Str → Bool
  | [] => false
  | [z] => hasNonWs z
  | _ :: y :: r => lastOk (y :: r)

theorem hasNonWs_append_right (a b : Str) (h : hasNonWs b = true) : hasNonWs (a ++ b) = true := by
  simp only [hasNonWs, List.any_append, Bool.or_eq_true] at h ⊢; exact Or.inr h

theorem hasNonWs_append_left (a b : Str) (h : hasNonWs a = true) : hasNonWs (a ++ b) = true := by
  simp only [hasNonWs, List.any_append, Bool.or_eq_true] at h ⊢; exact Or.inl h

theorem hasNonWs_cons (c : Char) (b : Str) (h : hasNonWs b = true) : hasNonWs (c :: b) = true := by
  simp only [hasNonWs, List.any_cons, Bool.or_eq_true] at h ⊢; exact Or.inr h

theorem hasNonWs_joinTab_of_lastOk (l : List Str) (h : lastOk l = true) : hasNonWs (joinTab l) = true := by
  induction l with
  | nil => simp [lastOk] at h
  | cons x xs ih =>
    cases xs with
    | nil => simpa [joinTab, lastOk] using h
    | cons y r =>
      simp only [joinTab]
      exact hasNonWs_append_right _ _ (hasNonWs_cons _ _ (ih (by simpa [lastOk] using h)))

theorem hasNonWs_joinTab_of_head (a : Str) (rest : List Str) (h : hasNonWs a = true) :
    hasNonWs (joinTab (a :: rest)) = true := by
  cases rest with
  | nil => simpa [joinTab] using h
  | cons y r => simp only [joinTab]; exact hasNonWs_append_left _ _ h

theorem lstrip_joinTab (a : Str) (rest : List Str) (h : hasNonWs a = true) :
    lstrip (joinTab (a :: rest)) = joinTab (lstrip a :: rest) := by
  cases rest with
  | nil => rfl
  | cons y r => simp only [joinTab]; exact lstrip_append_of_nonws _ _ h

theorem rstrip_joinTab (l : List Str) (h : lastOk l = true) : rstrip (joinTab l) = joinTab (mapLast rstrip l) := by
  induction l with
  | nil => rfl
  | cons x xs ih =>
    cases xs with
    | nil => rfl
    | cons y r =>
      have hl : lastOk (y :: r) = true := by simpa [lastOk] using h
      have hJ := hasNonWs_joinTab_of_lastOk (y :: r) hl
      have hne : rstrip (joinTab (y :: r)) ≠ [] := rstrip_ne_nil_of_nonws _ hJ
      simp only [joinTab, mapLast]
      rw [rstrip_append_of_nonws _ _ (hasNonWs_cons _ _ hJ), rstrip_cons_of_ne_nil _ _ hne, ih hl]
      cases hm : mapLast rstrip (y :: r) with
      | nil => cases r <;> simp [mapLast] at hm
      | cons z zs => rfl

theorem mem_mapHead (g : Str → Str) (l : List Str) (x : Str) (h : x ∈ mapHead g l) :
    ∃ y ∈ l, x = y ∨ x = g y := by
  cases l with
  | nil => simp [mapHead] at h
  | cons a r =>
    simp only [mapHead, List.mem_cons] at h
    rcases h with h | h
    · exact ⟨a, by simp, Or.inr h⟩
    · exact ⟨x, by simp [h], Or.inl rfl⟩

theorem mem_mapLast (g : Str → Str) (l : List Str) (x : Str) (h : x ∈ mapLast g l) :
    ∃ y ∈ l, x = y ∨ x = g y := by
  induction l with
  | nil => simp [mapLast] at h
  | cons a r ih =>
    cases r with
    | nil =>
      simp only [mapLast, List.mem_singleton] at h
      exact ⟨a, by simp, Or.inr h⟩
    | cons b r' =>
      simp only [mapLast, List.mem_cons] at h
      rcases h with h | h
      · exact ⟨a, by simp, Or.inl h⟩
      · obtain ⟨y, hy, hxy⟩ := ih (by simpa [List.mem_cons] using h)
        exact ⟨y, List.mem_cons_of_mem _ hy, hxy⟩

theorem map_mapHead (g h : Str → Str) (l : List Str) (hh : ∀ y, h (g y) = h y) :
    (mapHead g l).map h = l.map h := by
  cases l with
  | nil => rfl
  | cons a r => simp [mapHead, hh]

theorem map_mapLast (g h : Str → Str) (l : List Str) (hh : ∀ y, h (g y) = h y) :
    (mapLast g l).map h = l.map h := by
  induction l with
  | nil => rfl
  | cons a r ih =>
    cases r with
    | nil => simp [mapLast, hh]
    | cons b r' => simp only [mapLast, List.map_cons, List.cons.injEq, true_and]; simpa using ih

theorem mapLast_ne_nil (g : Str → Str) (l : List Str) (h : l ≠ []) : mapLast g l ≠ [] := by
  cases l with
  | nil => exact absurd rfl h
  | cons a r => cases r <;> simp [mapLast]

theorem lastOk_mapHead_lstrip (l : List Str) (hh : ∀ a r, l = a :: r → hasNonWs a = true) (h : lastOk l = true) :
    lastOk (mapHead lstrip l) = true := by
  cases l with
  | nil => simp [lastOk] at h
  | cons a r =>
    cases r with
    | nil => simp only [mapHead, lastOk, hasNonWs_lstrip]; exact hh a [] rfl
    | cons b r' => simpa [mapHead, lastOk] using h

/-- the line-level strip only touches the outer blanks of the first and of the last field -/
theorem strip_joinTab (a : Str) (rest : List Str) (ha : hasNonWs a = true) (hl : lastOk (a :: rest) = true) :
    strip (joinTab (a :: rest)) = joinTab (mapLast rstrip (mapHead lstrip (a :: rest))) := by
  unfold strip
  rw [lstrip_joinTab a rest ha]
  exact rstrip_joinTab _ (lastOk_mapHead_lstrip (a :: rest) (fun a' r' e => by cases e; exact ha) hl)

theorem lastOk_map (g : Field → Str) (fs : List Field) :
    lastOk (fs.map g) = (match fs.getLast? with | some f => hasNonWs (g f) | none => false) := by
  induction fs with
  | nil => rfl
  | cons f r ih =>
    cases r with
    | nil => rfl
    | cons f' r' =>
      simp only [List.map_cons, lastOk, List.getLast?_cons_cons] at ih ⊢
      exact ih

theorem head?_joinTab (a : Str) (rest : List Str) (h : a ≠ []) : (joinTab (a :: rest)).head? = a.head? := by
  cases rest with
  | nil => rfl
  | cons y r =>
    simp only [joinTab]
    cases a with
    | nil => exact absurd rfl h
    | cons c cs => rfl

theorem getLast?_joinTab (l : List Str) (z : Str) (hl : l.getLast? = some z) (hz : z ≠ []) :
    (joinTab l).getLast? = z.getLast? := by
  induction l with
  | nil => simp at hl
  | cons x xs ih =>
    cases xs with
    | nil =>
      simp only [List.getLast?_singleton, Option.some.injEq] at hl
      simp [joinTab, hl]
    | cons y r =>
      rw [List.getLast?_cons_cons] at hl
      have := ih hl
      simp only [joinTab]
      have hne : joinTab (y :: r) ≠ [] := by
        intro e
        rw [e] at this
        cases z with
        | nil => exact hz rfl
        | cons c cs =>
          have h2 : (c :: cs).getLast? ≠ none := by simp
          exact h2 this.symm
      rw [List.getLast?_append, List.getLast?_cons_of_ne_nil hne, this]
      cases z with
      | nil => exact absurd rfl hz
      | cons c cs =>
        cases hg : (c :: cs).getLast? with
        | none => simp at hg
        | some w => rfl


/-! fields of the grammar -/

theorem isWs_quote : isWs '"' = false := by decide
theorem isWs_hash : isWs '#' = false := by decide
theorem isWs_tab : isWs '\t' = true := by decide

theorem blankOnly_spec (s : Str) (h : blankOnly s = true) : s.all isWs = true ∧ '\t' ∉ s ∧ '"' ∉ s := by
  simp only [blankOnly, List.all_eq_true, Bool.and_eq_true, bne_iff_ne, ne_eq] at h
  refine ⟨by simpa [List.all_eq_true] using fun c hc => (h c hc).1, fun hm => (h _ hm).2 rfl, fun hm => ?_⟩
  have := (h _ hm).1
  rw [isWs_quote] at this
  cases this

theorem noneOf_spec (s : Str) (h : noneOf (fun c => c == '\t' || c == '"') s = true) : '\t' ∉ s ∧ '"' ∉ s := by
  simp only [noneOf, List.all_eq_true, Bool.not_eq_true', Bool.or_eq_false_iff, beq_eq_false_iff_ne, ne_eq] at h
  exact ⟨fun hm => (h _ hm).1 rfl, fun hm => (h _ hm).2 rfl⟩

theorem cleanOk_spec (s : Str) (h : cleanOk s = true) :
    '\t' ∉ s ∧ '"' ∉ s ∧ (∀ c, s.head? = some c → isWs c = false) ∧ (∀ c, s.getLast? = some c → isWs c = false) := by
  simp only [cleanOk, Bool.and_eq_true] at h
  obtain ⟨⟨h1, h2⟩, h3⟩ := h
  refine ⟨(noneOf_spec s h1).1, (noneOf_spec s h1).2, ?_, ?_⟩
  · intro c hc; rw [hc] at h2; simpa using h2
  · intro c hc; rw [hc] at h3; simpa using h3

/-- the core of a written field: the content, quoted or not -/
def Field.core (f : Field) : Str := if f.quoted then '"' :: (f.clean ++ ['"']) else f.clean

theorem Field.written_eq (f : Field) : f.written = f.pre ++ (f.core ++ f.post) := by
  simp [Field.written, Field.core]

theorem unquote_core (f : Field) (h : '"' ∉ f.clean) : unquote f.core = f.clean := by
  unfold Field.core
  split
  · simp only [unquote, List.filter_cons, bne_self_eq_false, Bool.false_eq_true, if_false, List.filter_append,
      List.filter_nil, List.append_nil]
    exact unquote_id _ h
  · exact unquote_id _ h

theorem core_ends (f : Field) (hc : cleanOk f.clean = true) :
    (∀ c, f.core.head? = some c → isWs c = false) ∧ (∀ c, f.core.getLast? = some c → isWs c = false) := by
  obtain ⟨_, _, hh, hl⟩ := cleanOk_spec _ hc
  unfold Field.core
  split
  · constructor
    · intro c h; simp only [List.head?_cons, Option.some.injEq] at h; rw [← h]; exact isWs_quote
    · intro c h
      rw [← List.cons_append, List.getLast?_append] at h
      simp only [List.getLast?_singleton, Option.some_or, Option.some.injEq] at h
      rw [← h]; exact isWs_quote
  · exact ⟨hh, hl⟩

/-- a written field stands for its content, under each of the four stripping modes -/
theorem stripF_written (o : Opts) (f : Field) (h : f.ok = true) : stripF o f.written = f.expect o := by
  simp only [Field.ok, Bool.and_eq_true] at h
  obtain ⟨⟨hpre, hpost⟩, hclean⟩ := h
  obtain ⟨hpw, _, hpq⟩ := blankOnly_spec _ hpre
  obtain ⟨hsw, _, hsq⟩ := blankOnly_spec _ hpost
  obtain ⟨_, hcq, _, _⟩ := cleanOk_spec _ hclean
  have hends := core_ends f hclean
  rw [Field.written_eq]
  unfold stripF Field.expect
  cases hq : o.stripQuotes <;> cases hs : o.suppress
  · -- keep quotes, strip blanks
    simp only [Bool.false_eq_true, if_false, Bool.false_or, List.nil_append, List.append_nil]
    rw [strip_decorated _ _ _ hpw hsw hends.1 hends.2]
    unfold Field.core
    cases f.quoted <;> rfl
  · -- keep everything
    simp only [Bool.false_eq_true, if_false, if_true, Bool.false_or]
    unfold Field.core
    cases f.quoted <;> simp
  · -- remove quotes, strip blanks
    simp only [if_true, Bool.true_or, Bool.false_eq_true, if_false, List.nil_append, List.append_nil]
    rw [unquote_append, unquote_append, unquote_id _ hpq, unquote_id _ hsq, unquote_core f hcq]
    obtain ⟨_, _, hh, hl⟩ := cleanOk_spec _ hclean
    exact strip_decorated _ _ _ hpw hsw hh hl
  · -- remove quotes, keep blanks
    simp only [if_true, Bool.true_or]
    rw [unquote_append, unquote_append, unquote_id _ hpq, unquote_id _ hsq, unquote_core f hcq]
    simp

theorem tab_not_mem_written (f : Field) (h : f.ok = true) : '\t' ∉ f.written := by
  simp only [Field.ok, Bool.and_eq_true] at h
  obtain ⟨⟨hpre, hpost⟩, hclean⟩ := h
  have h1 := (blankOnly_spec _ hpre).2.1
  have h2 := (blankOnly_spec _ hpost).2.1
  have h3 := (cleanOk_spec _ hclean).1
  rw [Field.written_eq]
  unfold Field.core
  intro hm
  simp only [List.mem_append] at hm
  rcases hm with hm | hm | hm
  · exact h1 hm
  · split at hm
    · simp only [List.mem_cons, List.mem_append, List.mem_singleton] at hm
      rcases hm with hm | hm | hm
      · cases hm
      · exact h3 hm
      · rcases hm with hm | hm
        · cases hm
        · cases hm
    · exact h3 hm
  · exact h2 hm


/-! one step of the line loop -/

def uq (o : Opts) (x : Str) : Str := if o.stripQuotes then unquote x else x

theorem stripF_eq (o : Opts) (x : Str) : stripF o x = if o.suppress then uq o x else strip (uq o x) := rfl

theorem uq_idem (o : Opts) (x : Str) : uq o (uq o x) = uq o x := by
  unfold uq; split
  · exact unquote_idem x
  · rfl

theorem mem_uq (o : Opts) (s : Str) (x : Char) (h : x ∈ uq o s) : x ∈ s := by
  unfold uq at h; split at h
  · exact mem_unquote s x h
  · exact h

theorem uq_joinTab (o : Opts) (ws : List Str) : uq o (joinTab ws) = joinTab (ws.map (uq o)) := by
  unfold uq; split
  · exact unquote_joinTab ws
  · simp

/-- quote-free when quotes are being removed -/
def QF (o : Opts) (x : Str) : Prop := o.stripQuotes = true → '"' ∉ x

theorem QF_uq (o : Opts) (x : Str) : QF o (uq o x) := by
  intro h; simp only [uq, h, if_true]; exact not_mem_unquote x

theorem uq_of_QF (o : Opts) (x : Str) (h : QF o x) : uq o x = x := by
  unfold uq; split
  · rename_i hq; exact unquote_id x (h hq)
  · rfl

theorem hasNonWs_ne_nil (s : Str) (h : hasNonWs s = true) : s ≠ [] := by
  intro e; rw [e] at h; simp [hasNonWs] at h

theorem hasNonWs_of_mem (s : Str) (c : Char) (hc : c ∈ s) (hw : isWs c = false) : hasNonWs s = true := by
  simp only [hasNonWs, List.any_eq_true]
  exact ⟨c, hc, by simp [hw]⟩

theorem stepLine_blank (o : Opts) (st : PState) (raw : Str) (h : strip (stripF o raw) = []) :
    stepLine o st raw = st := by
  unfold stepLine
  have : ((stripF o raw).isEmpty || (o.suppress && (strip (stripF o raw)).isEmpty)) = true := by
    cases hs : o.suppress
    · have h2 : stripF o raw = strip (uq o raw) := by rw [stripF_eq, hs]; rfl
      rw [h2, strip_idem] at h
      rw [h2, h]; rfl
    · simp [h]
  simp only [this, if_true]

theorem strip_hash_ne_nil (rest : Str) : strip ('#' :: rest) ≠ [] :=
  strip_ne_nil_of_nonws _ (hasNonWs_of_mem _ '#' (by simp) isWs_hash)

theorem stepLine_hash (o : Opts) (st : PState) (raw rest : Str) (hl : stripF o raw = '#' :: rest) :
    stepLine o st raw = if st.header.isEmpty then { st with header := splitOnC '\t' (strip rest) } else st := by
  unfold stepLine
  have hne := strip_hash_ne_nil rest
  have : ((stripF o raw).isEmpty || (o.suppress && (strip (stripF o raw)).isEmpty)) = false := by
    rw [hl]
    cases hs : strip ('#' :: rest) with
    | nil => exact absurd hs hne
    | cons _ _ => simp
  rw [hl] at this
  simp only [hl, this, Bool.false_eq_true, if_false]

theorem stepLine_data (o : Opts) (st : PState) (raw : Str) (hne : stripF o raw ≠ [])
    (hb : o.suppress = true → strip (stripF o raw) ≠ []) (hh : (stripF o raw).head? ≠ some '#') :
    stepLine o st raw =
      { st with rows := st.rows ++ [pad st.header.length ((splitOnC '\t' (stripF o raw)).map (stripF o))] } := by
  unfold stepLine
  have : ((stripF o raw).isEmpty || (o.suppress && (strip (stripF o raw)).isEmpty)) = false := by
    cases hl : stripF o raw with
    | nil => exact absurd hl hne
    | cons c r =>
      cases hs : o.suppress
      · simp
      · have := hb hs
        rw [hl] at this
        cases h2 : strip (c :: r) with
        | nil => exact absurd h2 this
        | cons _ _ => simp
  simp only [this, Bool.false_eq_true, if_false]
  split
  · rename_i rest heq
    rw [heq] at hh
    exact absurd rfl hh
  · rfl

/-- the ID field of a data row has a non-blank character that survives the quote removal -/
theorem hasNonWs_uq_written (o : Opts) (f : Field) (hok : f.ok = true) (hc : f.clean ≠ []) :
    hasNonWs (uq o f.written) = true := by
  simp only [Field.ok, Bool.and_eq_true] at hok
  obtain ⟨_, hq, hh, _⟩ := cleanOk_spec _ hok.2
  cases hcl : f.clean with
  | nil => exact absurd hcl hc
  | cons c r =>
    have hcw : isWs c = false := hh c (by rw [hcl]; rfl)
    have hmem : c ∈ f.clean := by rw [hcl]; simp
    have hne : c ≠ '"' := fun e => hq (e ▸ hmem)
    have hw : c ∈ f.written := by
      rw [Field.written_eq]; unfold Field.core
      split <;> simp [hmem]
    apply hasNonWs_of_mem _ c _ hcw
    unfold uq; split
    · simp only [unquote, List.mem_filter, bne_iff_ne, ne_eq]; exact ⟨hw, hne⟩
    · exact hw

theorem rowOk_spec (o : Opts) (fs : List Field) (h : rowOk o fs = true) :
    ∃ f0 rest, fs = f0 :: rest ∧ (∀ f ∈ fs, f.ok = true) ∧ f0.clean ≠ [] ∧ (f0.expect o).head? ≠ some '#' ∧
      (o.suppress = true ∨ ∃ fl, fs.getLast? = some fl ∧ fl.clean ≠ []) := by
  simp only [rowOk, Bool.and_eq_true, List.all_eq_true, Bool.or_eq_true] at h
  obtain ⟨⟨hall, hhead⟩, hlast⟩ := h
  cases fs with
  | nil => simp at hhead
  | cons f0 rest =>
    refine ⟨f0, rest, rfl, hall, ?_, ?_, ?_⟩
    · simp only [List.head?_cons, Bool.and_eq_true, Bool.not_eq_true', List.isEmpty_eq_false_iff] at hhead
      exact hhead.1
    · simp only [List.head?_cons, Bool.and_eq_true, bne_iff_ne, ne_eq] at hhead
      exact hhead.2
    · rcases hlast with hl | hl
      · exact Or.inl hl
      · right
        cases hg : (f0 :: rest).getLast? with
        | none => simp [hg] at hl
        | some fl =>
          refine ⟨fl, rfl, ?_⟩
          simp only [hg, Bool.not_eq_true', List.isEmpty_eq_false_iff] at hl
          exact hl

/-- a data line of the grammar: the fields the loop extracts are the fields' contents -/
theorem row_fields (o : Opts) (fs : List Field) (h : rowOk o fs = true) :
    stripF o (joinTab (fs.map Field.written)) ≠ [] ∧
    (o.suppress = true → strip (stripF o (joinTab (fs.map Field.written))) ≠ []) ∧
    (stripF o (joinTab (fs.map Field.written))).head? ≠ some '#' ∧
    (splitOnC '\t' (stripF o (joinTab (fs.map Field.written)))).map (stripF o) = fs.map (Field.expect o) := by
  obtain ⟨f0, rest, hfs, hall, hc0, hhash, hlast⟩ := rowOk_spec o fs h
  -- the fields after the line-level quote removal
  have hvs : uq o (joinTab (fs.map Field.written)) = joinTab (fs.map (fun f => uq o f.written)) := by
    rw [uq_joinTab, List.map_map]; rfl
  have htab : ∀ v ∈ fs.map (fun f => uq o f.written), '\t' ∉ v := by
    intro v hv hm
    obtain ⟨f, hf, rfl⟩ := List.mem_map.mp hv
    exact tab_not_mem_written f (hall f hf) (mem_uq o _ _ hm)
  have hqf : ∀ v ∈ fs.map (fun f => uq o f.written), QF o v := by
    intro v hv
    obtain ⟨f, _, rfl⟩ := List.mem_map.mp hv
    exact QF_uq o _
  have hexp : ∀ f ∈ fs, stripF o (uq o f.written) = f.expect o := by
    intro f hf
    rw [stripF_eq, uq_idem, ← stripF_eq]
    exact stripF_written o f (hall f hf)
  have h0 : hasNonWs (uq o f0.written) = true := hasNonWs_uq_written o f0 (hall f0 (by simp [hfs])) hc0
  have hne0 : uq o f0.written ≠ [] := hasNonWs_ne_nil _ h0
  have hvcons : fs.map (fun f => uq o f.written) = uq o f0.written :: rest.map (fun f => uq o f.written) := by
    rw [hfs]; rfl
  cases hs : o.suppress with
  | true =>
    have hline : stripF o (joinTab (fs.map Field.written)) = joinTab (fs.map (fun f => uq o f.written)) := by
      rw [stripF_eq, hs, if_pos rfl, hvs]
    have hnw : hasNonWs (joinTab (fs.map (fun f => uq o f.written))) = true := by
      rw [hvcons]; exact hasNonWs_joinTab_of_head _ _ h0
    rw [hline]
    refine ⟨hasNonWs_ne_nil _ hnw, fun _ => strip_ne_nil_of_nonws _ hnw, ?_, ?_⟩
    · rw [hvcons, head?_joinTab _ _ hne0]
      have := hexp f0 (by simp [hfs])
      rw [stripF_eq, hs, if_pos rfl, uq_idem] at this
      rw [this]; exact hhash
    · rw [splitOnC_joinTab _ (by rw [hvcons]; simp) htab, List.map_map]
      apply List.map_congr_left
      intro f hf
      exact hexp f hf
  | false =>
    have hlk : lastOk (fs.map (fun f => uq o f.written)) = true := by
      rw [lastOk_map]
      rcases hlast with hl | ⟨fl, hfl, hcl⟩
      · rw [hs] at hl; cases hl
      · rw [hfl]
        exact hasNonWs_uq_written o fl (hall fl (List.mem_of_getLast? hfl)) hcl
    have hline : stripF o (joinTab (fs.map Field.written)) =
        joinTab (mapLast rstrip (mapHead lstrip (fs.map (fun f => uq o f.written)))) := by
      rw [stripF_eq, hs, if_neg (by simp), hvs, hvcons]
      exact strip_joinTab _ _ h0 (by rw [← hvcons]; exact hlk)
    have hstrip : stripF o (joinTab (fs.map Field.written)) = strip (joinTab (fs.map (fun f => uq o f.written))) := by
      rw [stripF_eq, hs, if_neg (by simp), hvs]
    have hQ : ∀ x ∈ mapLast rstrip (mapHead lstrip (fs.map (fun f => uq o f.written))), '\t' ∉ x ∧ QF o x := by
      intro x hx
      obtain ⟨y, hy, hxy⟩ := mem_mapLast _ _ _ hx
      obtain ⟨z, hz, hyz⟩ := mem_mapHead _ _ _ hy
      have hzQ : '\t' ∉ z ∧ QF o z := ⟨htab z hz, hqf z hz⟩
      have hyQ : '\t' ∉ y ∧ QF o y := by
        rcases hyz with e | e
        · rw [e]; exact hzQ
        · rw [e]; exact ⟨fun hm => hzQ.1 (mem_lstrip _ _ hm), fun hq hm => hzQ.2 hq (mem_lstrip _ _ hm)⟩
      rcases hxy with e | e
      · rw [e]; exact hyQ
      · rw [e]; exact ⟨fun hm => hyQ.1 (mem_rstrip _ _ hm), fun hq hm => hyQ.2 hq (mem_rstrip _ _ hm)⟩
    have hhead : (stripF o (joinTab (fs.map Field.written))).head? = (f0.expect o).head? := by
      rw [hstrip, head?_strip, hvcons, lstrip_joinTab _ _ h0,
        head?_joinTab _ _ (lstrip_ne_nil_of_nonws _ h0), ← head?_strip]
      have := hexp f0 (by simp [hfs])
      rw [stripF_eq, hs, if_neg (by simp), uq_idem] at this
      rw [this]
    have hne : stripF o (joinTab (fs.map Field.written)) ≠ [] := by
      intro e
      have h1 : (stripF o (joinTab (fs.map Field.written))).head? = (lstrip (uq o f0.written)).head? := by
        rw [hstrip, head?_strip, hvcons, lstrip_joinTab _ _ h0, head?_joinTab _ _ (lstrip_ne_nil_of_nonws _ h0)]
      rw [e] at h1
      cases hl : lstrip (uq o f0.written) with
      | nil => exact lstrip_ne_nil_of_nonws _ h0 hl
      | cons c r => rw [hl] at h1; cases h1
    refine ⟨hne, (fun hsup => by cases hsup), (by rw [hhead]; exact hhash), ?_⟩
    rw [hline, splitOnC_joinTab _ (mapLast_ne_nil _ _ (by rw [hvcons]; simp [mapHead])) (fun x hx => (hQ x hx).1)]
    have hcongr : (mapLast rstrip (mapHead lstrip (fs.map (fun f => uq o f.written)))).map (stripF o) =
        (mapLast rstrip (mapHead lstrip (fs.map (fun f => uq o f.written)))).map strip := by
      apply List.map_congr_left
      intro x hx
      rw [stripF_eq, hs, if_neg (by simp), uq_of_QF o x (hQ x hx).2]
    rw [hcongr, map_mapLast rstrip strip _ strip_rstrip, map_mapHead lstrip strip _ strip_lstrip, List.map_map]
    apply List.map_congr_left
    intro f hf
    have := hexp f hf
    rw [stripF_eq, hs, if_neg (by simp), uq_idem] at this
    exact this


/-! the whole loop over a file of the grammar -/

theorem stepLine_row (o : Opts) (st : PState) (fs : List Field) (h : rowOk o fs = true) :
    stepLine o st (GLine.row fs).render =
      { st with rows := st.rows ++ [rowVals o st.header.length fs] } := by
  obtain ⟨h1, h2, h3, h4⟩ := row_fields o fs h
  simp only [GLine.render]
  rw [stepLine_data o st _ h1 h2 h3, h4]
  rfl

theorem stepLine_comment (o : Opts) (st : PState) (raw : Str) (h : (GLine.comment raw).ok o = true)
    (hh : st.header ≠ []) : stepLine o st (GLine.comment raw).render = st := by
  simp only [GLine.ok, beq_iff_eq] at h
  cases hl : stripF o raw with
  | nil => rw [hl] at h; cases h
  | cons c rest =>
    rw [hl] at h
    simp only [List.head?_cons, Option.some.injEq] at h
    subst h
    simp only [GLine.render]
    rw [stepLine_hash o st raw rest hl]
    have : st.header.isEmpty = false := by
      cases hs : st.header with
      | nil => exact absurd hs hh
      | cons _ _ => rfl
    simp [this]

theorem stepLine_blankLine (o : Opts) (st : PState) (raw : Str) (h : (GLine.blank raw).ok o = true) :
    stepLine o st (GLine.blank raw).render = st := by
  simp only [GLine.ok, List.isEmpty_iff] at h
  exact stepLine_blank o st raw h

theorem hdrOk_spec (names : List Str) (trail : Str) (h : hdrOk names trail = true) :
    names ≠ [] ∧ (∀ n ∈ names, '\t' ∉ n ∧ '"' ∉ n) ∧ trail.all isWs = true ∧
    (∀ c, (joinTab names).head? = some c → isWs c = false) ∧
    (∀ c, (joinTab names).getLast? = some c → isWs c = false) := by
  simp only [hdrOk, Bool.and_eq_true, List.all_eq_true] at h
  obtain ⟨⟨⟨hn, hh⟩, hl⟩, ht⟩ := h
  cases names with
  | nil => simp at hh
  | cons n0 r =>
    refine ⟨by simp, fun n hn' => noneOf_spec n (hn n hn'), by simpa [List.all_eq_true] using ht, ?_, ?_⟩
    · intro c hc
      simp only [List.head?_cons] at hh
      cases hn0 : n0 with
      | nil => rw [hn0] at hh; simp at hh
      | cons c0 cs =>
        rw [head?_joinTab _ _ (by rw [hn0]; simp), hn0] at hc
        rw [hn0] at hh
        simp only [List.head?_cons, Option.some.injEq] at hc hh
        rw [← hc]; simpa using hh
    · intro c hc
      cases hg : (n0 :: r).getLast? with
      | none => simp at hg
      | some z =>
        simp only [hg] at hl
        cases hz : z.getLast? with
        | none => simp only [hz] at hl; cases hl
        | some cz =>
          simp only [hz] at hl
          have hzne : z ≠ [] := by intro e; rw [e] at hz; simp at hz
          rw [getLast?_joinTab _ z hg hzne, hz] at hc
          simp only [Option.some.injEq] at hc
          rw [← hc]; simpa using hl

theorem stepLine_header (o : Opts) (st : PState) (names : List Str) (trail : Str)
    (h : hdrOk names trail = true) (hst : st.header = []) :
    stepLine o st (GLine.header names trail).render = { st with header := names } := by
  obtain ⟨hne, hnames, htrail, hhead, hlast⟩ := hdrOk_spec names trail h
  have htabs : ∀ n ∈ names, '\t' ∉ n := fun n hn => (hnames n hn).1
  have hJq : '"' ∉ joinTab names := by
    have : ∀ (l : List Str), (∀ n ∈ l, '"' ∉ n) → '"' ∉ joinTab l := by
      intro l
      induction l with
      | nil => intro _; simp [joinTab]
      | cons a r ih =>
        intro hl
        cases r with
        | nil => simpa [joinTab] using hl a (by simp)
        | cons b r' =>
          simp only [joinTab, List.mem_append, List.mem_cons, not_or]
          refine ⟨hl a (by simp), by decide, ih (fun n hn => hl n (List.mem_cons_of_mem _ hn))⟩
    exact this names (fun n hn => (hnames n hn).2)
  have htq : '"' ∉ trail := by
    intro hm
    have := List.all_eq_true.mp htrail _ hm
    rw [isWs_quote] at this; cases this
  have hraw : uq o ('#' :: (joinTab names ++ trail)) = '#' :: (joinTab names ++ trail) := by
    apply uq_of_QF
    intro _ hm
    simp only [List.mem_cons, List.mem_append] at hm
    rcases hm with hm | hm | hm
    · cases hm
    · exact hJq hm
    · exact htq hm
  have hstripJ : strip (joinTab names ++ trail) = joinTab names := by
    have := strip_decorated [] (joinTab names) trail rfl htrail hhead hlast
    simpa using this
  have hstripJ' : strip (joinTab names) = joinTab names := by
    have := strip_decorated [] (joinTab names) [] rfl rfl hhead hlast
    simpa using this
  simp only [GLine.render]
  cases hs : o.suppress with
  | true =>
    have hl : stripF o ('#' :: (joinTab names ++ trail)) = '#' :: (joinTab names ++ trail) := by
      rw [stripF_eq, hs, if_pos rfl, hraw]
    rw [stepLine_hash o st _ _ hl, hst, hstripJ, splitOnC_joinTab names hne htabs]
    rfl
  | false =>
    have hl : stripF o ('#' :: (joinTab names ++ trail)) = '#' :: joinTab names := by
      rw [stripF_eq, hs, if_neg (by simp), hraw]
      unfold strip
      rw [lstrip_cons_nonws _ _ isWs_hash, rstrip_cons_nonws _ _ isWs_hash, rstrip_append_allWs _ _ htrail]
      have : rstrip (joinTab names) = joinTab names := by
        have := hstripJ'
        unfold strip at this
        cases hj : joinTab names with
        | nil => rfl
        | cons c r =>
          have hc := hhead c (by rw [hj]; rfl)
          rw [hj, lstrip_cons_nonws c r hc] at this
          exact this
      rw [this]
    rw [stepLine_hash o st _ _ hl, hst, hstripJ', splitOnC_joinTab names hne htabs]
    rfl

theorem fileRows_cons_comment (raw : Str) (r : List GLine) : fileRows (GLine.comment raw :: r) = fileRows r := rfl
theorem fileRows_cons_blank (raw : Str) (r : List GLine) : fileRows (GLine.blank raw :: r) = fileRows r := rfl
theorem fileRows_cons_header (n : List Str) (t : Str) (r : List GLine) : fileRows (GLine.header n t :: r) = fileRows r := rfl
theorem fileRows_cons_row (fs : List Field) (r : List GLine) : fileRows (GLine.row fs :: r) = fs :: fileRows r := rfl

theorem foldl_blanks (o : Opts) (st : PState) (pre : List GLine) (hb : ∀ l ∈ pre, isBlankLine l = true)
    (hok : ∀ l ∈ pre, l.ok o = true) : (pre.map GLine.render).foldl (stepLine o) st = st := by
  induction pre with
  | nil => rfl
  | cons l r ih =>
    simp only [List.map_cons, List.foldl_cons]
    cases l with
    | blank raw =>
      rw [stepLine_blankLine o st raw (hok _ (by simp))]
      exact ih (fun l hl => hb l (List.mem_cons_of_mem _ hl)) (fun l hl => hok l (List.mem_cons_of_mem _ hl))
    | header _ _ => have := hb _ (List.mem_cons_self); simp [isBlankLine] at this
    | comment _ => have := hb _ (List.mem_cons_self); simp [isBlankLine] at this
    | row _ => have := hb _ (List.mem_cons_self); simp [isBlankLine] at this

/-- once the header is known, comments and blanks are skipped and every data line adds its row -/
theorem foldl_body (o : Opts) (H : List Str) (hH : H ≠ []) (body : List GLine) (R : List (List Str))
    (hok : ∀ l ∈ body, l.ok o = true) (hnh : ∀ l ∈ body, l.isHeader = false) :
    (body.map GLine.render).foldl (stepLine o) { header := H, rows := R } =
      { header := H, rows := R ++ (fileRows body).map (rowVals o H.length) } := by
  induction body generalizing R with
  | nil => simp [fileRows]
  | cons l r ih =>
    have hr1 := fun l' hl' => hok l' (List.mem_cons_of_mem _ hl')
    have hr2 := fun l' hl' => hnh l' (List.mem_cons_of_mem _ hl')
    simp only [List.map_cons, List.foldl_cons]
    cases l with
    | header n t => have := hnh _ (List.mem_cons_self); simp [GLine.isHeader] at this
    | comment raw =>
      rw [stepLine_comment o _ raw (hok _ (by simp)) hH, ih R hr1 hr2, fileRows_cons_comment]
    | blank raw =>
      rw [stepLine_blankLine o _ raw (hok _ (by simp)), ih R hr1 hr2, fileRows_cons_blank]
    | row fs =>
      have hrow : rowOk o fs = true := by simpa [GLine.ok] using hok _ (List.mem_cons_self)
      rw [stepLine_row o _ fs hrow, ih _ hr1 hr2, fileRows_cons_row]
      simp

theorem mem_takeWhile_p {α : Type} (p : α → Bool) (l : List α) (x : α) (h : x ∈ l.takeWhile p) : p x = true := by
  induction l with
  | nil => simp at h
  | cons a r ih =>
    simp only [List.takeWhile_cons] at h
    split at h
    · rcases List.mem_cons.mp h with h1 | h1
      · rw [h1]; assumption
      · exact ih h1
    · cases h

theorem fileOk_spec (o : Opts) (hdr0 : List Str) (f : List GLine) (h : fileOk o hdr0 f = true) :
    (∀ l ∈ f, l.ok o = true) ∧
    ((hdr0 ≠ [] ∧ ∀ l ∈ f, l.isHeader = false) ∨
     (hdr0 = [] ∧ ∃ pre names trail rest, f = pre ++ GLine.header names trail :: rest ∧
        (∀ l ∈ pre, isBlankLine l = true) ∧ (∀ l ∈ rest, l.isHeader = false))) := by
  simp only [fileOk, Bool.and_eq_true, List.all_eq_true] at h
  refine ⟨h.1, ?_⟩
  cases hdr0 with
  | cons a r =>
    left
    refine ⟨by simp, ?_⟩
    have := h.2
    simp only [List.isEmpty_cons, Bool.false_eq_true, if_false, List.all_eq_true, Bool.not_eq_true'] at this
    exact this
  | nil =>
    right
    refine ⟨rfl, ?_⟩
    have h2 := h.2
    simp only [List.isEmpty_nil, if_true] at h2
    have hsplit := List.takeWhile_append_dropWhile (p := isBlankLine) (l := f)
    cases hd : f.dropWhile isBlankLine with
    | nil => rw [hd] at h2; simp at h2
    | cons l rest =>
      rw [hd] at h2 hsplit
      cases l with
      | header names trail =>
        refine ⟨_, names, trail, rest, hsplit.symm, ?_, ?_⟩
        · intro l hl
          exact mem_takeWhile_p _ _ _ hl
        · simpa [List.all_eq_true] using h2
      | comment _ => simp at h2
      | blank _ => simp at h2
      | row _ => simp at h2

theorem fileRows_append (a b : List GLine) : fileRows (a ++ b) = fileRows a ++ fileRows b := by
  simp [fileRows]

theorem fileRows_blanks (pre : List GLine) (hb : ∀ l ∈ pre, isBlankLine l = true) : fileRows pre = [] := by
  induction pre with
  | nil => rfl
  | cons l r ih =>
    have := hb l (by simp)
    cases l <;> simp_all [isBlankLine, fileRows, GLine.rowFields]

theorem find_header (pre : List GLine) (names : List Str) (trail : Str) (rest : List GLine)
    (hb : ∀ l ∈ pre, isBlankLine l = true) :
    (pre ++ GLine.header names trail :: rest).find? GLine.isHeader = some (GLine.header names trail) := by
  induction pre with
  | nil => simp [GLine.isHeader]
  | cons l r ih =>
    have := hb l (by simp)
    cases l <;> simp_all [isBlankLine, GLine.isHeader]

/-- the state of the loop after a whole file of the grammar -/
theorem foldl_file (o : Opts) (hdr0 : List Str) (f : List GLine) (h : fileOk o hdr0 f = true) :
    (f.map GLine.render).foldl (stepLine o) { header := hdr0, rows := [] } =
      { header := fileHeader hdr0 f, rows := (fileRows f).map (rowVals o (fileHeader hdr0 f).length) } ∧
    fileHeader hdr0 f ≠ [] := by
  obtain ⟨hok, hcase⟩ := fileOk_spec o hdr0 f h
  rcases hcase with ⟨hne, hnh⟩ | ⟨he, pre, names, trail, rest, hf, hpre, hrest⟩
  · have hH : fileHeader hdr0 f = hdr0 := by
      unfold fileHeader
      cases hdr0 with
      | nil => exact absurd rfl hne
      | cons _ _ => rfl
    rw [hH]
    refine ⟨?_, hne⟩
    have := foldl_body o hdr0 hne f [] hok hnh
    simpa using this
  · subst he
    have hH : fileHeader [] f = names := by
      unfold fileHeader
      simp only [List.isEmpty_nil, if_true]
      rw [hf, find_header pre names trail rest hpre]
    have hhok : hdrOk names trail = true := by
      have := hok (GLine.header names trail) (by rw [hf]; simp)
      simpa [GLine.ok] using this
    have hnne : names ≠ [] := (hdrOk_spec names trail hhok).1
    rw [hH]
    refine ⟨?_, hnne⟩
    rw [hf, List.map_append, List.foldl_append, List.map_cons, List.foldl_cons]
    rw [foldl_blanks o _ pre hpre (fun l hl => hok l (by rw [hf]; simp [hl]))]
    rw [stepLine_header o _ names trail hhok rfl]
    have := foldl_body o names hnne rest [] (fun l hl => hok l (by rw [hf]; simp [hl])) hrest
    rw [this]
    simp [fileRows_append, fileRows_blanks pre hpre, fileRows_cons_header]

end Chars

/-! ### lookups in a parsed row -/

theorem dget_zip_map {β γ : Type} (g : Str → γ → β) (ks : List Str) (vs : List γ) (hn : ks.Nodup)
    (i : Nat) (hi : i < ks.length) :
    dget ((ks.zip vs).map (fun kv => (kv.1, g kv.1 kv.2))) ks[i] = (vs[i]?).map (g ks[i]) := by
  induction ks generalizing vs i with
  | nil => simp at hi
  | cons k r ih =>
    simp only [List.nodup_cons] at hn
    cases vs with
    | nil => simp [dget]
    | cons v vr =>
      cases i with
      | zero => simp [dget]
      | succ j =>
        have hj : j < r.length := by simpa using hi
        have hne : ¬ k = r[j] := fun e => hn.1 (e ▸ List.getElem_mem hj)
        simp only [List.zip_cons_cons, List.map_cons, dget, List.getElem_cons_succ, hne, if_false,
          List.getElem?_cons_succ]
        exact ih vr hn.2 j hj

theorem dkeys_zip_map {β γ : Type} (g : Str → γ → β) (ks : List Str) (vs : List γ) :
    (dkeys ((ks.zip vs).map (fun kv => (kv.1, g kv.1 kv.2)))).Sublist ks := by
  induction ks generalizing vs with
  | nil => simp [dkeys]
  | cons k r ih =>
    cases vs with
    | nil => simp [dkeys]
    | cons v vr =>
      simp only [List.zip_cons_cons, List.map_cons, dkeys] at ih ⊢
      exact List.Sublist.cons₂ _ (ih vr)

theorem getD_pad (n : Nat) (l : List Str) (j : Nat) : ((pad n l)[j]?).getD [] = (l[j]?).getD [] := by
  unfold pad
  by_cases h : j < l.length
  · rw [List.getElem?_append_left h]
  · rw [List.getElem?_append_right (by omega)]
    have : l[j]? = none := List.getElem?_eq_none (by omega)
    rw [this]
    by_cases h2 : j - l.length < n - l.length
    · simp [List.getElem?_replicate, h2]
    · simp [List.getElem?_replicate, h2]

theorem headD_pad (n : Nat) (l : List Str) : (pad n l).headD [] = l.headD [] := by
  cases l with
  | nil => unfold pad; cases n <;> simp [List.replicate]
  | cons a r => rfl

theorem dget_entryOf {β : Type} (conv : Str → Str → β) (H v : List Str) (hn : H.tail.Nodup)
    (i : Nat) (hi : i < H.tail.length) :
    dget (entryOf conv H v) H.tail[i] = (v.tail[i]?).map (conv H.tail[i]) := by
  unfold entryOf mkDict
  rw [dget_dictUpdate_nodup _ _ _ ((dkeys_zip_map conv H.tail v.tail).nodup hn), dget_zip_map conv _ _ hn i hi]
  cases (v.tail[i]?).map (conv H.tail[i]) <;> rfl


/-! ### rows ending in empty fields -/

/-- trailing all-blank fields dropped (what the line-level strip does to a tab-joined line) -/
def dtb : List Str → List Str
  | [] => []
  | x :: r =>
    let r' := dtb r
    if r'.isEmpty && x.all isWs then [] else x :: r'

theorem allWs_of_not_hasNonWs (a : Str) (h : ¬ hasNonWs a = true) : a.all isWs = true := by
  apply (allWs_iff_not_hasNonWs a).mpr
  cases hn : hasNonWs a with
  | true => exact absurd hn h
  | false => rfl

theorem not_allWs_of_hasNonWs (a : Str) (h : hasNonWs a = true) : a.all isWs = false := by
  cases hh : a.all isWs with
  | false => rfl
  | true => rw [(allWs_iff_not_hasNonWs a).mp hh] at h; cases h

theorem dtb_cons_nonws (a : Str) (r : List Str) (h : hasNonWs a = true) : dtb (a :: r) = a :: dtb r := by
  simp [dtb, not_allWs_of_hasNonWs a h]

theorem dtb_cons_of_ne_nil (x : Str) (xs : List Str) (h : dtb xs ≠ []) : dtb (x :: xs) = x :: dtb xs := by
  have : (dtb xs).isEmpty = false := by
    cases hd : dtb xs with
    | nil => exact absurd hd h
    | cons _ _ => rfl
  simp [dtb, this]

theorem allWs_joinTab_of_dtb_nil (l : List Str) (h : dtb l = []) : (joinTab l).all isWs = true := by
  induction l with
  | nil => rfl
  | cons x xs ih =>
    simp only [dtb] at h
    split at h
    · rename_i hc
      simp only [Bool.and_eq_true, List.isEmpty_iff] at hc
      cases xs with
      | nil => simpa [joinTab] using hc.2
      | cons y ys =>
        simp only [joinTab, List.all_append, List.all_cons, Bool.and_eq_true]
        exact ⟨hc.2, isWs_tab, ih hc.1⟩
    · cases h

theorem all_strip_nil_of_dtb_nil (l : List Str) (h : dtb l = []) : l.map strip = List.replicate l.length [] := by
  induction l with
  | nil => rfl
  | cons x xs ih =>
    simp only [dtb] at h
    split at h
    · rename_i hc
      simp only [Bool.and_eq_true, List.isEmpty_iff] at hc
      simp only [List.map_cons, List.length_cons, List.replicate_succ, ih hc.1]
      have : strip x = [] := by unfold strip; rw [lstrip_allWs x hc.2]; rfl
      rw [this]
    · cases h

/-- the line is the kept fields followed by blanks only -/
theorem joinTab_dtb (l : List Str) (h : dtb l ≠ []) :
    ∃ sfx : Str, sfx.all isWs = true ∧ joinTab l = joinTab (dtb l) ++ sfx := by
  induction l with
  | nil => exact absurd rfl h
  | cons x xs ih =>
    by_cases hxs : dtb xs = []
    · have hxw : x.all isWs = false := by
        cases hh : x.all isWs with
        | false => rfl
        | true => exact absurd (by simp [dtb, hxs, hh]) h
      have hdx : dtb (x :: xs) = [x] := by simp [dtb, hxs, hxw]
      rw [hdx]
      cases xs with
      | nil => exact ⟨[], rfl, by simp [joinTab]⟩
      | cons y ys =>
        refine ⟨'\t' :: joinTab (y :: ys), ?_, by simp [joinTab]⟩
        simp only [List.all_cons, Bool.and_eq_true]
        exact ⟨isWs_tab, allWs_joinTab_of_dtb_nil _ hxs⟩
    · obtain ⟨sfx, hs, he⟩ := ih hxs
      refine ⟨sfx, hs, ?_⟩
      rw [dtb_cons_of_ne_nil x xs hxs]
      cases xs with
      | nil => simp [dtb] at hxs
      | cons y ys =>
        cases hdy : dtb (y :: ys) with
        | nil => exact absurd hdy hxs
        | cons c cs =>
          rw [hdy] at he
          simp only [joinTab]
          rw [he]
          simp

theorem lastOk_dtb (l : List Str) (h : dtb l ≠ []) : lastOk (dtb l) = true := by
  induction l with
  | nil => exact absurd rfl h
  | cons x xs ih =>
    by_cases hxs : dtb xs = []
    · have hxw : x.all isWs = false := by
        cases hh : x.all isWs with
        | false => rfl
        | true => exact absurd (by simp [dtb, hxs, hh]) h
      have hdx : dtb (x :: xs) = [x] := by simp [dtb, hxs, hxw]
      rw [hdx]
      simp only [lastOk]
      cases hn : hasNonWs x with
      | true => rfl
      | false => rw [(allWs_iff_not_hasNonWs x).mpr hn] at hxw; cases hxw
    · rw [dtb_cons_of_ne_nil x xs hxs]
      cases hd : dtb xs with
      | nil => exact absurd hd hxs
      | cons c cs =>
        simp only [lastOk]
        rw [← hd]; exact ih hxs

theorem mem_dtb (l : List Str) (x : Str) (h : x ∈ dtb l) : x ∈ l := by
  induction l with
  | nil => simp [dtb] at h
  | cons a r ih =>
    simp only [dtb] at h
    split at h
    · cases h
    · rcases List.mem_cons.mp h with h1 | h1
      · simp [h1]
      · exact List.mem_cons_of_mem _ (ih h1)

theorem length_dtb_le (l : List Str) : (dtb l).length ≤ l.length := by
  induction l with
  | nil => simp [dtb]
  | cons a r ih =>
    simp only [dtb]
    split
    · simp
    · simp; exact ih

/-- stripping every field: the dropped fields are the empty text -/
theorem map_strip_dtb (l : List Str) :
    l.map strip = (dtb l).map strip ++ List.replicate (l.length - (dtb l).length) [] := by
  induction l with
  | nil => simp [dtb]
  | cons x xs ih =>
    by_cases hxs : dtb xs = []
    · by_cases hxw : x.all isWs = true
      · have hd : dtb (x :: xs) = [] := by simp [dtb, hxs, hxw]
        rw [hd]
        simpa using all_strip_nil_of_dtb_nil (x :: xs) hd
      · have hdx : dtb (x :: xs) = [x] := by simp [dtb, hxs, hxw]
        rw [hdx]
        simp only [List.map_cons, List.map_nil, List.length_cons, List.length_nil, List.cons_append, List.nil_append]
        rw [all_strip_nil_of_dtb_nil xs hxs]
        simp
    · rw [dtb_cons_of_ne_nil x xs hxs]
      simp only [List.map_cons, List.length_cons, List.cons_append]
      have hlen : xs.length + 1 - ((dtb xs).length + 1) = xs.length - (dtb xs).length := by omega
      rw [hlen, ← ih]

theorem strip_append_allWs_of_nonws (J sfx : Str) (hJ : hasNonWs J = true) (hs : sfx.all isWs = true) :
    strip (J ++ sfx) = strip J := by
  unfold strip
  rw [lstrip_append_of_nonws J sfx hJ, rstrip_append_allWs _ _ hs]

/-- the fields of a stripped line, when the first field is not blank: the kept fields, stripped -/
theorem fields_of_stripped_line (o : Opts) (hs : o.suppress = false) (a : Str) (rest : List Str)
    (ha : hasNonWs a = true) (hq : ∀ v ∈ a :: rest, '\t' ∉ v ∧ QF o v) :
    (splitOnC '\t' (strip (joinTab (a :: rest)))).map (stripF o) = (dtb (a :: rest)).map strip ∧
    (strip (joinTab (a :: rest))).head? = (lstrip a).head? := by
  have hd : dtb (a :: rest) = a :: dtb rest := dtb_cons_nonws a rest ha
  have hne : dtb (a :: rest) ≠ [] := by rw [hd]; simp
  obtain ⟨sfx, hsfx, hj⟩ := joinTab_dtb (a :: rest) hne
  have hlk := lastOk_dtb (a :: rest) hne
  have hJ : hasNonWs (joinTab (dtb (a :: rest))) = true := hasNonWs_joinTab_of_lastOk _ hlk
  have hline : strip (joinTab (a :: rest)) = joinTab (mapLast rstrip (mapHead lstrip (a :: dtb rest))) := by
    rw [hj, strip_append_allWs_of_nonws _ _ hJ hsfx, hd]
    exact strip_joinTab a (dtb rest) ha (by rw [← hd]; exact hlk)
  have hQ : ∀ x ∈ mapLast rstrip (mapHead lstrip (a :: dtb rest)), '\t' ∉ x ∧ QF o x := by
    intro x hx
    obtain ⟨y, hy, hxy⟩ := mem_mapLast _ _ _ hx
    obtain ⟨z, hz, hyz⟩ := mem_mapHead _ _ _ hy
    have hzQ : '\t' ∉ z ∧ QF o z := hq z (mem_dtb _ _ (by rw [hd]; exact hz))
    have hyQ : '\t' ∉ y ∧ QF o y := by
      rcases hyz with e | e
      · rw [e]; exact hzQ
      · rw [e]; exact ⟨fun hm => hzQ.1 (mem_lstrip _ _ hm), fun hq hm => hzQ.2 hq (mem_lstrip _ _ hm)⟩
    rcases hxy with e | e
    · rw [e]; exact hyQ
    · rw [e]; exact ⟨fun hm => hyQ.1 (mem_rstrip _ _ hm), fun hq hm => hyQ.2 hq (mem_rstrip _ _ hm)⟩
  constructor
  · rw [hline, splitOnC_joinTab _ (mapLast_ne_nil _ _ (by simp [mapHead])) (fun x hx => (hQ x hx).1)]
    have hcongr : (mapLast rstrip (mapHead lstrip (a :: dtb rest))).map (stripF o) =
        (mapLast rstrip (mapHead lstrip (a :: dtb rest))).map strip := by
      apply List.map_congr_left
      intro x hx
      rw [stripF_eq, hs, if_neg (by simp), uq_of_QF o x (hQ x hx).2]
    rw [hcongr, map_mapLast rstrip strip _ strip_rstrip, map_mapHead lstrip strip _ strip_lstrip, hd]
  · rw [hj, strip_append_allWs_of_nonws _ _ hJ hsfx, head?_strip, hd, lstrip_joinTab _ _ ha,
      head?_joinTab _ _ (lstrip_ne_nil_of_nonws _ ha)]

/-- only the first `n` values of a padded row matter, and those do not see trailing empty fields -/
theorem take_pad (n : Nat) (X : List Str) : (pad n X).take n = (List.range n).map (fun j => (X[j]?).getD []) := by
  apply List.ext_getElem?
  intro j
  by_cases hj : j < n
  · have hl : n ≤ (pad n X).length := by unfold pad; simp; omega
    rw [List.getElem?_take_of_lt hj, List.getElem?_map, List.getElem?_range hj]
    simp only [Option.map_some]
    have hjl : j < (pad n X).length := by omega
    rw [List.getElem?_eq_getElem hjl]
    have := getD_pad n X j
    rw [List.getElem?_eq_getElem hjl] at this
    simpa using this
  · rw [List.getElem?_eq_none (by simp; omega), List.getElem?_eq_none (by simp; omega)]

theorem getD_append_replicate_nil (A : List Str) (k j : Nat) :
    ((A ++ List.replicate k ([] : Str))[j]?).getD [] = (A[j]?).getD [] := by
  by_cases h : j < A.length
  · rw [List.getElem?_append_left h]
  · rw [List.getElem?_append_right (by omega), List.getElem?_eq_none (by omega : A.length ≤ j)]
    by_cases h2 : j - A.length < k
    · simp [List.getElem?_replicate, h2]
    · simp [List.getElem?_replicate, h2]

theorem take_pad_append_replicate (n k : Nat) (A : List Str) :
    (pad n (A ++ List.replicate k [])).take n = (pad n A).take n := by
  rw [take_pad, take_pad]
  apply List.map_congr_left
  intro j _
  exact getD_append_replicate_nil A k j


theorem zip_take_right {β γ : Type} (l1 : List β) (l2 : List γ) : l1.zip l2 = l1.zip (l2.take l1.length) := by
  induction l1 generalizing l2 with
  | nil => simp
  | cons a r ih =>
    cases l2 with
    | nil => simp
    | cons b s => simp only [List.zip_cons_cons, List.length_cons, List.take_succ_cons]; rw [ih]

theorem tail_take_succ {β : Type} (a : List β) (n : Nat) : (a.take (n + 1)).tail = a.tail.take n := by
  cases a <;> simp

theorem entryOf_congr_take {β : Type} (conv : Str → Str → β) (H a b : List Str)
    (h : a.take H.length = b.take H.length) : entryOf conv H a = entryOf conv H b := by
  unfold entryOf
  cases H with
  | nil => simp
  | cons h0 ht =>
    simp only [List.tail_cons, List.length_cons] at h ⊢
    rw [zip_take_right ht a.tail, zip_take_right ht b.tail, ← tail_take_succ, ← tail_take_succ, h]

theorem headD_congr_take (n : Nat) (hn : 0 < n) (a b : List Str) (h : a.take n = b.take n) :
    a.headD [] = b.headD [] := by
  cases n with
  | zero => omega
  | succ m =>
    cases a <;> cases b <;> simp_all

/-- the row the loop stores for a data line: exactly `rowVals` when blanks are kept, otherwise the
    kept fields (trailing blank ones removed by the line-level strip) padded -/
def parsedRow (o : Opts) (n : Nat) (fs : List Field) : List Str :=
  if o.suppress then rowVals o n fs
  else pad n ((dtb (fs.map (fun f => uq o f.written))).map strip)

theorem rowOkWide_spec (o : Opts) (fs : List Field) (h : rowOkWide o fs = true) :
    ∃ f0 rest, fs = f0 :: rest ∧ (∀ f ∈ fs, f.ok = true) ∧ f0.clean ≠ [] ∧ (f0.expect o).head? ≠ some '#' := by
  simp only [rowOkWide, Bool.and_eq_true, List.all_eq_true] at h
  obtain ⟨hall, hhead⟩ := h
  cases fs with
  | nil => simp at hhead
  | cons f0 rest =>
    refine ⟨f0, rest, rfl, hall, ?_, ?_⟩
    · simp only [List.head?_cons, Bool.and_eq_true, Bool.not_eq_true', List.isEmpty_eq_false_iff] at hhead
      exact hhead.1
    · simp only [List.head?_cons, Bool.and_eq_true, bne_iff_ne, ne_eq] at hhead
      exact hhead.2

theorem rowOk_of_wide_suppress (o : Opts) (fs : List Field) (h : rowOkWide o fs = true) (hs : o.suppress = true) :
    rowOk o fs = true := by
  simp only [rowOkWide, Bool.and_eq_true] at h
  simp only [rowOk, Bool.and_eq_true, h.1, h.2, hs, Bool.true_or, and_self]

theorem row_fields_wide (o : Opts) (fs : List Field) (h : rowOkWide o fs = true) :
    stripF o (joinTab (fs.map Field.written)) ≠ [] ∧
    (o.suppress = true → strip (stripF o (joinTab (fs.map Field.written))) ≠ []) ∧
    (stripF o (joinTab (fs.map Field.written))).head? ≠ some '#' ∧
    ∀ n, pad n ((splitOnC '\t' (stripF o (joinTab (fs.map Field.written)))).map (stripF o)) = parsedRow o n fs := by
  cases hs : o.suppress with
  | true =>
    obtain ⟨h1, h2, h3, h4⟩ := row_fields o fs (rowOk_of_wide_suppress o fs h hs)
    refine ⟨h1, fun _ => h2 hs, h3, ?_⟩
    intro n
    rw [h4]
    simp [parsedRow, hs, rowVals]
  | false =>
    obtain ⟨f0, rest, hfs, hall, hc0, hhash⟩ := rowOkWide_spec o fs h
    have hvs : uq o (joinTab (fs.map Field.written)) = joinTab (fs.map (fun f => uq o f.written)) := by
      rw [uq_joinTab, List.map_map]; rfl
    have hq : ∀ v ∈ fs.map (fun f => uq o f.written), '\t' ∉ v ∧ QF o v := by
      intro v hv
      obtain ⟨f, hf, rfl⟩ := List.mem_map.mp hv
      exact ⟨fun hm => tab_not_mem_written f (hall f hf) (mem_uq o _ _ hm), QF_uq o _⟩
    have h0 : hasNonWs (uq o f0.written) = true := hasNonWs_uq_written o f0 (hall f0 (by simp [hfs])) hc0
    have hvcons : fs.map (fun f => uq o f.written) = uq o f0.written :: rest.map (fun f => uq o f.written) := by
      rw [hfs]; rfl
    have hstrip : stripF o (joinTab (fs.map Field.written)) = strip (joinTab (fs.map (fun f => uq o f.written))) := by
      rw [stripF_eq, hs, if_neg (by simp), hvs]
    obtain ⟨hfields, hhd⟩ := fields_of_stripped_line o hs (uq o f0.written) (rest.map (fun f => uq o f.written)) h0
      (by rw [← hvcons]; exact hq)
    rw [← hvcons] at hfields hhd
    have hexp0 : stripF o (uq o f0.written) = f0.expect o := by
      rw [stripF_eq, uq_idem, ← stripF_eq]
      exact stripF_written o f0 (hall f0 (by simp [hfs]))
    have hhead : (stripF o (joinTab (fs.map Field.written))).head? = (f0.expect o).head? := by
      rw [hstrip, hhd, ← head?_strip]
      rw [stripF_eq, hs, if_neg (by simp), uq_idem] at hexp0
      rw [hexp0]
    have hne : stripF o (joinTab (fs.map Field.written)) ≠ [] := by
      intro e
      rw [hstrip] at e
      rw [e] at hhd
      cases hl : lstrip (uq o f0.written) with
      | nil => exact lstrip_ne_nil_of_nonws _ h0 hl
      | cons c r => rw [hl] at hhd; cases hhd
    refine ⟨hne, (fun hsup => by cases hsup), (by rw [hhead]; exact hhash), ?_⟩
    intro n
    rw [hstrip, hfields]
    simp [parsedRow, hs]

theorem take_parsedRow (o : Opts) (n : Nat) (fs : List Field) (h : rowOkWide o fs = true) :
    (parsedRow o n fs).take n = (rowVals o n fs).take n := by
  unfold parsedRow
  cases hs : o.suppress with
  | true => simp
  | false =>
    simp only [Bool.false_eq_true, if_false]
    obtain ⟨_, _, _, hall, _, _⟩ := rowOkWide_spec o fs h
    have hexp : fs.map (Field.expect o) = (fs.map (fun f => uq o f.written)).map strip := by
      rw [List.map_map]
      apply List.map_congr_left
      intro f hf
      have := stripF_written o f (hall f hf)
      rw [stripF_eq, hs, if_neg (by simp)] at this
      exact this.symm
    unfold rowVals
    rw [hexp, map_strip_dtb (fs.map (fun f => uq o f.written)), take_pad_append_replicate]

theorem stepLine_row_wide (o : Opts) (st : PState) (fs : List Field) (h : rowOkWide o fs = true) :
    stepLine o st (GLine.row fs).render =
      { st with rows := st.rows ++ [parsedRow o st.header.length fs] } := by
  obtain ⟨h1, h2, h3, h4⟩ := row_fields_wide o fs h
  simp only [GLine.render]
  rw [stepLine_data o st _ h1 h2 h3, h4]

theorem okWide_nonrow (o : Opts) (l : GLine) (h : l.okWide o = true) (hr : l.rowFields = none) : l.ok o = true := by
  cases l with
  | row fs => simp [GLine.rowFields] at hr
  | header _ _ => exact h
  | comment _ => exact h
  | blank _ => exact h

theorem foldl_body_wide (o : Opts) (H : List Str) (hH : H ≠ []) (body : List GLine) (R : List (List Str))
    (hok : ∀ l ∈ body, l.okWide o = true) (hnh : ∀ l ∈ body, l.isHeader = false) :
    (body.map GLine.render).foldl (stepLine o) { header := H, rows := R } =
      { header := H, rows := R ++ (fileRows body).map (parsedRow o H.length) } := by
  induction body generalizing R with
  | nil => simp [fileRows]
  | cons l r ih =>
    have hr1 := fun l' hl' => hok l' (List.mem_cons_of_mem _ hl')
    have hr2 := fun l' hl' => hnh l' (List.mem_cons_of_mem _ hl')
    simp only [List.map_cons, List.foldl_cons]
    cases l with
    | header n t => have := hnh _ (List.mem_cons_self); simp [GLine.isHeader] at this
    | comment raw =>
      rw [stepLine_comment o _ raw (okWide_nonrow o _ (hok _ (by simp)) rfl) hH, ih R hr1 hr2, fileRows_cons_comment]
    | blank raw =>
      rw [stepLine_blankLine o _ raw (okWide_nonrow o _ (hok _ (by simp)) rfl), ih R hr1 hr2, fileRows_cons_blank]
    | row fs =>
      have hrow : rowOkWide o fs = true := by simpa [GLine.okWide] using hok _ (List.mem_cons_self)
      rw [stepLine_row_wide o _ fs hrow, ih _ hr1 hr2, fileRows_cons_row]
      simp

theorem fileOkWide_spec (o : Opts) (hdr0 : List Str) (f : List GLine) (h : fileOkWide o hdr0 f = true) :
    (∀ l ∈ f, l.okWide o = true) ∧
    ((hdr0 ≠ [] ∧ ∀ l ∈ f, l.isHeader = false) ∨
     (hdr0 = [] ∧ ∃ pre names trail rest, f = pre ++ GLine.header names trail :: rest ∧
        (∀ l ∈ pre, isBlankLine l = true) ∧ (∀ l ∈ rest, l.isHeader = false))) := by
  simp only [fileOkWide, Bool.and_eq_true, List.all_eq_true] at h
  refine ⟨h.1, ?_⟩
  cases hdr0 with
  | cons a r =>
    left
    refine ⟨by simp, ?_⟩
    have := h.2
    simp only [List.isEmpty_cons, Bool.false_eq_true, if_false, List.all_eq_true, Bool.not_eq_true'] at this
    exact this
  | nil =>
    right
    refine ⟨rfl, ?_⟩
    have h2 := h.2
    simp only [List.isEmpty_nil, if_true] at h2
    have hsplit := List.takeWhile_append_dropWhile (p := isBlankLine) (l := f)
    cases hd : f.dropWhile isBlankLine with
    | nil => rw [hd] at h2; simp at h2
    | cons l rest =>
      rw [hd] at h2 hsplit
      cases l with
      | header names trail =>
        refine ⟨_, names, trail, rest, hsplit.symm, ?_, ?_⟩
        · intro l hl
          exact mem_takeWhile_p _ _ _ hl
        · simpa [List.all_eq_true] using h2
      | comment _ => simp at h2
      | blank _ => simp at h2
      | row _ => simp at h2

theorem blank_ok_of_wide (o : Opts) (l : GLine) (h : l.okWide o = true) (hb : isBlankLine l = true) : l.ok o = true := by
  cases l with
  | blank _ => exact h
  | header _ _ => simp [isBlankLine] at hb
  | comment _ => simp [isBlankLine] at hb
  | row _ => simp [isBlankLine] at hb

theorem foldl_file_wide (o : Opts) (hdr0 : List Str) (f : List GLine) (h : fileOkWide o hdr0 f = true) :
    (f.map GLine.render).foldl (stepLine o) { header := hdr0, rows := [] } =
      { header := fileHeader hdr0 f, rows := (fileRows f).map (parsedRow o (fileHeader hdr0 f).length) } ∧
    fileHeader hdr0 f ≠ [] := by
  obtain ⟨hok, hcase⟩ := fileOkWide_spec o hdr0 f h
  rcases hcase with ⟨hne, hnh⟩ | ⟨he, pre, names, trail, rest, hf, hpre, hrest⟩
  · have hH : fileHeader hdr0 f = hdr0 := by
      unfold fileHeader
      cases hdr0 with
      | nil => exact absurd rfl hne
      | cons _ _ => rfl
    rw [hH]
    refine ⟨?_, hne⟩
    have := foldl_body_wide o hdr0 hne f [] hok hnh
    simpa using this
  · subst he
    have hH : fileHeader [] f = names := by
      unfold fileHeader
      simp only [List.isEmpty_nil, if_true]
      rw [hf, find_header pre names trail rest hpre]
    have hhok : hdrOk names trail = true := by
      have := hok (GLine.header names trail) (by rw [hf]; simp)
      simpa [GLine.okWide, GLine.ok] using this
    have hnne : names ≠ [] := (hdrOk_spec names trail hhok).1
    rw [hH]
    refine ⟨?_, hnne⟩
    rw [hf, List.map_append, List.foldl_append, List.map_cons, List.foldl_cons]
    rw [foldl_blanks o _ pre hpre (fun l hl => blank_ok_of_wide o l (hok l (by rw [hf]; simp [hl])) (hpre l hl))]
    rw [stepLine_header o _ names trail hhok rfl]
    have := foldl_body_wide o names hnne rest [] (fun l hl => hok l (by rw [hf]; simp [hl])) hrest
    rw [this]
    simp [fileRows_append, fileRows_blanks pre hpre, fileRows_cons_header]

theorem mem_fileRows_ok (o : Opts) (f : List GLine) (hok : ∀ l ∈ f, l.okWide o = true) (fs : List Field)
    (h : fs ∈ fileRows f) : rowOkWide o fs = true := by
  simp only [fileRows, List.mem_filterMap] at h
  obtain ⟨l, hl, hr⟩ := h
  cases l with
  | row fs' =>
    simp only [GLine.rowFields, Option.some.injEq] at hr
    subst hr
    simpa [GLine.okWide] using hok _ hl
  | header _ _ => simp [GLine.rowFields] at hr
  | comment _ => simp [GLine.rowFields] at hr
  | blank _ => simp [GLine.rowFields] at hr


end Biom.C18
