/-
  Lemmas for C01: `@@SLASH@@` escaping is undone, the parsers undo the formatters on the domain,
  `axis_load` of a written axis group, the matrix load.
-/
import BiomModel.C01
import BiomModel.Lemmas.C04

set_option linter.unusedSectionVars false

namespace Biom.Hdf5
open Biom Biom.C04 Biom.C01

variable {α δ : Type}

/-! ### escaping of category names -/

/-- a category name without '@' (sufficient for `unsanitize (sanitize k) = k`; a name containing
the literal text `@@SLASH@@` does not survive, see `slash_witness`) -/
def noAt (k : String) : Bool := !k.toList.contains '@'

theorem unsanGo_sanL (l : List Char) (h : '@' ∉ l) : unsanGo 0 (sanL l) = l := by
  induction l with
  | nil => rfl
  | cons c cs ih =>
    simp only [List.mem_cons, not_or] at h
    have ih' := ih h.2
    by_cases hc : c = '/'
    · subst hc
      simp [sanL, slashPat, unsanGo, List.isPrefixOf, ih']
    · have hne : ('@' == c) = false := by simpa using h.1
      simp [sanL, hc, unsanGo, slashPat, List.isPrefixOf, hne, ih']

theorem unsanitize_sanitize (k : String) (h : noAt k = true) : unsanitize (sanitize k) = k := by
  unfold unsanitize sanitize
  rw [String.toList_ofList, unsanGo_sanL _ (by simpa [noAt] using h), String.ofList_toList]

/-! ### the parsers undo the formatters -/
section parse
variable [DecidableEq α]

theorem mapM_generalParse_atoms (c : Utf8) (hc : c.RT) (col : List (MdVal α)) (h : col.all MdVal.isAtom = true) :
    ((col.filterMap (scalarCell c)).map Row.scalar).mapM (generalParse c) = .ok col := by
  induction col with
  | nil => rfl
  | cons x xs ih =>
    simp only [List.all_cons, Bool.and_eq_true] at h
    have ih' := ih h.2
    cases x <;> simp [MdVal.isAtom] at h <;>
      simp [scalarCell, List.mapM_cons, generalParse, ih', strCell, hc.rt, bind, Except.bind, pure, Except.pure]

theorem listParse_padRow (c : Utf8) (hc : c.RT) (w : Nat) (l : List String) (hne : l ≠ [])
    (hl : ∀ s ∈ l, s ≠ "") : listParse (α := α) c (.vec (padRow c w l)) = .ok (.list l) := by
  simp only [listParse]
  rw [filter_padRow c hc w l hl, mapM_cellStr c hc]
  simp [bind, Except.bind, pure, Except.pure, hne]

theorem mapM_listParse_lists (c : Utf8) (hc : c.RT) (w : Nat) (col : List (MdVal α))
    (h : col.all goodList = true) :
    ((col.map (listRow c w)).map Row.vec).mapM (listParse c) = .ok col := by
  induction col with
  | nil => rfl
  | cons x xs ih =>
    simp only [List.all_cons, Bool.and_eq_true] at h
    obtain ⟨l, rfl, hne, hl⟩ := goodList_elems h.1
    simp only [List.map_cons, List.mapM_cons, listRow, listParse_padRow c hc w l hne hl, ih h.2, bind, Except.bind,
      pure, Except.pure]

/-- reading a category of the domain back gives the column that was written -/
theorem parse_fmtDs (c : Utf8) (hc : c.RT) (k : String) (col : List (MdVal α)) (hd : colDomain k col = true)
    (hg : isSpecial k = true → col.all goodList = true) :
    ∃ rows, (fmtDs c k col).data.rowsOf = some rows ∧ rows.mapM (parserFor c k) = .ok col := by
  unfold colDomain at hd
  unfold fmtDs parserFor
  by_cases hs : isSpecial k = true
  · have hgl := hg hs
    simp only [hs, if_true, taxCol_good col hgl, listDs]
    exact ⟨_, rfl, mapM_listParse_lists c hc _ col hgl⟩
  · simp only [hs, if_false, Bool.false_eq_true] at hd ⊢
    exact ⟨_, rfl, mapM_generalParse_atoms c hc col (atomDomain_atoms col hd)⟩

end parse

/-! ### `axis_load`: the metadata loop -/
section load
variable [DecidableEq α]

/-- an entry as it is read back: the categories of the first ID, in dataset order -/
def normEntry (keys : List String) (e : MdE α) : MdE α :=
  keys.map (fun k => (k, (e.lookup k).getD .none))

/-- what `axis_load` returns for the metadata of an axis of the domain -/
def normMd : Option (List (MdE α)) → Option (List (MdE α))
  | some (e0 :: es) => some ((e0 :: es).map (normEntry (keysOf e0)))
  | _ => none

theorem setKey_normEntry (done : List String) (k : String) (hk : k ∉ done) (e : MdE α) :
    setKey (normEntry done e) k ((e.lookup k).getD .none) = normEntry (done ++ [k]) e := by
  have hany : (normEntry done e).any (fun kv => kv.1 == k) = false := by
    rw [List.any_eq_false]
    intro kv hkv
    obtain ⟨k', hk', rfl⟩ := List.mem_map.mp hkv
    simp only [beq_iff_eq]
    exact fun h => hk (h ▸ hk')
  unfold setKey
  simp only [hany, Bool.false_eq_true, if_false]
  simp [normEntry]

theorem zipUpd_norm (done : List String) (k : String) (hk : k ∉ done) (M : List (MdE α)) :
    zipUpd k (M.map (normEntry done)) (colOf M k) = M.map (normEntry (done ++ [k])) := by
  induction M with
  | nil => rfl
  | cons e es ih =>
    simp only [List.map_cons, colOf, zipUpd, setKey_normEntry done k hk e] at ih ⊢
    rw [ih]

theorem loadCategory_fmtDs (c : Utf8) (hc : c.RT) (M : List (MdE α)) (done : List String) (k : String)
    (hk : k ∉ done) (hat : noAt k = true) (hd : colDomain k (colOf M k) = true)
    (hg : isSpecial k = true → (colOf M k).all goodList = true) :
    loadCategory c (M.map (normEntry done)) (sanitize k, fmtDs c k (colOf M k)) =
      .ok (M.map (normEntry (done ++ [k]))) := by
  obtain ⟨rows, hrows, hparse⟩ := parse_fmtDs c hc k _ hd hg
  simp only [loadCategory, unsanitize_sanitize k hat, hrows, hparse, bind, Except.bind, pure, Except.pure,
    zipUpd_norm done k hk M]

theorem foldlM_load (c : Utf8) (hc : c.RT) (M : List (MdE α)) (ks done : List String)
    (hnd : (done ++ ks).Nodup)
    (hat : ∀ k ∈ ks, noAt k = true ∧ (isSpecial k = true → (colOf M k).all goodList = true))
    (hd : ∀ k ∈ ks, colDomain k (colOf M k) = true) :
    (ks.map (fun k => (sanitize k, fmtDs c k (colOf M k)))).foldlM (loadCategory c) (M.map (normEntry done)) =
      .ok (M.map (normEntry (done ++ ks))) := by
  induction ks generalizing done with
  | nil => simp [pure, Except.pure]
  | cons k ks ih =>
    have hk : k ∉ done := by
      intro h
      have := List.nodup_append.mp hnd
      exact this.2.2 k h k List.mem_cons_self rfl
    rw [List.map_cons, List.foldlM_cons,
      loadCategory_fmtDs c hc M done k hk (hat k List.mem_cons_self).1 (hd k List.mem_cons_self)
        (hat k List.mem_cons_self).2]
    simp only [bind, Except.bind]
    have := ih (done ++ [k]) (by simpa [List.append_assoc] using hnd)
      (fun k' hk' => hat k' (List.mem_cons_of_mem _ hk')) (fun k' hk' => hd k' (List.mem_cons_of_mem _ hk'))
    simpa [List.append_assoc] using this

theorem replicate_norm (M : List (MdE α)) : List.replicate M.length ([] : MdE α) = M.map (normEntry []) := by
  induction M with
  | nil => rfl
  | cons e es ih => simp [List.replicate_succ, ih, normEntry]

/-- the metadata loop of `axis_load` on a written metadata group -/
theorem loadMd (c : Utf8) (hc : c.RT) (md : Option (List (MdE α))) (n : Nat)
    (hlen : ∀ m, md = some m → m.length = n) (hdom : mdDomain md = true)
    (hat : ∀ e0 es, md = some (e0 :: es) → ∀ k ∈ keysOf e0,
      noAt k = true ∧ (isSpecial k = true → (colOf (e0 :: es) k).all goodList = true)) :
    ∃ l, (mdTree c md).foldlM (loadCategory c) (List.replicate n []) = .ok l ∧
      (if l.any (fun e => !e.isEmpty) then some l else none) = normMd md := by
  match md with
  | none => exact ⟨_, rfl, by simp [normMd]⟩
  | some [] => simp [mdDomain] at hdom
  | some (e0 :: es) =>
    have hf := mdDomain_facts e0 es hdom
    have hn := hlen _ rfl
    refine ⟨(e0 :: es).map (normEntry (keysOf e0)), ?_, ?_⟩
    · rw [← hn, replicate_norm]
      have := foldlM_load c hc (e0 :: es) (keysOf e0) [] (by simpa using hf.keysNodup) (hat e0 es rfl) hf.cols
      simpa [mdTree] using this
    · have hne : keysOf e0 ≠ [] := hf.keysNe
      cases hk : keysOf e0 with
      | nil => exact absurd hk hne
      | cons k ks => simp [normMd, hk, normEntry]

end load

/-! ### `axis_load`, the matrix load, the whole reader on a written tree -/
section reader
variable [DecidableEq α]

/-- `datetime.fromisoformat(d.isoformat()) == d` -/
def DateC.RT (dc : DateC δ) : Prop := ∀ d, dc.parse (dc.iso d) = some d

/-- header fields of the domain: type and id absent or non-empty text; group metadata is a dict -/
structure HeaderOK (t : Src α) : Prop where
  typeNe : t.ttype ≠ some ""
  idNe : t.tableId ≠ some ""
  ogmdKeys : ((gmdAll t.ogmd t.ogmdBare).map (·.1)).Nodup
  sgmdKeys : ((gmdAll t.sgmd t.sgmdBare).map (·.1)).Nodup

/-- the round-trip domain of metadata, on top of `mdDomain`: category names contain no '@', and the
hierarchical categories hold lists (a flat 'a; b' text under `taxonomy` is written as its parts and
therefore comes back as a list, not as the text) -/
def rtDomain (md : Option (List (MdE α))) : Prop :=
  ∀ e0 es, md = some (e0 :: es) → ∀ k ∈ keysOf e0,
    noAt k = true ∧ (isSpecial k = true → (colOf (e0 :: es) k).all goodList = true)

def gmdLoaded (g : List (String × String × String)) : List (String × Option String) :=
  g.map (fun kv => (kv.1, some kv.2.2))

theorem mapM_idOfCell (c : Utf8) (hc : c.RT) (ids : List String) :
    (ids.map (strCell (α := α) c)).mapM (idOfCell c) = .ok ids :=
  mapM_map_ok _ _ _ (fun s => hc.rt s)

theorem mapM_map_ok2 {β γ ε : Type} (f : γ → Except Err ε) (g : β → γ) (h : β → ε) (l : List β)
    (hh : ∀ x, f (g x) = .ok (h x)) : (l.map g).mapM f = .ok (l.map h) := by
  induction l with
  | nil => rfl
  | cons x xs ih => rw [List.map_cons, List.mapM_cons, hh x, ih]; rfl

theorem mapM_loadGmd (c : Utf8) (hc : c.RT) (g : List (String × String × String)) :
    (gmdDsets (α := α) c g).mapM (loadGmd c) = .ok (gmdLoaded g) := by
  unfold gmdDsets gmdLoaded
  apply mapM_map_ok2
  intro x
  simp only [loadGmd, strCell, hc.rt, bind, Except.bind, pure, Except.pure]

theorem axisLoad_axTree (c : Utf8) (hc : c.RT) (ids : List Id) (md : Option (List (MdE α)))
    (gmd : List (String × String × String)) (cs : CS α)
    (hlen : ∀ m, md = some m → m.length = ids.length) (hdom : mdDomain md = true) (hat : rtDomain md) :
    axisLoad c (axTree c ids md gmd cs) = .ok (ids, normMd md, gmdLoaded gmd) := by
  obtain ⟨l, hl, hn⟩ := loadMd c hc md ids.length hlen hdom hat
  unfold axisLoad
  simp only [axTree, reqE, strDs, mapM_idOfCell c hc, hl, hn, mapM_loadGmd c hc, bind, Except.bind, pure, Except.pure]

theorem mapM_loadNat (l : List Nat) : (l.map (natCell (α := α))).mapM loadNat = .ok l :=
  mapM_map_ok _ _ _ (fun n => by simp [loadNat, natCell])

theorem loadView_matTree (cs : CS α) (major minor : Nat) (hM : cs.nMajor = major) (hm : cs.nMinor = minor) :
    loadView major minor (some (matTree cs)) = .ok cs := by
  subst hM hm
  simp only [loadView, reqE, matTree, mapM_cellVal, mapM_loadNat, bind, Except.bind, pure, Except.pure]

/-- what a loader must hand back for a written table (the placeholders spelled out) -/
def expected (t : Src α) (genBy : String) (d : δ) : Loaded α δ :=
  { obs := t.obs, samp := t.samp, rows := t.rows, omd := normMd t.omd, smd := normMd t.smd,
    ttype := t.ttype, tableId := idAttr t.tableId, generatedBy := genBy, createDate := .date d,
    ogmd := gmdLoaded (gmdAll t.ogmd t.ogmdBare), sgmd := gmdLoaded (gmdAll t.sgmd t.sgmdBare) }

end reader

/-! ### the clauses of `C01.holds` on the expected result -/
section clauses
variable [DecidableEq α]

theorem lookup_of_mem_nodup' {β : Type} (l : List (String × β)) (h : (l.map (·.1)).Nodup)
    (kr : String × β) (hm : kr ∈ l) : l.lookup kr.1 = some kr.2 := by
  induction l with
  | nil => cases hm
  | cons x xs ih =>
    simp only [List.map_cons, List.nodup_cons] at h
    obtain ⟨xk, xv⟩ := x
    rw [List.lookup_cons]
    rcases List.mem_cons.mp hm with rfl | hm'
    · simp
    · have hne : (kr.1 == xk) = false := by
        have : kr.1 ∈ xs.map (·.1) := List.mem_map_of_mem hm'
        have : kr.1 ≠ xk := fun e => h.1 (e ▸ this)
        simpa using this
      rw [hne]; exact ih h.2 hm'

theorem lookup_map_self {γ : Type} (g : String → γ) (keys : List String) (k : String) (hk : k ∈ keys) :
    (keys.map (fun k => (k, g k))).lookup k = some (g k) := by
  induction keys with
  | nil => cases hk
  | cons x xs ih =>
    rw [List.map_cons, List.lookup_cons]
    by_cases hx : k = x
    · subst hx; simp
    · have : (k == x) = false := by simpa using hx
      rw [this]
      rcases List.mem_cons.mp hk with h | h
      · exact absurd h hx
      · exact ih h

/-- an entry and its read-back form have the same categories with the same values -/
theorem entryEq_normEntry (keys : List String) (e : MdE α) (hnd : (keysOf e).Nodup)
    (hsub : ∀ k ∈ keysOf e, k ∈ keys) (hlen : (keysOf e).length = keys.length) :
    entryEq e (normEntry keys e) = true := by
  unfold entryEq
  simp only [Bool.and_eq_true, beq_iff_eq, List.all_eq_true]
  constructor
  · simp only [normEntry, List.length_map]
    simpa [keysOf] using hlen
  · intro kv hkv
    have hk : kv.1 ∈ keys := hsub _ (List.mem_map_of_mem (f := (·.1)) hkv)
    unfold normEntry
    rw [lookup_map_self _ keys kv.1 hk, lookup_of_mem_nodup' e hnd kv hkv]
    rfl

theorem sameKeys_sub (e e0 : MdE α) (h : sameKeys e e0 = true) : ∀ k ∈ keysOf e, k ∈ keysOf e0 := by
  simp only [sameKeys, Bool.and_eq_true, List.all_eq_true, List.contains_iff_mem] at h
  exact h.1

theorem lookupBy_map {β γ : Type} (f : β → γ) (ids : List Id) (l : List β) (id : Id) :
    lookupBy ids (l.map f) id = (lookupBy ids l id).map f := by
  induction ids generalizing l with
  | nil => cases l <;> rfl
  | cons i is ih =>
    cases l with
    | nil => rfl
    | cons x xs =>
      simp only [List.map_cons, lookupBy]
      split
      · rfl
      · exact ih xs

theorem lookupBy_mem {β : Type} (ids : List Id) (l : List β) (id : Id) (x : β)
    (h : lookupBy ids l id = some x) : x ∈ l := by
  induction ids generalizing l with
  | nil => cases l <;> simp [lookupBy] at h
  | cons i is ih =>
    cases l with
    | nil => simp [lookupBy] at h
    | cons y ys =>
      simp only [lookupBy] at h
      split at h
      · cases h; exact List.mem_cons_self
      · exact List.mem_cons_of_mem _ (ih ys h)

/-- metadata by ID: what is read back equals what was written, on every ID -/
theorem mdClause_normMd (ids : List Id) (md : Option (List (MdE α))) (hdom : mdDomain md = true) :
    mdClause ids md (normMd md) = true := by
  unfold mdClause
  rw [List.all_eq_true]
  intro id _
  match md with
  | none => simp [normMd, entryOf, entryEq]
  | some [] => simp [mdDomain] at hdom
  | some (e0 :: es) =>
    have hf := mdDomain_facts e0 es hdom
    simp only [normMd, entryOf, Option.bind_some, lookupBy_map]
    cases hl : lookupBy ids (e0 :: es) id with
    | none => simp [entryEq]
    | some e =>
      simp only [Option.map_some, Option.getD_some]
      rcases List.mem_cons.mp (lookupBy_mem _ _ _ _ hl) with rfl | he
      · exact entryEq_normEntry _ _ hf.keysNodup (fun k hk => hk) rfl
      · obtain ⟨h1, h2, h3⟩ := hf.rest e he
        exact entryEq_normEntry _ _ h1 (sameKeys_sub e e0 h2) h3

theorem gmdClause_loaded (g : List (String × String × String)) (bare : List (String × String))
    (hnd : ((gmdAll g bare).map (·.1)).Nodup) : gmdClause g bare (gmdLoaded (gmdAll g bare)) = true := by
  have hnd' : ((gmdLoaded (gmdAll g bare)).map (·.1)).Nodup := by
    unfold gmdLoaded; rw [List.map_map]; exact hnd
  unfold gmdClause
  simp only [Bool.and_eq_true, beq_iff_eq, List.all_eq_true]
  refine ⟨⟨by simp [gmdLoaded, gmdAll], ?_⟩, ?_⟩
  · intro kv hkv
    have hmem : (kv.1, some kv.2.2) ∈ gmdLoaded (gmdAll g bare) := by
      unfold gmdLoaded gmdAll
      exact List.mem_map.mpr ⟨kv, List.mem_append_left _ hkv, rfl⟩
    exact lookup_of_mem_nodup' _ hnd' _ hmem
  · intro kv hkv
    have hmem : (kv.1, some kv.2) ∈ gmdLoaded (gmdAll g bare) := by
      unfold gmdLoaded gmdAll
      exact List.mem_map.mpr ⟨(kv.1, "", kv.2), List.mem_append_right _ (List.mem_map.mpr ⟨kv, hkv, rfl⟩), rfl⟩
    exact lookup_of_mem_nodup' _ hnd' _ hmem

end clauses

end Biom.Hdf5
