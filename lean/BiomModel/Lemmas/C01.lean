/-
  Lemmas for C01: `@@SLASH@@` escaping is undone, the parsers undo the formatters on the domain,
  `axis_load` of a written axis group, the matrix load.
-/
import BiomModel.C01
import BiomModel.Lemmas.C04

set_option linter.unusedSectionVars false

namespace Biom.Hdf5
open Biom Biom.C04

variable {α δ : Type}

/-! ### escaping of category names -/

/-- a category name without '@' (sufficient for `unsanitize (sanitize k) = k`; a name containing
the literal text `@@SLASH@@` does not survive, see `slash_witness`) -/
def noAt (k : String) : Bool := !k.toList.contains '@'

theorem unsanGo_sanL (l : List Char) (h : '@' ∉ l) : unsanGo 0 (sanL l) = l := by
  induction l with
  | nil => rfl
  | cons c cs ih =>
    simp only [List.mem_cons, not_or] at h
    have ih' := ih h.2
    by_cases hc : c = '/'
    · subst hc
      simp [sanL, slashPat, unsanGo, List.isPrefixOf, ih']
    · have hne : ('@' == c) = false := by simpa using h.1
      simp [sanL, hc, unsanGo, slashPat, List.isPrefixOf, hne, ih']

theorem unsanitize_sanitize (k : String) (h : noAt k = true) : unsanitize (sanitize k) = k := by
  unfold unsanitize sanitize
  rw [String.toList_ofList, unsanGo_sanL _ (by simpa [noAt] using h), String.ofList_toList]

end Biom.Hdf5
